(* C08 — proofs about the interleaving LTS of Model/SyncLock.v: one inductive
   invariant over all interleavings, and the four statements of Properties/C08.v
   derived from it. *)
From Coq Require Import String List Bool Arith Lia.
From NRI Require Import Base.Strs Base.Assoc Model.SyncLock Spec.SyncLockSpec.
Import ListNotations.
Open Scope string_scope.
Open Scope list_scope.

(* ---------- association-list facts ---------- *)
Lemma alookup_aset_inv {V} k k' (v v' : V) l :
  alookup k (aset k' v' l) = Some v -> (k = k' /\ v = v') \/ (k <> k' /\ alookup k l = Some v).
Proof.
  destruct (String.eqb_spec k k') as [->|Hne].
  - rewrite alookup_aset_same. intros H. left. split; congruence.
  - rewrite alookup_aset_other by assumption. intros H. right. auto.
Qed.

Lemma aset_keys_present {V} k (v : V) l : alookup k l <> None -> map fst (aset k v l) = map fst l.
Proof.
  induction l as [|[k' v'] r IH]; cbn [alookup aset map fst]; intros H.
  - congruence.
  - destruct (String.eqb_spec k k') as [->|Hne]; cbn [map fst]; [reflexivity|]. f_equal. apply IH. exact H.
Qed.

Lemma aset_length_present {V} k (v : V) l : alookup k l <> None -> length (aset k v l) = length l.
Proof. intros H. rewrite <- (map_length fst), aset_keys_present by assumption. apply map_length. Qed.

Lemma aremove_notin {V} k (l : list (string * V)) : ~ In k (map fst l) -> aremove k l = l.
Proof.
  induction l as [|[k' v'] r IH]; cbn [aremove filter map fst In]; intros H; [reflexivity|].
  destruct (String.eqb_spec k k') as [->|Hne]; cbn [negb].
  - exfalso. apply H. left. reflexivity.
  - f_equal. apply IH. intros Hi. apply H. right. exact Hi.
Qed.

Lemma aremove_length {V} k (l : list (string * V)) :
  NoDup (map fst l) -> alookup k l <> None -> length (aremove k l) = pred (length l).
Proof.
  induction l as [|[k' v'] r IH]; cbn [alookup map fst]; intros Hn H; [congruence|].
  inversion Hn as [|x xs Hx Hr]; subst. unfold aremove. cbn [filter fst].
  destruct (String.eqb_spec k k') as [->|Hne]; cbn [negb length pred].
  - fold (aremove k' r). rewrite aremove_notin by assumption. reflexivity.
  - fold (aremove k r). rewrite IH by assumption.
    destruct r as [|e r']; [cbn [alookup] in H; congruence|reflexivity].
Qed.

Lemma aremove_keys_in {V} k k' (l : list (string * V)) : In k' (map fst (aremove k l)) -> In k' (map fst l) /\ k <> k'.
Proof.
  unfold aremove. rewrite in_map_iff. intros [[a b] [E Hi]]. cbn [fst] in E. subst a.
  apply filter_In in Hi. destruct Hi as [Hi Hb]. cbn [fst] in Hb. split.
  - apply in_map_iff. exists (k', b). split; [reflexivity|exact Hi].
  - destruct (String.eqb_spec k k'); [discriminate|assumption].
Qed.

Lemma aremove_keys_nodup {V} k (l : list (string * V)) : NoDup (map fst l) -> NoDup (map fst (aremove k l)).
Proof.
  induction l as [|[k' v'] r IH]; cbn [map fst]; intros Hn; [constructor|].
  inversion Hn as [|x xs Hx Hr]; subst. unfold aremove. cbn [filter fst].
  destruct (String.eqb_spec k k') as [->|Hne]; cbn [negb map fst].
  - fold (aremove k' r). apply IH. exact Hr.
  - fold (aremove k r). constructor; [|apply IH; exact Hr]. intros Hi. apply aremove_keys_in in Hi. tauto.
Qed.

Lemma alookup_Some_in {V} k (v : V) l : alookup k l = Some v -> In k (map fst l).
Proof.
  intros H. destruct (in_dec string_dec k (map fst l)) as [Hi|Hn]; [exact Hi|].
  apply alookup_None_notin in Hn. congruence.
Qed.

Lemma remove_s_In x y l : In y (remove_s x l) <-> In y l /\ x <> y.
Proof.
  unfold remove_s. rewrite filter_In. split; intros [H1 H2]; split; try assumption.
  - destruct (String.eqb_spec x y); [discriminate|assumption].
  - destruct (String.eqb_spec x y); [contradiction|reflexivity].
Qed.

Lemma remove_s_NoDup x l : NoDup l -> NoDup (remove_s x l).
Proof. intros H. unfold remove_s. apply NoDup_filter. exact H. Qed.

Lemma aset_keys_absent {V} k (v : V) l : alookup k l = None -> map fst (aset k v l) = map fst l ++ [k].
Proof.
  induction l as [|[k' v'] r IH]; cbn [alookup aset map fst app]; intros H; [reflexivity|].
  destruct (String.eqb_spec k k') as [->|Hne]; [discriminate|]. cbn [map fst]. f_equal. apply IH. exact H.
Qed.

Lemma alookup_of_In {V} k (v : V) l : NoDup (map fst l) -> In (k, v) l -> alookup k l = Some v.
Proof.
  induction l as [|[k' v'] r IH]; cbn [map fst In alookup]; intros Hn Hi; [contradiction|].
  inversion Hn as [|x xs Hx Hr]; subst. destruct Hi as [E|Hi].
  - inversion E; subst. rewrite String.eqb_refl. reflexivity.
  - destruct (String.eqb_spec k k') as [->|Hne]; [|apply IH; assumption].
    exfalso. apply Hx. apply in_map_iff. exists (k', v). auto.
Qed.

Lemma NoDup_snoc {A} (l : list A) x : NoDup l -> ~ In x l -> NoDup (l ++ [x]).
Proof.
  induction l as [|y r IH]; cbn [app]; intros Hn Hx.
  - constructor; [intros []|constructor].
  - inversion Hn as [|y' r' Hy Hr]; subst. constructor.
    + rewrite in_app_iff. intros [Hi|[->|[]]]; [contradiction|]. apply Hx. left. reflexivity.
    + apply IH; [exact Hr|]. intros Hi. apply Hx. right. exact Hi.
Qed.

Definition holder (pc : ppc) : bool :=
  match pc with PHoldW | PSnapshot _ | PActivated _ => true | _ => false end.
Definition is_active_pc (pc : ppc) : bool :=
  match pc with PActivated _ | PDone _ => true | _ => false end.
(* has been on r.plugins as a live instance at some time *)
Definition ever_active (pc : ppc) : bool :=
  match pc with PActivated _ | PDone _ | PClosed _ => true | _ => false end.
Lemma active_ever pc : is_active_pc pc = true -> ever_active pc = true.
Proof. destruct pc; cbn; congruence. Qed.
Definition inflight (gc : gpc) : option cid :=
  match gc with GDispatching c _ _ | GDispatched c _ => Some c | _ => None end.

Record Inv (s : state) : Prop := {
  i_readers : readers s = length (gors s);
  i_gnodup : NoDup (map fst (gors s));
  i_wr : writer s = true -> gors s = [];
  i_nowr : writer s = false -> forall p pc, alookup p (plugs s) = Some pc -> holder pc = false;
  i_onewr : forall p q pc qc, alookup p (plugs s) = Some pc -> alookup q (plugs s) = Some qc ->
            holder pc = true -> holder qc = true -> p = q;
  i_mu1 : forall g, mutex s = Some g -> exists c to rem, alookup g (gors s) = Some (GDispatching c to rem);
  i_mu2 : forall g c to rem, alookup g (gors s) = Some (GDispatching c to rem) -> mutex s = Some g;
  i_snapstore : forall p ids, alookup p (plugs s) = Some (PSnapshot ids) \/ alookup p (plugs s) = Some (PActivated ids) ->
            ids = store s;
  i_active : forall p, In p (active s) <-> exists pc, alookup p (plugs s) = Some pc /\ is_active_pc pc = true;
  i_anodup : NoDup (active s);
  i_snap : forall p pc c, alookup p (plugs s) = Some pc -> In c (snap_of pc) -> In c (store s) /\ ~ In (p, c) (recv s);
  i_miss : forall p pc c, In p (active s) -> alookup p (plugs s) = Some pc -> In c (store s) ->
            ~ In c (snap_of pc) -> In (p, c) (recv s);
  i_recv : forall p c, In (p, c) (recv s) ->
            (exists pc, alookup p (plugs s) = Some pc /\ ever_active pc = true) /\ In c (used s);
  i_rnodup : NoDup (recv s);
  i_used : forall c, In c (store s) -> In c (used s);
  i_ing : forall g c to rem, alookup g (gors s) = Some (GDispatching c to rem) ->
            to = active s /\ In c (used s) /\ ~ In c (store s) /\ NoDup rem /\
            (forall p, In p rem -> In p (active s) /\ ~ In (p, c) (recv s)) /\
            (forall p, In p (active s) -> In p rem \/ In (p, c) (recv s));
  i_ed : forall g c to, alookup g (gors s) = Some (GDispatched c to) ->
            incl (active s) to /\ In c (used s) /\ ~ In c (store s) /\ (forall p, In p (active s) -> In (p, c) (recv s));
  i_st : forall g c, alookup g (gors s) = Some (GStored c) -> In c (store s);
  i_uniq : forall g g' gc gc' c, alookup g (gors s) = Some gc -> alookup g' (gors s) = Some gc' ->
            inflight gc = Some c -> inflight gc' = Some c -> g = g';
  i_wrh : writer s = true -> exists p pc, alookup p (plugs s) = Some pc /\ holder pc = true;
  i_pnodup : NoDup (map fst (plugs s));
  i_zomb : forall z, In z (zombies s) -> exists ids, alookup z (plugs s) = Some (PClosed ids);
  i_stnodup : NoDup (store s);
  i_snapnd : forall p pc, alookup p (plugs s) = Some pc -> NoDup (snap_of pc)
}.

Lemma inv_init : Inv init.
Proof.
  constructor; cbn; intros; try discriminate; try contradiction; try constructor; try tauto.
  - destruct H; discriminate.
  - intros [pc [H _]]. discriminate.
Qed.


Ltac fields := cbn [readers writer mutex store active plugs gors recv used zombies set_plug set_gor set_writer set_mutex set_zombies] in *.

Ltac open_step H :=
  unfold step in H;
  repeat match type of H with
         | context [match ?x with _ => _ end] => first [is_var x; destruct x | destruct x eqn:?]; try discriminate
         end;
  inversion H; subst; clear H.

(* a holder exists -> writer is set -> no goroutine is inside a block *)
Lemma holder_no_gors s p pc : Inv s -> alookup p (plugs s) = Some pc -> holder pc = true -> gors s = [].
Proof.
  intros I Hp Hh. apply (i_wr s I). destruct (writer s) eqn:W; [reflexivity|].
  rewrite (i_nowr s I W p pc Hp) in Hh. discriminate.
Qed.

Lemma gor_no_holder s g gc p pc : Inv s -> alookup g (gors s) = Some gc -> alookup p (plugs s) = Some pc -> holder pc = false.
Proof.
  intros I Hg Hp. destruct (holder pc) eqn:Hh; [|reflexivity].
  rewrite (holder_no_gors s p pc I Hp Hh) in Hg. discriminate.
Qed.

(* ---------------- plugin steps ---------------- *)
Lemma step_inv_parrive s p s' : Inv s -> step s (APArrive p) = Some s' -> Inv s'.
Proof.
  intros I H. open_step H. destruct I as [Ireaders Ignodup Iwr Inowr Ionewr Imu1 Imu2 Isnapstore Iactive Ianodup Isnap Imiss Irecv Irnodup Iused Iing Ied Ist Iuniq Iwrh Ipnodup Izomb Istnd Isnapnd]. constructor; fields; try assumption.
  - intros W q qc Hq. apply alookup_aset_inv in Hq. destruct Hq as [[-> ->]|[Hne Hq]]; [reflexivity|eauto].
  - intros a b ac bc Ha Hb Hha Hhb. apply alookup_aset_inv in Ha. apply alookup_aset_inv in Hb.
    destruct Ha as [[-> ->]|[Hna Ha]]; [discriminate|]. destruct Hb as [[-> ->]|[Hnb Hb]]; [discriminate|]. eauto.
  - intros q ids [Hq|Hq]; apply alookup_aset_inv in Hq; destruct Hq as [[-> Hq]|[Hne Hq]]; try discriminate; eauto.
  - intros q. rewrite Iactive. split; intros [qc [Hq Ha]].
    + exists qc. split; [|exact Ha]. rewrite alookup_aset_other; [exact Hq|]. intros ->. congruence.
    + apply alookup_aset_inv in Hq. destruct Hq as [[-> ->]|[Hne Hq]]; [discriminate|eauto].
  - intros q qc c Hq Hc. apply alookup_aset_inv in Hq. destruct Hq as [[-> ->]|[Hne Hq]]; [contradiction|eauto].
  - intros q qc c Hin Hq. apply alookup_aset_inv in Hq. destruct Hq as [[-> ->]|[Hne Hq]]; [|eauto].
    apply Iactive in Hin. destruct Hin as [pc [Hp _]]. congruence.
  - intros q c Hr. destruct (Irecv q c Hr) as [[pc [Hq He]] Hu]. split; [|exact Hu]. exists pc. split; [|exact He].
    rewrite alookup_aset_other; [exact Hq|]. intros ->. congruence.
  - intros W. destruct (Iwrh W) as (q & qc & Hq & Hh). exists q, qc. split; [|exact Hh].
    rewrite alookup_aset_other; [exact Hq|]. intros ->. congruence.
  - rewrite aset_keys_absent by assumption. apply NoDup_snoc; [assumption|]. apply alookup_None_notin. assumption.
  - intros z Hz. destruct (Izomb z Hz) as [ids Hq]. exists ids.
    rewrite alookup_aset_other; [exact Hq|]. intros ->. congruence.
  - intros q qc Hq. apply alookup_aset_inv in Hq. destruct Hq as [[-> ->]|[Hne Hq]]; [constructor|eauto].
Qed.

(* generic: a plugin changes its program counter, nothing else but the writer flag changes *)
Lemma plug_move s p old new w :
  Inv s ->
  alookup p (plugs s) = Some old ->
  is_active_pc new = is_active_pc old ->
  (forall c, In c (snap_of new) -> In c (snap_of old) \/ (ever_active old = false /\ In c (store s))) ->
  (forall c, is_active_pc old = true -> In c (snap_of old) -> In c (snap_of new)) ->
  (forall ids, new = PSnapshot ids \/ new = PActivated ids -> ids = store s) ->
  (* lock discipline *)
  (holder new = true -> w = true) ->
  (w = true -> gors s = []) ->
  (w = false -> holder new = false /\ (holder old = true \/ writer s = false)) ->
  (holder new = true -> holder old = true \/ writer s = false) ->
  (w = true -> holder new = true) ->
  ever_active new = ever_active old ->
  (forall ids, old <> PClosed ids) ->
  (NoDup (snap_of old) -> NoDup (store s) -> NoDup (snap_of new)) ->
  Inv (set_writer (set_plug s p new) w).
Proof.
  intros I Hp Hact Hsnap1 Hsnap2 Hss Hw1 Hw2 Hw3 Hw4 Hw5 Hev Hncl Hnd.
  assert (Hold : forall q qc, alookup q (aset p new (plugs s)) = Some qc ->
                 (q = p /\ qc = new) \/ (q <> p /\ alookup q (plugs s) = Some qc)).
  { intros q qc. apply alookup_aset_inv. }
  assert (Hnohold : (holder old = true \/ writer s = false) ->
                    forall q qc, q <> p -> alookup q (plugs s) = Some qc -> holder qc = false).
  { intros [Ho|W] q qc Hne Hq.
    - destruct (holder qc) eqn:Hh; [|reflexivity]. exfalso. apply Hne.
      exact (i_onewr s I q p qc old Hq Hp Hh Ho).
    - exact (i_nowr s I W q qc Hq). }
  destruct I as [Ireaders Ignodup Iwr Inowr Ionewr Imu1 Imu2 Isnapstore Iactive Ianodup Isnap Imiss Irecv Irnodup Iused Iing Ied Ist Iuniq Iwrh Ipnodup Izomb Istnd Isnapnd]. constructor; fields; try assumption.
  - intros W q qc Hq. destruct (Hold q qc Hq) as [[-> ->]|[Hne Hq']]; [apply Hw3; exact W|].
    apply (Hnohold (proj2 (Hw3 W)) q qc Hne Hq').
  - intros a b ac bc Ha Hb Hha Hhb.
    destruct (Hold a ac Ha) as [[-> ->]|[Hna Ha']]; destruct (Hold b bc Hb) as [[-> ->]|[Hnb Hb']]; try reflexivity.
    + rewrite (Hnohold (Hw4 Hha) b bc Hnb Hb') in Hhb. discriminate.
    + rewrite (Hnohold (Hw4 Hhb) a ac Hna Ha') in Hha. discriminate.
    + eauto.
  - intros q ids Hq.
    assert (Hq' : exists qc, alookup q (aset p new (plugs s)) = Some qc /\ (qc = PSnapshot ids \/ qc = PActivated ids)).
    { destruct Hq as [Hq|Hq]; eexists; split; eauto. }
    destruct Hq' as [qc [Hq1 Hq2]]. destruct (Hold q qc Hq1) as [[-> ->]|[Hne Hq']]; [apply Hss; exact Hq2|].
    apply (Isnapstore q). destruct Hq2 as [->| ->]; auto.
  - intros q. rewrite Iactive. split; intros [qc [Hq Ha]].
    + destruct (String.eqb_spec q p) as [->|Hne].
      * exists new. rewrite alookup_aset_same. split; [reflexivity|]. rewrite Hact. congruence.
      * exists qc. rewrite alookup_aset_other by assumption. auto.
    + destruct (Hold q qc Hq) as [[-> ->]|[Hne Hq']]; [|eauto]. exists old. split; [exact Hp|congruence].
  - intros q qc c Hq Hc. destruct (Hold q qc Hq) as [[-> ->]|[Hne Hq']]; [|eauto].
    destruct (Hsnap1 c Hc) as [Hc'|[Hna Hc']]; [eauto|]. split; [exact Hc'|].
    intros Hr. apply Irecv in Hr. destruct Hr as [[pc [Hp' Ha]] _]. congruence.
  - intros q qc c Hin Hq Hc Hnc. destruct (Hold q qc Hq) as [[-> ->]|[Hne Hq']]; [|eauto].
    apply (Imiss p old c Hin Hp Hc). intros Hc'. apply Hnc. apply Hsnap2; [|exact Hc'].
    apply Iactive in Hin. destruct Hin as [pc [Hp' Ha]]. congruence.
  - intros q c Hr. destruct (Irecv q c Hr) as [[pc [Hq He]] Hu]. split; [|exact Hu].
    destruct (String.eqb_spec q p) as [->|Hne].
    + exists new. rewrite alookup_aset_same. split; [reflexivity|]. rewrite Hev. congruence.
    + exists pc. rewrite alookup_aset_other by assumption. auto.
  - intros W. exists p, new. rewrite alookup_aset_same. auto.
  - rewrite aset_keys_present by congruence. assumption.
  - intros z Hz. destruct (Izomb z Hz) as [ids Hq]. exists ids.
    rewrite alookup_aset_other; [exact Hq|]. intros ->. rewrite Hp in Hq. inversion Hq. eapply Hncl; eauto.
  - intros q qc Hq. destruct (Hold q qc Hq) as [[-> ->]|[Hne Hq']]; [apply Hnd; eauto|eauto].
Qed.

Lemma writer_of_holder s p pc : Inv s -> alookup p (plugs s) = Some pc -> holder pc = true -> writer s = true.
Proof.
  intros I Hp Hh. destruct (writer s) eqn:W; [reflexivity|].
  rewrite (i_nowr s I W p pc Hp) in Hh. discriminate.
Qed.

Lemma step_inv_pacquire s p s' : Inv s -> step s (APAcquire p) = Some s' -> Inv s'.
Proof.
  intros I H. open_step H.
  match goal with E : (_ && _)%bool = true |- _ => apply andb_prop in E; destruct E as [E1 E2] end.
  apply Nat.eqb_eq in E1. apply negb_true_iff in E2.
  eapply plug_move; eauto; cbn; try tauto; try (intros; discriminate).
  - intros ids [H|H]; discriminate.
  - intros _. pose proof (i_readers s I) as L. rewrite E1 in L. destruct (gors s); [reflexivity|discriminate].
Qed.

Lemma step_inv_psnapshot s p s' : Inv s -> step s (APSnapshot p) = Some s' -> Inv s'.
Proof.
  intros I H. open_step H.
  match goal with E : alookup p _ = Some PHoldW |- _ => rename E into Hp end.
  pose proof (writer_of_holder s p _ I Hp eq_refl) as W.
  assert (G : Inv (set_writer (set_plug s p (PSnapshot (store s))) (writer s))).
  { eapply plug_move; eauto; cbn; try tauto; try (intros ids0 H0; discriminate H0).
    - intros ids [H|H]; congruence.
    - apply (i_wr s I). }
  destruct s. exact G.
Qed.

Lemma step_inv_pfail s p s' : Inv s -> step s (APFail p) = Some s' -> Inv s'.
Proof.
  intros I H. open_step H; (eapply plug_move; eauto; cbn; try tauto; try (intros; discriminate);
    try (intros ids' [H|H]; discriminate); try (intros _ _; constructor)).
Qed.

Lemma step_inv_prelease s p s' : Inv s -> step s (APRelease p) = Some s' -> Inv s'.
Proof.
  intros I H. open_step H. eapply plug_move; eauto; cbn; try tauto; try (intros; discriminate).
  intros ids' [H|H]; discriminate.
Qed.

Lemma alookup_cons_inv {V} k k' (v v' : V) l :
  alookup k ((k', v') :: l) = Some v -> (k = k' /\ v = v') \/ (k <> k' /\ alookup k l = Some v).
Proof.
  cbn [alookup]. destruct (String.eqb_spec k k') as [->|Hne]; intros H; [left; split; congruence|right; auto].
Qed.

Lemma alookup_aremove_inv {V} k k' (v : V) l :
  alookup k (aremove k' l) = Some v -> k <> k' /\ alookup k l = Some v.
Proof.
  destruct (String.eqb_spec k k') as [->|Hne].
  - rewrite alookup_aremove_same. discriminate.
  - rewrite alookup_aremove_other by assumption. auto.
Qed.

Lemma inflight_used s g gc c : Inv s -> alookup g (gors s) = Some gc -> inflight gc = Some c ->
  In c (used s) /\ ~ In c (store s).
Proof.
  intros I Hg Hi. destruct gc as [|c' to rem|c' to|c']; cbn in Hi; try discriminate; inversion Hi; subst.
  - destruct (i_ing s I g c to rem Hg) as (_ & H1 & H2 & _). auto.
  - destruct (i_ed s I g c to Hg) as (_ & H1 & H2 & _). auto.
Qed.

Lemma step_inv_pactivate s p s' : Inv s -> step s (APActivate p) = Some s' -> Inv s'.
Proof.
  intros I H. open_step H.
  match goal with E : alookup p _ = Some (PSnapshot ?i) |- _ => rename E into Hp; rename i into ids end.
  pose proof (writer_of_holder s p _ I Hp eq_refl) as W.
  pose proof (holder_no_gors s p _ I Hp eq_refl) as G.
  assert (Hids : ids = store s) by (apply (i_snapstore s I p); left; exact Hp).
  assert (Hnp : ~ In p (active s)).
  { intros Hi. apply (i_active s I) in Hi. destruct Hi as [pc [Hp' Ha]]. rewrite Hp in Hp'. inversion Hp'; subst. discriminate. }
  assert (Hold : forall q qc, alookup q (aset p (PActivated ids) (plugs s)) = Some qc ->
                 (q = p /\ qc = PActivated ids) \/ (q <> p /\ alookup q (plugs s) = Some qc)).
  { intros q qc. apply alookup_aset_inv. }
  destruct I as [Ireaders Ignodup Iwr Inowr Ionewr Imu1 Imu2 Isnapstore Iactive Ianodup Isnap Imiss Irecv Irnodup Iused Iing Ied Ist Iuniq Iwrh Ipnodup Izomb Istnd Isnapnd]. constructor; fields; try assumption.
  - intros W'. congruence.
  - intros a b ac bc Ha Hb Hha Hhb.
    destruct (Hold a ac Ha) as [[-> ->]|[Hna Ha']]; destruct (Hold b bc Hb) as [[-> ->]|[Hnb Hb']]; try reflexivity.
    + symmetry. exact (Ionewr b p bc _ Hb' Hp Hhb eq_refl).
    + exact (Ionewr a p ac _ Ha' Hp Hha eq_refl).
    + eauto.
  - intros g Hg. discriminate.
  - intros g c to rem Hg. rewrite G in Hg. discriminate.
  - intros q ids' Hq.
    assert (Hq' : exists qc, alookup q (aset p (PActivated ids) (plugs s)) = Some qc /\ (qc = PSnapshot ids' \/ qc = PActivated ids')).
    { destruct Hq as [Hq|Hq]; eexists; split; eauto. }
    destruct Hq' as [qc [Hq1 Hq2]]. destruct (Hold q qc Hq1) as [[-> ->]|[Hne Hq']].
    + destruct Hq2 as [Hq2|Hq2]; inversion Hq2; subst; reflexivity.
    + apply (Isnapstore q). destruct Hq2 as [->| ->]; auto.
  - intros q. rewrite in_app_iff, Iactive. split.
    + intros [[qc [Hq Ha]]|[->|[]]].
      * exists qc. split; [|exact Ha]. rewrite alookup_aset_other; [exact Hq|]. intros ->. rewrite Hp in Hq. inversion Hq; subst. discriminate.
      * exists (PActivated ids). rewrite alookup_aset_same. auto.
    + intros [qc [Hq Ha]]. destruct (Hold q qc Hq) as [[-> ->]|[Hne Hq']]; [right; left; reflexivity|left; eauto].
  - apply NoDup_snoc; assumption.
  - intros q qc c Hq Hc. destruct (Hold q qc Hq) as [[-> ->]|[Hne Hq']]; [|eauto].
    apply (Isnap p (PSnapshot ids) c Hp). exact Hc.
  - intros q qc c Hin Hq Hc Hnc. destruct (Hold q qc Hq) as [[-> ->]|[Hne Hq']].
    + exfalso. apply Hnc. cbn [snap_of]. rewrite Hids. exact Hc.
    + apply in_app_iff in Hin. destruct Hin as [Hin|[->|[]]]; [eauto|congruence].
  - intros q c Hr. destruct (Irecv q c Hr) as [[pc [Hq He]] H2]. split; [|exact H2].
    destruct (String.eqb_spec q p) as [->|Hne].
    + exists (PActivated ids). rewrite alookup_aset_same. auto.
    + exists pc. rewrite alookup_aset_other by assumption. auto.
  - intros g c to rem Hg. rewrite G in Hg. discriminate.
  - intros g c to Hg. rewrite G in Hg. discriminate.
  - intros _. exists p, (PActivated ids). rewrite alookup_aset_same. auto.
  - rewrite aset_keys_present by congruence. assumption.
  - intros z [].
  - intros q qc Hq. destruct (Hold q qc Hq) as [[-> ->]|[Hne Hq']]; [exact (Isnapnd p _ Hp)|eauto].
Qed.

(* ---------------- goroutine steps ---------------- *)
Lemma step_inv_gacquire s g s' : Inv s -> step s (AGAcquire g) = Some s' -> Inv s'.
Proof.
  intros I H. open_step H.
  match goal with E : alookup g _ = None |- _ => rename E into Hg end.
  match goal with E : writer s = false |- _ => rename E into W end.
  assert (Hold : forall k v, alookup k ((g, GHoldR) :: gors s) = Some v -> (k = g /\ v = GHoldR) \/ (k <> g /\ alookup k (gors s) = Some v)).
  { intros k v. apply alookup_cons_inv. }
  destruct I as [Ireaders Ignodup Iwr Inowr Ionewr Imu1 Imu2 Isnapstore Iactive Ianodup Isnap Imiss Irecv Irnodup Iused Iing Ied Ist Iuniq Iwrh Ipnodup Izomb Istnd Isnapnd]. constructor; fields; try assumption.
  - cbn [length]. congruence.
  - cbn [map fst]. constructor; [|assumption]. apply alookup_None_notin. exact Hg.
  - intros W'. congruence.
  - intros _. apply Inowr. exact W.
  - intros g0 Hm. destruct (Imu1 g0 Hm) as (c & to & rem & Hg0). exists c, to, rem.
    cbn [alookup]. destruct (String.eqb_spec g0 g) as [->|Hne]; [congruence|exact Hg0].
  - intros g0 c to rem H0. destruct (Hold _ _ H0) as [[-> E]|[Hne H0']]; [discriminate|eauto].
  - intros g0 c to rem H0. destruct (Hold _ _ H0) as [[-> E]|[Hne H0']]; [discriminate|eauto].
  - intros g0 c to H0. destruct (Hold _ _ H0) as [[-> E]|[Hne H0']]; [discriminate|eauto].
  - intros g0 c H0. destruct (Hold _ _ H0) as [[-> E]|[Hne H0']]; [discriminate|eauto].
  - intros g1 g2 gc1 gc2 c H1 H2 F1 F2.
    destruct (Hold _ _ H1) as [[-> ->]|[Hn1 H1']]; [discriminate|].
    destruct (Hold _ _ H2) as [[-> ->]|[Hn2 H2']]; [discriminate|]. eauto.
  - intros W'. discriminate.
Qed.

(* the three structural clauses when an existing goroutine's entry is replaced *)
Lemma gor_replace_struct s g old new :
  Inv s -> alookup g (gors s) = Some old ->
  length (aset g new (gors s)) = length (gors s) /\
  map fst (aset g new (gors s)) = map fst (gors s) /\
  writer s = false.
Proof.
  intros I Hg. assert (Hne : alookup g (gors s) <> None) by congruence. split; [|split].
  - apply aset_length_present. exact Hne.
  - apply aset_keys_present. exact Hne.
  - destruct (writer s) eqn:W; [|reflexivity]. rewrite (i_wr s I W) in Hg. discriminate.
Qed.

Lemma step_inv_gbegin s g c s' : Inv s -> step s (AGBegin g c) = Some s' -> Inv s'.
Proof.
  intros I H. open_step H.
  match goal with E : alookup g _ = Some GHoldR |- _ => rename E into Hg end.
  match goal with E : mutex s = None |- _ => rename E into Hm end.
  match goal with E : smem c _ = false |- _ => rename E into Hc; apply smem_false_notin in Hc end.
  destruct (gor_replace_struct s g _ (GDispatching c (active s) (active s)) I Hg) as (L & K & W).
  pose proof (fun g' gc' => inflight_used s g' gc' c I) as Hfresh.
  assert (Hold : forall k v, alookup k (aset g (GDispatching c (active s) (active s)) (gors s)) = Some v ->
                 (k = g /\ v = GDispatching c (active s) (active s)) \/ (k <> g /\ alookup k (gors s) = Some v)).
  { intros k v. apply alookup_aset_inv. }
  destruct I as [Ireaders Ignodup Iwr Inowr Ionewr Imu1 Imu2 Isnapstore Iactive Ianodup Isnap Imiss Irecv Irnodup Iused Iing Ied Ist Iuniq Iwrh Ipnodup Izomb Istnd Isnapnd]. constructor; fields; try assumption.
  - rewrite L. exact Ireaders.
  - rewrite K. assumption.
  - intros W'. congruence.
  - intros g0 E. inversion E; subst g0. eexists _, _, _. apply alookup_aset_same.
  - intros g0 c0 to rem H0. destruct (Hold _ _ H0) as [[-> E]|[Hne H0']]; [reflexivity|].
    rewrite (Imu2 _ _ _ _ H0') in Hm. discriminate.
  - intros q c0 Hr. destruct (Irecv q c0 Hr). split; [assumption|right; assumption].
  - intros c0 H0. right. auto.
  - intros g0 c0 to rem H0. destruct (Hold _ _ H0) as [[-> E]|[Hne H0']].
    + inversion E; subst. split; [reflexivity|]. split; [left; reflexivity|]. split; [intros Hs; apply Hc; auto|].
      split; [assumption|]. split.
      * intros q Hq. split; [exact Hq|]. intros Hr. apply Hc. eapply Irecv. exact Hr.
      * intros q Hq. left. exact Hq.
    + destruct (Iing _ _ _ _ H0') as (A1 & A2 & A3 & A4 & A5 & A6). repeat split; auto. right; exact A2.
      all: apply A5; assumption.
  - intros g0 c0 to H0. destruct (Hold _ _ H0) as [[-> E]|[Hne H0']]; [discriminate|].
    destruct (Ied _ _ _ H0') as (A1 & A2 & A3 & A4). repeat split; auto. right; exact A2.
  - intros g0 c0 H0. destruct (Hold _ _ H0) as [[-> E]|[Hne H0']]; [discriminate|eauto].
  - intros g1 g2 gc1 gc2 c0 H1 H2 F1 F2.
    destruct (Hold _ _ H1) as [[-> ->]|[Hn1 H1']]; destruct (Hold _ _ H2) as [[-> ->]|[Hn2 H2']]; try reflexivity.
    + cbn in F1. inversion F1; subst c0. exfalso. apply Hc. apply (Hfresh g2 gc2 H2' F2).
    + cbn in F2. inversion F2; subst c0. exfalso. apply Hc. apply (Hfresh g1 gc1 H1' F1).
    + eauto.
Qed.

Ltac dI I := destruct I as [Ireaders Ignodup Iwr Inowr Ionewr Imu1 Imu2 Isnapstore Iactive Ianodup Isnap Imiss Irecv Irnodup Iused Iing Ied Ist Iuniq Iwrh Ipnodup Izomb Istnd Isnapnd].

Lemma step_inv_gdeliver s g p s' : Inv s -> step s (AGDeliver g p) = Some s' -> Inv s'.
Proof.
  intros I H. open_step H.
  match goal with E : alookup g _ = Some (GDispatching ?c0 ?to0 ?rem0) |- _ => rename E into Hg; rename c0 into c; rename to0 into to; rename rem0 into rem end.
  match goal with E : smem p _ = true |- _ => rename E into Hp; apply smem_In in Hp end.
  destruct (gor_replace_struct s g _ (GDispatching c to (remove_s p rem)) I Hg) as (L & K & W).
  destruct (i_ing s I g c to rem Hg) as (B1 & B2 & B3 & B4 & B5 & B6).
  pose proof (i_mu2 s I g c to rem Hg) as Hm.
  assert (Hold : forall k v, alookup k (aset g (GDispatching c to (remove_s p rem)) (gors s)) = Some v ->
                 (k = g /\ v = GDispatching c to (remove_s p rem)) \/ (k <> g /\ alookup k (gors s) = Some v)).
  { intros k v. apply alookup_aset_inv. }
  dI I. constructor; fields; try assumption.
  - rewrite L. exact Ireaders.
  - rewrite K. assumption.
  - intros W'. congruence.
  - intros g0 E. destruct (String.eqb_spec g0 g) as [->|Hne].
    + eexists _, _, _. apply alookup_aset_same.
    + destruct (Imu1 g0 E) as (c0 & to0 & rem0 & H0). exists c0, to0, rem0. rewrite alookup_aset_other by assumption. exact H0.
  - intros g0 c0 to0 rem0 H0. destruct (Hold _ _ H0) as [[-> E]|[Hne H0']]; [exact Hm|eauto].
  - intros q qc c0 Hq Hc0. destruct (Isnap q qc c0 Hq Hc0) as [S1 S2]. split; [exact S1|].
    intros [E|Hr]; [|contradiction]. inversion E; subst. contradiction.
  - intros q qc c0 Hin Hq Hc0 Hn. right. eauto.
  - intros q c0 [E|Hr]; [|eauto]. inversion E; subst. split; [|exact B2].
    destruct (proj1 (Iactive _) (proj1 (B5 _ Hp))) as [pc [Hq Ha]]. exists pc. split; [exact Hq|apply active_ever; exact Ha].
  - constructor; [|assumption]. apply B5. exact Hp.
  - intros g0 c0 to0 rem0 H0. destruct (Hold _ _ H0) as [[-> E]|[Hne H0']].
    + inversion E; subst. split; [reflexivity|]. split; [exact B2|]. split; [exact B3|].
      split; [apply remove_s_NoDup; exact B4|]. split.
      * intros q Hq. apply remove_s_In in Hq. destruct Hq as [Hq Hnq]. destruct (B5 q Hq) as [C1 C2]. split; [exact C1|].
        intros [E'|Hr]; [|contradiction]. inversion E'. contradiction.
      * intros q Hq. destruct (B6 q Hq) as [Hr|Hr]; [|right; right; exact Hr].
        destruct (String.eqb_spec p q) as [->|Hnq]; [right; left; reflexivity|left; apply remove_s_In; auto].
    + destruct (Iing _ _ _ _ H0') as (A1 & A2 & A3 & A4 & A5 & A6). split; [exact A1|]. split; [exact A2|].
      split; [exact A3|]. split; [exact A4|]. split.
      * intros q Hq. destruct (A5 q Hq) as [C1 C2]. split; [exact C1|]. intros [E'|Hr]; [|contradiction].
        inversion E'; subst. apply Hne. eapply (Iuniq g0 g); [exact H0'|exact Hg|reflexivity|reflexivity].
      * intros q Hq. destruct (A6 q Hq); [left|right; right]; assumption.
  - intros g0 c0 to0 H0. destruct (Hold _ _ H0) as [[-> E]|[Hne H0']]; [discriminate|].
    destruct (Ied _ _ _ H0') as (A1 & A2 & A3 & A4). repeat split; auto. intros q Hq. right. auto.
  - intros g0 c0 H0. destruct (Hold _ _ H0) as [[-> E]|[Hne H0']]; [discriminate|eauto].
  - intros g1 g2 gc1 gc2 c0 H1 H2 F1 F2.
    destruct (Hold _ _ H1) as [[-> ->]|[Hn1 H1']]; destruct (Hold _ _ H2) as [[-> ->]|[Hn2 H2']]; try reflexivity.
    + exact (Iuniq g g2 _ _ c0 Hg H2' F1 F2).
    + exact (Iuniq g1 g _ _ c0 H1' Hg F1 F2).
    + eauto.
Qed.

Lemma step_inv_gend s g s' : Inv s -> step s (AGEnd g) = Some s' -> Inv s'.
Proof.
  intros I H. open_step H.
  match goal with E : alookup g _ = Some (GDispatching ?c0 ?to0 []) |- _ => rename E into Hg; rename c0 into c; rename to0 into to end.
  destruct (gor_replace_struct s g _ (GDispatched c to) I Hg) as (L & K & W).
  destruct (i_ing s I g c to [] Hg) as (B1 & B2 & B3 & B4 & B5 & B6).
  pose proof (i_mu2 s I g c to [] Hg) as Hm.
  assert (Hold : forall k v, alookup k (aset g (GDispatched c to) (gors s)) = Some v ->
                 (k = g /\ v = GDispatched c to) \/ (k <> g /\ alookup k (gors s) = Some v)).
  { intros k v. apply alookup_aset_inv. }
  dI I. constructor; fields; try assumption.
  - rewrite L. exact Ireaders.
  - rewrite K. assumption.
  - intros W'. congruence.
  - intros g0 E. discriminate.
  - intros g0 c0 to0 rem0 H0. destruct (Hold _ _ H0) as [[-> E]|[Hne H0']]; [discriminate|].
    exfalso. apply Hne. pose proof (Imu2 _ _ _ _ H0') as Hm'. congruence.
  - intros g0 c0 to0 rem0 H0. destruct (Hold _ _ H0) as [[-> E]|[Hne H0']]; [discriminate|eauto].
  - intros g0 c0 to0 H0. destruct (Hold _ _ H0) as [[-> E]|[Hne H0']]; [|eauto].
    inversion E; subst. split; [apply incl_refl|]. repeat split; auto. intros q Hq. destruct (B6 q Hq) as [[]|Hr]. exact Hr.
  - intros g0 c0 H0. destruct (Hold _ _ H0) as [[-> E]|[Hne H0']]; [discriminate|eauto].
  - intros g1 g2 gc1 gc2 c0 H1 H2 F1 F2.
    destruct (Hold _ _ H1) as [[-> ->]|[Hn1 H1']]; destruct (Hold _ _ H2) as [[-> ->]|[Hn2 H2']]; try reflexivity.
    + exact (Iuniq g g2 _ _ c0 Hg H2' F1 F2).
    + exact (Iuniq g1 g _ _ c0 H1' Hg F1 F2).
    + eauto.
  - intros z [].
Qed.

Lemma step_inv_gstore s g s' : Inv s -> step s (AGStore g) = Some s' -> Inv s'.
Proof.
  intros I H. open_step H.
  match goal with E : alookup g _ = Some (GDispatched ?c0 ?to0) |- _ => rename E into Hg; rename c0 into c; rename to0 into to end.
  destruct (gor_replace_struct s g _ (GStored c) I Hg) as (L & K & W).
  destruct (i_ed s I g c to Hg) as (B1 & B2 & B3 & B4).
  pose proof (fun p pc => gor_no_holder s g _ p pc I Hg) as Hnh.
  assert (Hold : forall k v, alookup k (aset g (GStored c) (gors s)) = Some v ->
                 (k = g /\ v = GStored c) \/ (k <> g /\ alookup k (gors s) = Some v)).
  { intros k v. apply alookup_aset_inv. }
  dI I. constructor; fields; try assumption.
  - rewrite L. exact Ireaders.
  - rewrite K. assumption.
  - intros W'. congruence.
  - intros g0 E. destruct (Imu1 g0 E) as (c0 & to0 & rem0 & H0). exists c0, to0, rem0.
    rewrite alookup_aset_other; [exact H0|]. intros ->. congruence.
  - intros g0 c0 to0 rem0 H0. destruct (Hold _ _ H0) as [[-> E]|[Hne H0']]; [discriminate|eauto].
  - intros q ids [Hq|Hq]; pose proof (Hnh q _ Hq); discriminate.
  - intros q qc c0 Hq Hc0. destruct (Isnap q qc c0 Hq Hc0) as [S1 S2]. split; [right; exact S1|exact S2].
  - intros q qc c0 Hin Hq [->|Hc0] Hn; [apply B4; exact Hin|eauto].
  - intros c0 [->|Hc0]; auto.
  - intros g0 c0 to0 rem0 H0. destruct (Hold _ _ H0) as [[-> E]|[Hne H0']]; [discriminate|].
    destruct (Iing _ _ _ _ H0') as (A1 & A2 & A3 & A4 & A5 & A6). repeat split; auto; try (apply A5; assumption).
    intros [->|Hs]; [|contradiction]. apply Hne. eapply (Iuniq g0 g); [exact H0'|exact Hg|reflexivity|reflexivity].
  - intros g0 c0 to0 H0. destruct (Hold _ _ H0) as [[-> E]|[Hne H0']]; [discriminate|].
    destruct (Ied _ _ _ H0') as (A1 & A2 & A3 & A4). repeat split; auto.
    intros [->|Hs]; [|contradiction]. apply Hne. eapply (Iuniq g0 g); [exact H0'|exact Hg|reflexivity|reflexivity].
  - intros g0 c0 H0. destruct (Hold _ _ H0) as [[-> E]|[Hne H0']]; [inversion E; left; reflexivity|right; eauto].
  - intros g1 g2 gc1 gc2 c0 H1 H2 F1 F2.
    destruct (Hold _ _ H1) as [[-> ->]|[Hn1 H1']]; [discriminate|].
    destruct (Hold _ _ H2) as [[-> ->]|[Hn2 H2']]; [discriminate|]. eauto.
  - constructor; assumption.
Qed.

Lemma step_inv_grelease s g s' : Inv s -> step s (AGRelease g) = Some s' -> Inv s'.
Proof.
  intros I H. open_step H.
  match goal with E : alookup g _ = Some (GStored ?c0) |- _ => rename E into Hg; rename c0 into c end.
  assert (Hne : alookup g (gors s) <> None) by congruence.
  assert (W : writer s = false).
  { destruct (writer s) eqn:W; [|reflexivity]. rewrite (i_wr s I W) in Hg. discriminate. }
  assert (Hold : forall k v, alookup k (aremove g (gors s)) = Some v -> k <> g /\ alookup k (gors s) = Some v).
  { intros k v. apply alookup_aremove_inv. }
  dI I. constructor; fields; try assumption.
  - rewrite aremove_length by assumption. congruence.
  - apply aremove_keys_nodup. assumption.
  - intros W'. congruence.
  - intros g0 E. destruct (Imu1 g0 E) as (c0 & to0 & rem0 & H0). exists c0, to0, rem0.
    rewrite alookup_aremove_other; [exact H0|]. intros ->. congruence.
  - intros g0 c0 to0 rem0 H0. destruct (Hold _ _ H0) as [Hn H0']. eauto.
  - intros g0 c0 to0 rem0 H0. destruct (Hold _ _ H0) as [Hn H0']. eauto.
  - intros g0 c0 to0 H0. destruct (Hold _ _ H0) as [Hn H0']. eauto.
  - intros g0 c0 H0. destruct (Hold _ _ H0) as [Hn H0']. eauto.
  - intros g1 g2 gc1 gc2 c0 H1 H2 F1 F2. destruct (Hold _ _ H1) as [Hn1 H1']. destruct (Hold _ _ H2) as [Hn2 H2']. eauto.
Qed.

(* a registered instance loses its connection: it leaves the live list and stays listed as a zombie *)
Lemma step_inv_pclose s p s' : Inv s -> step s (APClose p) = Some s' -> Inv s'.
Proof.
  intros I H. open_step H.
  match goal with E : alookup p _ = Some (PDone ?i) |- _ => rename E into Hp; rename i into ids end.
  match goal with E : mutex s = None |- _ => rename E into Hm end.
  assert (Hold : forall q qc, alookup q (aset p (PClosed ids) (plugs s)) = Some qc ->
                 (q = p /\ qc = PClosed ids) \/ (q <> p /\ alookup q (plugs s) = Some qc)).
  { intros q qc. apply alookup_aset_inv. }
  dI I. constructor; fields; try assumption.
  - intros W q qc Hq. destruct (Hold q qc Hq) as [[-> ->]|[Hne Hq']]; [reflexivity|eauto].
  - intros a b ac bc Ha Hb Hha Hhb.
    destruct (Hold a ac Ha) as [[-> ->]|[Hna Ha']]; [discriminate|].
    destruct (Hold b bc Hb) as [[-> ->]|[Hnb Hb']]; [discriminate|]. eauto.
  - intros g E. discriminate.
  - intros g c to rem Hg. pose proof (Imu2 _ _ _ _ Hg). congruence.
  - intros q ids' [Hq|Hq]; destruct (Hold _ _ Hq) as [[-> E]|[Hne Hq']]; try discriminate; eauto.
  - intros q. rewrite remove_s_In, Iactive. split.
    + intros [[qc [Hq Ha]] Hne]. exists qc. split; [|exact Ha]. rewrite alookup_aset_other; [exact Hq|]. congruence.
    + intros [qc [Hq Ha]]. destruct (Hold q qc Hq) as [[-> ->]|[Hne Hq']]; [discriminate|]. split; [eauto|congruence].
  - apply remove_s_NoDup. assumption.
  - intros q qc c Hq Hc. destruct (Hold q qc Hq) as [[-> ->]|[Hne Hq']]; [|eauto].
    apply (Isnap p (PDone ids) c Hp). exact Hc.
  - intros q qc c Hin Hq Hc Hnc. apply remove_s_In in Hin. destruct Hin as [Hin Hne].
    destruct (Hold q qc Hq) as [[-> ->]|[_ Hq']]; [congruence|eauto].
  - intros q c Hr. destruct (Irecv q c Hr) as [[pc [Hq He]] Hu]. split; [|exact Hu].
    destruct (String.eqb_spec q p) as [->|Hne].
    + exists (PClosed ids). rewrite alookup_aset_same. auto.
    + exists pc. rewrite alookup_aset_other by assumption. auto.
  - intros g c to rem Hg. pose proof (Imu2 _ _ _ _ Hg). congruence.
  - intros g c to Hg. destruct (Ied _ _ _ Hg) as (A1 & A2 & A3 & A4). split; [|split; [exact A2|split; [exact A3|]]].
    + intros q Hq. apply remove_s_In in Hq. apply A1. tauto.
    + intros q Hq. apply remove_s_In in Hq. apply A4. tauto.
  - intros W. destruct (Iwrh W) as (q & qc & Hq & Hh). exists q, qc. split; [|exact Hh].
    rewrite alookup_aset_other; [exact Hq|]. intros ->. rewrite Hp in Hq. inversion Hq; subst. discriminate.
  - rewrite aset_keys_present by congruence. assumption.
  - intros z [->|Hz]; [exists ids; apply alookup_aset_same|].
    destruct (Izomb z Hz) as [ids' Hq]. exists ids'. rewrite alookup_aset_other; [exact Hq|]. intros ->. congruence.
  - intros q qc Hq. destruct (Hold q qc Hq) as [[-> ->]|[Hne Hq']]; [exact (Isnapnd p _ Hp)|eauto].
Qed.

(* a waiting registration is given up: only its own program counter changes *)
Lemma step_inv_pabandon s p s' : Inv s -> step s (APAbandon p) = Some s' -> Inv s'.
Proof.
  intros I H. open_step H.
  match goal with E : alookup p _ = Some PWaitW |- _ => rename E into Hp end.
  assert (Hold : forall q qc, alookup q (aset p PFailed (plugs s)) = Some qc ->
                 (q = p /\ qc = PFailed) \/ (q <> p /\ alookup q (plugs s) = Some qc)).
  { intros q qc. apply alookup_aset_inv. }
  dI I. constructor; fields; try assumption.
  - intros W q qc Hq. destruct (Hold q qc Hq) as [[-> ->]|[Hne Hq']]; [reflexivity|eauto].
  - intros a b ac bc Ha Hb Hha Hhb.
    destruct (Hold a ac Ha) as [[-> ->]|[Hna Ha']]; [discriminate|].
    destruct (Hold b bc Hb) as [[-> ->]|[Hnb Hb']]; [discriminate|]. eauto.
  - intros q ids' [Hq|Hq]; destruct (Hold _ _ Hq) as [[-> E]|[Hne Hq']]; try discriminate; eauto.
  - intros q. rewrite Iactive. split; intros [qc [Hq Ha]].
    + exists qc. split; [|exact Ha]. rewrite alookup_aset_other; [exact Hq|]. intros ->. rewrite Hp in Hq. inversion Hq; subst. discriminate.
    + destruct (Hold q qc Hq) as [[-> ->]|[Hne Hq']]; [discriminate|eauto].
  - intros q qc c Hq Hc. destruct (Hold q qc Hq) as [[-> ->]|[Hne Hq']]; [contradiction|eauto].
  - intros q qc c Hin Hq. destruct (Hold q qc Hq) as [[-> ->]|[Hne Hq']]; [|eauto].
    apply Iactive in Hin. destruct Hin as [pc [Hp' Ha]]. rewrite Hp in Hp'. inversion Hp'; subst. discriminate.
  - intros q c Hr. destruct (Irecv q c Hr) as [[pc [Hq He]] Hu]. split; [|exact Hu]. exists pc. split; [|exact He].
    rewrite alookup_aset_other; [exact Hq|]. intros ->. rewrite Hp in Hq. inversion Hq; subst. discriminate.
  - intros W. destruct (Iwrh W) as (q & qc & Hq & Hh). exists q, qc. split; [|exact Hh].
    rewrite alookup_aset_other; [exact Hq|]. intros ->. rewrite Hp in Hq. inversion Hq; subst. discriminate.
  - rewrite aset_keys_present by congruence. assumption.
  - intros z Hz. destruct (Izomb z Hz) as [ids Hq]. exists ids.
    rewrite alookup_aset_other; [exact Hq|]. intros ->. congruence.
  - intros q qc Hq. destruct (Hold q qc Hq) as [[-> ->]|[Hne Hq']]; [constructor|eauto].
Qed.

(* a repeated Unblock of a released block changes nothing *)
Lemma step_inv_greleaseagain s g s' : Inv s -> step s (AGReleaseAgain g) = Some s' -> Inv s'.
Proof. intros I H. open_step H. exact I. Qed.

Theorem step_inv s a s' : Inv s -> step s a = Some s' -> Inv s'.
Proof.
  destruct a.
  - apply step_inv_parrive.
  - apply step_inv_pacquire.
  - apply step_inv_psnapshot.
  - apply step_inv_pfail.
  - apply step_inv_pactivate.
  - apply step_inv_prelease.
  - apply step_inv_pclose.
  - apply step_inv_pabandon.
  - apply step_inv_gacquire.
  - apply step_inv_gbegin.
  - apply step_inv_gdeliver.
  - apply step_inv_gend.
  - apply step_inv_gstore.
  - apply step_inv_grelease.
  - apply step_inv_greleaseagain.
Qed.

Lemma steps_inv l : forall s s', Inv s -> steps s l = Some s' -> Inv s'.
Proof.
  induction l as [|a r IH]; cbn [steps]; intros s s' I H.
  - inversion H; subst. exact I.
  - destruct (step s a) as [s1|] eqn:E; [|discriminate]. eapply IH; [|exact H]. eapply step_inv; eauto.
Qed.

Definition reachable (s : state) : Prop := exists l, steps init l = Some s.

Lemma reachable_inv s : reachable s -> Inv s.
Proof. intros [l H]. eapply steps_inv; [apply inv_init|exact H]. Qed.

(* ---------------- C08_lock_invariant ---------------- *)
Definition in_block (s : state) (g : gid) : Prop := exists gc, alookup g (gors s) = Some gc.
Definition in_exclusive (s : state) (p : pid) : Prop := exists pc, alookup p (plugs s) = Some pc /\ holder pc = true.

Theorem lock_invariant s : reachable s ->
  readers s = length (gors s) /\
  (writer s = true <-> exists p, in_exclusive s p) /\
  (forall p q, in_exclusive s p -> in_exclusive s q -> p = q) /\
  (writer s = true -> readers s = 0 /\ forall g, ~ in_block s g) /\
  (forall g, in_block s g -> writer s = false /\ 0 < readers s).
Proof.
  intros R. pose proof (reachable_inv s R) as I. split; [apply (i_readers s I)|]. split; [|split; [|split]].
  - split.
    + intros W. destruct (i_wrh s I W) as (p & pc & H). exists p, pc. exact H.
    + intros (p & pc & Hp & Hh). eapply writer_of_holder; eauto.
  - intros p q (pc & Hp & Hph) (qc & Hq & Hqh). eapply (i_onewr s I); eauto.
  - intros W. pose proof (i_wr s I W) as G. split.
    + rewrite (i_readers s I), G. reflexivity.
    + intros g [gc Hg]. rewrite G in Hg. discriminate.
  - intros g [gc Hg]. assert (W : writer s = false).
    { destruct (writer s) eqn:W; [|reflexivity]. rewrite (i_wr s I W) in Hg. discriminate. }
    split; [exact W|]. rewrite (i_readers s I). destruct (gors s); [discriminate|cbn; lia].
Qed.

(* the assumed lock semantics, as enabling conditions of the acquire steps *)
Theorem lock_enabling s s' :
  (forall p, step s (APAcquire p) = Some s' -> readers s = 0 /\ writer s = false /\ writer s' = true) /\
  (forall g, step s (AGAcquire g) = Some s' -> writer s = false /\ readers s' = S (readers s)).
Proof.
  split.
  - intros p H. open_step H.
    match goal with E : (_ && _)%bool = true |- _ => apply andb_prop in E; destruct E as [E1 E2] end.
    apply Nat.eqb_eq in E1. apply negb_true_iff in E2. auto.
  - intros g H. open_step H. auto.
Qed.

(* ---------------- C08_exactly_once ---------------- *)
Definition snapshot_of (s : state) (p : pid) : list cid :=
  match alookup p (plugs s) with Some pc => snap_of pc | None => [] end.

Definition pair_dec : forall a b : string * string, {a = b} + {a <> b}.
Proof. decide equality; apply string_dec. Defined.

Theorem exactly_once s p c : reachable s -> In p (active s) -> In c (store s) ->
  ((In c (snapshot_of s p) /\ ~ In (p, c) (recv s)) \/ (~ In c (snapshot_of s p) /\ In (p, c) (recv s)))
  /\ count_occ pair_dec (recv s) (p, c) <= 1.
Proof.
  intros R Hp Hc. pose proof (reachable_inv s R) as I. split.
  - destruct (proj1 (i_active s I p) Hp) as [pc [Hpc Ha]]. unfold snapshot_of. rewrite Hpc.
    destruct (in_dec string_dec c (snap_of pc)) as [Hi|Hn].
    + left. split; [exact Hi|]. apply (i_snap s I p pc c Hpc Hi).
    + right. split; [exact Hn|]. apply (i_miss s I p pc c Hp Hpc Hc Hn).
  - apply NoDup_count_occ. apply (i_rnodup s I).
Qed.

(* only registered plugins are ever handed a creation request, and only for known containers *)
Theorem recv_only_registered s p c : reachable s -> In (p, c) (recv s) ->
  (In p (active s) \/ exists ids, alookup p (plugs s) = Some (PClosed ids)) /\ In c (used s).
Proof.
  intros R Hr. pose proof (reachable_inv s R) as I. destruct (i_recv s I p c Hr) as [[pc [Hp He]] Hu].
  split; [|exact Hu]. destruct pc; try discriminate.
  - left. apply (i_active s I). eexists. split; [exact Hp|reflexivity].
  - left. apply (i_active s I). eexists. split; [exact Hp|reflexivity].
  - right. eexists. exact Hp.
Qed.

(* the boolean predicate evaluated on the implementation's observations *)
Lemma creates_of_In p c rc : In c (creates_of p rc) <-> In (p, c) rc.
Proof.
  unfold creates_of. rewrite in_map_iff. split.
  - intros [[q d] [E Hi]]. cbn [snd] in E. subst d. apply filter_In in Hi. destruct Hi as [Hi He].
    cbn [fst] in He. apply String.eqb_eq in He. subst q. exact Hi.
  - intros Hi. exists (p, c). split; [reflexivity|]. apply filter_In. split; [exact Hi|]. cbn [fst]. apply String.eqb_refl.
Qed.

Lemma creates_of_NoDup p rc : NoDup rc -> NoDup (creates_of p rc).
Proof.
  induction rc as [|[q d] r IH]; intros Hn; [constructor|]. inversion Hn as [|x xs Hx Hr]; subst.
  unfold creates_of. cbn [filter fst]. destruct (String.eqb_spec p q) as [->|Hne]; cbn [map snd].
  - fold (creates_of q r). constructor; [|apply IH; exact Hr]. intros Hi. apply creates_of_In in Hi. contradiction.
  - fold (creates_of p r). apply IH. exact Hr.
Qed.

Lemma nodup_b_true l : NoDup l -> nodup_b l = true.
Proof.
  induction l as [|x r IH]; intros Hn; [reflexivity|]. inversion Hn as [|y ys Hx Hr]; subst. cbn [nodup_b].
  apply smem_false_notin in Hx. rewrite Hx. cbn [negb andb]. apply IH. exact Hr.
Qed.

Lemma nodup_b_NoDup l : nodup_b l = true -> NoDup l.
Proof.
  induction l as [|x r IH]; intros H; [constructor|]. cbn [nodup_b] in H. apply andb_prop in H. destruct H as [H1 H2].
  constructor; [|apply IH; exact H2]. apply smem_false_notin. apply negb_true_iff. exact H1.
Qed.

Theorem exactly_once_obs s : reachable s -> exactly_once_b (obs_of_state s) = true.
Proof.
  intros R. pose proof (reachable_inv s R) as I. unfold exactly_once_b, obs_of_state. cbn [ob_store ob_plugins].
  apply forallb_forall. intros po Hpo. apply in_map_iff in Hpo. destruct Hpo as [[p pc] [E Hin]]. subst po.
  unfold plugin_exactly_once. cbn [po_registered po_snapshot po_creates fst snd].
  destruct (smem p (active s)) eqn:Hact; [|reflexivity]. cbn [negb orb]. apply smem_In in Hact.
  pose proof (alookup_of_In p pc (plugs s) (i_pnodup s I) Hin) as Hpc.
  apply andb_true_intro. split; [apply andb_true_intro; split|apply nodup_b_true; exact (i_snapnd s I p pc Hpc)].
  - apply forallb_forall. intros c Hc. destruct (exactly_once s p c R Hact Hc) as [Hx _].
    unfold snapshot_of in Hx. rewrite Hpc in Hx.
    destruct (smem c (snap_of pc)) eqn:S1; destruct (smem c (rev (creates_of p (recv s)))) eqn:S2; try reflexivity; exfalso.
    + apply smem_In in S1. apply smem_In in S2. apply in_rev in S2. apply creates_of_In in S2. tauto.
    + apply smem_false_notin in S1. apply smem_false_notin in S2.
      assert (~ In (p, c) (recv s)). { intros Hr. apply S2. apply -> in_rev. apply creates_of_In. exact Hr. }
      tauto.
  - apply nodup_b_true. apply NoDup_rev. apply creates_of_NoDup. apply (i_rnodup s I).
Qed.

(* ---------------- C08_blocked_while_held ---------------- *)
Theorem blocked_while_held s : reachable s -> (0 < readers s)%nat ->
  (forall p, ~ in_exclusive s p) /\ (forall p, step s (APAcquire p) = None /\ step s (APSnapshot p) = None /\ step s (APActivate p) = None).
Proof.
  intros R Hr. pose proof (reachable_inv s R) as I.
  assert (W : writer s = false).
  { destruct (writer s) eqn:W; [|reflexivity]. pose proof (i_wr s I W) as G. rewrite (i_readers s I), G in Hr. cbn in Hr. lia. }
  assert (Hno : forall p, ~ in_exclusive s p).
  { intros p (pc & Hp & Hh). rewrite (i_nowr s I W p pc Hp) in Hh. discriminate. }
  split; [exact Hno|]. intros p. split; [|split]; unfold step.
  - destruct (alookup p (plugs s)) as [[]|]; try reflexivity.
    destruct (Nat.eqb_spec (readers s) 0) as [E|E]; [lia|reflexivity].
  - destruct (alookup p (plugs s)) as [pc|] eqn:Hp; [|reflexivity]. destruct pc; try reflexivity.
    exfalso. apply (Hno p). exists PHoldW. auto.
  - destruct (alookup p (plugs s)) as [pc|] eqn:Hp; [|reflexivity]. destruct pc; try reflexivity.
    exfalso. apply (Hno p). eexists. split; [exact Hp|reflexivity].
Qed.

(* ---------------- C08_release_enables ---------------- *)
Lemma no_reader_free s : Inv s -> readers s = 0 -> gors s = [] /\ mutex s = None.
Proof.
  intros I Hr. assert (G : gors s = []).
  { pose proof (i_readers s I) as L. rewrite Hr in L. destruct (gors s); [reflexivity|discriminate]. }
  split; [exact G|]. destruct (mutex s) as [g|] eqn:M; [|reflexivity].
  destruct (i_mu1 s I g M) as (c & to & rem & Hg). rewrite G in Hg. discriminate.
Qed.

(* with no reader, a waiting plugin can take the exclusive section unless another registration
   holds it, and that one can always move on (enabledness, not fairness) *)
Theorem release_enables s p : reachable s -> readers s = 0 -> alookup p (plugs s) = Some PWaitW ->
  (exists s', step s (APAcquire p) = Some s') \/
  (exists q a s', q <> p /\ in_exclusive s q /\ In a [APSnapshot q; APActivate q; APRelease q] /\ step s a = Some s').
Proof.
  intros R Hr Hp. pose proof (reachable_inv s R) as I. destruct (no_reader_free s I Hr) as [G M].
  destruct (writer s) eqn:W.
  - right. destruct (i_wrh s I W) as (q & qc & Hq & Hh). exists q.
    assert (Hne : q <> p). { intros ->. rewrite Hp in Hq. inversion Hq; subst. discriminate. }
    destruct qc; try discriminate.
    + exists (APSnapshot q). eexists. split; [exact Hne|]. split; [exists PHoldW; auto|]. split; [cbn; auto|].
      unfold step. rewrite Hq. reflexivity.
    + exists (APActivate q). eexists. split; [exact Hne|]. split; [eexists; split; [exact Hq|reflexivity]|]. split; [cbn; auto|].
      unfold step. rewrite Hq, M. reflexivity.
    + exists (APRelease q). eexists. split; [exact Hne|]. split; [eexists; split; [exact Hq|reflexivity]|]. split; [cbn; auto|].
      unfold step. rewrite Hq. reflexivity.
  - left. unfold step. rewrite Hp, Hr, W. cbn. eexists. reflexivity.
Qed.

(* ... and once it has the section, the registration runs to completion without waiting for anybody *)
Theorem registration_completes s p : reachable s -> readers s = 0 -> writer s = false ->
  alookup p (plugs s) = Some PWaitW ->
  exists s', steps s [APAcquire p; APSnapshot p; APActivate p; APRelease p] = Some s' /\ In p (active s') /\ alookup p (plugs s') = Some (PDone (store s)) /\ writer s' = false /\ store s' = store s.
Proof.
  intros R Hr W Hp. pose proof (reachable_inv s R) as I. destruct (no_reader_free s I Hr) as [G M].
  cbn [steps]. unfold step at 1. rewrite Hp, Hr, W. cbn [Nat.eqb negb andb].
  unfold step at 1. fields. rewrite alookup_aset_same.
  unfold step at 1. fields. rewrite alookup_aset_same, M.
  unfold step at 1. fields. rewrite alookup_aset_same.
  eexists. split; [reflexivity|]. fields. split; [apply in_app_iff; right; left; reflexivity|].
  split; [apply alookup_aset_same|]. split; reflexivity.
Qed.

(* ---------------- the log replay only produces runs of the LTS ---------------- *)
Lemma steps_app l1 : forall s s1 l2, steps s l1 = Some s1 -> steps s (l1 ++ l2) = steps s1 l2.
Proof.
  induction l1 as [|a r IH]; cbn [steps app]; intros s s1 l2 H.
  - inversion H; subst. reflexivity.
  - destruct (step s a) as [s'|]; [|discriminate]. apply IH. exact H.
Qed.

Lemma replay_event_steps s e s' : replay_event s e = Some s' -> exists l, steps s l = Some s'.
Proof.
  unfold replay_event. destruct (expand s e) as [acts|]; [|discriminate].
  destruct (steps s acts) as [s1|] eqn:E; [|discriminate]. destruct (observe s1 e); [|discriminate].
  intros H. inversion H; subst. exists acts. exact E.
Qed.

Lemma replay_from_steps tr : forall i s s', replay_from i s tr = inl s' -> exists l, steps s l = Some s'.
Proof.
  induction tr as [|e r IH]; cbn [replay_from]; intros i s s' H.
  - inversion H; subst. exists []. reflexivity.
  - destruct (replay_event s e) as [s1|] eqn:E; [|discriminate].
    destruct (replay_event_steps s e s1 E) as [l1 H1]. destruct (IH _ _ _ H) as [l2 H2].
    exists (l1 ++ l2). rewrite (steps_app l1 s s1 l2 H1). exact H2.
Qed.

Theorem replay_reachable tr s : replay tr = inl s -> reachable s.
Proof. unfold replay. intros H. exact (replay_from_steps tr 0 init s H). Qed.

(* an accepted log ends in a reachable quiescent state, of which exactly-once holds *)
Theorem accepts_exactly_once tr : accepts tr = true ->
  exists s, replay tr = inl s /\ reachable s /\ exactly_once_b (obs_of_state s) = true.
Proof.
  unfold accepts. destruct (replay tr) as [s|n] eqn:E; [|discriminate]. intros _.
  exists s. split; [reflexivity|]. pose proof (replay_reachable tr s E) as R. split; [exact R|apply exactly_once_obs; exact R].
Qed.

(* ---------------- repeated releases (Unblock called again on a released block) ---------------- *)
(* [reachable] quantifies over ALL action lists, so every theorem above already covers the
   interleavings that contain repeated releases; the statements below say what a repeated release is
   (nothing), that it can be inserted wherever its goroutine is outside a block, and that a run with
   any number of them ends in exactly the state of the run without them. *)
Theorem release_again_noop s g s' : step s (AGReleaseAgain g) = Some s' -> s' = s /\ ~ in_block s g.
Proof.
  unfold step. destruct (alookup g (gors s)) as [gc|] eqn:Hg; [discriminate|]. intros H. inversion H; subst.
  split; [reflexivity|]. intros [gc Hgc]. congruence.
Qed.

Theorem release_again_enabled s g : ~ in_block s g -> step s (AGReleaseAgain g) = Some s.
Proof.
  intros Hn. unfold step. destruct (alookup g (gors s)) as [gc|] eqn:Hg; [|reflexivity].
  exfalso. apply Hn. exists gc. exact Hg.
Qed.

Definition is_again (a : action) : bool := match a with AGReleaseAgain _ => true | _ => false end.
Definition without_repeats (l : list action) : list action := filter (fun a => negb (is_again a)) l.

Lemma steps_without_repeats l : forall s s', steps s l = Some s' -> steps s (without_repeats l) = Some s'.
Proof.
  induction l as [|a r IH]; intros s s' H; [exact H|].
  cbn [steps] in H. destruct (step s a) as [s1|] eqn:E; [|discriminate].
  unfold without_repeats. cbn [filter]. destruct (is_again a) eqn:A; cbn [negb].
  - destruct a; try discriminate. apply release_again_noop in E. destruct E as [-> _].
    apply IH. exact H.
  - cbn [steps]. rewrite E. apply IH. exact H.
Qed.

Theorem repeated_release_insert l1 l2 s1 s g :
  steps init l1 = Some s1 -> ~ in_block s1 g -> steps s1 l2 = Some s ->
  steps init (l1 ++ AGReleaseAgain g :: l2) = Some s.
Proof.
  intros H1 Hn H2. rewrite (steps_app l1 init s1 _ H1). cbn [steps].
  rewrite (release_again_enabled s1 g Hn). exact H2.
Qed.

Theorem repeated_release_harmless l s : steps init l = Some s ->
  steps init (without_repeats l) = Some s /\
  readers s = length (gors s) /\
  exactly_once_b (obs_of_state s) = true /\
  (forall p c, In p (active s) -> In c (store s) ->
     ((In c (snapshot_of s p) /\ ~ In (p, c) (recv s)) \/ (~ In c (snapshot_of s p) /\ In (p, c) (recv s)))
     /\ count_occ pair_dec (recv s) (p, c) <= 1) /\
  ((0 < readers s)%nat ->
     (forall p, ~ in_exclusive s p) /\
     (forall p, step s (APAcquire p) = None /\ step s (APSnapshot p) = None /\ step s (APActivate p) = None)).
Proof.
  intros H. assert (R : reachable s) by (exists l; exact H).
  split; [apply steps_without_repeats; exact H|].
  split; [apply (i_readers s (reachable_inv s R))|].
  split; [apply exactly_once_obs; exact R|].
  split; [intros p c; apply exactly_once; exact R|].
  apply blocked_while_held. exact R.
Qed.

(* a repeated release while another goroutine holds a block: that block stays held, and every
   registration stays out, in the state after the repeated release as well *)
Theorem release_again_keeps_blocked s g h s' : reachable s -> in_block s h ->
  step s (AGReleaseAgain g) = Some s' ->
  g <> h /\ in_block s' h /\ readers s' = readers s /\ (0 < readers s')%nat /\
  (forall p, ~ in_exclusive s' p) /\
  (forall p, step s' (APAcquire p) = None /\ step s' (APSnapshot p) = None /\ step s' (APActivate p) = None).
Proof.
  intros R Hh H. destruct (release_again_noop s g s' H) as [-> Hn].
  destruct (lock_invariant s R) as (_ & _ & _ & _ & Hb). destruct (Hb h Hh) as [_ Hr].
  split; [intros ->; contradiction|]. split; [exact Hh|]. split; [reflexivity|]. split; [exact Hr|].
  apply blocked_while_held; assumption.
Qed.

(* ---------------- failing registrations (syncFn returns an error) ---------------- *)
Lemma reachable_step s a s' : reachable s -> step s a = Some s' -> reachable s'.
Proof.
  intros [l H] E. exists (l ++ [a]). rewrite (steps_app l init s _ H). cbn [steps]. rewrite E. reflexivity.
Qed.

Lemma reachable_steps l : forall s s', reachable s -> steps s l = Some s' -> reachable s'.
Proof.
  induction l as [|a r IH]; cbn [steps]; intros s s' R H.
  - inversion H; subst. exact R.
  - destruct (step s a) as [s1|] eqn:E; [|discriminate]. eapply IH; [|exact H]. eapply reachable_step; eauto.
Qed.

Lemma exclusive_free s p pc : Inv s -> alookup p (plugs s) = Some pc -> holder pc = true ->
  writer s = true /\ gors s = [] /\ readers s = 0 /\ mutex s = None.
Proof.
  intros I Hp Hh. pose proof (writer_of_holder s p pc I Hp Hh) as W. pose proof (i_wr s I W) as G.
  assert (Hr : readers s = 0) by (rewrite (i_readers s I), G; reflexivity).
  destruct (no_reader_free s I Hr) as [_ M]. auto.
Qed.

(* whatever makes the synchronisation fail — before or after the runtime read its store —, the
   exclusive section is given up, the plugin is not and never will be active, blocks can be taken
   again and every waiting registration can run to completion *)
Theorem failed_registration_frees_section s p : reachable s ->
  (alookup p (plugs s) = Some PHoldW \/ exists ids, alookup p (plugs s) = Some (PSnapshot ids)) ->
  exists s', step s (APFail p) = Some s' /\ reachable s' /\ writer s' = false /\ readers s' = 0 /\
    alookup p (plugs s') = Some PFailed /\ ~ In p (active s') /\ active s' = active s /\ store s' = store s /\
    (forall g, exists s'', step s' (AGAcquire g) = Some s'') /\
    (forall q, alookup q (plugs s') = Some PWaitW ->
       exists s'', steps s' [APAcquire q; APSnapshot q; APActivate q; APRelease q] = Some s'' /\ In q (active s'')).
Proof.
  intros R Hp. pose proof (reachable_inv s R) as I.
  assert (Hx : exists pc, alookup p (plugs s) = Some pc /\ holder pc = true /\ is_active_pc pc = false /\
                          step s (APFail p) = Some (set_writer (set_plug s p PFailed) false)).
  { destruct Hp as [Hp|[ids Hp]]; eexists; (split; [exact Hp|]); (split; [reflexivity|]); (split; [reflexivity|]);
      unfold step; rewrite Hp; reflexivity. }
  destruct Hx as (pc & Hpc & Hh & Hna & E).
  destruct (exclusive_free s p pc I Hpc Hh) as (W & G & Hr & M).
  exists (set_writer (set_plug s p PFailed) false). split; [exact E|].
  assert (R' : reachable (set_writer (set_plug s p PFailed) false)) by (eapply reachable_step; eauto).
  split; [exact R'|]. fields. split; [reflexivity|]. split; [exact Hr|].
  split; [apply alookup_aset_same|]. split.
  - intros Hi. apply (i_active s I) in Hi. destruct Hi as [pc' [Hp' Ha]]. congruence.
  - split; [reflexivity|]. split; [reflexivity|]. split.
    + intros g. unfold step. fields. rewrite G. cbn [alookup]. eexists. reflexivity.
    + intros q Hq. destruct (registration_completes _ q R' Hr eq_refl Hq) as (s'' & H1 & H2 & _).
      exists s''. auto.
Qed.

Theorem failed_never_served s p : reachable s -> alookup p (plugs s) = Some PFailed ->
  ~ in_exclusive s p /\ ~ In p (active s) /\ (forall c, ~ In (p, c) (recv s)) /\
  (forall a, a <> APArrive p -> In a [APAcquire p; APSnapshot p; APFail p; APActivate p; APRelease p; APClose p; APAbandon p] -> step s a = None).
Proof.
  intros R Hp. pose proof (reachable_inv s R) as I. split; [|split; [|split]].
  - intros (pc & Hp' & Hh). rewrite Hp in Hp'. inversion Hp'; subst. discriminate.
  - intros Hi. apply (i_active s I) in Hi. destruct Hi as [pc [Hp' Ha]]. rewrite Hp in Hp'. inversion Hp'; subst. discriminate.
  - intros c Hr. destruct (i_recv s I p c Hr) as [[pc [Hp' He]] _]. rewrite Hp in Hp'. inversion Hp'; subst. discriminate.
  - intros a _ Ha. cbn [In] in Ha. destruct Ha as [<-|[<-|[<-|[<-|[<-|[<-|[<-|[]]]]]]]]; unfold step; rewrite Hp; reflexivity.
Qed.

(* the holder of the exclusive section never has to wait for anybody: its success path is enabled
   step by step (the failure path is failed_registration_frees_section) *)
Theorem section_always_released s q : reachable s -> in_exclusive s q ->
  exists l s', incl l [APSnapshot q; APActivate q; APRelease q] /\ steps s l = Some s' /\
               writer s' = false /\ In q (active s').
Proof.
  intros R (pc & Hq & Hh). pose proof (reachable_inv s R) as I.
  destruct (exclusive_free s q pc I Hq Hh) as (W & G & Hr & M).
  destruct pc; try discriminate.
  - exists [APSnapshot q; APActivate q; APRelease q]. eexists. split; [apply incl_refl|].
    cbn [steps]. unfold step at 1. rewrite Hq.
    unfold step at 1. fields. rewrite alookup_aset_same, M.
    unfold step at 1. fields. rewrite alookup_aset_same.
    split; [reflexivity|]. fields. split; [reflexivity|]. apply in_app_iff. right. left. reflexivity.
  - exists [APActivate q; APRelease q]. eexists. split; [intros a [<-|[<-|[]]]; cbn; auto|].
    cbn [steps]. unfold step at 1. rewrite Hq, M.
    unfold step at 1. fields. rewrite alookup_aset_same.
    split; [reflexivity|]. fields. split; [reflexivity|]. apply in_app_iff. right. left. reflexivity.
  - exists [APRelease q]. eexists. split; [intros a [<-|[]]; cbn; auto|].
    cbn [steps]. unfold step at 1. rewrite Hq.
    split; [reflexivity|]. fields. split; [reflexivity|]. apply (i_active s I). eexists. split; [exact Hq|reflexivity].
Qed.

(* for ALL interleavings, with any number of failing registrations among the successful ones *)
Theorem failing_registrations_harmless l s : steps init l = Some s ->
  (forall p, alookup p (plugs s) = Some PFailed ->
     ~ in_exclusive s p /\ ~ In p (active s) /\ forall c, ~ In (p, c) (recv s)) /\
  (writer s = true <-> exists p, in_exclusive s p) /\
  exactly_once_b (obs_of_state s) = true /\
  (readers s = 0 -> forall p, alookup p (plugs s) = Some PWaitW ->
     (exists s', step s (APAcquire p) = Some s') \/
     (exists q a s', q <> p /\ in_exclusive s q /\ In a [APSnapshot q; APActivate q; APRelease q] /\ step s a = Some s')) /\
  (readers s = 0 -> writer s = false -> forall p, alookup p (plugs s) = Some PWaitW ->
     exists s', steps s [APAcquire p; APSnapshot p; APActivate p; APRelease p] = Some s' /\ In p (active s')).
Proof.
  intros H. assert (R : reachable s) by (exists l; exact H). split; [|split; [|split; [|split]]].
  - intros p Hp. destruct (failed_never_served s p R Hp) as (A & B & C & _). auto.
  - apply (lock_invariant s R).
  - apply exactly_once_obs. exact R.
  - intros Hr p Hp. apply release_enables; assumption.
  - intros Hr W p Hp. destruct (registration_completes s p R Hr W Hp) as (s' & H1 & H2 & _). exists s'. auto.
Qed.

(* ---------------- closed instances and re-registration under the same name ---------------- *)
(* a closed instance is on r.plugins (listed) but not live: it is never handed anything again *)
Theorem closed_instance_listed_not_live s z : reachable s -> In z (zombies s) ->
  (exists ids, alookup z (plugs s) = Some (PClosed ids)) /\ ~ In z (active s) /\ In z (listed s).
Proof.
  intros R Hz. pose proof (reachable_inv s R) as I. destruct (i_zomb s I z Hz) as [ids Hq].
  split; [exists ids; exact Hq|]. split.
  - intros Hi. apply (i_active s I) in Hi. destruct Hi as [pc [Hp Ha]]. rewrite Hq in Hp. inversion Hp; subst. discriminate.
  - unfold listed. apply in_app_iff. right. exact Hz.
Qed.

(* a fresh instance [p] is activated while a closed instance [z] is still listed — WHATEVER their names, in
   particular when name_of p = name_of z: the clean-up that runs at the activation removes the closed instance
   and keeps the fresh one, which is then active *)
Theorem reregistration_keeps_fresh_instance s p z ids : reachable s -> In z (zombies s) ->
  alookup p (plugs s) = Some (PSnapshot ids) ->
  exists s', step s (APActivate p) = Some s' /\ reachable s' /\
             In p (active s') /\ In p (listed s') /\ ~ In z (listed s') /\ zombies s' = [] /\ z <> p.
Proof.
  intros R Hz Hp. pose proof (reachable_inv s R) as I.
  destruct (exclusive_free s p _ I Hp eq_refl) as (W & G & Hr & M).
  destruct (closed_instance_listed_not_live s z R Hz) as ([ids' Hq] & Hna & _).
  assert (E : step s (APActivate p) = Some
    {| readers := readers s; writer := writer s; mutex := None; store := store s; active := active s ++ [p];
       plugs := aset p (PActivated ids) (plugs s); gors := gors s; recv := recv s; used := used s; zombies := [] |}).
  { unfold step. rewrite Hp, M. reflexivity. }
  eexists. split; [exact E|]. split; [eapply reachable_step; eauto|]. unfold listed. fields.
  assert (Hne : z <> p) by (intros ->; congruence).
  split; [apply in_app_iff; right; left; reflexivity|].
  split; [rewrite app_nil_r; apply in_app_iff; right; left; reflexivity|].
  split; [|split; [reflexivity|exact Hne]].
  rewrite app_nil_r, in_app_iff. intros [Hi|[Hi|[]]]; [contradiction|congruence].
Qed.

(* ... and from then on it learns of every container exactly once (this is C08_exactly_once for the
   instance p; stated for the record: the earlier instance of the same name plays no role) *)
Theorem reregistered_instance_exactly_once s p c : reachable s -> In p (active s) -> In c (store s) ->
  (In c (snapshot_of s p) /\ ~ In (p, c) (recv s)) \/ (~ In c (snapshot_of s p) /\ In (p, c) (recv s)).
Proof. intros R Hp Hc. apply (exactly_once s p c R Hp Hc). Qed.

(* a log that ends quiescent: every plugin instance that connected is registered, or failed, or closed *)
Lemma alookup_In_pair {V} k (v : V) l : alookup k l = Some v -> In (k, v) l.
Proof.
  induction l as [|[k' v'] r IH]; cbn [alookup]; intros H; [discriminate|].
  destruct (String.eqb_spec k k') as [->|Hne]; [inversion H; left; reflexivity|right; apply IH; exact H].
Qed.

Theorem accepted_all_settled tr : accepts tr = true ->
  exists s, replay tr = inl s /\ readers s = 0 /\ writer s = false /\
    forall p pc, alookup p (plugs s) = Some pc ->
      In p (active s) \/ pc = PFailed \/ exists ids, pc = PClosed ids.
Proof.
  unfold accepts. destruct (replay tr) as [s|n] eqn:E; [|discriminate]. intros Q.
  exists s. split; [reflexivity|]. pose proof (reachable_inv s (replay_reachable tr s E)) as I.
  unfold quiescent in Q. repeat (apply andb_prop in Q; destruct Q as [Q ?]).
  split; [apply Nat.eqb_eq; assumption|]. split; [apply negb_true_iff; assumption|].
  intros p pc Hp. match goal with F : forallb _ (plugs s) = true |- _ => rewrite forallb_forall in F; specialize (F (p, pc) (alookup_In_pair p pc _ Hp)); cbn [snd] in F end.
  destruct pc; try discriminate.
  - left. apply (i_active s I). eexists. split; [exact Hp|reflexivity].
  - right. right. eexists. reflexivity.
  - right. left. reflexivity.
Qed.

(* ---------------- a pending registration does not age ---------------- *)
(* The model has no clock and no deadline: the time a registration spends waiting for the exclusive section
   is the number of steps the others take meanwhile.  Whatever they do and however long it takes, the waiting
   plugin is still waiting, and as soon as no block is held (and nobody else is in the section) its
   registration runs to completion with the store of THAT moment as its snapshot. *)
Lemma step_keeps_waiting s a s' p : step s a = Some s' -> a <> APAcquire p -> a <> APAbandon p ->
  alookup p (plugs s) = Some PWaitW -> alookup p (plugs s') = Some PWaitW.
Proof.
  intros H Ha Hb Hp.
  destruct a as [q|q|q|q|q|q|q|q|g|g c|g q|g|g|g|g];
    try (destruct (String.eqb_spec q p) as [->|Hne];
         [ try (exfalso; apply Ha; reflexivity); try (exfalso; apply Hb; reflexivity); unfold step in H; rewrite Hp in H; try discriminate
         | open_step H; fields; try (rewrite alookup_aset_other by congruence); exact Hp ]);
    try (open_step H; fields; exact Hp).
Qed.

Lemma steps_keep_waiting l : forall s s' p, steps s l = Some s' -> ~ In (APAcquire p) l -> ~ In (APAbandon p) l ->
  alookup p (plugs s) = Some PWaitW -> alookup p (plugs s') = Some PWaitW.
Proof.
  induction l as [|a r IH]; cbn [steps]; intros s s' p H Hn Hm Hp.
  - inversion H; subst. exact Hp.
  - destruct (step s a) as [s1|] eqn:E; [|discriminate].
    apply (IH s1 s' p H); [intros Hi; apply Hn; right; exact Hi|intros Hi; apply Hm; right; exact Hi|].
    apply (step_keeps_waiting s a s1 p E); [intros ->; apply Hn; left; reflexivity|intros ->; apply Hm; left; reflexivity|exact Hp].
Qed.

Theorem pending_registration_ageless s l s' p : reachable s -> alookup p (plugs s) = Some PWaitW ->
  steps s l = Some s' -> ~ In (APAcquire p) l -> ~ In (APAbandon p) l ->
  alookup p (plugs s') = Some PWaitW /\
  (readers s' = 0 -> writer s' = false ->
     exists s'', steps s' [APAcquire p; APSnapshot p; APActivate p; APRelease p] = Some s'' /\
                 In p (active s'') /\ alookup p (plugs s'') = Some (PDone (store s')) /\
                 writer s'' = false /\ store s'' = store s').
Proof.
  intros R Hp H Hn Hm. pose proof (steps_keep_waiting l s s' p H Hn Hm Hp) as Hp'. split; [exact Hp'|].
  intros Hr W. apply registration_completes; try assumption. eapply reachable_steps; eauto.
Qed.

(* ---------------- each registration delivers at most one snapshot ---------------- *)
Definition past_snapshot (pc : ppc) : bool := match pc with PWaitW | PHoldW => false | _ => true end.
Definition sent_snapshot (s : state) (p : pid) : Prop :=
  exists pc, alookup p (plugs s) = Some pc /\ past_snapshot pc = true.

Definition action_eq_dec : forall a b : action, {a = b} + {a <> b}.
Proof. decide equality; apply string_dec. Defined.

Lemma snapshot_step_marks s p s' : step s (APSnapshot p) = Some s' -> ~ sent_snapshot s p /\ sent_snapshot s' p.
Proof.
  intros H. unfold step in H. destruct (alookup p (plugs s)) as [pc|] eqn:Hp; [|discriminate].
  destruct pc; try discriminate. inversion H; subst. split.
  - intros (pc & Hp' & Hs). rewrite Hp in Hp'. inversion Hp'; subst. discriminate.
  - eexists. fields. rewrite alookup_aset_same. split; reflexivity.
Qed.

Lemma sent_snapshot_stable s a s' p : step s a = Some s' -> sent_snapshot s p -> sent_snapshot s' p.
Proof.
  intros H (pc & Hp & Hs).
  destruct a as [q|q|q|q|q|q|q|q|g|g c|g q|g|g|g|g];
    try (destruct (String.eqb_spec q p) as [->|Hne];
         [ unfold step in H; rewrite Hp in H; destruct pc; try discriminate;
           repeat match type of H with context [match ?x with _ => _ end] => destruct x; try discriminate end;
           inversion H; subst; eexists; fields; rewrite ?alookup_aset_same; split; reflexivity
         | open_step H; unfold sent_snapshot; fields; exists pc; rewrite ?alookup_aset_other by congruence; auto ]);
    try (open_step H; unfold sent_snapshot; fields; exists pc; auto).
Qed.

Lemma one_snapshot_from l : forall s s' p, steps s l = Some s' ->
  (sent_snapshot s p -> count_occ action_eq_dec l (APSnapshot p) = 0) /\
  count_occ action_eq_dec l (APSnapshot p) <= 1.
Proof.
  induction l as [|a r IH]; cbn [steps]; intros s s' p H; [cbn; split; auto|].
  destruct (step s a) as [s1|] eqn:E; [|discriminate]. destruct (IH s1 s' p H) as [IH1 IH2].
  cbn [count_occ]. destruct (action_eq_dec a (APSnapshot p)) as [->|Hne].
  - destruct (snapshot_step_marks s p s1 E) as [Hn Hs]. split; [intros Hc; contradiction|].
    rewrite (IH1 Hs). lia.
  - split; [|exact IH2]. intros Hs. apply IH1. eapply sent_snapshot_stable; eauto.
Qed.

(* in every run of the LTS the snapshot step of a plugin instance occurs at most once: a registration whose
   synchronisation failed is not synchronised again, a registered one neither *)
Theorem one_snapshot_per_registration l s p : steps init l = Some s ->
  count_occ action_eq_dec l (APSnapshot p) <= 1.
Proof. intros H. apply (one_snapshot_from l init s p H). Qed.

(* ... and what it was sent has no duplicates *)
Theorem snapshot_without_duplicates s p : reachable s -> NoDup (snapshot_of s p) /\ NoDup (store s).
Proof.
  intros R. pose proof (reachable_inv s R) as I. split; [|apply (i_stnodup s I)].
  unfold snapshot_of. destruct (alookup p (plugs s)) as [pc|] eqn:Hp; [apply (i_snapnd s I p pc Hp)|constructor].
Qed.

(* ---------------- an abandoned waiter ---------------- *)
(* giving up a registration that is still waiting for the exclusive section is the identity on everything but
   the waiter's own program counter — the lock is as if it had never asked — and whatever could happen before
   can happen after: blocks are granted, and once the last block is released every other waiting registration
   runs to completion *)
Theorem abandoned_waiter_leaves_no_trace s p s' : reachable s -> step s (APAbandon p) = Some s' ->
  reachable s' /\ alookup p (plugs s) = Some PWaitW /\ alookup p (plugs s') = Some PFailed /\
  readers s' = readers s /\ writer s' = writer s /\ mutex s' = mutex s /\ gors s' = gors s /\
  store s' = store s /\ active s' = active s /\ recv s' = recv s /\
  (forall q, q <> p -> alookup q (plugs s') = alookup q (plugs s)) /\
  (forall g s1, step s (AGAcquire g) = Some s1 -> exists s1', step s' (AGAcquire g) = Some s1') /\
  (readers s' = 0 -> writer s' = false -> forall q, alookup q (plugs s') = Some PWaitW ->
     exists s'', steps s' [APAcquire q; APSnapshot q; APActivate q; APRelease q] = Some s'' /\ In q (active s'')).
Proof.
  intros R H. assert (R' : reachable s') by (eapply reachable_step; eauto).
  split; [exact R'|]. unfold step in H. destruct (alookup p (plugs s)) as [pc|] eqn:Hp; [|discriminate].
  destruct pc; try discriminate. inversion H; subst. fields.
  split; [reflexivity|]. split; [apply alookup_aset_same|]. repeat (split; [reflexivity|]).
  split; [intros q Hne; apply alookup_aset_other; exact Hne|]. split.
  - intros g s1 E. unfold step in E |- *. fields.
    destruct (alookup g (gors s)); [discriminate|]. destruct (writer s); [discriminate|]. eexists. reflexivity.
  - intros Hr W q Hq. destruct (registration_completes _ q R' Hr W Hq) as (s'' & H1 & H2 & _). exists s''. auto.
Qed.

Lemma aset_aset_same {V} k (v v' : V) l : aset k v (aset k v' l) = aset k v l.
Proof.
  induction l as [|[k' w] r IH]; cbn [aset].
  - rewrite String.eqb_refl. reflexivity.
  - destruct (String.eqb_spec k k') as [->|Hne]; cbn [aset].
    + rewrite String.eqb_refl. reflexivity.
    + destruct (String.eqb_spec k k'); [contradiction|]. f_equal. exact IH.
Qed.

(* the code's own way — keep waiting, take the section, fail at once, give it up — ends in the same lock state *)
Theorem abandon_equals_acquire_then_fail s p : reachable s -> alookup p (plugs s) = Some PWaitW ->
  readers s = 0 -> writer s = false ->
  exists s1 s2, steps s [APAcquire p; APFail p] = Some s1 /\ step s (APAbandon p) = Some s2 /\ s1 = s2.
Proof.
  intros R Hp Hr W. eexists. eexists. cbn [steps]. unfold step at 1. rewrite Hp, Hr, W. cbn [Nat.eqb negb andb].
  unfold step at 1. fields. rewrite alookup_aset_same. unfold step. rewrite Hp.
  split; [reflexivity|]. split; [reflexivity|]. unfold set_writer, set_plug. fields.
  rewrite aset_aset_same. destruct s; cbn in *. subst. reflexivity.
Qed.

(* ---------------- block acquisition has no time bound ---------------- *)
(* While a registration is inside the exclusive section no block is granted — and that stays so for as long
   as the registration has neither finished nor failed, whatever else happens and however long it takes. *)
Lemma step_keeps_exclusive s a s' q : step s a = Some s' -> a <> APFail q -> a <> APRelease q ->
  in_exclusive s q -> in_exclusive s' q.
Proof.
  intros H Hf Hr (pc & Hq & Hh). unfold in_exclusive.
  destruct a as [p|p|p|p|p|p|p|p|g|g c|g p|g|g|g|g];
    try (destruct (String.eqb_spec p q) as [->|Hne];
         [ try (exfalso; apply Hf; reflexivity); try (exfalso; apply Hr; reflexivity);
           unfold step in H; rewrite Hq in H; destruct pc; try discriminate;
           repeat match type of H with context [match ?x with _ => _ end] => destruct x; try discriminate end;
           inversion H; subst; eexists; fields; rewrite ?alookup_aset_same; split; reflexivity
         | open_step H; fields; exists pc; rewrite ?alookup_aset_other by congruence; auto ]);
    try (open_step H; fields; exists pc; auto).
Qed.

Theorem no_block_during_section l : forall s s' q, reachable s -> in_exclusive s q ->
  steps s l = Some s' -> ~ In (APFail q) l -> ~ In (APRelease q) l ->
  in_exclusive s' q /\ writer s' = true /\ readers s' = 0 /\ (forall g, step s' (AGAcquire g) = None).
Proof.
  induction l as [|a r IH]; cbn [steps]; intros s s' q R Hx H Hf Hr.
  - inversion H; subst. destruct Hx as (pc & Hq & Hh). pose proof (reachable_inv s' R) as I.
    destruct (exclusive_free s' q pc I Hq Hh) as (W & G & Hrd & M).
    split; [exists pc; auto|]. split; [exact W|]. split; [exact Hrd|].
    intros g. unfold step. rewrite G, W. reflexivity.
  - destruct (step s a) as [s1|] eqn:E; [|discriminate].
    apply (IH s1 s' q); try assumption.
    + eapply reachable_step; eauto.
    + apply (step_keeps_exclusive s a s1 q E); [intros ->; apply Hf; left; reflexivity|intros ->; apply Hr; left; reflexivity|exact Hx].
    + intros Hi. apply Hf. right. exact Hi.
    + intros Hi. apply Hr. right. exact Hi.
Qed.
