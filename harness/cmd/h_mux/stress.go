package main

import (
	"fmt"
	"net"
	"runtime"
	"time"

	"github.com/containerd/nri/pkg/net/multiplex"

	"verif/harness/internal/hx"
)

// C11, stream muxfault_closestress: a logical connection (or the listener wrapping it) is closed at one end
// while the other end is still sending frames on that id — thousands of open / burst / close cycles on several
// processors.  The trunk reader looks a connection up and sends into its queue in two steps; a Close may fall
// in between.  The scenario runs in the re-executed child process like every other one: a panic of the
// multiplexer ("send on closed channel") kills the child and is reported as an observation, with the child's
// stderr, not as a crash of the driver.

type stressScn struct {
	Transport string `json:"transport"`
	Mode      string `json:"mode"` // "conn": conn.Close; "listener": Listen + Accept, then Listener.Close
	Burst     int    `json:"burst"`
	QLen      int    `json:"qlen"`
	MaxCycles int    `json:"maxcycles"`
	MaxMs     int    `json:"maxms"`
}

type stressObs struct {
	Cycles int    `json:"cycles"`
	Fail   string `json:"fail,omitempty"`
	Hung   bool   `json:"hung,omitempty"`
}

func execStress(s *stressScn) *stressObs {
	o := &stressObs{}
	if runtime.GOMAXPROCS(0) < 4 {
		runtime.GOMAXPROCS(4)
	}
	ca, cb, err := connPair(s.Transport)
	if err != nil {
		o.Fail = "harness: transport: " + err.Error()
		return o
	}
	defer ca.Close()
	defer cb.Close()
	ma := multiplex.Multiplex(ca, multiplex.WithReadQueueLength(s.QLen))
	mb := multiplex.Multiplex(cb, multiplex.WithReadQueueLength(s.QLen))
	defer ma.Close()
	defer mb.Close()
	const id = 7
	wb, err := mb.Open(id)
	if err != nil {
		o.Fail = "Open: " + err.Error()
		return o
	}
	tokens := make(chan struct{})
	burstDone := make(chan error, 1)
	go func() {
		msg := []byte("0123456789abcdef")
		for range tokens {
			var werr error
			for k := 0; k < s.Burst && werr == nil; k++ {
				_, werr = wb.Write(msg)
			}
			burstDone <- werr
		}
	}()
	defer close(tokens)
	wait := func(what string, ch <-chan struct{}) bool {
		select {
		case <-ch:
			return true
		case <-time.After(opBound):
			o.Fail, o.Hung = what+" did not return", true
			return false
		}
	}
	end := time.Now().Add(time.Duration(s.MaxMs) * time.Millisecond)
	for o.Cycles < s.MaxCycles && time.Now().Before(end) {
		var cn net.Conn
		var l net.Listener
		if s.Mode == "listener" {
			if l, err = ma.Listen(id); err == nil {
				cn, err = l.Accept()
			}
		} else {
			cn, err = ma.Open(id)
		}
		if err != nil || cn == nil {
			o.Fail = fmt.Sprintf("cycle %d: Open/Listen/Accept: %v", o.Cycles, err)
			return o
		}
		rdone := make(chan struct{})
		go func() {
			buf := make([]byte, 64)
			for {
				if _, err := cn.Read(buf); err != nil {
					break
				}
			}
			close(rdone)
		}()
		tokens <- struct{}{}
		for k := 0; k < o.Cycles%9; k++ {
			runtime.Gosched() // the Close falls somewhere inside the burst
		}
		cdone := make(chan struct{})
		go func() {
			if l != nil {
				l.Close()
			} else {
				cn.Close()
			}
			close(cdone)
		}()
		if !wait("Close of a connection the peer is sending on", cdone) {
			return o
		}
		select {
		case werr := <-burstDone:
			if werr != nil {
				o.Fail = fmt.Sprintf("cycle %d: the peer's Write failed although only one connection was closed: %v", o.Cycles, werr)
				return o
			}
		case <-time.After(opBound):
			o.Fail, o.Hung = "the peer's Writes did not return", true
			return o
		}
		if !wait("Read on the closed connection", rdone) {
			return o
		}
		o.Cycles++
	}
	// the Mux has survived: a fresh connection still carries data
	a9, err1 := ma.Open(9)
	b9, err2 := mb.Open(9)
	if err1 != nil || err2 != nil {
		o.Fail = fmt.Sprintf("Open after the cycles: %v %v", err1, err2)
		return o
	}
	got := make(chan struct{})
	go func() {
		buf := make([]byte, 16)
		if n, err := a9.Read(buf); err == nil && string(buf[:n]) == "alive" {
			close(got)
		}
	}()
	if _, err := b9.Write([]byte("alive")); err != nil {
		o.Fail = "Write after the cycles: " + err.Error()
		return o
	}
	if !wait("the Read of a frame sent after the cycles", got) {
		o.Fail = "after the cycles a fresh connection did not deliver a frame"
	}
	return o
}

func genStress(c *hx.Ctx) []scenario {
	var out []scenario
	for _, transport := range []string{"pipe", "unix"} {
		for _, mode := range []string{"conn", "listener"} {
			out = append(out, scenario{K: &stressScn{Transport: transport, Mode: mode, Burst: 48, QLen: 256,
				MaxCycles: 400000, MaxMs: c.Pick(2000, 8000)}})
		}
	}
	return out
}

func emitStress(c *hx.Ctx, idx int, s *stressScn, r scnResult) {
	const stream = "muxfault_closestress"
	raw := map[string]interface{}{"scenario": s, "index": idx}
	key := fmt.Sprint(stream, "/", s.Transport, "/", s.Mode)
	if r.Skip {
		c.Count("skipped_after_hanging_scenarios", 1)
		return
	}
	if r.Crash != "" {
		raw["crash"] = r.Crash
		c.ImplFail(stream, "closing a connection while the peer was sending on it panicked or killed the process: "+crashKind(r.Crash), raw)
		c.Eval(key, true)
		return
	}
	if r.K == nil {
		c.HarnessError("%s scenario %d: no result", stream, idx)
		return
	}
	raw["observed"] = r.K
	c.Count(stream+".cycles."+s.Mode, r.K.Cycles)
	if f := r.K.Fail; f != "" {
		if len(f) >= 8 && f[:8] == "harness:" {
			c.HarnessError("%s scenario %d: %s", stream, idx, f)
			return
		}
		c.ImplFail(stream, f, raw)
	} else if r.K.Cycles < 100 {
		c.HarnessError("%s scenario %d: only %d cycles in %d ms", stream, idx, r.K.Cycles, s.MaxMs)
	}
	c.Eval(key, true)
}
