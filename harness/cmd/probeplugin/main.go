// probeplugin is the probe installed (under many names) as a pre-installed NRI plugin by
// the C18 driver of h_launch; see internal/probe.
package main

import "verif/harness/internal/probe"

func main() { probe.Main() }
