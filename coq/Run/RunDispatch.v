(* Case records written by harness/cmd/h_dispatch and the functions ./check evaluates
   on them:  corr_* = the dispatch model (Model/Dispatch.v, token instance of
   Spec/DispatchSpec.v) run on the case's input yields the implementation's projected
   observation;  holds_* = the property's executable predicate (Spec/DispatchSpec.v) is
   true of the implementation's observation. *)
From Coq Require Import String Ascii List Bool ZArith NArith Arith.
From NRI Require Import Base.Strs Base.Assoc Model.Consts Model.Event Model.DispConsts Model.Dispatch
  Spec.DispatchSpec Run.Common.
Import ListNotations.
Open Scope string_scope.
Open Scope list_scope.

Definition model_T : N := 1000%N.

Definition reply_of (ev : Z) (p : plugin) : call_result string :=
  Reply (if has_response ev then p_name p else "").

(* ================================================================== *)
(** * events (C06) *)

Record ev_case := {
  ec_plugins : list ev_plugin;
  ec_sigma : list tk_req;
  ec_log : list (N * N);
  ec_results : list (option string * list string)
}.

(* RegisterPlugin + configure: a plugin with an invalid index or a mask with bits outside
   ValidEvents never becomes part of the list *)
Definition mk_plugin (p : ev_plugin) : option plugin :=
  if check_index (ep_idx p) then
    match configure_events (ep_raw p) with
    | Some m => Some {| p_id := ep_id p; p_idx := ep_idx p; p_name := ep_name p; p_events := m; p_closed := false |}
    | None => None
    end
  else None.

Definition regs_at (k : nat) (pl : list ev_plugin) : list (action tk_req string) :=
  flat_map (fun p => if Nat.eqb (ep_reg p) k
                     then match mk_plugin p with Some q => [ARegister q] | None => [] end
                     else []) pl.

Definition ok_handler (ev : Z) (p : plugin) : call string := {| c_res := reply_of ev p; c_dur := 0%N; c_in_write := false |}.

(* plugins that stopped before request k was issued *)
Definition gone_at (k : nat) (pl : list ev_plugin) : list (action tk_req string) :=
  flat_map (fun p => if Nat.eqb (ep_gone p) k then [ADisconnect (ep_id p)] else []) pl.

Fixpoint build_actions (k : nat) (sigma : list tk_req) (pl : list ev_plugin) : list (action tk_req string) :=
  regs_at k pl ++ gone_at k pl ++
  match sigma with
  | [] => []
  | rq :: r => ARequest rq (ok_handler (snd rq)) :: build_actions (S k) r pl
  end.

(* ties between equal indices are unordered: compare blocks after sorting by (index, id) *)
Definition key_ltb (pl : list ev_plugin) (a b : N) : bool :=
  match find_plugin a pl, find_plugin b pl with
  | Some pa, Some pb =>
      (str_ltb (ep_idx pa) (ep_idx pb) || (String.eqb (ep_idx pa) (ep_idx pb) && N.ltb a b))%bool
  | _, _ => N.ltb a b
  end.

Fixpoint insert_key (pl : list ev_plugin) (a : N) (l : list N) : list N :=
  match l with
  | [] => [a]
  | x :: r => if key_ltb pl a x then a :: l else x :: insert_key pl a r
  end.
Definition canon_block (pl : list ev_plugin) (b : N * list N) : N * list N :=
  (fst b, fold_right (insert_key pl) [] (snd b)).

Definition block_eqb (a b : N * list N) : bool := (N.eqb (fst a) (fst b) && leqb N.eqb (snd a) (snd b))%bool.

Definition result_eqb (a b : option string * list string) : bool :=
  (Bool.eqb (is_none (fst a)) (is_none (fst b)) && leqb String.eqb (snd a) (snd b))%bool.

Definition model_history (c : ev_case) : list (N * list N) * list (option string * list string) :=
  let os := snd (tk_run model_T [] (build_actions 0 (ec_sigma c) (ec_plugins c))) in
  (map (fun o => (fst (o_rq o), map p_id (o_invoked o))) os,
   map (fun o => match o_result o with
                 | inl toks => (None, sort_strs toks)
                 | inr e => (Some e, [])
                 end) os).

Definition corr_events (c : ev_case) : bool :=
  let '(blocks, results) := model_history c in
  (leqb block_eqb (map (canon_block (ec_plugins c)) blocks)
                  (map (canon_block (ec_plugins c)) (group_log (ec_log c))) &&
   leqb result_eqb results (ec_results c))%bool.

Definition holds_events (c : ev_case) : bool :=
  history_ok (ec_plugins c) (ec_sigma c) (ec_log c) (ec_results c).

(* ================================================================== *)
(** * faults (C07) *)

Record fault_case := {
  fc_plugins : list (N * string * string);      (* id, idx, name; all subscribed to everything; in index order *)
  fc_faulty : N;
  fc_ev : Z;
  fc_fault : fault_kind;
  fc_call : option (string * string);           (* what ttrpc returned to the relay function for the faulty plugin: None = a reply *)
  fc_after_call : option (string * string);     (* the same for the request that follows *)
  fc_T : N; fc_lat : N; fc_slack : N;           (* milliseconds *)
  fc_obs : fault_obs;
  fc_obs2 : fault_obs;
  fc_faulty_after : bool                        (* the faulty plugin's handler ran during the follow-up request *)
}.

Definition fault_plugins (c : fault_case) : list plugin :=
  sort_plugins (map (fun p => {| p_id := fst (fst p); p_idx := snd (fst p); p_name := snd p;
                                 p_events := valid_events; p_closed := false |}) (fc_plugins c)).

Definition fault_handler (c : fault_case) (what : option (string * string)) (p : plugin) : call string :=
  {| c_res := if N.eqb (p_id p) (fc_faulty c)
              then match what with None => reply_of (fc_ev c) p | Some (cls, msg) => Failed cls msg end
              else reply_of (fc_ev c) p;
     c_dur := 0%N; c_in_write := false |}.

Definition obs_matches (c : fault_case) (m : observation tk_req (list string)) (o : fault_obs) : bool :=
  let not_faulty (l : list N) := filter (fun i => negb (N.eqb i (fc_faulty c))) l in
  (match o_result m, fo_err o with
   | inl toks, None => leqb String.eqb (sort_strs toks) (fo_tokens o) && negb (fo_nil o)
   | inr msg, Some e => contains msg e && leqb String.eqb (fo_tokens o) [] &&
                        Bool.eqb (fo_nil o) (returns_value (fc_ev c))
   | _, _ => false
   end &&
   leqb N.eqb (not_faulty (map p_id (o_invoked m))) (not_faulty (fo_handled o)))%bool.

(* a peer that stopped reading: the faulty plugin's call is stuck in the write of its request for
   as long as the harness lets it (fc_lat), then ends with what ttrpc returned (fc_call) *)
Definition stall_handler (c : fault_case) (p : plugin) : call string :=
  if N.eqb (p_id p) (fc_faulty c)
  then {| c_res := match fc_call c with None => reply_of (fc_ev c) p | Some (cls, msg) => Failed cls msg end;
          c_dur := fc_lat c; c_in_write := true |}
  else {| c_res := reply_of (fc_ev c) p; c_dur := 0%N; c_in_write := false |}.

(* a cut or closed connection is down by the time the follow-up request starts, whether or
   not the faulted request's call already failed on it (a fault that strikes after the
   plugin's reply went through leaves the first request untouched) *)
Definition corr_fault (c : fault_case) : bool :=
  let stalled := match fc_fault c with FStall => true | _ => false end in
  let s := ARequest (1%N, fc_ev c) (if stalled then stall_handler c else fault_handler c (fc_call c)) ::
           match fc_fault c with
           | FTransport _ | FStall => [ADisconnect (fc_faulty c)]
           | _ => []
           end ++
           [ARequest (2%N, fc_ev c) (fault_handler c (fc_after_call c))] in
  match snd (tk_run (if stalled then fc_T c else model_T) (fault_plugins c) s) with
  | [m1; m2] =>
      (obs_matches c m1 (fc_obs c) && obs_matches c m2 (fc_obs2 c) &&
       (* the model's time for a stalled write is not cut at T: it exceeds n x T + slack exactly when
          the observed latency does *)
       (negb stalled ||
        Bool.eqb (N.ltb (N.of_nat (length (fc_plugins c)) * fc_T c + fc_slack c) (o_time m1))
                 (N.ltb (N.of_nat (length (fc_plugins c)) * fc_T c + fc_slack c) (fc_lat c))))%bool
  | _ => false
  end.

Definition holds_fault (c : fault_case) : bool :=
  fault_ok (fc_plugins c) (fc_faulty c) (fc_ev c) (fc_fault c) (fc_T c) (fc_lat c) (fc_slack c)
           (fc_obs c) (fc_obs2 c) (fc_faulty_after c).

(* ---------- a plugin failing during its synchronisation *)

Record regfail_case := {
  rc_healthy : list (N * string * string);
  rc_late : N * string * string;
  rc_ev : Z;
  rc_obs : regfail_obs
}.

Definition mk_tk_plugin (p : N * string * string) : plugin :=
  {| p_id := fst (fst p); p_idx := snd (fst p); p_name := snd p; p_events := valid_events; p_closed := false |}.

Definition plain_obs_matches (ev : Z) (m : observation tk_req (list string)) (o : fault_obs) : bool :=
  match o_result m, fo_err o with
  | inl toks, None => (leqb String.eqb (sort_strs toks) (fo_tokens o) && leqb N.eqb (map p_id (o_invoked m)) (fo_handled o))%bool
  | _, _ => false
  end.

(* the model: the failed plugin never becomes part of the list (no ARegister for it); the request, the
   late registration and the second request are three atomic steps; compared on whatever completed.
   The late plugin may share no index with the others, so the order of the second request is determined. *)
Definition corr_regfail (c : regfail_case) : bool :=
  let ps := sort_plugins (map mk_tk_plugin (rc_healthy c)) in
  let s := [ARequest (1%N, rc_ev c) (ok_handler (rc_ev c)); ARegister (mk_tk_plugin (rc_late c));
            ARequest (2%N, rc_ev c) (ok_handler (rc_ev c))] in
  match snd (tk_run model_T ps s) with
  | [m1; m2] =>
      ((negb (rf_done1 (rc_obs c)) || plain_obs_matches (rc_ev c) m1 (rf_obs1 (rc_obs c))) &&
       (negb (rf_done2 (rc_obs c) && rf_late_registered (rc_obs c)) || plain_obs_matches (rc_ev c) m2 (rf_obs2 (rc_obs c))))%bool
  | _ => false
  end.

Definition holds_regfail (c : regfail_case) : bool := regfail_ok (rc_healthy c) (rc_late c) (rc_ev c) (rc_obs c).

(* ================================================================== *)
(** * updates (C19) *)

Record upd_case := {
  uc_started : bool;
  uc_updates : list upd;
  uc_cb_failed : list upd;
  uc_cb_err : option string;
  uc_seen : list (list upd);
  uc_ret_failed : list upd;
  uc_ret_err : option string
}.

Definition corr_update (c : upd_case) : bool :=
  let '((failed, err), seen) := stub_update (uc_started c) (uc_updates c) (fun _ => (uc_cb_failed c, uc_cb_err c)) in
  (leqb upd_eqb failed (uc_ret_failed c) && opt_contains err (uc_ret_err c) &&
   leqb (leqb upd_eqb) seen (uc_seen c))%bool.

Definition holds_update (c : upd_case) : bool :=
  update_ok (uc_started c) (uc_updates c) (uc_cb_failed c) (uc_cb_err c) (uc_seen c) (uc_ret_failed c) (uc_ret_err c).

(* recorded schedules: begin/end marks of call-backs and plugin handlers in global order *)
Record sched_case := { sc_marks : list mark }.

(* well-formed log: every end follows its begin *)
Fixpoint balanced (l : list mark) (ncb nh : nat) : bool :=
  match l with
  | [] => (Nat.eqb ncb 0 && Nat.eqb nh 0)%bool
  | MBegin WCallback :: r => balanced r (S ncb) nh
  | MBegin WRequest :: r => balanced r ncb (S nh)
  | MEnd WCallback :: r => (negb (Nat.eqb ncb 0) && balanced r (pred ncb) nh)%bool
  | MEnd WRequest :: r => (negb (Nat.eqb nh 0) && balanced r ncb (pred nh))%bool
  end.

Definition corr_sched (c : sched_case) : bool := balanced (sc_marks c) 0 0.
Definition holds_sched (c : sched_case) : bool := schedule_ok (sc_marks c).
