(* Association lists with string keys: Go maps (plus an explicit order). *)
From Coq Require Import String List Bool ZArith.
From NRI Require Import Base.Strs.
Import ListNotations.
Open Scope list_scope.

Section Assoc.
Variable V : Type.

Fixpoint alookup (k : string) (l : list (string * V)) : option V :=
  match l with
  | [] => None
  | (k', v) :: r => if String.eqb k k' then Some v else alookup k r
  end.

Definition aremove (k : string) (l : list (string * V)) : list (string * V) :=
  filter (fun e => negb (String.eqb k (fst e))) l.

(* Go's m[k] = v on a map represented with insertion order: replace in place or append *)
Fixpoint aset (k : string) (v : V) (l : list (string * V)) : list (string * V) :=
  match l with
  | [] => [(k, v)]
  | (k', v') :: r => if String.eqb k k' then (k, v) :: r else (k', v') :: aset k v r
  end.

Definition akeys (l : list (string * V)) : list string := map fst l.

Lemma alookup_aset_same k v l : alookup k (aset k v l) = Some v.
Proof.
  induction l as [|[k' v'] r IH]; simpl.
  - rewrite String.eqb_refl. reflexivity.
  - destruct (String.eqb k k') eqn:E; simpl; rewrite ?String.eqb_refl, ?E; auto.
Qed.

Lemma alookup_aset_other k k' v l : k <> k' -> alookup k (aset k' v l) = alookup k l.
Proof.
  intros Hne. induction l as [|[k2 v2] r IH]; simpl.
  - destruct (String.eqb_spec k k'); [contradiction|reflexivity].
  - destruct (String.eqb_spec k' k2) as [->|Hn2]; simpl.
    + destruct (String.eqb_spec k k2); [contradiction|reflexivity].
    + destruct (String.eqb k k2); [reflexivity|exact IH].
Qed.

Lemma alookup_aremove_same k l : alookup k (aremove k l) = None.
Proof.
  induction l as [|[k' v'] r IH]; simpl; [reflexivity|].
  destruct (String.eqb_spec k k') as [->|Hne]; simpl; [exact IH|].
  destruct (String.eqb_spec k k'); [contradiction|exact IH].
Qed.

Lemma alookup_aremove_other k k' l : k <> k' -> alookup k (aremove k' l) = alookup k l.
Proof.
  intros Hne. induction l as [|[k2 v2] r IH]; simpl; [reflexivity|].
  destruct (String.eqb_spec k' k2) as [->|Hn2]; simpl.
  - destruct (String.eqb_spec k k2); [contradiction|exact IH].
  - destruct (String.eqb k k2); [reflexivity|exact IH].
Qed.

Lemma alookup_app k l1 l2 :
  alookup k (l1 ++ l2) = match alookup k l1 with Some v => Some v | None => alookup k l2 end.
Proof.
  induction l1 as [|[k' v] r IH]; simpl; [reflexivity|].
  destruct (String.eqb k k'); [reflexivity|exact IH].
Qed.

Lemma alookup_None_notin k l : alookup k l = None <-> ~ In k (akeys l).
Proof.
  induction l as [|[k' v] r IH]; simpl; [tauto|].
  destruct (String.eqb_spec k k') as [->|Hne]; split; intros H; try discriminate.
  - exfalso. apply H. left. reflexivity.
  - intros [He|Hi]; [congruence|apply IH in H; contradiction].
  - apply IH. intros Hi. apply H. right. exact Hi.
Qed.

Lemma alookup_filter_key k (p : string -> bool) l :
  alookup k (filter (fun e => p (fst e)) l) = if p k then alookup k l else None.
Proof.
  induction l as [|[k' v] r IH].
  - simpl. destruct (p k); reflexivity.
  - cbn [filter fst]. destruct (p k') eqn:Hp.
    + cbn [alookup]. destruct (String.eqb_spec k k') as [->|Hne].
      * rewrite Hp. reflexivity.
      * exact IH.
    + cbn [alookup]. destruct (String.eqb_spec k k') as [->|Hne].
      * rewrite IH, Hp. reflexivity.
      * exact IH.
Qed.

End Assoc.
Arguments alookup {V}. Arguments aremove {V}. Arguments aset {V}. Arguments akeys {V}.
Arguments alookup_aset_same {V}. Arguments alookup_aset_other {V}.
Arguments alookup_aremove_same {V}. Arguments alookup_aremove_other {V}.
Arguments alookup_app {V}. Arguments alookup_None_notin {V}. Arguments alookup_filter_key {V}.

(* association list keyed by Z (event numbers) *)
Fixpoint zlookup {V} (k : Z) (l : list (Z * V)) : option V :=
  match l with
  | [] => None
  | (k', v) :: r => if Z.eqb k k' then Some v else zlookup k r
  end.
