(* C17 — only well-formed, timely registrations are activated, and the socket is private.
   Only statements closed by [exact]; model: Model/Register.v (CheckPluginIndex, RegisterPlugin,
   plugin.start / configure, the accept loop, startListener), spec: Spec/RegisterSpec.v,
   proofs: Proofs/RegisterProofs.v.  valid_events / event_last are regenerated from
   pkg/api/event.go, socket_dir_mode / listener_guarded / the default time-outs from
   startListener and pkg/api/timeouts.go on every run.
   OBSERVED, not proved: that the kernel applies the umask as [mode land (lnot umask)], and the
   clock (a silent peer is modelled by the outcome of the time-out it runs into). *)
From Coq Require Import String Ascii List Bool ZArith.
From NRI Require Import Base.Strs Model.Consts Model.Event Model.RegConsts Model.Register
  Spec.RegisterSpec Proofs.RegisterProofs.
Import ListNotations.
Open Scope string_scope.
Open Scope list_scope.
Open Scope Z_scope.

(* exactly the 100 strings "00" .. "99" pass CheckPluginIndex — for every byte string *)
Theorem C17_index_is_two_digits : forall s, check_index s = true <-> In s all_indices.
Proof. exact index_is_two_digits. Qed.
Print Assumptions C17_index_is_two_digits.

Theorem C17_index_count : length all_indices = 100%nat /\ NoDup all_indices.
Proof. exact all_indices_count. Qed.
Print Assumptions C17_index_count.

(* for EVERY integer answered to Configure (read as an int32, as the code does): if it is accepted
   then it is 0 (subscribe to everything: ValidEvents) or lies in (0, ValidEvents] with no bit
   outside ValidEvents, and the plugin is subscribed with exactly that value; in particular every
   negative int32 is rejected.  Proved by a bit-level lemma, not by a sweep. *)
Theorem C17_mask_valid : forall raw e, configure_events raw = inl e ->
  - 2 ^ 31 <= wrap32 raw < 2 ^ 31 /\
  ((wrap32 raw = 0 /\ e = valid_events) \/
   (0 < wrap32 raw <= valid_events /\ e = wrap32 raw /\ only_valid_bits (wrap32 raw))).
Proof. exact mask_valid. Qed.
Print Assumptions C17_mask_valid.

(* ... and exactly the masks of valid events are accepted; ValidEvents being a full block of low
   bits on the current tree, that is every value 0 .. ValidEvents *)
Theorem C17_mask_accept_iff : forall raw, (exists e, configure_events raw = inl e) <-> mask_ok (wrap32 raw).
Proof. exact mask_accept_iff. Qed.
Print Assumptions C17_mask_accept_iff.

Theorem C17_mask_range_accepted : forall raw, 0 <= wrap32 raw <= valid_events -> mask_ok (wrap32 raw).
Proof. exact mask_range_accepted. Qed.
Print Assumptions C17_mask_range_accepted.

(* for EVERY list of connections: the plugins active after the accept loop are exactly those of the
   well-formed connections (timely registration, non-empty name, two-digit index, valid mask,
   synchronised) *)
Theorem C17_activated_iff_valid : forall conns p,
  In p (activated conns) <-> exists c, In c conns /\ well_formed c /\ p = plugin_of c.
Proof. exact activated_iff_valid. Qed.
Print Assumptions C17_activated_iff_valid.

(* one connection is accepted iff it is well formed, and it is then subscribed as it asked *)
Theorem C17_good_iff_well_formed : forall c, (exists n i e, handle c = OGood n i e) <-> well_formed c.
Proof. exact handle_good_wf. Qed.
Print Assumptions C17_good_iff_well_formed.

(* Synchronize is never sent before name, index and mask passed validation *)
Theorem C17_sync_only_after_validation : forall c, reaches_sync c = true ->
  exists name idx raw, c_reg c = RegNow name idx /\ name <> "" /\ In idx all_indices /\
                       c_cfg c = CfgReply raw /\ mask_ok (wrap32 raw).
Proof. exact sync_only_after_validation. Qed.
Print Assumptions C17_sync_only_after_validation.

(* every connection's outcome is a function of that connection alone *)
Theorem C17_later_unaffected : forall conns a, snd (accept_loop a conns) = map handle conns.
Proof. exact loop_outcomes. Qed.
Print Assumptions C17_later_unaffected.

(* a good connection behind ANY finite list of bad ones is activated, alone; it is reached after at
   most one time-out per bad connection *)
Theorem C17_bad_do_not_block : forall bad good rest,
  Forall (fun c => ~ well_formed c) bad -> well_formed good ->
  activated (bad ++ [good]) = [plugin_of good] /\
  In (plugin_of good) (activated (bad ++ good :: rest)) /\
  nth_error (outcomes (bad ++ good :: rest)) (length bad) =
    Some (OGood (pl_name (plugin_of good)) (pl_idx (plugin_of good)) (pl_events (plugin_of good))) /\
  (forall treg treq, 0 <= treg -> 0 <= treq ->
     total_stall treg treq (firstn (length bad) (outcomes (bad ++ good :: rest)))
       <= Z.of_nat (length bad) * Z.max treg treq).
Proof. exact bad_do_not_block. Qed.
Print Assumptions C17_bad_do_not_block.

(* all 512 umasks, evaluated completely inside the kernel: a directory created by startListener has
   no permission bit for group or others, and the owner keeps what the umask leaves *)
Theorem C17_dir_private : forall u, 0 <= u < 512 ->
  Z.land (dir_mode u) 63 = 0 /\ Z.land (dir_mode u) 448 = Z.land 448 (Z.lnot u).
Proof. exact dir_private. Qed.
Print Assumptions C17_dir_private.

Theorem C17_dir_private_any_umask : forall u, Z.land (dir_mode u) 63 = 0.
Proof. exact dir_private_any. Qed.
Print Assumptions C17_dir_private_any_umask.

(* with external connections disabled nothing is created and nothing listens *)
Theorem C17_no_listener_when_disabled : forall u, start_listener true u = None.
Proof. exact no_listener_when_disabled. Qed.
Print Assumptions C17_no_listener_when_disabled.

(* the deadline of the handshake's register phase is the REGISTRATION time-out: a RegisterPlugin call arriving
   at_ms after the runtime started serving the connection is refused as timed out iff t_reg <= at_ms, otherwise
   treated like an immediate one; the value of the request time-out does not enter *)
Theorem C17_register_deadline_is_registration_timeout : forall t_reg t_req at_ms name idx cfg sy,
  (t_reg <= at_ms -> handle (timed_conn t_reg t_req at_ms name idx cfg sy) = ORegTimeout) /\
  (at_ms < t_reg -> handle (timed_conn t_reg t_req at_ms name idx cfg sy)
                    = handle {| c_reg := RegNow name idx; c_cfg := cfg; c_sync := sy |}) /\
  (forall t_req', timed_conn t_reg t_req at_ms name idx cfg sy = timed_conn t_reg t_req' at_ms name idx cfg sy).
Proof. exact register_deadline. Qed.
Print Assumptions C17_register_deadline_is_registration_timeout.

(* late for the registration time-out but early for a longer request time-out: never activated; late for a short
   request time-out but early for the registration time-out: activated if otherwise well formed *)
Theorem C17_register_deadline_cases : forall t_reg t_req at_ms name idx cfg sy,
  (t_reg <= at_ms < t_req -> ~ exists n i e, handle (timed_conn t_reg t_req at_ms name idx cfg sy) = OGood n i e) /\
  (t_req <= at_ms < t_reg -> well_formed {| c_reg := RegNow name idx; c_cfg := cfg; c_sync := sy |} ->
     exists n i e, handle (timed_conn t_reg t_req at_ms name idx cfg sy) = OGood n i e).
Proof. exact register_deadline_cases. Qed.
Print Assumptions C17_register_deadline_cases.

Example C17_example_deadline :
  handle (timed_conn 300 6000 1500 "late" "10" (CfgReply 0) SyncOk) = ORegTimeout /\
  handle (timed_conn 4000 500 1500 "slow" "10" (CfgReply 0) SyncOk) = OGood "slow" "10" 8191.
Proof. split; vm_compute; reflexivity. Qed.

(* ---- non-vacuity ---- *)
Definition ex_good : conn := {| c_reg := RegNow "logger" "05"; c_cfg := CfgReply 4097; c_sync := SyncOk |}.
Definition ex_bad : list conn :=
  [ {| c_reg := RegNever; c_cfg := CfgReply 0; c_sync := SyncOk |};
    {| c_reg := RegNow "" "05"; c_cfg := CfgReply 0; c_sync := SyncOk |};
    {| c_reg := RegNow "a" "5"; c_cfg := CfgReply 0; c_sync := SyncOk |};
    {| c_reg := RegNow "a" "005"; c_cfg := CfgReply 0; c_sync := SyncOk |};
    {| c_reg := RegNow "a" "-1"; c_cfg := CfgReply 0; c_sync := SyncOk |};
    {| c_reg := RegNow "a" "10"; c_cfg := CfgSilent; c_sync := SyncOk |};
    {| c_reg := RegNow "a" "10"; c_cfg := CfgReply 8192; c_sync := SyncOk |};
    {| c_reg := RegNow "a" "10"; c_cfg := CfgReply (-1); c_sync := SyncOk |};
    {| c_reg := RegNow "a" "10"; c_cfg := CfgReply (-2147483648); c_sync := SyncOk |};
    {| c_reg := RegNow "a" "10"; c_cfg := CfgReply 1; c_sync := SyncSilent |} ].

Example C17_example_outcomes :
  map handle (ex_bad ++ [ex_good]) =
  [ORegTimeout; OBadName; OBadIndex; OBadIndex; OBadIndex; OReqTimeout; OBadMask 8192; OBadMask (-8192);
   OBadMask (-2147483648); OSyncFailed; OGood "logger" "05" 4097]
  /\ activated (ex_bad ++ [ex_good]) = [{| pl_name := "logger"; pl_idx := "05"; pl_events := 4097 |}].
Proof. split; vm_compute; reflexivity. Qed.

Example C17_example_hypotheses :
  well_formed ex_good /\ Forall (fun c => ~ well_formed c) ex_bad /\ valid_events = 8191 /\
  socket_dir_mode = 448 /\ dir_mode 18 = 448 /\ dir_mode 63 = 448 /\ dir_mode 511 = 0 /\
  configure_events 0 = inl 8191 /\ configure_events 8191 = inl 8191 /\ configure_events (2 ^ 32 + 5) = inl 5.
Proof.
  split; [apply well_formed_b_spec; vm_compute; reflexivity|]. split.
  - apply Forall_forall. intros c Hc W. apply well_formed_b_spec in W.
    assert (A : forallb (fun c => negb (well_formed_b c)) ex_bad = true) by (vm_compute; reflexivity).
    rewrite forallb_forall in A. specialize (A c Hc). rewrite W in A. discriminate.
  - repeat split; vm_compute; reflexivity.
Qed.
