(* Reference reading of C18's statement, written without the code's helper functions, and the boolean
   predicates evaluated on the implementation's observations (Run/RunLaunch.v).  No proofs here. *)
From Coq Require Import String Ascii List Bool Arith NArith ZArith.
From NRI Require Import Base.Strs Base.Assoc Model.Consts Model.Launch.
Import ListNotations.
Open Scope string_scope.

(* "named with a two-digit index, a dash and a name": Some (index, name) *)
Definition wf_name (n : string) : option (string * string) :=
  match n with
  | String a (String b (String c rest)) =>
      if (is_digit a && is_digit b && Ascii.eqb c "-")%bool then Some (String a (String b EmptyString), rest) else None
  | _ => None
  end.

(* "executable regular file": not a directory, some execute bit *)
Definition spec_candidate (e : dirent) : bool :=
  (negb (de_is_dir e) && negb (N.eqb (N.land (de_mode e) 73) 0))%bool.

(* "the drop-in configuration for index-name or else for name": the first of the two files that exists;
   spec_config_ok = that file can be read (otherwise Start fails as a whole, like I6) *)
Definition spec_config (d : dropin_dir) (idx base : string) : string :=
  match alookup (idx ++ "-" ++ base ++ ".conf") d with
  | Some (DContent s) => s
  | Some DUnreadable => ""
  | None => match alookup (base ++ ".conf") d with
            | Some (DContent s) => s
            | _ => ""
            end
  end.
Definition spec_config_ok (d : dropin_dir) (idx base : string) : bool :=
  match alookup (idx ++ "-" ++ base ++ ".conf") d with
  | Some (DContent _) => true
  | Some DUnreadable => false
  | None => match alookup (base ++ ".conf") d with
            | Some DUnreadable => false
            | _ => true
            end
  end.

(* "finds its name, its index and the number of a pre-connected socket in its environment" (as a set) *)
Definition sort_strings (l : list string) : list string := sort_by String.leb l.
Definition spec_env (idx base : string) : list string :=
  sort_strings [PluginNameEnvVar ++ "=" ++ base; PluginIdxEnvVar ++ "=" ++ idx; PluginSocketEnvVar ++ "=3"].

(* numeric index of a well-formed file name *)
Definition num_of_name (n : string) : Z :=
  match n with
  | String a (String b _) => 10 * (Z.of_N (N_of_ascii a) - 48) + (Z.of_N (N_of_ascii b) - 48)
  | _ => -1
  end%Z.

(* "invoked in index order" *)
Fixpoint nondecreasing (l : list Z) : bool :=
  match l with
  | a :: ((b :: _) as r) => ((a <=? b)%Z && nondecreasing r)%bool
  | _ => true
  end.
