(* Combination theorems for C03 / C04, part 2: one specification lemma per field family of
   result.adjust (Model/Result.v).  Each says, for a successful step,
     - what the container shown to plugins becomes (the reference semantics applied to what was shown),
     - that "the reply, read by the reference semantics as ONE adjustment of the original, yields
       what is shown" is preserved,
     - that ledger keys of the keyed list families (mounts, env, devices) are only touched by
       their own step. *)
From Coq Require Import String Ascii List Bool ZArith Arith Lia.
From NRI Require Import Base.Lists Base.Strs Base.Assoc Model.Types Model.Result Spec.Apply
  Proofs.KeyedProofs Proofs.CombineBase.
Import ListNotations.
Open Scope string_scope.
Open Scope list_scope.

(* ---------- the ledger: keys of the keyed list families ---------- *)
Definition kk (x : lkey) : bool := match snd x with IMount _ | IEnv _ | IDev _ => true | _ => false end.
Definition kkfr (o o' : ledger) : Prop := forall x, kk x = true -> lmem x o' = lmem x o.

Lemma kkfr_refl o : kkfr o o.
Proof. intros x _. reflexivity. Qed.

Lemma kkfr_trans o1 o2 o3 : kkfr o1 o2 -> kkfr o2 o3 -> kkfr o1 o3.
Proof. intros H1 H2 x Hx. rewrite (H2 x Hx). apply H1. exact Hx. Qed.

Lemma claim_kkfr k o o' : kk k = false -> claim k o = Ok o' -> kkfr o o'.
Proof.
  unfold claim. intros Hk H. destruct (lmem k o); [discriminate|]. inversion H; subst. intros x Hx.
  rewrite lmem_cons. destruct (lkey_eqb_spec x k) as [->|Hne]; [congruence|reflexivity].
Qed.

Lemma claim_kkfr2 k o o' : claim k o = Ok o' -> kk k = false -> kkfr o o'.
Proof. intros H Hk. apply (claim_kkfr k o o' Hk H). Qed.

Lemma lremove_kkfr k o : kk k = false -> kkfr o (lremove k o).
Proof.
  intros Hk x Hx. rewrite lmem_lremove. destruct (lkey_eqb_spec k x) as [->|Hne]; [congruence|]. apply andb_true_r.
Qed.

(* ---------- record eta ---------- *)
Lemma with_c_ann_eta c : with_c_ann c (c_ann c) = c. Proof. destruct c; reflexivity. Qed.
Lemma with_a_ann_eta a : with_a_ann a (a_ann a) = a. Proof. destruct a; reflexivity. Qed.
Lemma with_c_args_eta c : with_c_args c (c_args c) = c. Proof. destruct c; reflexivity. Qed.
Lemma with_a_args_eta a : with_a_args a (a_args a) = a. Proof. destruct a; reflexivity. Qed.
Lemma with_c_cgroups_eta c : with_c_cgroups c (c_cgroups c) = c. Proof. destruct c; reflexivity. Qed.
Lemma with_a_cgroups_eta a : with_a_cgroups a (a_cgroups a) = a. Proof. destruct a; reflexivity. Qed.
Lemma with_c_oom_eta c : with_c_oom c (c_oom c) = c. Proof. destruct c; reflexivity. Qed.
Lemma with_a_oom_eta a : with_a_oom a (a_oom a) = a. Proof. destruct a; reflexivity. Qed.
Lemma with_c_rlimits_eta c : with_c_rlimits c (c_rlimits c) = c. Proof. destruct c; reflexivity. Qed.
Lemma with_a_rlimits_eta a : with_a_rlimits a (a_rlimits a) = a. Proof. destruct a; reflexivity. Qed.
Lemma with_a_cdi_eta a : with_a_cdi a (a_cdi a) = a. Proof. destruct a; reflexivity. Qed.

(* ====================================================================== *)
(* annotations                                                            *)
(* ====================================================================== *)
(* the reply's annotations handed to the reference semantics, expressed by lookups in the reply *)
Definition semA (c0 R : list (string * string)) (x : string) : option string :=
  if marked x then alookup x c0
  else match alookup x R with
       | Some v => Some v
       | None => match alookup (mark x) R with Some _ => None | None => alookup x c0 end
       end.

Definition keys_w7 (R : list (string * string)) : Prop := forall e, In e R -> marked (rawkey (fst e)) = false.

Lemma smem_ann_dels R k : smem k (ann_dels R) = match alookup (mark k) R with Some _ => true | None => false end.
Proof.
  induction R as [|[k' v] r IH]; [reflexivity|]. rewrite ann_dels_cons. cbn [fst alookup]. rewrite mark_eqb.
  destruct (marked k') eqn:Hm; cbn [andb]; [|exact IH].
  rewrite smem_cons, IH, (String.eqb_sym k (rawkey k')). destruct (String.eqb (rawkey k') k); reflexivity.
Qed.

Lemma NoDup_map_filter {A B} (f : A -> B) (p : A -> bool) l : NoDup (map f l) -> NoDup (map f (filter p l)).
Proof.
  induction l as [|x r IH]; intros H; [constructor|]. cbn [map] in H. inversion H as [|? ? Hn Hr]; subst.
  cbn [filter]. destruct (p x); [|apply IH; exact Hr]. cbn [map]. constructor; [|apply IH; exact Hr].
  intros Hi. apply Hn. apply in_map_iff in Hi. destruct Hi as [y [Hy Hin]]. apply filter_In in Hin.
  apply in_map_iff. exists y. tauto.
Qed.

Lemma semA_char c0 R x : NoDup (akeys R) -> keys_w7 R -> alookup x (apply_ann c0 R) = semA c0 R x.
Proof.
  intros Hnd Hw. rewrite alookup_apply_ann. unfold semA. destruct (marked x) eqn:Hx.
  - assert (H1 : alast x (ann_sets R) = None).
    { apply alast_None_notin. intros Hi. unfold akeys in Hi. apply in_map_iff in Hi. destruct Hi as [e [He Hin]].
      apply ann_sets_unmarked in Hin. congruence. }
    assert (H2 : smem x (ann_dels R) = false).
    { apply smem_false_notin. intros Hi. apply (ann_dels_unmarked R x Hw) in Hi. congruence. }
    rewrite H1, H2. reflexivity.
  - assert (Hnd' : NoDup (akeys (ann_sets R))) by (unfold akeys, ann_sets; apply NoDup_map_filter; exact Hnd).
    rewrite (alast_nodup _ _ Hnd'). unfold ann_sets.
    rewrite (alookup_filter_key x (fun k => negb (marked k))), Hx. cbn [negb].
    rewrite smem_ann_dels. destruct (alookup x R); [reflexivity|]. destruct (alookup (mark x) R); reflexivity.
Qed.

Lemma alookup_aset {V} x k (v : V) l : alookup x (aset k v l) = if String.eqb x k then Some v else alookup x l.
Proof.
  destruct (String.eqb_spec x k) as [->|Hne]; [apply alookup_aset_same|apply alookup_aset_other; exact Hne].
Qed.

Lemma alookup_aremove {V} x k (l : list (string * V)) : alookup x (aremove k l) = if String.eqb x k then None else alookup x l.
Proof.
  destruct (String.eqb_spec x k) as [->|Hne]; [apply alookup_aremove_same|apply alookup_aremove_other; exact Hne].
Qed.

Lemma semA_aset_unmarked c0 R k v x :
  marked k = false -> semA c0 (aset k v R) x = if String.eqb x k then Some v else semA c0 R x.
Proof.
  intros Hk. unfold semA. destruct (String.eqb_spec x k) as [->|Hne].
  - rewrite Hk, alookup_aset_same. reflexivity.
  - destruct (marked x) eqn:Hx; [reflexivity|].
    rewrite (alookup_aset_other _ _ v R Hne).
    rewrite (alookup_aset_other (mark x) k v R) by (apply marked_neq; [apply marked_mark|exact Hk]).
    reflexivity.
Qed.

Lemma semA_aset_mark c0 R k w x :
  marked k = false ->
  semA c0 (aset (mark k) w R) x =
  if String.eqb x k then match alookup k R with Some v => Some v | None => None end else semA c0 R x.
Proof.
  intros Hk. unfold semA. destruct (String.eqb_spec x k) as [->|Hne].
  - rewrite Hk. rewrite (alookup_aset_other k (mark k) w R) by (apply not_eq_sym; apply marked_neq; [apply marked_mark|exact Hk]).
    rewrite alookup_aset_same. reflexivity.
  - destruct (marked x) eqn:Hx; [reflexivity|].
    rewrite (alookup_aset_other x (mark k) w R) by (apply not_eq_sym; apply marked_neq; [apply marked_mark|exact Hx]).
    rewrite (alookup_aset_other (mark x) (mark k) w R) by (intros E; apply mark_inj in E; contradiction).
    reflexivity.
Qed.

Lemma semA_aremove c0 R k x :
  marked k = false ->
  semA c0 (aremove k R) x =
  if String.eqb x k then match alookup (mark k) R with Some _ => None | None => alookup k c0 end else semA c0 R x.
Proof.
  intros Hk. unfold semA. destruct (String.eqb_spec x k) as [->|Hne].
  - rewrite Hk, alookup_aremove_same.
    rewrite (alookup_aremove_other (mark k) k R) by (apply marked_neq; [apply marked_mark|exact Hk]). reflexivity.
  - destruct (marked x) eqn:Hx; [reflexivity|].
    rewrite (alookup_aremove_other x k R Hne).
    rewrite (alookup_aremove_other (mark x) k R) by (apply marked_neq; [apply marked_mark|exact Hk]). reflexivity.
Qed.

Lemma In_aset {V} k (v : V) l e : In e (aset k v l) -> e = (k, v) \/ In e l.
Proof.
  induction l as [|[k' v'] r IH]; cbn [aset].
  - intros [H|[]]. left. symmetry. exact H.
  - destruct (String.eqb k k').
    + intros [H|H]; [left; symmetry; exact H|right; right; exact H].
    + intros [H|H]; [right; left; exact H|]. destruct (IH H) as [H1|H1]; [left; exact H1|right; right; exact H1].
Qed.

Lemma keys_w7_aset R k v : keys_w7 R -> marked (rawkey k) = false -> keys_w7 (aset k v R).
Proof. intros H Hk e He. apply In_aset in He. destruct He as [->|He]; [exact Hk|apply H; exact He]. Qed.

Lemma keys_w7_aremove R k : keys_w7 R -> keys_w7 (aremove k R).
Proof. intros H e He. unfold aremove in He. apply filter_In in He. apply H. tauto. Qed.

(* reply and view agree; the reply is a map with well-formed markers *)
Record AInv (c0 R view : list (string * string)) : Prop := {
  ai_nd : NoDup (akeys R);
  ai_w7 : keys_w7 R;
  ai_sem : forall x, semA c0 R x = alookup x view
}.

Lemma AInv_set c0 R view k v :
  marked k = false -> AInv c0 R view -> AInv c0 (aset k v R) (aset k v view).
Proof.
  intros Hk [Hnd Hw Hs]. split.
  - apply NoDup_akeys_aset. exact Hnd.
  - apply keys_w7_aset; [exact Hw|]. rewrite (rawkey_unmarked _ Hk). exact Hk.
  - intros x. rewrite (semA_aset_unmarked _ _ _ _ _ Hk), alookup_aset, Hs. reflexivity.
Qed.

Lemma AInv_del_set c0 R view k v :
  marked k = false -> AInv c0 R view -> AInv c0 (aset k v (aset (mark k) "" R)) (aset k v (aremove k view)).
Proof.
  intros Hk [Hnd Hw Hs]. split.
  - apply NoDup_akeys_aset. apply NoDup_akeys_aset. exact Hnd.
  - apply keys_w7_aset; [apply keys_w7_aset; [exact Hw|]|].
    + rewrite rawkey_mark. exact Hk.
    + rewrite (rawkey_unmarked _ Hk). exact Hk.
  - intros x. rewrite (semA_aset_unmarked _ _ _ _ _ Hk), (semA_aset_mark _ _ _ _ _ Hk), alookup_aset, alookup_aremove, Hs.
    destruct (String.eqb x k); reflexivity.
Qed.

Lemma AInv_lone c0 R view k :
  marked k = false -> AInv c0 R view -> AInv c0 (aset (mark k) "" (aremove k R)) (aremove k view).
Proof.
  intros Hk [Hnd Hw Hs]. split.
  - apply NoDup_akeys_aset. apply NoDup_akeys_aremove. exact Hnd.
  - apply keys_w7_aset; [apply keys_w7_aremove; exact Hw|]. rewrite rawkey_mark. exact Hk.
  - intros x. rewrite (semA_aset_mark _ _ _ _ _ Hk), (semA_aremove _ _ _ _ Hk), alookup_aremove_same, alookup_aremove, Hs.
    destruct (String.eqb x k); reflexivity.
Qed.

Lemma ann_apply_sets_spec c0 id dels sets :
  (forall e, In e sets -> marked (fst e) = false) ->
  forall view reply o view' reply' o',
    AInv c0 reply view ->
    ann_apply_sets id dels sets view reply o = Ok (view', reply', o') ->
    AInv c0 reply' view' /\
    (forall x, alookup x view' = match alast x sets with Some v => Some v | None => alookup x view end) /\
    kkfr o o'.
Proof.
  induction sets as [|[k v] r IH]; intros Hu view reply o view' reply' o' Hinv H.
  - cbn [ann_apply_sets] in H. inversion H; subst. split; [exact Hinv|]. split; [reflexivity|apply kkfr_refl].
  - assert (Hk : marked k = false) by (apply (Hu (k, v)); left; reflexivity).
    assert (Hu' : forall e, In e r -> marked (fst e) = false) by (intros e He; apply Hu; right; exact He).
    cbn [ann_apply_sets] in H. destruct (smem k dels).
    + destruct (claim (id, IAnn k) (lremove (id, IAnn k) o)) as [o2|e] eqn:Hc; [|discriminate].
      destruct (IH Hu' _ _ _ _ _ _ (AInv_del_set c0 reply view k v Hk Hinv) H) as [H1 [H2 H3]].
      split; [exact H1|]. split.
      * intros x. rewrite H2, alast_cons. cbn [fst snd]. destruct (alast x r); [reflexivity|].
        rewrite alookup_aset, alookup_aremove. destruct (String.eqb x k); reflexivity.
      * apply (kkfr_trans _ (lremove (id, IAnn k) o)); [apply lremove_kkfr; reflexivity|].
        apply (kkfr_trans _ o2); [apply (claim_kkfr2 _ _ _ Hc eq_refl)|exact H3].
    + destruct (claim (id, IAnn k) o) as [o2|e] eqn:Hc; [|discriminate].
      destruct (IH Hu' _ _ _ _ _ _ (AInv_set c0 reply view k v Hk Hinv) H) as [H1 [H2 H3]].
      split; [exact H1|]. split.
      * intros x. rewrite H2, alast_cons. cbn [fst snd]. destruct (alast x r); [reflexivity|].
        rewrite alookup_aset. destruct (String.eqb x k); reflexivity.
      * apply (kkfr_trans _ o2); [apply (claim_kkfr2 _ _ _ Hc eq_refl)|exact H3].
Qed.

Lemma ann_apply_lone_spec c0 id lone :
  (forall k, In k lone -> marked k = false) ->
  forall view reply o view' reply' o',
    AInv c0 reply view ->
    ann_apply_lone id lone view reply o = (view', reply', o') ->
    AInv c0 reply' view' /\
    (forall x, alookup x view' = if smem x lone then None else alookup x view) /\
    kkfr o o'.
Proof.
  induction lone as [|k r IH]; intros Hu view reply o view' reply' o' Hinv H.
  - cbn [ann_apply_lone] in H. inversion H; subst. split; [exact Hinv|]. split; [reflexivity|apply kkfr_refl].
  - assert (Hk : marked k = false) by (apply Hu; left; reflexivity).
    assert (Hu' : forall k, In k r -> marked k = false) by (intros e He; apply Hu; right; exact He).
    cbn [ann_apply_lone] in H.
    destruct (IH Hu' _ _ _ _ _ _ (AInv_lone c0 reply view k Hk Hinv) H) as [H1 [H2 H3]].
    split; [exact H1|]. split.
    + intros x. rewrite H2, smem_cons, alookup_aremove. destruct (String.eqb x k), (smem x r); reflexivity.
    + apply (kkfr_trans _ (lremove (id, IAnn k) o)); [apply lremove_kkfr; reflexivity|exact H3].
Qed.

Lemma adjust_annotations_spec c0 id ann view reply o view' reply' o' :
  keys_w7 ann -> AInv c0 reply view ->
  adjust_annotations id ann view reply o = Ok (view', reply', o') ->
  AInv c0 reply' view' /\ (forall x, alookup x view' = alookup x (apply_ann view ann)) /\ kkfr o o'.
Proof.
  intros Hw Hinv H. unfold adjust_annotations in H.
  destruct (ann_apply_sets id (ann_dels ann) (ann_sets ann) view reply o) as [[[v1 r1] o1]|e] eqn:Hs; [|discriminate].
  inversion H as [Hl]; clear H.
  destruct (ann_apply_sets_spec c0 id (ann_dels ann) (ann_sets ann) (ann_sets_unmarked ann) _ _ _ _ _ _ Hinv Hs) as [H1 [H2 H3]].
  assert (Hlu : forall k, In k (filter (fun k => negb (smem k (map fst (ann_sets ann)))) (ann_dels ann)) -> marked k = false).
  { intros k Hk. apply filter_In in Hk. apply (ann_dels_unmarked ann k Hw). tauto. }
  destruct (ann_apply_lone_spec c0 id _ Hlu _ _ _ _ _ _ H1 Hl) as [G1 [G2 G3]].
  split; [exact G1|]. split; [|apply (kkfr_trans _ o1); assumption].
  intros x. rewrite G2, H2, alookup_apply_ann, smem_filter.
  destruct (alast x (ann_sets ann)) as [v|] eqn:Ea.
  - assert (Hin : smem x (map fst (ann_sets ann)) = true) by (apply smem_In; apply (alast_Some_in _ _ _ Ea)).
    rewrite Hin, andb_false_r. reflexivity.
  - assert (Hin : smem x (map fst (ann_sets ann)) = false) by (apply smem_false_notin; apply alast_None_notin; exact Ea).
    rewrite Hin, andb_true_r. reflexivity.
Qed.

Lemma adj_annotations_spec c0ann ann c a o c' a' o' :
  keys_w7 ann -> AInv c0ann (a_ann a) (c_ann c) ->
  adj_annotations ann (c, a, o) = Ok (c', a', o') ->
  exists v r, c' = with_c_ann c v /\ a' = with_a_ann a r /\ AInv c0ann r v /\
              (forall x, alookup x v = alookup x (apply_ann (c_ann c) ann)) /\ kkfr o o'.
Proof.
  intros Hw Hinv H. unfold adj_annotations in H. destruct ann as [|e0 r0].
  - inversion H; subst. exists (c_ann c'), (a_ann a').
    rewrite with_c_ann_eta, with_a_ann_eta.
    split; [reflexivity|]. split; [reflexivity|]. split; [exact Hinv|]. split; [reflexivity|apply kkfr_refl].
  - remember (e0 :: r0) as ann' eqn:Ea. clear Ea e0 r0.
    destruct (adjust_annotations (c_id c) ann' (c_ann c) (a_ann a) o) as [[[v r] o1]|e] eqn:Hs; [|discriminate].
    inversion H; subst. exists v, r.
    destruct (adjust_annotations_spec c0ann _ _ _ _ _ _ _ _ Hw Hinv Hs) as [H1 [H2 H3]].
    split; [reflexivity|]. split; [reflexivity|]. split; [exact H1|]. split; [exact H2|exact H3].
Qed.

(* ====================================================================== *)
(* the keyed list families: what KeyedProofs leaves to say                *)
(* ====================================================================== *)
Section KX.
Variables (E W : Type) (ekey : E -> string) (wkey : W -> string) (inj : E -> W) (mk : string -> item).
Variable good : E -> Prop.
Hypothesis inj_key : forall e, good e -> marked (ekey e) = false -> wkey (inj e) = ekey e.
Hypothesis mk_inj : forall a b, mk a = mk b -> a = b.

Definition w7good (es : list E) : Prop := forall e, In e es -> marked (rawkey (ekey e)) = false /\ good e.

Lemma kstep_nodup id es reply view o out :
  kstep ekey wkey inj mk id es reply view o = Ok out -> NoDup (k_mods ekey es).
Proof.
  intros H. destruct es as [|e0 es0]; [constructor|].
  pose proof (kstep_nonempty _ _ ekey wkey inj mk id e0 es0 reply view o) as Hks. cbv zeta in Hks. rewrite Hks in H. clear Hks.
  destruct (claim_all _ _) as [o2|] eqn:Hc; [|discriminate].
  destruct (claim_all_ok _ _ _ Hc) as [_ [Hnd _]]. apply NoDup_map_inv in Hnd. exact Hnd.
Qed.

Lemma kfind_adds_marked es k : marked k = true -> kfind ekey k (k_adds ekey es) = None.
Proof.
  intros Hk. destruct (kfind ekey k (k_adds ekey es)) as [e|] eqn:Hf; [|reflexivity].
  destruct (kfind_Some_key _ _ _ _ Hf) as [He Hin]. apply adds_unmarked in Hin. congruence.
Qed.

Lemma apply_keyed_marked view es k :
  w7good es -> marked k = true -> kfind wkey k (apply_keyed ekey wkey inj view es) = kfind wkey k view.
Proof.
  intros Hw Hk. rewrite kfind_apply_keyed.
  assert (H1 : smem k (r_dels ekey es) = false).
  { apply smem_false_notin. intros Hi. apply (In_dels_unmarked _ ekey es k) in Hi; [congruence|]. intros e He. apply Hw. exact He. }
  assert (H2 : smem k (r_mods ekey es) = false).
  { apply smem_false_notin. intros Hi. unfold r_mods in Hi. apply in_map_iff in Hi. destruct Hi as [e [He Hin]].
    apply (adds_unmarked _ ekey es e) in Hin. congruence. }
  rewrite H1, H2. cbn [negb andb].
  rewrite (kfind_map_inj _ _ ekey wkey inj good inj_key) by (apply adds_good; intros e He; apply Hw; exact He).
  change (r_adds ekey es) with (k_adds ekey es). rewrite (kfind_adds_marked es k Hk).
  destruct (kfind wkey k view); reflexivity.
Qed.

(* the reply read as ONE adjustment of the original yields what is shown, for every key *)
Lemma KInv_sem_all id orig reply view o :
  KInv ekey wkey inj mk good id orig reply view o ->
  (forall k, marked k = true -> kfind wkey k view = kfind wkey k orig) ->
  forall k, kfind wkey k (apply_keyed ekey wkey inj orig reply) = kfind wkey k view.
Proof.
  intros [Hsem Hown Hrwf] Hm k. destruct (marked k) eqn:Hk.
  - rewrite (apply_keyed_marked orig reply k Hrwf Hk). symmetry. apply Hm. exact Hk.
  - apply Hsem. exact Hk.
Qed.

Lemma KInv_ledger id orig reply view o o' :
  KInv ekey wkey inj mk good id orig reply view o ->
  (forall k, lmem (id, mk k) o' = lmem (id, mk k) o) ->
  KInv ekey wkey inj mk good id orig reply view o'.
Proof. intros [Hsem Hown Hrwf] Hl. split; [exact Hsem| |exact Hrwf]. intros k. rewrite Hl. apply Hown. Qed.

Theorem kstep_full id orig es reply view o reply' view' o' :
  KInv ekey wkey inj mk good id orig reply view o ->
  (forall k, marked k = true -> kfind wkey k view = kfind wkey k orig) ->
  w7good es ->
  kstep ekey wkey inj mk id es reply view o = Ok (reply', view', o') ->
  KInv ekey wkey inj mk good id orig reply' view' o' /\
  view' = apply_keyed ekey wkey inj view es /\
  (forall k, marked k = true -> kfind wkey k view' = kfind wkey k orig) /\
  (forall x, (forall k, x <> (id, mk k)) -> lmem x o' = lmem x o).
Proof.
  intros Hinv Hm Hw H.
  assert (Hwf : wf_resp ekey good es) by (split; [exact Hw|apply (kstep_nodup _ _ _ _ _ _ H)]).
  destruct (kstep_preserves ekey wkey inj mk good inj_key mk_inj _ _ _ _ _ _ _ _ _ Hinv Hwf H) as [H1 H2].
  split; [exact H1|]. split; [exact H2|]. split.
  - intros k Hk. rewrite H2, (apply_keyed_marked view es k Hw Hk). apply Hm. exact Hk.
  - intros x Hx. apply (kstep_other ekey wkey inj mk _ _ _ _ _ _ _ _ x H Hx).
Qed.
End KX.

Arguments w7good {E}.

(* ---- instances ---- *)
Definition mgood (m : mount) : Prop := True.
Definition dgood (d : device) : Prop := True.
(* an environment entry whose plain name contains no '=' *)
Definition egood (e : string * string) : Prop := marked (fst e) = false -> count_char "="%char (fst e) = 0.

Lemma m_inj_key (e : mount) : mgood e -> marked (m_dest e) = false -> m_dest ((fun m : mount => m) e) = m_dest e.
Proof. reflexivity. Qed.
Lemma d_inj_key (e : device) : dgood e -> marked (d_path e) = false -> d_path ((fun d : device => d) e) = d_path e.
Proof. reflexivity. Qed.
Lemma e_inj_key e : egood e -> marked (env_entry_key e) = false -> env_key (env_to_oci e) = env_entry_key e.
Proof.
  unfold egood, env_entry_key, env_key, env_to_oci. intros Hg Hm. rewrite (cut_key_eq _ _ (Hg Hm)). reflexivity.
Qed.

Definition MKInv := KInv m_dest m_dest (fun m : mount => m) IMount mgood.
Definition EKInv := KInv env_entry_key env_key env_to_oci IEnv egood.
Definition DKInv := KInv d_path d_path (fun d : device => d) IDev dgood.

Lemma adj_mounts_spec ms c a o c' a' o' :
  adj_mounts ms (c, a, o) = Ok (c', a', o') ->
  exists r v, c' = with_c_mounts c v /\ a' = with_a_mounts a r /\
              kstep m_dest m_dest (fun m => m) IMount (c_id c) ms (a_mounts a) (c_mounts c) o = Ok (r, v, o').
Proof.
  unfold adj_mounts. intros H.
  destruct (kstep m_dest m_dest (fun m => m) IMount (c_id c) ms (a_mounts a) (c_mounts c) o) as [[[r v] o1]|e]; [|discriminate].
  inversion H; subst. exists r, v. repeat split.
Qed.

Lemma adj_env_spec es c a o c' a' o' :
  adj_env es (c, a, o) = Ok (c', a', o') ->
  exists r v, c' = with_c_env c v /\ a' = with_a_env a r /\
              kstep env_entry_key env_key env_to_oci IEnv (c_id c) es (a_env a) (c_env c) o = Ok (r, v, o').
Proof.
  unfold adj_env. intros H.
  destruct (kstep env_entry_key env_key env_to_oci IEnv (c_id c) es (a_env a) (c_env c) o) as [[[r v] o1]|e]; [|discriminate].
  inversion H; subst. exists r, v. repeat split.
Qed.

Lemma adj_devices_spec ds c a o c' a' o' :
  adj_devices ds (c, a, o) = Ok (c', a', o') ->
  exists r v, c' = with_c_devices c v /\ a' = with_a_devices a r /\
              kstep d_path d_path (fun d => d) IDev (c_id c) ds (a_devices a) (c_devices c) o = Ok (r, v, o').
Proof.
  unfold adj_devices. intros H.
  destruct (kstep d_path d_path (fun d => d) IDev (c_id c) ds (a_devices a) (c_devices c) o) as [[[r v] o1]|e]; [|discriminate].
  inversion H; subst. exists r, v. repeat split.
Qed.

(* ====================================================================== *)
(* resources                                                              *)
(* ====================================================================== *)
Lemma claim_scalars_spec id fs src : forall dst o r o',
  claim_scalars id fs src dst o = (r, o') ->
  kkfr o o' /\ (forall dst', r = Ok dst' -> dst' = fold_left (scal_step src) fs dst).
Proof.
  induction fs as [|f rest IH]; intros dst o r o' H; cbn [claim_scalars] in H.
  - inversion H; subst. split; [apply kkfr_refl|]. intros dst' E. inversion E. reflexivity.
  - cbn [fold_left]. unfold scal_step at 2. destruct (flookup f src) as [v|]; [|apply (IH _ _ _ _ H)].
    destruct (claim (id, IScal f) o) as [o1|e] eqn:Hc.
    + destruct (IH _ _ _ _ H) as [H1 H2]. split; [|exact H2].
      apply (kkfr_trans _ o1); [apply (claim_kkfr2 _ _ _ Hc eq_refl)|exact H1].
    + inversion H; subst. split; [apply kkfr_refl|]. intros dst' E. discriminate.
Qed.

Lemma claim_hp_spec id hp : forall dst o r o',
  claim_hp id hp dst o = (r, o') -> kkfr o o' /\ (forall dst', r = Ok dst' -> dst' = dst ++ hp).
Proof.
  induction hp as [|[size lim] rest IH]; intros dst o r o' H; cbn [claim_hp] in H.
  - inversion H; subst. split; [apply kkfr_refl|]. intros dst' E. inversion E. rewrite app_nil_r. reflexivity.
  - destruct (claim (id, IHp size) o) as [o1|e] eqn:Hc.
    + destruct (IH _ _ _ _ H) as [H1 H2]. split.
      * apply (kkfr_trans _ o1); [apply (claim_kkfr2 _ _ _ Hc eq_refl)|exact H1].
      * intros dst' E. rewrite (H2 _ E), <- app_assoc. reflexivity.
    + inversion H; subst. split; [apply kkfr_refl|]. intros dst' E. discriminate.
Qed.

Lemma claim_unified_spec id uni : forall dst o r o',
  claim_unified id uni dst o = (r, o') -> kkfr o o' /\ (forall dst', r = Ok dst' -> dst' = set_all uni dst).
Proof.
  induction uni as [|[k v] rest IH]; intros dst o r o' H; cbn [claim_unified] in H.
  - inversion H; subst. split; [apply kkfr_refl|]. intros dst' E. inversion E. reflexivity.
  - destruct (claim (id, IUni k) o) as [o1|e] eqn:Hc.
    + destruct (IH _ _ _ _ H) as [H1 H2]. split.
      * apply (kkfr_trans _ o1); [apply (claim_kkfr2 _ _ _ Hc eq_refl)|exact H1].
      * intros dst' E. rewrite (H2 _ E). reflexivity.
    + inversion H; subst. split; [apply kkfr_refl|]. intros dst' E. discriminate.
Qed.

(* updateResources / adjustResources write exactly what the reference semantics of resources says *)
Lemma merge_resources_spec id src dst o r o' :
  merge_resources id src dst o = (r, o') ->
  kkfr o o' /\ (forall dst', r = Ok dst' -> dst' = apply_res dst src).
Proof.
  unfold merge_resources. intros H.
  destruct (claim_scalars id scalars_a (r_scal src) (r_scal dst) o) as [[sc1|e1] o1] eqn:H1.
  2:{ inversion H; subst. destruct (claim_scalars_spec _ _ _ _ _ _ _ H1) as [F1 _]. split; [exact F1|]. intros d E. discriminate. }
  destruct (claim_hp id (r_hp src) (r_hp dst) o1) as [[hp1|e2] o2] eqn:H2.
  2:{ inversion H; subst. destruct (claim_scalars_spec _ _ _ _ _ _ _ H1) as [F1 _]. destruct (claim_hp_spec _ _ _ _ _ _ H2) as [F2 _].
      split; [apply (kkfr_trans _ o1); assumption|]. intros d E. discriminate. }
  destruct (claim_unified id (r_uni src) (r_uni dst) o2) as [[un1|e3] o3] eqn:H3.
  2:{ inversion H; subst. destruct (claim_scalars_spec _ _ _ _ _ _ _ H1) as [F1 _]. destruct (claim_hp_spec _ _ _ _ _ _ H2) as [F2 _].
      destruct (claim_unified_spec _ _ _ _ _ _ H3) as [F3 _].
      split; [apply (kkfr_trans _ o1); [assumption|apply (kkfr_trans _ o2); assumption]|]. intros d E. discriminate. }
  destruct (claim_scalars id scalars_b (r_scal src) sc1 o3) as [[sc2|e4] o4] eqn:H4.
  - inversion H; subst.
    destruct (claim_scalars_spec _ _ _ _ _ _ _ H1) as [F1 G1]. destruct (claim_hp_spec _ _ _ _ _ _ H2) as [F2 G2].
    destruct (claim_unified_spec _ _ _ _ _ _ H3) as [F3 G3]. destruct (claim_scalars_spec _ _ _ _ _ _ _ H4) as [F4 G4].
    split; [apply (kkfr_trans _ o1); [assumption|apply (kkfr_trans _ o2); [assumption|apply (kkfr_trans _ o3); assumption]]|].
    intros d E. inversion E; subst. unfold apply_res. f_equal.
    + rewrite (G4 _ eq_refl), (G1 _ eq_refl), apply_scal_fold. unfold all_scalars. rewrite fold_left_app. reflexivity.
    + apply (G2 _ eq_refl).
    + apply (G3 _ eq_refl).
  - inversion H; subst.
    destruct (claim_scalars_spec _ _ _ _ _ _ _ H1) as [F1 _]. destruct (claim_hp_spec _ _ _ _ _ _ H2) as [F2 _].
    destruct (claim_unified_spec _ _ _ _ _ _ H3) as [F3 _]. destruct (claim_scalars_spec _ _ _ _ _ _ _ H4) as [F4 _].
    split; [apply (kkfr_trans _ o1); [assumption|apply (kkfr_trans _ o2); [assumption|apply (kkfr_trans _ o3); assumption]]|].
    intros d E. discriminate.
Qed.

Lemma adj_resources_spec r c a o c' a' o' :
  adj_resources r (c, a, o) = Ok (c', a', o') ->
  c' = with_c_res c (apply_res (c_res c) r) /\ a' = with_a_res a (apply_res (a_res a) r) /\ kkfr o o'.
Proof.
  unfold adj_resources. intros H.
  destruct (merge_resources (c_id c) r (c_res c) o) as [[cres|e1] o1] eqn:H1; [|discriminate].
  destruct (merge_resources (c_id c) r (a_res a) o) as [[ares|e2] o2] eqn:H2; [|discriminate].
  inversion H; subst.
  destruct (merge_resources_spec _ _ _ _ _ _ H1) as [F1 G1]. destruct (merge_resources_spec _ _ _ _ _ _ H2) as [F2 G2].
  rewrite (G1 _ eq_refl), (G2 _ eq_refl). repeat split. exact F1.
Qed.

(* "the reply's resources applied to the original's give what is shown", preserved by one more overlay *)
Record RInv (r0 ra rc : resources) : Prop := {
  ri_scal : forall f, flookup f (apply_scal (r_scal r0) (r_scal ra)) = flookup f (r_scal rc);
  ri_hp : r_hp rc = r_hp r0 ++ r_hp ra;
  ri_uni : forall k, alookup k (set_all (r_uni ra) (r_uni r0)) = alookup k (r_uni rc);
  ri_nd : NoDup (akeys (r_uni ra))
}.

Lemma RInv_step r0 ra rc r : RInv r0 ra rc -> RInv r0 (apply_res ra r) (apply_res rc r).
Proof.
  intros [Hs Hh Hu Hn]. split; cbn [apply_res r_scal r_hp r_uni].
  - intros f. rewrite !flookup_apply_scal. rewrite <- Hs, flookup_apply_scal.
    destruct (flookup f (r_scal r)); [reflexivity|]. destruct (flookup f (r_scal ra)); reflexivity.
  - rewrite Hh, app_assoc. reflexivity.
  - intros k. fold (set_all (r_uni r) (r_uni ra)). fold (set_all (r_uni r) (r_uni rc)).
    rewrite !alookup_set_all.
    rewrite (alast_nodup k (set_all (r_uni r) (r_uni ra)) (NoDup_akeys_set_all _ _ Hn)).
    rewrite alookup_set_all. rewrite <- Hu, alookup_set_all, (alast_nodup k _ Hn).
    destruct (alast k (r_uni r)); [reflexivity|]. destruct (alookup k (r_uni ra)); reflexivity.
  - fold (set_all (r_uni r) (r_uni ra)). apply NoDup_akeys_set_all. exact Hn.
Qed.

Lemma RInv_init r0 : RInv r0 res_empty r0.
Proof.
  split; cbn [res_empty r_scal r_hp r_uni].
  - intros f. rewrite flookup_apply_scal. reflexivity.
  - rewrite app_nil_r. reflexivity.
  - reflexivity.
  - constructor.
Qed.

(* ====================================================================== *)
(* args, hooks, cgroups path, OOM score, rlimits, CDI devices             *)
(* ====================================================================== *)
Definition args_wf (args : list string) : Prop :=
  match args with
  | a0 :: rest => a0 = "" -> exists r0 rest', rest = r0 :: rest' /\ r0 <> ""
  | [] => True
  end.

Lemma adj_args_spec args c a o c' a' o' :
  args_wf args ->
  adj_args args (c, a, o) = Ok (c', a', o') ->
  kkfr o o' /\
  exists v w, c' = with_c_args c v /\ a' = with_a_args a w /\
              v = apply_args (c_args c) args /\
              (forall c0args, c_args c = apply_args c0args (a_args a) -> v = apply_args c0args w).
Proof.
  intros Hwf H. unfold adj_args in H. destruct args as [|a0 rest].
  - inversion H; subst. split; [apply kkfr_refl|]. exists (c_args c'), (a_args a').
    rewrite with_c_args_eta, with_a_args_eta. repeat split. intros c0args E. exact E.
  - cbn [args_wf] in Hwf. destruct (String.eqb_spec a0 "") as [->|Hn].
    + destruct (Hwf eq_refl) as [r0 [rest' [-> Hr0]]].
      destruct (claim (c_id c, IArgs) (lremove (c_id c, IArgs) o)) as [o2|e] eqn:Hc; [|discriminate].
      inversion H; subst. split.
      * apply (kkfr_trans _ (lremove (c_id c, IArgs) o)); [apply lremove_kkfr; reflexivity|apply (claim_kkfr2 _ _ _ Hc eq_refl)].
      * exists (r0 :: rest'), (r0 :: rest'). repeat split.
        intros c1 _. cbn [apply_args]. destruct (String.eqb_spec r0 "") as [->|_]; [contradiction|reflexivity].
    + destruct (claim (c_id c, IArgs) o) as [o2|e] eqn:Hc; [|discriminate].
      inversion H; subst. split; [apply (claim_kkfr2 _ _ _ Hc eq_refl)|].
      exists (a0 :: rest), (a0 :: rest). repeat split.
      * cbn [apply_args]. destruct (String.eqb_spec a0 "") as [->|_]; [contradiction|reflexivity].
      * intros c1 _. cbn [apply_args]. destruct (String.eqb_spec a0 "") as [->|_]; [contradiction|reflexivity].
Qed.

Lemma adj_hooks_spec h c a o c' a' o' :
  adj_hooks h (c, a, o) = Ok (c', a', o') ->
  c' = with_c_hooks c (hooks_append (c_hooks c) h) /\ a' = with_a_hooks a (hooks_append (a_hooks a) h) /\ o' = o.
Proof. unfold adj_hooks. intros H. inversion H; subst. repeat split. Qed.

Lemma hooks_append_assoc a b c : hooks_append (hooks_append a b) c = hooks_append a (hooks_append b c).
Proof. unfold hooks_append. cbn. rewrite <- !app_assoc. reflexivity. Qed.

Lemma adj_cgroups_spec p c a o c' a' o' :
  adj_cgroups p (c, a, o) = Ok (c', a', o') ->
  kkfr o o' /\
  c' = with_c_cgroups c (if String.eqb p "" then c_cgroups c else p) /\
  a' = with_a_cgroups a (if String.eqb p "" then a_cgroups a else p).
Proof.
  unfold adj_cgroups. intros H. destruct (String.eqb p "").
  - inversion H; subst. rewrite with_c_cgroups_eta, with_a_cgroups_eta. split; [apply kkfr_refl|]. split; reflexivity.
  - destruct (claim (c_id c, ICgroups) o) as [o2|e] eqn:Hc; [|discriminate]. inversion H; subst.
    split; [apply (claim_kkfr2 _ _ _ Hc eq_refl)|]. split; reflexivity.
Qed.

Lemma adj_oom_spec v c a o c' a' o' :
  adj_oom v (c, a, o) = Ok (c', a', o') ->
  kkfr o o' /\
  c' = with_c_oom c (match v with Some z => Some z | None => c_oom c end) /\
  a' = with_a_oom a (match v with Some z => Some z | None => a_oom a end).
Proof.
  unfold adj_oom. intros H. destruct v as [z|].
  - destruct (claim (c_id c, IOom) o) as [o2|e] eqn:Hc; [|discriminate]. inversion H; subst.
    split; [apply (claim_kkfr2 _ _ _ Hc eq_refl)|]. split; reflexivity.
  - inversion H; subst. rewrite with_c_oom_eta, with_a_oom_eta. split; [apply kkfr_refl|]. split; reflexivity.
Qed.

Lemma adj_rlimits_spec ls : forall c a o c' a' o',
  adj_rlimits ls (c, a, o) = Ok (c', a', o') ->
  kkfr o o' /\ c' = with_c_rlimits c (c_rlimits c ++ ls) /\ a' = with_a_rlimits a (a_rlimits a ++ ls).
Proof.
  induction ls as [|l r IH]; intros c a o c' a' o' H; cbn [adj_rlimits] in H.
  - inversion H; subst. rewrite !app_nil_r, with_c_rlimits_eta, with_a_rlimits_eta. split; [apply kkfr_refl|]. split; reflexivity.
  - destruct (claim (c_id c, IRlimit (rl_type l)) o) as [o2|e] eqn:Hc; [|discriminate].
    destruct (IH _ _ _ _ _ _ H) as [H1 [H2 H3]]. split; [|split].
    + apply (kkfr_trans _ o2); [apply (claim_kkfr2 _ _ _ Hc eq_refl)|exact H1].
    + rewrite H2. cbn [c_rlimits with_c_rlimits]. rewrite <- app_assoc. reflexivity.
    + rewrite H3. cbn [a_rlimits with_a_rlimits]. rewrite <- app_assoc. reflexivity.
Qed.

Lemma adj_cdi_spec ds : forall c a o c' a' o',
  adj_cdi ds (c, a, o) = Ok (c', a', o') ->
  kkfr o o' /\ c' = c /\ a' = with_a_cdi a (a_cdi a ++ ds).
Proof.
  induction ds as [|d r IH]; intros c a o c' a' o' H; cbn [adj_cdi] in H.
  - inversion H; subst. rewrite app_nil_r, with_a_cdi_eta. split; [apply kkfr_refl|]. split; reflexivity.
  - destruct (claim (c_id c, ICdi d) o) as [o2|e] eqn:Hc; [|discriminate].
    destruct (IH _ _ _ _ _ _ H) as [H1 [H2 H3]]. split; [|split].
    + apply (kkfr_trans _ o2); [apply (claim_kkfr2 _ _ _ Hc eq_refl)|exact H1].
    + exact H2.
    + rewrite H3. cbn [a_cdi with_a_cdi]. rewrite <- app_assoc. reflexivity.
Qed.
