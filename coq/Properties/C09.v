(* C09 — Synchronization delivers the runtime's complete state however it must be split.
   This file contains only statements closed by [exact], their assumptions, and examples.
   Model: Model/SyncSplit.v (sender plugin.synchronize + recalcObjsPerSyncMsg with its
   float64 arithmetic, receiver stub.collectSync/deliverSync and stub.close between two
   connections of one stub value, activation bookkeeping);
   vocabulary of the statements: Spec/SyncSpec.v. *)
From Coq Require Import List ZArith Bool Floats.SpecFloat.
From NRI Require Import Model.SyncConsts Model.SyncSplit Spec.SyncSpec Proofs.SyncFloatProofs Proofs.SyncSplitProofs.
Import ListNotations.
Open Scope Z_scope.

(* ---------------------------------------------------------------------------------- *)
(* Receiver.  Fed any split request - any number of messages flagged More carrying any
   groups, then one message not flagged - the stub invokes the plugin's handler exactly
   once, with the concatenation of all pods and of all containers in arrival order,
   answers every More message with More and no updates, and answers the last message
   with what the handler returned. *)
Theorem C09_receiver_concat :
  forall (A B U : Type) (h : list A -> list B -> option (list U))
         (groups : list (list A * list B)) (lp : list A) (lc : list B),
  let all_pods := concat (map fst groups) ++ lp in
  let all_ctrs := concat (map snd groups) ++ lc in
  peer_run (stub_sync (Some h)) stub_init (more_msgs groups ++ [(lp, lc, false)]) =
  ({| ss_acc := None; ss_calls := [(all_pods, all_ctrs)] |},
   map (fun _ => more_reply) groups ++ [final_reply h all_pods all_ctrs]).
Proof. exact receiver_concat. Qed.
Print Assumptions C09_receiver_concat.

(* ---------------------------------------------------------------------------------- *)
(* Safety of the sender, for ALL pod and container lists, any honest transport (in
   particular all object sizes and limits, C09_safety_sizes) and any plugin end: with at
   least 2 * (pods + containers) + 1 iterations of fuel the outcome is never a slice-bound
   panic and never out of fuel; if delivered, the messages carry exactly the pods and the
   containers, each once, in order, all but the last flagged More, and the updates handed
   to the runtime are those of the plugin's last reply; if failed, what was sent is a
   prefix of the state.  (sync_good, Spec/SyncSpec.v.)
   The bound 2^53 on the list lengths is where float64(n) stops being exact. *)
Theorem C09_safety :
  forall (A B U PS : Type) (xmit : list A -> list B -> bool -> xres)
         (peer : PS -> list A -> list B -> bool -> PS * option (reply U))
         (pods : list A) (ctrs : list B) (st : PS) (fuel : nat),
  honest xmit -> len pods < 2 ^ 53 -> len ctrs < 2 ^ 53 -> (sync_fuel pods ctrs <= fuel)%nat ->
  sync_good peer pods ctrs st (synchronize xmit peer recalc fuel pods ctrs st).
Proof. exact @safety. Qed.
Print Assumptions C09_safety.

Theorem C09_safety_sizes :
  forall (A B U PS : Type) (wa : A -> Z) (wb : B -> Z) (hdr more_cost L : Z)
         (peer : PS -> list A -> list B -> bool -> PS * option (reply U))
         (pods : list A) (ctrs : list B) (st : PS) (fuel : nat),
  0 < L -> len pods < 2 ^ 53 -> len ctrs < 2 ^ 53 -> (sync_fuel pods ctrs <= fuel)%nat ->
  sync_good peer pods ctrs st (synchronize (xmit_size wa wb hdr more_cost L) peer recalc fuel pods ctrs st).
Proof. exact @safety_sizes. Qed.
Print Assumptions C09_safety_sizes.

(* Sender and receiver together: when the plugin end is the stub, a delivered
   synchronisation means the handler ran exactly once, on exactly the runtime's state,
   and the updates the runtime gets are the ones the handler returned. *)
Theorem C09_handler_once :
  forall (A B U : Type) (h : list A -> list B -> option (list U)) (pods : list A) (ctrs : list B)
         (s : list (chunk A B)) (u : list U) (st' : stub_state A B),
  sync_good (stub_sync (Some h)) pods ctrs stub_init (Delivered s u st') ->
  ss_calls st' = [(pods, ctrs)] /\ ss_acc st' = None /\ h pods ctrs = Some u.
Proof. exact delivered_to_stub. Qed.
Print Assumptions C09_handler_once.

(* ---------------------------------------------------------------------------------- *)
(* Per registration.  One stub value may be started again after its connection was lost or
   after Stop; the chunks it has collected are part of that value.  A connection (session,
   Spec/SyncSpec.v) is any list of groups sent flagged More, ended either by the message
   not flagged More or by the loss of the connection before it (the runtime gave up because
   a later chunk could not be sent, a time-out, a restart); close() runs between two
   connections.  For ANY sequence of connections - any groups, any number of connections
   cut off at any point, in any mixture with completed ones - the handler invocations are,
   in order, exactly [session_delivery] of each connection: none for one cut off, exactly
   one for a completed one, with the concatenation of the groups of THAT connection (each
   object once, in arrival order, nothing of an earlier connection); and nothing collected
   is left behind.  [close_resets_sync] is regenerated from stub.go on every run. *)
Theorem C09_sessions_isolated :
  forall (A B U : Type) (h : list A -> list B -> option (list U)) (ss : list (session A B)),
  let st := stub_sessions (Some h) close_resets_sync stub_init (map session_msgs ss) in
  ss_calls st = flat_map session_delivery ss /\ ss_acc st = None /\
  (forall s, In s ss -> (length (session_delivery s) <= 1)%nat).
Proof. exact sessions_isolated_full. Qed.
Print Assumptions C09_sessions_isolated.

(* the case the statement was written for: any number of registrations that failed after any
   number of accepted chunks, then one that completes - the handler has run exactly once,
   with the state of the completed registration *)
Theorem C09_failed_then_delivered :
  forall (A B U : Type) (h : list A -> list B -> option (list U))
         (failed : list (list (list A * list B))) (groups : list (list A * list B)) (lp : list A) (lc : list B),
  ss_calls (stub_sessions (Some h) close_resets_sync stub_init
             (map session_msgs (map (fun g => (g, SClosed)) failed ++ [(groups, SFinal lp lc)]))) =
  [(concat (map fst groups) ++ lp, concat (map snd groups) ++ lc)].
Proof. exact failed_then_delivered. Qed.
Print Assumptions C09_failed_then_delivered.

(* sender and receiver together after a restart: whatever state earlier connections left in
   the stub value, after close() a delivered synchronisation means exactly one more handler
   invocation, on exactly the runtime's state, and the runtime gets the handler's updates *)
Theorem C09_handler_once_after_restart :
  forall (A B U : Type) (h : list A -> list B -> option (list U)) (st : stub_state A B)
         (pods : list A) (ctrs : list B) (s : list (chunk A B)) (u : list U) (st' : stub_state A B),
  sync_good (stub_sync (Some h)) pods ctrs (stub_close close_resets_sync st) (Delivered s u st') ->
  ss_calls st' = ss_calls st ++ [(pods, ctrs)] /\ ss_acc st' = None /\ h pods ctrs = Some u.
Proof. exact delivered_after_restart. Qed.
Print Assumptions C09_handler_once_after_restart.

(* The reset in close() is what the three statements rest on: for the variant of the model
   without it, C09_sessions_isolated is false - a chunk collected on a connection that was
   then lost is handed to the handler of the next connection (witness in
   C09_ex_sessions_no_reset below). *)
Theorem C09_sessions_no_reset_refuted :
  exists (h : list Z -> list Z -> option (list Z)) (ss : list (session Z Z)),
    ss_calls (stub_sessions (Some h) false stub_init (map session_msgs ss)) <> flat_map session_delivery ss.
Proof. exact sessions_no_reset_refuted. Qed.
Print Assumptions C09_sessions_no_reset_refuted.

(* ---------------------------------------------------------------------------------- *)
(* One request per registration, whatever the plugin answers.  plugin.synchronize tries again only
   when the SENDING side rejected a message as oversized (nothing was delivered); an error that comes
   back from the plugin after a message was delivered - whatever its kind, a gRPC status
   ResourceExhausted included - ends the synchronisation (recalcObjsPerSyncMsg returns an error for
   everything but the send-side *ttrpc.OversizedMessageErr).  Both statements need NO hypothesis: they
   hold for any transport behaviour, any plugin end / handler, any recalculation function, any fuel.

   (1) Nothing is sent after a message not flagged More. *)
Theorem C09_no_resend :
  forall (A B U PS : Type) (xmit : list A -> list B -> bool -> xres)
         (peer : PS -> list A -> list B -> bool -> PS * option (reply U))
         (rc : Z -> Z -> Z -> Z -> option (Z * Z)) (fuel : nat) (pods : list A) (ctrs : list B) (st : PS),
  no_resend (chunks_flags (sent_of (synchronize xmit peer rc fuel pods ctrs st))) = true.
Proof. exact synchronize_no_resend. Qed.
Print Assumptions C09_no_resend.

(* (2) Against the stub, after close(), whatever earlier connections left in the stub value and whatever
   the handler returns - updates, a gRPC status of any code, any other error: one synchronize call
   invokes the handler at most once, and then with exactly the runtime's state; delivered = invoked
   once and the handler succeeded; if the handler returned an error the synchronisation failed
   (FPeerErr; by C09_failed_not_activated the plugin is not activated) and nothing was sent again. *)
Theorem C09_handler_at_most_once :
  forall (A B U : Type) (he : list A -> list B -> list U + herror)
         (xmit : list A -> list B -> bool -> xres) (rc : Z -> Z -> Z -> Z -> option (Z * Z))
         (fuel : nat) (pods : list A) (ctrs : list B) (st : stub_state A B),
  match synchronize xmit (stub_sync (Some (forget_error he))) rc fuel pods ctrs (stub_close close_resets_sync st) with
  | Delivered _ u st' => ss_calls st' = ss_calls st ++ [(pods, ctrs)] /\ he pods ctrs = inl u
  | Failed why _ st' =>
      ss_calls st' = ss_calls st \/
      (why = FPeerErr /\ ss_calls st' = ss_calls st ++ [(pods, ctrs)] /\ exists e, he pods ctrs = inr e)
  | Panic _ | OutOfFuel _ => True
  end.
Proof. exact @handler_at_most_once. Qed.
Print Assumptions C09_handler_at_most_once.

(* ---------------------------------------------------------------------------------- *)
(* A plugin without a Synchronize handler (events only).  stub.Synchronize then answers every message
   itself, with the More flag it was sent and no updates.  For ANY transport, recalculation function, fuel
   and state: the registration goes exactly as for a stub whose handler returns no updates - the same
   messages, the same outcome (same_outcome: delivered / failed with the same reason / ...), no updates -
   and the stub's state is untouched (no handler invocation, nothing collected).  In particular a state that
   needs several messages is delivered to it whenever it is delivered to a plugin with a handler
   (C09_delivers_sizes), and the plugin is activated (C09_failed_not_activated). *)
Theorem C09_no_handler_same_outcome :
  forall (A B U : Type) (xmit : list A -> list B -> bool -> xres) (rc : Z -> Z -> Z -> Z -> option (Z * Z))
         (fuel : nat) (pods : list A) (ctrs : list B) (st1 st2 : stub_state A B),
  same_outcome (synchronize xmit (stub_sync (U := U) None) rc fuel pods ctrs st1)
               (synchronize xmit (stub_sync (U := U) (Some (fun _ _ => Some []))) rc fuel pods ctrs st2) /\
  (forall st, final_state (synchronize xmit (stub_sync (U := U) None) rc fuel pods ctrs st1) = Some st -> st = st1).
Proof. exact no_handler_same_outcome. Qed.
Print Assumptions C09_no_handler_same_outcome.

(* ---------------------------------------------------------------------------------- *)
(* Several plugins on one runtime.  Plugins register one after the other on one Adaptation; the model
   of that (sync_all, Model/SyncSplit.v) synchronises each with its own call of synchronize, which starts
   from the whole state and has no other input: the outcome of the registration at any position is the
   outcome of that registration alone, whatever was synchronised before it and after it. *)
Theorem C09_sync_independent :
  forall (A B U PS : Type) (xmit : list A -> list B -> bool -> xres)
         (peer : PS -> list A -> list B -> bool -> PS * option (reply U))
         (rc : Z -> Z -> Z -> Z -> option (Z * Z)) (fuel : list A -> list B -> nat)
         (before after : list (registration A B PS)) (r : registration A B PS),
  nth_error (sync_all xmit peer rc fuel (before ++ r :: after)) (length before) = Some (sync_one xmit peer rc fuel r) /\
  length (sync_all xmit peer rc fuel (before ++ r :: after)) = S (length before + length after).
Proof. exact sync_independent. Qed.
Print Assumptions C09_sync_independent.

(* What a remembered chunk size would have to satisfy: the loop started from ANY counts that are legal
   slices and are 0 only for an exhausted list (Inv) is as good as started from the whole state; counts
   left over from another synchronisation (0 pods per message because ITS last message had none) are not
   such counts - C09_ex_zero_start: empty messages flagged More, for ever. *)
Theorem C09_start_counts_safe :
  forall (A B U PS : Type) (xmit : list A -> list B -> bool -> xres)
         (peer : PS -> list A -> list B -> bool -> PS * option (reply U))
         (ps : list A) (cs : list B) (pp cp : Z) (st : PS) (fuel : nat),
  honest xmit -> Inv ps cs pp cp -> len ps < 2 ^ 53 -> len cs < 2 ^ 53 ->
  (Z.to_nat (measure ps cs pp cp) < fuel)%nat ->
  sync_good peer ps cs st (sync_loop xmit peer recalc fuel ps cs pp cp st).
Proof. exact @start_counts_safe. Qed.
Print Assumptions C09_start_counts_safe.

(* ---------------------------------------------------------------------------------- *)
(* No cap on the retries.  The sender terminates because every retry lowers the number of objects per
   message (C09_safety: at most 2 * (pods + containers) + 1 iterations), not because few retries suffice:
   rescaling shrinks the NUMBER of objects, by a tenth per retry at best, so a message headed by one large
   object needs a number of consecutive retries that grows with the logarithm of the number of small
   objects behind it.  For the variant of the loop that gives up after cap consecutive oversize retries
   (sync_loop_capped, Spec/SyncSpec.v; it IS the model while the cap is not reached, C09_capped_below_cap)
   the delivery theorem is false for cap = 8, 16, 32, 64: one object of 400 000 bytes followed by 20 000 of
   one byte, every eight consecutive objects fit into a message (I4: delivery is owed), the model delivers
   (2501 messages), the variant refuses. *)
Theorem C09_retry_cap_refuted :
  forall cap : nat, In cap [8; 16; 32; 64]%nat ->
  exists (ws : list Z) (L : Z),
    0 < L /\ min_chunks_fit 49 2 L (map id (@nil Z)) (map id ws) = true /\
    outcome_ok (synchronize (xmit_size id id 49 2 L) (stub_sync (Some cap_h)) recalc (sync_fuel (@nil Z) ws) [] ws stub_init) = true /\
    outcome_ok (synchronize_capped (xmit_size id id 49 2 L) (stub_sync (Some cap_h)) recalc cap (sync_fuel (@nil Z) ws) [] ws stub_init) = false.
Proof. exact retry_cap_refuted. Qed.
Print Assumptions C09_retry_cap_refuted.

Theorem C09_capped_below_cap :
  forall (A B U PS : Type) (xmit : list A -> list B -> bool -> xres)
         (peer : PS -> list A -> list B -> bool -> PS * option (reply U))
         (rc : Z -> Z -> Z -> Z -> option (Z * Z)) (cap fuel : nat) (ps : list A) (cs : list B) (pp cp : Z) (st : PS) (retries : nat),
  (retries + fuel <= cap)%nat ->
  sync_loop_capped xmit peer rc cap fuel ps cs pp cp st retries = sync_loop xmit peer rc fuel ps cs pp cp st.
Proof. exact capped_below_cap. Qed.
Print Assumptions C09_capped_below_cap.

(* ---------------------------------------------------------------------------------- *)
(* Delivery (interpretation I4 of DESIGN 2.4).  If every group of at most minObjsPerMsg
   objects - some consecutive pods and some consecutive containers - fits into one message,
   the transport fails only with oversized-message errors (time-outs are outside the
   model) and the plugin end handles split requests, the state IS delivered. *)
Theorem C09_delivers :
  forall (A B U PS : Type) (xmit : list A -> list B -> bool -> xres)
         (peer : PS -> list A -> list B -> bool -> PS * option (reply U))
         (pods : list A) (ctrs : list B) (st : PS) (fuel : nat),
  honest xmit -> only_oversize xmit -> handles_split peer ->
  every_min_chunk_fits xmit min_objs_per_msg pods ctrs ->
  len pods < 2 ^ 53 -> len ctrs < 2 ^ 53 -> (sync_fuel pods ctrs <= fuel)%nat ->
  exists s u st', synchronize xmit peer recalc fuel pods ctrs st = Delivered s u st'.
Proof. exact @delivers. Qed.
Print Assumptions C09_delivers.

(* The same for object sizes, with I4 as the executable check the harness evaluates
   (min_chunks_fit), against the stub with a handler that does not fail: delivered, all
   objects once and in order, handler invoked exactly once with the state, its updates
   returned. *)
Theorem C09_delivers_sizes :
  forall (A B U : Type) (wa : A -> Z) (wb : B -> Z) (hdr more_cost L : Z)
         (h : list A -> list B -> option (list U)) (pods : list A) (ctrs : list B) (fuel : nat),
  0 < L -> (forall ps cs, h ps cs <> None) ->
  min_chunks_fit hdr more_cost L (map wa pods) (map wb ctrs) = true ->
  len pods < 2 ^ 53 -> len ctrs < 2 ^ 53 -> (sync_fuel pods ctrs <= fuel)%nat ->
  exists s u st',
    synchronize (xmit_size wa wb hdr more_cost L) (stub_sync (Some h)) recalc fuel pods ctrs stub_init = Delivered s u st' /\
    chunks_pods s = pods /\ chunks_ctrs s = ctrs /\
    ss_calls st' = [(pods, ctrs)] /\ h pods ctrs = Some u.
Proof. exact @delivers_sizes. Qed.
Print Assumptions C09_delivers_sizes.

Theorem C09_min_chunks_fit_sound :
  forall (A B : Type) (wa : A -> Z) (wb : B -> Z) (hdr more_cost L : Z) (pods : list A) (ctrs : list B),
  min_chunks_fit hdr more_cost L (map wa pods) (map wb ctrs) = true ->
  every_min_chunk_fits (xmit_size wa wb hdr more_cost L) min_objs_per_msg pods ctrs.
Proof. exact @min_chunks_fit_sound. Qed.
Print Assumptions C09_min_chunks_fit_sound.

(* ---------------------------------------------------------------------------------- *)
(* The generic part: the two theorems above hold for ANY recalculation function that
   (1) strictly reduces the total count, (2) makes a count 0 only if it was 0, and for
   delivery (3) gives up only at or below the minimum chunk; termination measure =
   objects left + objects per message (Proofs: measure, loop_good). *)
Theorem C09_generic_safety :
  forall (A B U PS : Type) (xmit : list A -> list B -> bool -> xres)
         (peer : PS -> list A -> list B -> bool -> PS * option (reply U))
         (rc : Z -> Z -> Z -> Z -> option (Z * Z)) (K : Z),
  honest xmit -> rc_decreases rc K -> rc_keeps_nonzero rc ->
  forall (pods : list A) (ctrs : list B) (st : PS) (fuel : nat),
  len pods <= K -> len ctrs <= K -> (sync_fuel pods ctrs <= fuel)%nat ->
  sync_good peer pods ctrs st (synchronize xmit peer rc fuel pods ctrs st).
Proof. exact synchronize_good. Qed.
Print Assumptions C09_generic_safety.

Theorem C09_generic_delivers :
  forall (A B U PS : Type) (xmit : list A -> list B -> bool -> xres)
         (peer : PS -> list A -> list B -> bool -> PS * option (reply U))
         (rc : Z -> Z -> Z -> Z -> option (Z * Z)) (K M : Z) (pods : list A) (ctrs : list B),
  honest xmit -> rc_decreases rc K -> rc_keeps_nonzero rc -> rc_gives_up_at_min rc M ->
  only_oversize xmit -> handles_split peer -> every_min_chunk_fits xmit M pods ctrs ->
  forall (st : PS) (fuel : nat),
  len pods <= K -> len ctrs <= K -> (sync_fuel pods ctrs <= fuel)%nat ->
  outcome_ok (synchronize xmit peer rc fuel pods ctrs st) = true.
Proof. exact synchronize_delivers. Qed.
Print Assumptions C09_generic_delivers.

(* ... and the concrete, float-based recalcObjsPerSyncMsg meets the three conditions
   (minObjsPerMsg and the cap 0.9 as regenerated from plugin.go). *)
Theorem C09_recalc_conditions :
  rc_decreases recalc (2 ^ 53 - 1) /\ rc_keeps_nonzero recalc /\ rc_gives_up_at_min recalc min_objs_per_msg.
Proof. exact (conj recalc_dec (conj recalc_zero recalc_min)). Qed.
Print Assumptions C09_recalc_conditions.

(* the float64 fact behind (1): int(float64(n) * min(0.9, float64(maxLen)/float64(msgLen)))
   is 0 for n = 0 and lies in [0, n-1] for 1 <= n < 2^53 (the NaN factor needs both lengths
   beyond the float64 range; the count is then the indefinite integer and the minimum is used) *)
Theorem C09_scale_bounds :
  forall n mx ml : Z, 0 <= n < 2 ^ 53 -> 0 < mx -> 0 < ml ->
  let F := sync_factor mx ml in
  (F = S754_nan /\ sync_scale n F = int_indefinite) \/
  (F <> S754_nan /\ 0 <= sync_scale n F /\ (n = 0 -> sync_scale n F = 0) /\ (1 <= n -> sync_scale n F <= n - 1)).
Proof. exact scale_factor_bounds. Qed.
Print Assumptions C09_scale_bounds.

(* ---------------------------------------------------------------------------------- *)
(* Clean failure.  synchronize returns an error exactly when the outcome is not
   Delivered; with a runtime SyncFn that returns the error it is handed (containerd,
   CRI-O, the harness), a registering plugin whose synchronisation failed is not in the
   active list afterwards, one whose synchronisation delivered is; the same for the
   pre-installed plugins of startPlugins. *)
Theorem C09_failed_not_activated :
  forall (A B U PS P : Type) (sort_plugins : list P -> list P) (o : outcome A B U PS) (active : list P) (p : P),
  (forall l x, In x (sort_plugins l) <-> In x l) ->
  (outcome_ok o = false -> ~ In p active -> ~ In p (accept_external sort_plugins true active p (outcome_ok o))) /\
  (outcome_ok o = true -> In p (accept_external sort_plugins true active p (outcome_ok o))).
Proof. exact @failed_not_activated. Qed.
Print Assumptions C09_failed_not_activated.

Theorem C09_preinstalled_failed_not_activated :
  forall (P : Type) (sort_plugins : list P -> list P) (sync_ok : P -> bool) (started : list P) (p : P),
  (forall l x, In x (sort_plugins l) <-> In x l) ->
  (In p (start_plugins sort_plugins sync_ok started) <-> In p started /\ sync_ok p = true).
Proof. exact @preinstalled_failed_not_activated. Qed.
Print Assumptions C09_preinstalled_failed_not_activated.

(* ---------------------------------------------------------------------------------- *)
(* Examples (non-vacuity).  Objects are their own sizes; envelope 49, More costs 2 bytes. *)
Definition ex_h : list Z -> list Z -> option (list Z) := fun ps cs => Some [len ps; len cs].
Definition ex_pods : list Z := [30; 30; 30].
Definition ex_ctrs : list Z := repeat 100 40.

(* a state that needs three messages with a limit of 1500 bytes: the hypotheses of
   C09_delivers_sizes hold, and the model run shows the split, the single handler call
   and the handler's updates coming back *)
Example C09_ex_hypotheses :
  0 < 1500 /\ min_chunks_fit 49 2 1500 (map id ex_pods) (map id ex_ctrs) = true /\ len ex_pods < 2 ^ 53.
Proof. repeat split. Qed.

Example C09_ex_split :
  exists s st',
    synchronize (xmit_size id id 49 2 1500) (stub_sync (Some ex_h)) recalc (sync_fuel ex_pods ex_ctrs) ex_pods ex_ctrs stub_init
      = Delivered s [3; 40] st' /\
    map (fun c : chunk Z Z => (len (fst (fst c)), len (snd (fst c)), snd c)) s
      = [(1, 14, true); (1, 14, true); (1, 12, false)] /\
    ss_calls st' = [(ex_pods, ex_ctrs)].
Proof. eexists. eexists. vm_compute. repeat split. Qed.

(* few large objects: one pod and 20 containers of 600 (limit 4000) - the shape of the
   historic slice-bound defect - are delivered in minimum chunks *)
Example C09_ex_few_large :
  exists s st',
    synchronize (xmit_size id id 49 2 4000) (stub_sync (Some ex_h)) recalc (sync_fuel [100] (repeat 600 20)) [100] (repeat 600 20) stub_init
      = Delivered s [1; 20] st' /\
    map (fun c : chunk Z Z => (len (fst (fst c)), len (snd (fst c)), snd c)) s
      = [(1, 4, true); (0, 4, true); (0, 4, true); (0, 4, true); (0, 4, false)].
Proof. eexists. eexists. vm_compute. repeat split. Qed.

(* the scaled pod count that used to round to zero (2 pods, 100 containers, a message
   of 12 290 000 bytes against 4 MiB): one pod and 34 containers per message *)
Example C09_ex_recalc : recalc 2 100 4194304 12290000 = Some (1, 34) /\ recalc 1 20 4194304 12288934 = Some (4, 4).
Proof. split; reflexivity. Qed.

(* a state that cannot be transmitted: nine objects of 400 against a limit of 1000 -
   the minimum chunk of four does not fit; the outcome is a clean failure, nothing was
   sent, and the plugin is not activated *)
Example C09_ex_failure :
  synchronize (xmit_size id id 49 2 1000) (stub_sync (Some ex_h)) recalc (sync_fuel (@nil Z) (repeat 400 9)) [] (repeat 400 9) stub_init
    = Failed FSplit [] stub_init /\
  accept_external (fun l => l) true [] tt false = [].
Proof. split; reflexivity. Qed.

(* the receiver on a concrete split request *)
Example C09_ex_receiver :
  peer_run (stub_sync (Some ex_h)) stub_init (more_msgs [([1], [2; 3]); ([], [4])] ++ [([5], [], false)]) =
  ({| ss_acc := None; ss_calls := [([1; 5], [2; 3; 4])] |},
   [more_reply; more_reply; Some {| r_more := false; r_update := [2; 3] |}]).
Proof. reflexivity. Qed.

(* one stub value over three connections: the first is lost after two accepted chunks, the
   second after one, the third completes - one invocation, with the third state only *)
Definition ex_sessions : list (session Z Z) :=
  [([([], [1; 2; 3; 4]); ([], [5; 6; 7; 8])], SClosed);
   ([([10], [11])], SClosed);
   ([([20; 21], [22; 23])], SFinal [] [24; 25])].

Example C09_ex_sessions :
  let st := stub_sessions (Some ex_h) close_resets_sync stub_init (map session_msgs ex_sessions) in
  ss_calls st = [([20; 21], [22; 23; 24; 25])] /\ ss_acc st = None /\
  flat_map session_delivery ex_sessions = [([20; 21], [22; 23; 24; 25])].
Proof. repeat split. Qed.

(* the same connections against the variant without the reset: the handler of the third
   registration is handed the eleven stale objects of the two failed ones as well *)
Example C09_ex_sessions_no_reset :
  ss_calls (stub_sessions (Some ex_h) false stub_init (map session_msgs ex_sessions)) =
  [([10; 20; 21], [1; 2; 3; 4; 5; 6; 7; 8; 11; 22; 23; 24; 25])].
Proof. reflexivity. Qed.

(* sender and receiver: nine objects of 400 after four of 10 against a limit of 1000 - the
   first chunk of four is accepted, the next cannot be sent, the registration fails with the
   chunk still collected; after close the same stub value synchronises [7] / [8; 9] and its
   handler sees exactly that *)
Example C09_ex_restart :
  exists st1 s st2,
    synchronize (xmit_size id id 49 2 1000) (stub_sync (Some ex_h)) recalc (sync_fuel (@nil Z) (repeat 10 4 ++ repeat 400 9))
                [] (repeat 10 4 ++ repeat 400 9) stub_init = Failed FSplit [([], repeat 10 4, true)] st1 /\
    ss_acc st1 = Some ([], repeat 10 4) /\
    synchronize (xmit_size id id 49 2 1000) (stub_sync (Some ex_h)) recalc (sync_fuel [7] [8; 9])
                [7] [8; 9] (stub_close close_resets_sync st1) = Delivered s [1; 2] st2 /\
    ss_calls st2 = [([7], [8; 9])].
Proof. eexists. eexists. eexists. vm_compute. repeat split. Qed.

(* a handler that answers its one invocation with a gRPC status ResourceExhausted (code 8), the state
   split into three messages (limit 1500): the third message carries 13 objects - more than the minimum
   chunk - the handler fails, the synchronisation fails with exactly these three messages sent, the
   handler has run once on the whole state, and the plugin is not activated *)
Definition ex_busy : list Z -> list Z -> list Z + herror := fun _ _ => inr (HStatus 8).
Example C09_ex_handler_error :
  exists s st',
    synchronize (xmit_size id id 49 2 1500) (stub_sync (Some (forget_error ex_busy))) recalc (sync_fuel ex_pods ex_ctrs) ex_pods ex_ctrs stub_init
      = Failed FPeerErr s st' /\
    map (fun c : chunk Z Z => (len (fst (fst c)), len (snd (fst c)), snd c)) s
      = [(1, 14, true); (1, 14, true); (1, 12, false)] /\
    ss_calls st' = [(ex_pods, ex_ctrs)] /\
    accept_external (fun l => l) true [] tt (outcome_ok (Failed (U := Z) FPeerErr s st')) = [].
Proof. eexists. eexists. vm_compute. repeat split. Qed.

(* two registrations on one runtime, the second with the state of the first: the same three messages *)
Example C09_ex_two_plugins :
  let regs := [(ex_pods, ex_ctrs, @stub_init Z Z); (ex_pods, ex_ctrs, @stub_init Z Z)] in
  map (fun o => map (fun c : chunk Z Z => (len (fst (fst c)), len (snd (fst c)), snd c)) (sent_of o))
      (sync_all (xmit_size id id 49 2 1500) (stub_sync (Some ex_h)) recalc sync_fuel regs)
  = [[(1, 14, true); (1, 14, true); (1, 12, false)]; [(1, 14, true); (1, 14, true); (1, 12, false)]].
Proof. reflexivity. Qed.

(* the loop started with 0 pods per message although three pods are to be sent (the counts another
   synchronisation ended with): the containers go out, then empty messages flagged More until the fuel
   is gone - these start counts violate Inv, the hypothesis of C09_start_counts_safe *)
Example C09_ex_zero_start :
  exists s, sync_loop (xmit_size id id 49 2 1500) (stub_sync (Some ex_h)) recalc 40 ex_pods (repeat 100 8) 0 4 stub_init = OutOfFuel s /\
  map (fun c : chunk Z Z => (len (fst (fst c)), len (snd (fst c)), snd c)) (firstn 4 s) = [(0, 4, true); (0, 4, true); (0, 0, true); (0, 0, true)] /\
  ~ Inv ex_pods (repeat 100 8) 0 4.
Proof.
  eexists. split; [vm_compute; reflexivity|]. split; [reflexivity|].
  intros [_ [_ [H _]]]. specialize (H eq_refl). discriminate.
Qed.

(* a stub without a handler and the state that needs three messages: delivered, no updates, no
   invocation, activated *)
Example C09_ex_no_handler :
  exists s,
    synchronize (xmit_size id id 49 2 1500) (stub_sync (U := Z) None) recalc (sync_fuel ex_pods ex_ctrs) ex_pods ex_ctrs stub_init
      = Delivered s [] stub_init /\
    map (fun c : chunk Z Z => (len (fst (fst c)), len (snd (fst c)), snd c)) s
      = [(1, 14, true); (1, 14, true); (1, 12, false)] /\
    accept_external (fun l => l) true [] tt true = [tt].
Proof. eexists. vm_compute. repeat split. Qed.
