// h_sync is the correspondence driver of property C09 (synchronisation of a
// registering plugin however the state must be split).
//
// The driver ("syncsplit") never runs the implementation in its own process: a
// runtime that panics (the historic slice-bound defect) must be observed, not
// suffered.  It re-executes itself as a worker (H_SYNC_WORKER=1) that reads one
// case specification per line on stdin, runs a real adaptation.Adaptation and a
// real plugin end (raw scripted ttrpc service, or a real stub.Stub) on a unix
// socket in a scratch directory and answers with one observation per line.
package main

import (
	"os"

	"verif/harness/internal/hx"
)

func main() {
	if os.Getenv("H_SYNC_WORKER") == "1" {
		workerMain()
		return
	}
	hx.Main(map[string]func(*hx.Ctx) error{"syncsplit": driveSync})
}
