package main

import (
	"bytes"
	"encoding/hex"
	"errors"
	"fmt"
	"syscall"
	"time"

	"github.com/containerd/nri/pkg/net/multiplex"

	"verif/harness/internal/coqfmt"
	"verif/harness/internal/hx"
)

// C10, stream mux_readbuf: what conn.Read does with the caller's buffer.  One connection; all
// frames are written (and queued: QLen >= their number) before the first Read; the k-th Read
// uses a buffer of a given length and capacity relative to the k-th frame.

type bufRead struct {
	Len int `json:"len"`
	Cap int `json:"cap"`
}

type bufScn struct {
	Transport string    `json:"transport"`
	QLen      int       `json:"qlen"`
	ID        uint32    `json:"id"`
	Frames    []int     `json:"frames"` // payload sizes, each at most a few hundred bytes: one frame per Write
	Reads     []bufRead `json:"reads"`  // as many as frames
}

type bufReadObs struct {
	Kind string `json:"kind"` // got nomem err timeout panic
	N    int    `json:"n"`
	Hex  string `json:"hex,omitempty"` // buf[:min(n, len(buf))]
	Err  string `json:"err,omitempty"`
}

type bufObs struct {
	Frames []string     `json:"frames"` // hex of the payloads written
	Reads  []bufReadObs `json:"reads"`
	Fail   string       `json:"fail,omitempty"`
	Hung   bool         `json:"hung,omitempty"`
}

func execBuf(s *bufScn) *bufObs {
	o := &bufObs{}
	curBound.Store(int64(opBound))
	defer func() { o.Hung = bound() != opBound }()
	ca, cb, err := connPair(s.Transport)
	if err != nil {
		o.Fail = "harness: transport: " + err.Error()
		return o
	}
	defer ca.Close()
	defer cb.Close()
	ma := multiplex.Multiplex(ca, multiplex.WithReadQueueLength(s.QLen))
	mb := multiplex.Multiplex(cb, multiplex.WithReadQueueLength(s.QLen), multiplex.WithBlockedRead())
	wa, err1 := ma.Open(multiplex.ConnID(s.ID))
	rb, err2 := mb.Open(multiplex.ConnID(s.ID))
	if err1 != nil || err2 != nil {
		o.Fail = fmt.Sprintf("Open: %v %v", err1, err2)
		return o
	}
	mb.Unblock()
	defer ma.Close()
	defer mb.Close()
	for seq, size := range s.Frames {
		b := payload(0, seq, size)
		o.Frames = append(o.Frames, hex.EncodeToString(b))
		r := bounded(func() actRes {
			n, err := wa.Write(b)
			if err != nil || n != len(b) {
				return actRes{Kind: "err", Err: fmt.Sprintf("n=%d err=%v", n, err)}
			}
			return actRes{Kind: "ok"}
		})
		if r.Kind != "ok" {
			o.Fail = fmt.Sprintf("Write %d: %s %s", seq, r.Kind, r.Err)
			return o
		}
	}
	// a Read blocks until its frame is queued: the k-th Read takes the k-th frame
	for _, rd := range s.Reads {
		buf := make([]byte, rd.Len, rd.Cap)
		ch := make(chan bufReadObs, 1)
		go func() {
			defer func() {
				if p := recover(); p != nil {
					ch <- bufReadObs{Kind: "panic", Err: fmt.Sprint(p)}
				}
			}()
			n, err := rb.Read(buf)
			switch {
			case err == nil:
				m := n
				if m > len(buf) {
					m = len(buf)
				}
				if m < 0 {
					m = 0
				}
				ch <- bufReadObs{Kind: "got", N: n, Hex: hex.EncodeToString(buf[:m])}
			case errors.Is(err, syscall.ENOMEM):
				ch <- bufReadObs{Kind: "nomem", N: n}
			default:
				ch <- bufReadObs{Kind: "err", N: n, Err: err.Error()}
			}
		}()
		select {
		case x := <-ch:
			o.Reads = append(o.Reads, x)
		case <-time.After(bound()):
			hangSeen()
			o.Reads = append(o.Reads, bufReadObs{Kind: "timeout"})
		}
	}
	return o
}

func genReadBuf(c *hx.Ctx) []*bufScn {
	r := c.Rand("mux_readbuf")
	var out []*bufScn
	n := c.Pick(60, 400)
	for i := 0; i < n; i++ {
		s := &bufScn{Transport: []string{"pipe", "unix"}[i%2], ID: idPool[r.Intn(len(idPool))]}
		k := 1 + r.Intn(7)
		s.QLen = []int{k, k + 1, 256}[r.Intn(3)]
		for j := 0; j < k; j++ {
			f := smallSize(r)
			if i < 8 {
				f = []int{0, 1, 2, 16, 17, 255, 256, 600}[i] // boundary sizes first
			}
			var rd bufRead
			switch cls := (i + j) % 6; {
			case cls == 0 && f >= 1: // len < frame <= cap: the shape the capacity-based guard got wrong
				rd.Len = r.Intn(f)
				rd.Cap = f + r.Intn(3)*r.Intn(64)
			case cls == 1: // len = frame
				rd.Len, rd.Cap = f, f+r.Intn(2)*r.Intn(32)
			case cls == 2: // len > frame
				rd.Len = f + 1 + r.Intn(64)
				rd.Cap = rd.Len + r.Intn(2)*r.Intn(32)
			case cls == 3 && f >= 1: // len <= cap < frame
				rd.Cap = r.Intn(f)
				rd.Len = r.Intn(rd.Cap + 1)
			case cls == 4 && f >= 1: // one byte short, capacity exactly the frame
				rd.Len, rd.Cap = f-1, f
			default: // any
				rd.Len = r.Intn(2*f + 2)
				rd.Cap = rd.Len + r.Intn(f+2)
			}
			s.Frames = append(s.Frames, f)
			s.Reads = append(s.Reads, rd)
		}
		out = append(out, s)
	}
	return out
}

func emitReadBuf(c *hx.Ctx, idx int, s *bufScn, r scnResult, sh *hx.Shard) {
	const stream = "mux_readbuf"
	raw := map[string]interface{}{"scenario": s, "index": idx}
	if r.Skip {
		c.Count("skipped_after_hanging_scenarios", 1)
		return
	}
	if r.Crash != "" {
		raw["crash"] = r.Crash
		c.ImplFail(stream, "the implementation panicked or hung while reading with a short buffer: "+crashKind(r.Crash), raw)
		c.Eval(fmt.Sprint(stream, "/", idx), true)
		return
	}
	if r.B == nil {
		c.HarnessError("%s scenario %d: no result", stream, idx)
		return
	}
	o := r.B
	raw["observed"] = o
	if o.Fail != "" {
		if len(o.Fail) >= 8 && o.Fail[:8] == "harness:" {
			c.HarnessError("%s scenario %d: %s", stream, idx, o.Fail)
			return
		}
		c.ImplFail(stream, "a Write or Open failed on a healthy Mux: "+o.Fail, raw)
		return
	}
	if len(o.Reads) != len(s.Reads) || len(o.Frames) != len(s.Frames) {
		c.HarnessError("%s scenario %d: %d reads, %d frames recorded", stream, idx, len(o.Reads), len(o.Frames))
		return
	}
	var frames, reads []string
	short := false
	for k, x := range o.Reads {
		rd := s.Reads[k]
		want, _ := hex.DecodeString(o.Frames[k])
		cls := "len>=frame"
		if rd.Len < len(want) {
			cls = "len<frame<=cap"
			short = true
			if rd.Cap < len(want) {
				cls = "cap<frame"
			}
		}
		c.Count("readbuf."+cls, 1)
		var ob string
		bad := ""
		switch x.Kind {
		case "got":
			got, _ := hex.DecodeString(x.Hex)
			ob = fmt.Sprintf("(OGot %s %s)", coqfmt.N(uint64(x.N)), coqfmt.Str(x.Hex))
			if x.N < 0 {
				ob = "OPanic"
			}
			switch {
			case x.N > rd.Len:
				bad = fmt.Sprintf("Read returned n=%d for a buffer of length %d (capacity %d, frame %d bytes): %d bytes lost", x.N, rd.Len, rd.Cap, len(want), len(want)-len(got))
			case x.N != len(want) || !bytes.Equal(got, want):
				bad = fmt.Sprintf("Read returned %d bytes that are not the %d-byte frame", x.N, len(want))
			}
		case "nomem":
			ob = "ONoMem"
			if rd.Len >= len(want) {
				bad = fmt.Sprintf("ENOMEM although the buffer (length %d) holds the %d-byte frame", rd.Len, len(want))
			}
		case "timeout":
			ob = "OTimeout"
			bad = "Read did not return"
		case "panic":
			ob = "OPanic"
			bad = "Read panicked: " + x.Err
		default:
			ob = "OErr"
			bad = "Read failed on a healthy Mux: " + x.Err
		}
		if bad != "" {
			raw["read"] = k
			c.ImplFail(stream, bad, raw)
		}
		reads = append(reads, fmt.Sprintf("(%s, %s, %s)", coqfmt.N(uint64(rd.Len)), coqfmt.N(uint64(rd.Cap)), ob))
	}
	for _, f := range o.Frames {
		frames = append(frames, coqfmt.Str(f))
	}
	c.Eval(fmt.Sprint(stream, "/", idx), short)
	c.Count("transport."+s.Transport, 1)
	sh.Add(fmt.Sprintf("{| rb_qlen := %s; rb_id := %s; rb_frames := %s; rb_reads := %s |}",
		coqfmt.N(uint64(s.QLen)), coqfmt.N(uint64(s.ID)), coqfmt.List(frames), coqfmt.List(reads)), raw)
	if idx%53 == 0 {
		c.Sample(map[string]interface{}{"stream": stream, "scenario": s, "observed": o.Reads}, 8)
	}
}
