(* C04, update requests, at full strength: the resources shown to plugin i of an UpdateContainer
   request are the runtime's requested resources overlaid with the own-container updates of the
   plugins before i that were NOT dropped (Spec/UpdateView.v: own_overlay_nd) — also after an
   ignore-failure update was dropped, whatever fields it names.  No hypothesis on the responses.
   Read off the invariant UInv of Proofs/UpdatesProofs.v (the update view is `full`). *)
From Coq Require Import String Ascii List Bool ZArith Arith Lia.
From NRI Require Import Base.Lists Base.Strs Base.Assoc Model.Types Model.Result
  Spec.Apply Spec.AbsLedger Spec.Updates Spec.UpdateView
  Proofs.LedgerProofs Proofs.RefineLedger Proofs.ResultProofs Proofs.CombineProofs Proofs.CombineUpdate
  Proofs.UpdatesProofs Run.RunAdapt.
Import ListNotations.
Open Scope string_scope.
Open Scope list_scope.

(* the state after a successful prefix of an update request shows own_overlay_nd of that prefix *)
Lemma update_state_view id req rps s :
  snd (run_request (RUpdate id req) rps) = Ok s ->
  view_of s = ShownResources (own_overlay_nd id req rps).
Proof.
  intros Hrun.
  destruct (flags_alignment_no_create (RUpdate id req) rps s eq_refl Hrun) as [oa [fl [Hr [_ [_ [_ _ Hview]]]]]].
  assert (Hc : s_create s = None).
  { unfold run_request in Hrun. rewrite run_plugins_snd in Hrun.
    exact (proj1 (steps_upd id rps (init_state (RUpdate id req)) s req eq_refl eq_refl Hrun)). }
  unfold view_of. rewrite Hc, Hview. cbn [own_of]. unfold own_overlay_nd. rewrite Hr.
  unfold full, start_of. rewrite String.eqb_refl. reflexivity.
Qed.

Theorem update_view_full_eq id req rps i v :
  nth_error (fst (run_request (RUpdate id req) rps)) i = Some v ->
  v = ShownResources (own_overlay_nd id req (firstn i rps)).
Proof.
  intros H. unfold run_request in H.
  destruct (run_plugins_nth rps (init_state (RUpdate id req)) [] i v H) as [si [Hs Hv]].
  rewrite Hv. apply update_state_view. unfold run_request. rewrite run_plugins_snd. exact Hs.
Qed.

(* C04_update_view_full *)
Theorem update_view_full id req rps i v :
  nth_error (fst (run_request (RUpdate id req) rps)) i = Some v ->
  exists x, v = ShownResources x /\ res_obs_eqb x (own_overlay_nd id req (firstn i rps)) = true.
Proof.
  intros H. exists (own_overlay_nd id req (firstn i rps)). split; [exact (update_view_full_eq id req rps i v H)|].
  apply UpdatesProofs.res_obs_eqb_refl.
Qed.

(* ---------- the two overlays coincide when nothing was dropped ---------- *)
Lemma abs_run_flags gs : forall o d o' d',
  abs_run gs o d = Some (o', d') -> exists fl, d' = d ++ fl /\ length fl = length gs.
Proof.
  induction gs as [|g r IH]; intros o d o' d' H; cbn [abs_run] in H.
  - inversion H; subst. exists []. rewrite app_nil_r. split; reflexivity.
  - destruct (abs_claims (g_claims g) _) as [[|] o2].
    + destruct (IH _ _ _ _ H) as [fl [-> Hl]]. exists (false :: fl). rewrite <- app_assoc. cbn [app length]. rewrite Hl. split; reflexivity.
    + destruct (g_ignorable g); [|discriminate].
      destruct (IH _ _ _ _ H) as [fl [-> Hl]]. exists (true :: fl). rewrite <- app_assoc. cbn [app length]. rewrite Hl. split; reflexivity.
Qed.

Lemma all_groups_None_length rps : length (all_groups None rps) = length (concat (map rp_updates rps)).
Proof.
  induction rps as [|rp r IH]; [reflexivity|]. rewrite UpdatesProofs.all_groups_cons. cbn [map concat]. rewrite !app_length, IH.
  unfold groups_of. cbn [app]. rewrite map_length. reflexivity.
Qed.

Lemma flagged_updates_None rps : forall fl,
  length fl = length (concat (map rp_updates rps)) ->
  flagged_updates None rps fl = combine (concat (map rp_updates rps)) fl.
Proof.
  induction rps as [|rp r IH]; intros fl Hl; cbn [flagged_updates map concat]; [reflexivity|].
  cbn [map concat] in Hl. rewrite app_length in Hl.
  rewrite <- (firstn_skipn (length (rp_updates rp)) fl) at 3.
  rewrite IH by (rewrite skipn_length; lia).
  apply combine_app_len. rewrite firstn_length. lia.
Qed.

Definition overlay_own (id : string) (r : resources) (u : update) : resources :=
  if String.eqb (u_id u) id then match u_res u with Some x => apply_res r x | None => r end else r.

Lemma own_overlay_concat id req rps :
  own_overlay id req rps = fold_left (overlay_own id) (concat (map rp_updates rps)) req.
Proof.
  unfold own_overlay. revert req. induction rps as [|rp r IH]; intros req; cbn [map concat fold_left]; [reflexivity|].
  rewrite fold_left_app. apply IH.
Qed.

Lemma entry_for_no_drop id us : forall fl req,
  length fl = length us -> existsb (fun b => b) fl = false ->
  entry_for req id (combine us fl) = fold_left (overlay_own id) us req.
Proof.
  unfold entry_for. induction us as [|u r IH]; intros [|b fl] req Hl Hd; cbn [length] in Hl; try discriminate; [reflexivity|].
  cbn [existsb] in Hd. apply orb_false_iff in Hd. destruct Hd as [-> Hd].
  cbn [combine filter fst fold_left]. unfold overlay_own at 2.
  destruct (String.eqb (u_id u) id); cbn [fold_left overlay]; apply IH; auto.
Qed.

Theorem own_overlay_nd_no_drop id req rps :
  abs_conflict None rps = false -> some_dropped None rps = false ->
  own_overlay_nd id req rps = own_overlay id req rps.
Proof.
  unfold abs_conflict, some_dropped, own_overlay_nd. intros Hc Hd.
  destruct (abs_run (all_groups None rps) [] []) as [[oa fl]|] eqn:Hr; [|discriminate].
  destruct (abs_run_flags _ _ _ _ _ Hr) as [fl' [E Hl]]. cbn [app] in E. subst fl'. rewrite all_groups_None_length in Hl.
  rewrite (flagged_updates_None rps fl Hl), own_overlay_concat. apply entry_for_no_drop; assumption.
Qed.
