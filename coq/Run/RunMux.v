(* Case records and the corr_/holds_ functions evaluated (vm_compute) on the cases written by
   harness/cmd/h_mux.  C10: size_case, bytes_case.  C11: script_case, listener_case. *)
From Coq Require Import String Ascii List Bool NArith.
From NRI Require Import Model.MuxConsts Model.Mux Spec.MuxSpec Run.Common.
Import ListNotations.
Open Scope N_scope.

(* ---- bytes travel as lower-case hex strings ---- *)
Definition nib (c : ascii) : N := let n := N_of_ascii c in if n <? 58 then n - 48 else n - 87.
Fixpoint unhex (s : string) : list N :=
  match s with
  | String a (String b r) => (nib a * 16 + nib b) :: unhex r
  | _ => []
  end.

Definition pairN_eqb (a b : N * N) : bool := (fst a =? fst b) && (snd a =? snd b).
Definition frames_eqb (a b : list (list N)) : bool := list_eqb bytes_eqb a b.
Definition sumN (l : list N) : N := fold_left N.add l 0.

(* ------------------------------------------------------------------ C10, size level *)
(* sz_writes: the serialisation found by parsing the recorded trunk: (id, buffer length) per Write;
   sz_frames: the recorded frame headers (id, payload length);
   sz_reads:  per opened id, the lengths returned by the successive Reads at the other end *)
Record size_case := { sz_writes : list (N * N); sz_frames : list (N * N); sz_reads : list (N * list N) }.

Fixpoint model_sizes (ws : list (N * N)) : option (list (N * N)) :=
  match ws with
  | [] => Some []
  | (id, n) :: r =>
      match enc_write_sizes id n, model_sizes r with
      | Some a, Some b => Some (a ++ b)
      | _, _ => None
      end
  end.

Definition corr_sizes (c : size_case) : bool :=
  match model_sizes (sz_writes c) with
  | None => false
  | Some fs =>
      list_eqb pairN_eqb fs (sz_frames c) &&
      forallb (fun r => list_eqb N.eqb (map snd (filter (fun f => fst f =? fst r) fs)) (snd r)) (sz_reads c)
  end.

(* the property at size level: every id read as many bytes as were written to it
   (content equality of these multi-megabyte streams is checked on hashes by the driver) *)
Definition holds_sizes (c : size_case) : bool :=
  forallb (fun r => sumN (snd r) =? sumN (map snd (filter (fun w => fst w =? fst r) (sz_writes c)))) (sz_reads c).

(* ------------------------------------------------------------------ C10, byte level *)
Record bytes_case := {
  bc_opened : list N;
  bc_writes : list (N * string);        (* serialisation: id, buffer (hex) *)
  bc_trunk  : string;                   (* recorded trunk bytes (hex) *)
  bc_reads  : list (N * list string) }. (* per opened id: what each Read returned (hex) *)

Definition bc_ws (c : bytes_case) : list write := map (fun w => (fst w, unhex (snd w))) (bc_writes c).

Definition corr_bytes (c : bytes_case) : bool :=
  let rx := unhex (bc_trunk c) in
  bytes_eqb rx (trunk (bc_ws c)) &&
  forallb (fun r => frames_eqb (dec (bc_opened c) rx (fst r)) (map unhex (snd r))) (bc_reads c).

(* the property on the implementation's observation: bytes read on id = bytes written to id *)
Definition holds_bytes (c : bytes_case) : bool :=
  wf_writes (bc_ws c) &&
  forallb (fun r => memN (fst r) (bc_opened c) &&
                    bytes_eqb (concat (map unhex (snd r))) (written_bytes (fst r) (bc_ws c))) (bc_reads c).

(* ------------------------------------------------------------------ C11, scripted faults *)
(* (the observation type and the replay are shared with the C10 buffer stream below) *)
(* what the driver observed for one call *)
Inductive obs :=
| ONone                 (* internal event, nothing to observe *)
| OOk
| OData (hex : string)
| OGot (n : N) (hex : string)   (* Read with an explicit buffer returned n, nil; hex = buf[:min(n, len(buf))] *)
| ONoMem                        (* syscall.ENOMEM *)
| OEof                  (* io.EOF *)
| OErr                  (* an error other than io.EOF *)
| OAnyErr               (* an error, class not compared (Write) *)
| OTimeout              (* did not return within the bound *)
| OPanic.

Definition obs_match (o : obs) (r : result) : bool :=
  match o, r with
  | ONone, _ => true
  | OOk, ROk => true
  | OData h, RData p => bytes_eqb p (unhex h)
  | OGot n h, RBuf _ (ROData n' c) => (n =? n') && bytes_eqb c (unhex h)
  | ONoMem, RBuf _ RONoMem => true
  | OTimeout, RBlock => true      (* the model says the call blocks for ever; holds_* judges the hang *)
  | OEof, RErr EEOF => true
  | OErr, RErr EErr => true
  | OAnyErr, RErr _ => true
  | _, _ => false
  end.

Fixpoint replay (s : mux_st) (evs : list (event * obs)) : bool * mux_st :=
  match evs with
  | [] => (true, s)
  | (e, o) :: r =>
      let (s', res) := step s e in
      if obs_match o res then replay s' r else (false, s')
  end.

(* one end: queue length, opened ids, the events in script order with what was observed *)
(* sd_raw: this end is a bare transport end driven by the harness (malformed stream), not a Mux *)
(* sd_blocked: the Mux was created WithBlockedRead and its reader is parked until the first EvUnblock of the script *)
Record side_case := { sd_raw : bool; sd_blocked : bool; sd_qlen : N; sd_opened : list N; sd_events : list (event * obs) }.

Record script_case := {
  sc_a : side_case; sc_b : side_case;
  sc_a2b : string; sc_b2a : string;            (* bytes each end actually put on the trunk (hex) *)
  sc_sent_a : list (N * string);               (* Writes of A that reached the trunk, wholly or in part *)
  sc_sent_b : list (N * string);
  sc_recv_a : list (N * list string);          (* per id: every frame A's Reads returned, in order *)
  sc_recv_b : list (N * list string);
  sc_after_a : list obs;                       (* results of the calls issued at A after A's mux was closed *)
  sc_after_b : list obs;
  sc_orderly : bool }.                         (* the only fault is an orderly Close *)

Definition corr_side (sd : side_case) (rx tx : string) : bool :=
  if sd_raw sd then true else
  let (ok, s) := replay (set_blocked (sd_blocked sd) (init_mux_cfg (unhex rx) (sd_qlen sd) (sd_opened sd))) (sd_events sd) in
  ok && bytes_eqb (m_tx s) (unhex tx).

Definition corr_script (c : script_case) : bool :=
  corr_side (sc_a c) (sc_b2a c) (sc_a2b c) && corr_side (sc_b c) (sc_a2b c) (sc_b2a c).

Definition unhex_ws (l : list (N * string)) : list write := map (fun w => (fst w, unhex (snd w))) l.

Definition recv_prefix (recv : list (N * list string)) (sent : list (N * string)) : bool :=
  forallb (fun r => frames_prefixb (map unhex (snd r)) (written_frames (fst r) (unhex_ws sent))) recv.

Definition prompt_failure (o : obs) : bool :=
  match o with OData _ | OEof | OErr | OAnyErr | ONone => true | OOk | OTimeout | OPanic | OGot _ _ | ONoMem => false end.
Definition no_hang (o : obs) : bool :=
  match o with OTimeout | OPanic => false | _ => true end.
Definition eof_if_error (o : obs) : bool :=
  match o with OErr => false | _ => true end.

(* the property on the observation: each reader got a frame-wise prefix of what was sent to it; no call
   hung or panicked; calls issued after the close returned an error (or drained a queued frame); after an
   orderly close the error is end-of-file *)
Definition holds_script (c : script_case) : bool :=
  recv_prefix (sc_recv_b c) (sc_sent_a c) && recv_prefix (sc_recv_a c) (sc_sent_b c) &&
  forallb (fun eo => no_hang (snd eo)) (sd_events (sc_a c)) &&
  forallb (fun eo => no_hang (snd eo)) (sd_events (sc_b c)) &&
  forallb prompt_failure (sc_after_a c) && forallb prompt_failure (sc_after_b c) &&
  (negb (sc_orderly c) ||
   (forallb (fun eo => eof_if_error (snd eo)) (sd_events (sc_a c)) &&
    forallb (fun eo => eof_if_error (snd eo)) (sd_events (sc_b c)))).

(* ------------------------------------------------------------------ C10, the caller's buffer *)
(* one connection; rb_frames: the payloads written to it, in order (each a single frame), all queued
   before the first Read; rb_reads: per Read the buffer's length and capacity and what came back *)
Record readbuf_case := {
  rb_qlen : N; rb_id : N;
  rb_frames : list string;
  rb_reads : list (N * N * obs) }.

Definition corr_readbuf (c : readbuf_case) : bool :=
  let ws := map (fun h => (rb_id c, unhex h)) (rb_frames c) in
  let evs := map (fun _ => (EvReader, ONone)) (rb_frames c) ++
             map (fun r => (EvReadB (rb_id c) true (fst (fst r)) (snd (fst r)), snd r)) (rb_reads c) in
  fst (replay (init_mux_cfg (trunk ws) (rb_qlen c) [rb_id c]) evs).

(* the property on the observation: the k-th Read took the k-th frame; it returned no more than the
   buffer's LENGTH holds and then the whole frame, or ENOMEM and then the frame did not fit *)
Fixpoint holds_readbuf_from (frames : list string) (reads : list (N * N * obs)) : bool :=
  match reads, frames with
  | [], _ => true
  | (bl, bc, o) :: r, f :: fs =>
      (match o with
       | OGot n h => (n <=? bl) && (n =? lenN (unhex f)) && bytes_eqb (unhex h) (unhex f)
       | ONoMem => bl <? lenN (unhex f)
       | _ => false
       end) && holds_readbuf_from fs r
  | _ :: _, [] => false
  end.
Definition holds_readbuf (c : readbuf_case) : bool :=
  forallb (fun r => fst (fst r) <=? snd (fst r)) (rb_reads c) && holds_readbuf_from (rb_frames c) (rb_reads c).

(* ------------------------------------------------------------------ C11, listener wrapper *)
Record listener_case := { lc_events : list (lev * lres); lc_conn_closed : bool }.

Definition lres_eqb (a b : lres) : bool :=
  match a, b with
  | LConn, LConn | LEof, LEof | LBlock, LBlock | LOk, LOk => true
  | _, _ => false
  end.

Definition corr_listener (c : listener_case) : bool :=
  let (l, os) := lrun init_lst (map fst (lc_events c)) in
  list_eqb lres_eqb os (map snd (lc_events c)) && Bool.eqb (l_conn_closed l) (lc_conn_closed c).

(* the clause itself, evaluated on the observation: the first Accept returns the connection, a later one
   blocks while the listener is open and returns end-of-file once it is closed; Close always returns *)
Fixpoint holds_listener_from (pre : list lev) (evs : list (lev * lres)) : bool :=
  match evs with
  | [] => true
  | (e, o) :: r =>
      (match e with
       | LAccept => lres_eqb o (if negb (existsb is_accept pre) then LConn
                                else if existsb is_close pre then LEof else LBlock)
       | LClose => lres_eqb o LOk
       end) && holds_listener_from (pre ++ [e]) r
  end.
Definition holds_listener (c : listener_case) : bool :=
  holds_listener_from [] (lc_events c) &&
  Bool.eqb (lc_conn_closed c) (existsb is_close (map fst (lc_events c))).
