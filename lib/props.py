"""Per-property configuration of ./check."""

GO_BINARIES = ["genconsts", "nriharness"]
GENERATED = [("genconsts", "Model/Consts.v")]

# Standard-library axioms that a theorem may depend on; each is named in DESIGN.md section 8.
ALLOWED_AXIOMS = []

TRUSTED_BASE = [
    "Coq 8.16.1 kernel and its vm_compute virtual machine (proofs over finite domains and model evaluation); no native_compute, no extraction",
    "translator harness/cmd/genconsts (go/ast -> Model/Consts.v) and the harness's Coq term printer",
    "the correspondence harness: drivers, generators and canonicalisation; agreement on generated cases is testing, the weaker half of the claim",
]

BASELINE_OFF_CMD = "cd /repo && for m in . plugins/device-injector plugins/ulimit-adjuster; do (cd $m && GOFLAGS=-mod=mod go test -vet=off -count=1 ./...) || exit 1; done"
HOOK_COMMITS = []
ENGINES = [
    {"name": "coq", "path": "coq/", "serves_properties": [], "kind_free_text": "Coq 8.16.1 development: executable Gallina models, reference semantics, proofs; Properties/Cxx.v holds only theorem statements"},
    {"name": "harness", "path": "harness/", "serves_properties": [], "kind_free_text": "Go module (replace nri => /repo) driving the real implementation; writes Coq case files evaluated by vm_compute (correspondence check) and regenerates Model/Consts.v, Model/Schema.v"},
]
NOTES = "All checks: ./check <ID> --tier quick|thorough. See DESIGN.md. Known findings: known_findings.json."

PROPS = {
    "C14": {
        "drivers": ["masks"],
        "run_modules": ["Run.RunC14"],
        "corr_name": "Run.RunC14.corr_mask / corr_parse (Model.Event.pretty, parse vs api.EventMask.PrettyString, api.ParseEventMask)",
        "level_text": "Theorems proved in Coq for all inputs: event-mask print/parse round trip over every valid mask (finite domain evaluated completely inside the kernel on tables regenerated from event.go). The model is tied to the code by an exhaustive correspondence run of the real PrettyString/ParseEventMask.",
        "level_note": "Trusted: Coq kernel + vm_compute, the go/ast translator of the name tables, the correspondence harness. Go aliasing of Copy is observed on the implementation, not proved (partial).",
        "assumptions": ["event masks are modelled for 0 <= m < 2^31 (EventMask is an int32)"],
    },
}
