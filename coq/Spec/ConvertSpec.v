(* Reference side of C14's conversion, copy and optional-constructor clauses:
   - the projections ("norm") that say which part of a value both representations carry,
   - decidable equalities on the records,
   - the executable predicates evaluated on the implementation's observations (the holds functions),
   - the specification of the optional constructors (ctor_expect), written without
     reference to the model.
   No proofs here. *)
From Coq Require Import String Ascii List Bool ZArith.
From NRI Require Import Base.Strs Base.Assoc Model.Convert Run.Common.
Import ListNotations.
Local Open Scope string_scope.
Local Open Scope list_scope.
Local Open Scope Z_scope.

(* ------------------------------------------------------------------ equalities *)

Definition oz_eqb := opt_eqb Z.eqb.
Definition ob_eqb := opt_eqb Bool.eqb.
Definition os_eqb := opt_eqb String.eqb.
Definition sl_eqb := list_eqb String.eqb.
Definition ss_eqb := list_eqb (pair_eqb String.eqb String.eqb).

Definition memory_eqb (a b : memory) : bool :=
  oz_eqb (m_limit a) (m_limit b) && oz_eqb (m_reservation a) (m_reservation b) &&
  oz_eqb (m_swap a) (m_swap b) && oz_eqb (m_kernel a) (m_kernel b) &&
  oz_eqb (m_kernel_tcp a) (m_kernel_tcp b) && oz_eqb (m_swappiness a) (m_swappiness b) &&
  ob_eqb (m_disable_oom_killer a) (m_disable_oom_killer b) &&
  ob_eqb (m_use_hierarchy a) (m_use_hierarchy b).

Definition cpu_eqb (a b : cpu) : bool :=
  oz_eqb (c_shares a) (c_shares b) && oz_eqb (c_quota a) (c_quota b) &&
  oz_eqb (c_period a) (c_period b) && oz_eqb (c_realtime_runtime a) (c_realtime_runtime b) &&
  oz_eqb (c_realtime_period a) (c_realtime_period b) &&
  String.eqb (c_cpus a) (c_cpus b) && String.eqb (c_mems a) (c_mems b).

Definition hugepage_eqb (a b : hugepage) : bool :=
  String.eqb (h_page_size a) (h_page_size b) && Z.eqb (h_limit a) (h_limit b).

Definition devcg_eqb (a b : devcg) : bool :=
  Bool.eqb (dc_allow a) (dc_allow b) && String.eqb (dc_type a) (dc_type b) &&
  oz_eqb (dc_major a) (dc_major b) && oz_eqb (dc_minor a) (dc_minor b) &&
  String.eqb (dc_access a) (dc_access b).

Definition resources_eqb (a b : resources) : bool :=
  opt_eqb memory_eqb (r_memory a) (r_memory b) && opt_eqb cpu_eqb (r_cpu a) (r_cpu b) &&
  list_eqb hugepage_eqb (r_hugepages a) (r_hugepages b) &&
  os_eqb (r_blockio_class a) (r_blockio_class b) && os_eqb (r_rdt_class a) (r_rdt_class b) &&
  ss_eqb (r_unified a) (r_unified b) && list_eqb devcg_eqb (r_devices a) (r_devices b) &&
  oz_eqb (r_pids a) (r_pids b).

Definition omemory_eqb (a b : omemory) : bool :=
  oz_eqb (om_limit a) (om_limit b) && oz_eqb (om_reservation a) (om_reservation b) &&
  oz_eqb (om_swap a) (om_swap b) && oz_eqb (om_kernel a) (om_kernel b) &&
  oz_eqb (om_kernel_tcp a) (om_kernel_tcp b) && oz_eqb (om_swappiness a) (om_swappiness b) &&
  ob_eqb (om_disable_oom_killer a) (om_disable_oom_killer b) &&
  ob_eqb (om_use_hierarchy a) (om_use_hierarchy b) &&
  ob_eqb (om_check_before_update a) (om_check_before_update b).

Definition ocpu_eqb (a b : ocpu) : bool :=
  oz_eqb (oc_shares a) (oc_shares b) && oz_eqb (oc_quota a) (oc_quota b) &&
  oz_eqb (oc_burst a) (oc_burst b) && oz_eqb (oc_period a) (oc_period b) &&
  oz_eqb (oc_realtime_runtime a) (oc_realtime_runtime b) &&
  oz_eqb (oc_realtime_period a) (oc_realtime_period b) &&
  String.eqb (oc_cpus a) (oc_cpus b) && String.eqb (oc_mems a) (oc_mems b) &&
  oz_eqb (oc_idle a) (oc_idle b).

Definition ohugepage_eqb (a b : ohugepage) : bool :=
  String.eqb (oh_page_size a) (oh_page_size b) && Z.eqb (oh_limit a) (oh_limit b).

Definition odevcg_eqb (a b : odevcg) : bool :=
  Bool.eqb (odc_allow a) (odc_allow b) && String.eqb (odc_type a) (odc_type b) &&
  oz_eqb (odc_major a) (odc_major b) && oz_eqb (odc_minor a) (odc_minor b) &&
  String.eqb (odc_access a) (odc_access b).

Definition oresources_eqb (a b : oresources) : bool :=
  list_eqb odevcg_eqb (or_devices a) (or_devices b) &&
  opt_eqb omemory_eqb (or_memory a) (or_memory b) && opt_eqb ocpu_eqb (or_cpu a) (or_cpu b) &&
  oz_eqb (or_pids a) (or_pids b) && Bool.eqb (or_blockio a) (or_blockio b) &&
  list_eqb ohugepage_eqb (or_hugepages a) (or_hugepages b) &&
  Bool.eqb (or_network a) (or_network b) && Bool.eqb (or_rdma a) (or_rdma b) &&
  ss_eqb (or_unified a) (or_unified b).

Definition mount_eqb (a b : mount) : bool :=
  String.eqb (mt_destination a) (mt_destination b) && String.eqb (mt_type a) (mt_type b) &&
  String.eqb (mt_source a) (mt_source b) && sl_eqb (mt_options a) (mt_options b).

Definition idmap_eqb (a b : Z * Z * Z) : bool :=
  Z.eqb (fst (fst a)) (fst (fst b)) && Z.eqb (snd (fst a)) (snd (fst b)) && Z.eqb (snd a) (snd b).

Definition omount_eqb (a b : omount) : bool :=
  String.eqb (omt_destination a) (omt_destination b) && String.eqb (omt_type a) (omt_type b) &&
  String.eqb (omt_source a) (omt_source b) && sl_eqb (omt_options a) (omt_options b) &&
  list_eqb idmap_eqb (omt_uid_mappings a) (omt_uid_mappings b) &&
  list_eqb idmap_eqb (omt_gid_mappings a) (omt_gid_mappings b).

Definition device_eqb (a b : device) : bool :=
  String.eqb (d_path a) (d_path b) && String.eqb (d_type a) (d_type b) &&
  Z.eqb (d_major a) (d_major b) && Z.eqb (d_minor a) (d_minor b) &&
  oz_eqb (d_file_mode a) (d_file_mode b) && oz_eqb (d_uid a) (d_uid b) && oz_eqb (d_gid a) (d_gid b).

Definition odevice_eqb (a b : odevice) : bool :=
  String.eqb (od_path a) (od_path b) && String.eqb (od_type a) (od_type b) &&
  Z.eqb (od_major a) (od_major b) && Z.eqb (od_minor a) (od_minor b) &&
  oz_eqb (od_file_mode a) (od_file_mode b) && oz_eqb (od_uid a) (od_uid b) && oz_eqb (od_gid a) (od_gid b).

Definition hook_eqb (a b : hook) : bool :=
  String.eqb (hk_path a) (hk_path b) && sl_eqb (hk_args a) (hk_args b) &&
  sl_eqb (hk_env a) (hk_env b) && oz_eqb (hk_timeout a) (hk_timeout b).

Definition ohook_eqb (a b : ohook) : bool :=
  String.eqb (ohk_path a) (ohk_path b) && sl_eqb (ohk_args a) (ohk_args b) &&
  sl_eqb (ohk_env a) (ohk_env b) && oz_eqb (ohk_timeout a) (ohk_timeout b).

Definition hooks_eqb (a b : hooks) : bool :=
  list_eqb hook_eqb (hs_prestart a) (hs_prestart b) &&
  list_eqb hook_eqb (hs_create_runtime a) (hs_create_runtime b) &&
  list_eqb hook_eqb (hs_create_container a) (hs_create_container b) &&
  list_eqb hook_eqb (hs_start_container a) (hs_start_container b) &&
  list_eqb hook_eqb (hs_poststart a) (hs_poststart b) &&
  list_eqb hook_eqb (hs_poststop a) (hs_poststop b).

Definition ohooks_eqb (a b : ohooks) : bool :=
  list_eqb ohook_eqb (ohs_prestart a) (ohs_prestart b) &&
  list_eqb ohook_eqb (ohs_create_runtime a) (ohs_create_runtime b) &&
  list_eqb ohook_eqb (ohs_create_container a) (ohs_create_container b) &&
  list_eqb ohook_eqb (ohs_start_container a) (ohs_start_container b) &&
  list_eqb ohook_eqb (ohs_poststart a) (ohs_poststart b) &&
  list_eqb ohook_eqb (ohs_poststop a) (ohs_poststop b).

Definition kv_eqb (a b : keyvalue) : bool :=
  String.eqb (kv_key a) (kv_key b) && String.eqb (kv_value a) (kv_value b).

(* ------------------------------------------------------------------ what both sides carry *)

(* NRI -> OCI -> NRI.  Lost: the two class names (OCI has no such field).  A nil Memory / Cpu
   comes back as an empty one (ToOCI always allocates them); every optional scalar inside
   is unset in both, so no scalar changes between unset and set. *)
Definition norm_res (r : resources) : resources :=
  {| r_memory := Some (match r_memory r with None => empty_memory | Some m => m end);
     r_cpu := Some (match r_cpu r with None => empty_cpu | Some c => c end);
     r_hugepages := r_hugepages r;
     r_blockio_class := None;
     r_rdt_class := None;
     r_unified := r_unified r;
     r_devices := r_devices r;
     r_pids := r_pids r |}.

(* OCI -> NRI -> OCI.  Lost: CheckBeforeUpdate, Burst, Idle, BlockIO, Network, Rdma (NRI has
   no such fields); nil Memory / CPU come back empty. *)
Definition norm_omemory (m : omemory) : omemory :=
  mkOMemory (om_limit m) (om_reservation m) (om_swap m) (om_kernel m) (om_kernel_tcp m)
            (om_swappiness m) (om_disable_oom_killer m) (om_use_hierarchy m) None.
Definition norm_ocpu (c : ocpu) : ocpu :=
  mkOCpu (oc_shares c) (oc_quota c) None (oc_period c) (oc_realtime_runtime c)
         (oc_realtime_period c) (oc_cpus c) (oc_mems c) None.
Definition norm_ores (o : oresources) : oresources :=
  {| or_devices := or_devices o;
     or_memory := Some (match or_memory o with None => empty_omemory | Some m => norm_omemory m end);
     or_cpu := Some (match or_cpu o with None => empty_ocpu | Some c => norm_ocpu c end);
     or_pids := or_pids o;
     or_blockio := false;
     or_hugepages := or_hugepages o;
     or_network := false;
     or_rdma := false;
     or_unified := or_unified o |}.

(* Copy: everything but the v1-emulation device rules, which the property does not name *)
Definition copy_view (r : resources) : resources :=
  mkResources (r_memory r) (r_cpu r) (r_hugepages r) (r_blockio_class r) (r_rdt_class r)
              (r_unified r) [] (r_pids r).

(* a mount's id mappings exist in OCI only *)
Definition norm_omount (m : omount) : omount :=
  mkOMount (omt_destination m) (omt_type m) (omt_source m) (omt_options m) [] [].

(* an OCI env entry without '=' comes back with one appended (KeyValue.ToOCI always writes it) *)
Definition norm_env_entry (s : string) : string :=
  match cut eq_char s with (_, None) => s ++ "=" | (_, Some _) => s end.

(* ------------------------------------------------------------------ well-formedness *)

Fixpoint nodup_keys (l : list string) : bool :=
  match l with [] => true | k :: r => negb (smem k r) && nodup_keys r end.

(* an association list that represents a Go map: no key twice *)
Definition map_wf (m : list (string * string)) : bool := nodup_keys (akeys m).

Fixpoint no_eq (s : string) : bool :=
  match s with EmptyString => true | String c r => negb (Ascii.eqb c eq_char) && no_eq r end.
Definition kv_wf (e : keyvalue) : bool := no_eq (kv_key e).

Definition res_wf (r : option resources) : bool :=
  match r with None => true | Some r => map_wf (r_unified r) end.
Definition ores_wf (o : option oresources) : bool :=
  match o with None => true | Some o => map_wf (or_unified o) end.

(* what the nil-safe protobuf getters (GetMemory().GetLimit() ...) see *)
Definition mem_view (r : resources) : memory :=
  match r_memory r with None => empty_memory | Some m => m end.
Definition cpu_view (r : resources) : cpu :=
  match r_cpu r with None => empty_cpu | Some c => c end.

(* ------------------------------------------------------------------ executable predicates
   (arguments: the input and what the implementation returned) *)

(* r --ToOCI--> o --FromOCILinuxResources--> back *)
Definition rt_res_nri (r : option resources) (back : option resources) : bool :=
  opt_eqb resources_eqb back (option_map norm_res r).
(* o --From--> r --ToOCI--> back *)
Definition rt_res_oci (o : option oresources) (back : option oresources) : bool :=
  opt_eqb oresources_eqb back (option_map norm_ores o).
Definition copy_ok (r c : option resources) : bool :=
  opt_eqb resources_eqb c (option_map copy_view r).

Definition rt_mount_nri (m : mount) (back : list mount) : bool := list_eqb mount_eqb back [m].
Definition rt_mounts_oci (o back : list omount) : bool := list_eqb omount_eqb back (map norm_omount o).

Definition zero_device : device := mkDevice "" "" 0 0 None None None.
Definition rt_device_nri (d : option device) (back : list device) : bool :=
  list_eqb device_eqb back [match d with None => zero_device | Some d => d end].
Definition rt_devices_oci (o back : list odevice) : bool := list_eqb odevice_eqb back o.

Definition rt_hooks_nri (h : hooks) (back : option hooks) : bool := opt_eqb hooks_eqb back (Some h).
Definition rt_hooks_oci (o back : option ohooks) : bool := opt_eqb ohooks_eqb back o.

(* judged only when every key is free of '=' *)
Definition rt_env_nri (l back : list keyvalue) : bool :=
  if forallb kv_wf l then list_eqb kv_eqb back l else true.
Definition rt_env_oci (l back : list string) : bool := sl_eqb back (map norm_env_entry l).

(* ------------------------------------------------------------------ optional constructors *)

Definition oval_eqb (a b : oval) : bool :=
  match a, b with
  | OS x, OS y => os_eqb x y
  | OZ x, OZ y => oz_eqb x y
  | OB x, OB y => ob_eqb x y
  | _, _ => false
  end.

(* every integer lies in the range of its Go type *)
Definition oin (f : Z -> bool) (o : option Z) : bool := match o with None => true | Some v => f v end.
Definition arg_wf (a : goarg) : bool :=
  match a with
  | GInt v | GInt64 v => in_s64 v
  | GPInt p | GOptInt p | GPInt64 p | GOptInt64 p => oin in_s64 p
  | GUint v | GUint64 v => in_u64 v
  | GPUint64 p | GOptUint64 p => oin in_u64 p
  | GInt32 v => in_s32 v
  | GPInt32 p | GOptInt32 p => oin in_s32 p
  | GUint32 v | GFileMode v => in_u32 v
  | GPUint32 p | GOptUint32 p | GPFileMode p | GOptFileMode p => oin in_u32 p
  | _ => true
  end.

(* nil in any of its forms: untyped nil, a nil pointer, a nil Optional wrapper *)
Definition is_nil_arg (a : goarg) : bool :=
  match a with
  | GNil => true
  | GPString None | GOptString None => true
  | GPInt None | GOptInt None | GPInt32 None | GOptInt32 None | GPUint32 None | GOptUint32 None
  | GPInt64 None | GOptInt64 None | GPUint64 None | GOptUint64 None
  | GPFileMode None | GOptFileMode None => true
  | GPBool None | GOptBool None => true
  | _ => false
  end.

(* the argument types each constructor's type switch lists *)
Definition ctor_accepts (k : ckind) (a : goarg) : bool :=
  match k, a with
  | KString, GString _ | KString, GPString _ | KString, GOptString _ => true
  | KInt, GInt _ | KInt, GPInt _ | KInt, GOptInt _ => true
  | KInt32, GInt32 _ | KInt32, GPInt32 _ | KInt32, GOptInt32 _ => true
  | KUInt32, GUint32 _ | KUInt32, GPUint32 _ | KUInt32, GOptUint32 _ => true
  | KInt64, GInt _ | KInt64, GUint _ | KInt64, GUint64 _ | KInt64, GInt64 _
  | KInt64, GPInt64 _ | KInt64, GPUint64 _ | KInt64, GOptInt64 _ => true
  | KUInt64, GInt _ | KUInt64, GUint _ | KUInt64, GInt64 _ | KUInt64, GUint64 _
  | KUInt64, GPInt64 _ | KUInt64, GPUint64 _ | KUInt64, GOptUint64 _ => true
  | KBool, GBool _ | KBool, GPBool _ | KBool, GOptBool _ => true
  | KFileMode, GPFileMode _ | KFileMode, GFileMode _ | KFileMode, GOptFileMode _ | KFileMode, GUint32 _ => true
  | _, _ => false
  end.

Definition unset_of (k : ckind) : oval :=
  match k with KString => OS None | KBool => OB None | _ => OZ None end.

(* The specification, read off the property: "nil maps to unset and a value to exactly that
   value".  Some e: the constructor must return e.  None: not judged — the argument's type
   is not one the constructor accepts, or (I8) the value is of the other signedness and
   the target type cannot hold it. *)
Definition same (o : option Z) : option oval := Some (OZ o).
Definition fits (f : Z -> bool) (o : option Z) : option oval :=
  match o with
  | None => Some (OZ None)
  | Some v => if f v then Some (OZ (Some v)) else None
  end.
Definition ctor_expect (k : ckind) (a : goarg) : option oval :=
  match k, a with
  | KString, GString v => Some (OS (Some v))
  | KString, GPString p | KString, GOptString p => Some (OS p)
  | KInt, GInt v => same (Some v)
  | KInt, GPInt p | KInt, GOptInt p => same p
  | KInt32, GInt32 v => same (Some v)
  | KInt32, GPInt32 p | KInt32, GOptInt32 p => same p
  | KUInt32, GUint32 v => same (Some v)
  | KUInt32, GPUint32 p | KUInt32, GOptUint32 p => same p
  | KInt64, GInt v | KInt64, GInt64 v => same (Some v)
  | KInt64, GPInt64 p | KInt64, GOptInt64 p => same p
  | KInt64, GUint v | KInt64, GUint64 v => fits in_s64 (Some v)
  | KInt64, GPUint64 p => fits in_s64 p
  | KUInt64, GUint v | KUInt64, GUint64 v => same (Some v)
  | KUInt64, GPUint64 p | KUInt64, GOptUint64 p => same p
  | KUInt64, GInt v | KUInt64, GInt64 v => fits in_u64 (Some v)
  | KUInt64, GPInt64 p => fits in_u64 p
  | KBool, GBool v => Some (OB (Some v))
  | KBool, GPBool p | KBool, GOptBool p => Some (OB p)
  | KFileMode, GFileMode v | KFileMode, GUint32 v => same (Some v)
  | KFileMode, GPFileMode p | KFileMode, GOptFileMode p => same p
  | _, _ => None
  end.

(* res = what the constructor returned, got = what Get() of that result returned *)
Definition ctor_ok (k : ckind) (a : goarg) (res got : oval) : bool :=
  oval_eqb got res &&
  match ctor_expect k a with Some e => oval_eqb res e | None => true end.
