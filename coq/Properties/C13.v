(* C13 — applying an adjustment changes exactly what it names, deterministically. *)
From Coq Require Import String List Bool Sorted Permutation.
From NRI Require Import Model.Types Model.Generate Proofs.GenerateProofs.
Import ListNotations.

(* after ANY mount adjustment of ANY mount list, no mount is followed by a mount of one of its parent
   directories — provided destinations are absolute and the root directory is spelled "/" (dest_ok) *)
Theorem C13_mounts_parents_first :
  forall ms cur, ms <> [] -> Forall dest_ok (gen_mounts ms cur) -> parents_first (gen_mounts ms cur) = true.
Proof. exact gen_mounts_parents_first. Qed.
Print Assumptions C13_mounts_parents_first.

(* the order is a sorted permutation for the comparison of orderedMounts.Less (any sort gives it) *)
Theorem C13_mounts_sorted_permutation :
  forall ms cur, ms <> [] ->
    exists unsorted, Permutation (gen_mounts ms cur) unsorted /\ StronglySorted mle (gen_mounts ms cur).
Proof. exact gen_mounts_sorted_permutation. Qed.
Print Assumptions C13_mounts_sorted_permutation.
