(* Proofs about the dispatch model (Model/Dispatch.v): plugin indices, event-mask bits,
   sortPlugins, the per-request loop (C06, C07), sequences of requests processed under the
   adaptation mutex (C06 common order, C07 pruning), the table of fatal errors, unsolicited
   updates and the mutex LTS (C19). *)
From Coq Require Import String Ascii List Bool ZArith NArith Arith Lia Sorted Permutation.
From NRI Require Import Base.Strs Base.Assoc Model.Consts Model.Event Model.DispConsts Model.Dispatch.
Import ListNotations.
Open Scope string_scope.
Open Scope list_scope.


(* ================================================================== *)
(** * A. Plugin indices *)

Definition digits : list ascii := map digit (seq 0 10).

Lemma all_index_pairs :
  forallb (fun a => forallb (fun b => Bool.eqb (str_ltb a b) (index_num a <? index_num b)%Z) all_indices) all_indices = true.
Proof. vm_compute. reflexivity. Qed.

Lemma index_order_is_numeric a b :
  In a all_indices -> In b all_indices ->
  (str_ltb a b = true <-> (index_num a < index_num b)%Z).
Proof.
  intros Ha Hb. pose proof all_index_pairs as A. rewrite forallb_forall in A.
  specialize (A a Ha). rewrite forallb_forall in A. specialize (A b Hb).
  apply Bool.eqb_prop in A. rewrite A. apply Z.ltb_lt.
Qed.

Lemma all_indices_count : length all_indices = 100%nat /\ NoDup all_indices.
Proof.
  split; [reflexivity|].
  assert (H : forall l : list string, (fix nd (l : list string) := match l with [] => true | x :: r => negb (smem x r) && nd r end) l = true -> NoDup l).
  { induction l as [|x r IH]; intros H; [constructor|].
    apply andb_true_iff in H. destruct H as [H1 H2]. constructor; [|apply IH; exact H2].
    apply negb_true_iff in H1. apply smem_false_notin. exact H1. }
  apply H. vm_compute. reflexivity.
Qed.

Lemma byte_in_digits c : byte_in (nth_bound 0) (nth_bound 1) c = true -> In c digits.
Proof.
  destruct c as [[] [] [] [] [] [] [] []]; vm_compute; intros H; try discriminate H; tauto.
Qed.

Lemma byte_in_digits' c : byte_in (nth_bound 2) (nth_bound 3) c = true -> In c digits.
Proof.
  destruct c as [[] [] [] [] [] [] [] []]; vm_compute; intros H; try discriminate H; tauto.
Qed.

Lemma digit_pairs_are_indices :
  forallb (fun a => forallb (fun b => smem (String a (String b EmptyString)) all_indices) digits) digits = true.
Proof. vm_compute. reflexivity. Qed.

Lemma check_index_in s : check_index s = true -> In s all_indices.
Proof.
  unfold check_index. intros H. apply andb_true_iff in H. destruct H as [Hl H].
  destruct s as [|a [|b r]]; try discriminate H.
  apply andb_true_iff in H. destruct H as [Ha Hb].
  destruct r as [|c r]; [|vm_compute in Hl; discriminate Hl].
  apply byte_in_digits in Ha. apply byte_in_digits' in Hb.
  pose proof digit_pairs_are_indices as A. rewrite forallb_forall in A.
  specialize (A a Ha). rewrite forallb_forall in A. specialize (A b Hb).
  apply smem_In. exact A.
Qed.

Lemma in_indices_check s : In s all_indices -> check_index s = true.
Proof.
  intros H. assert (A : forallb check_index all_indices = true) by (vm_compute; reflexivity).
  rewrite forallb_forall in A. apply A. exact H.
Qed.

(* ---------- String.compare is a strict total order (Go's < on strings) *)

Lemma ascii_compare_refl c : Ascii.compare c c = Eq.
Proof. unfold Ascii.compare. apply N.compare_refl. Qed.

Lemma str_compare_refl s : String.compare s s = Eq.
Proof. induction s as [|c r IH]; simpl; [reflexivity|]. rewrite ascii_compare_refl. exact IH. Qed.

Lemma str_compare_lt_trans a : forall b c,
  String.compare a b = Lt -> String.compare b c = Lt -> String.compare a c = Lt.
Proof.
  induction a as [|x a IH]; intros [|y b] [|z c] H1 H2; simpl in *; try discriminate; try reflexivity.
  unfold Ascii.compare in *.
  destruct (N.compare_spec (N_of_ascii x) (N_of_ascii y)) as [E1|L1|G1]; try discriminate;
  destruct (N.compare_spec (N_of_ascii y) (N_of_ascii z)) as [E2|L2|G2]; try discriminate.
  - rewrite E1, E2, N.compare_refl. eapply IH; eauto.
  - rewrite E1. apply N.compare_lt_iff in L2. rewrite L2. reflexivity.
  - rewrite <- E2. apply N.compare_lt_iff in L1. rewrite L1. reflexivity.
  - assert (L : (N_of_ascii x < N_of_ascii z)%N) by lia. apply N.compare_lt_iff in L. rewrite L. reflexivity.
Qed.

Lemma str_ltb_irrefl a : str_ltb a a = false.
Proof. unfold str_ltb. rewrite str_compare_refl. reflexivity. Qed.

Lemma str_ltb_trans a b c : str_ltb a b = true -> str_ltb b c = true -> str_ltb a c = true.
Proof.
  unfold str_ltb. destruct (String.compare a b) eqn:E1; try discriminate.
  destruct (String.compare b c) eqn:E2; try discriminate. intros _ _.
  rewrite (str_compare_lt_trans _ _ _ E1 E2). reflexivity.
Qed.

Lemma str_ltb_asym a b : str_ltb a b = true -> str_ltb b a = false.
Proof.
  unfold str_ltb. rewrite (String.compare_antisym b a). destruct (String.compare a b); simpl; congruence.
Qed.

Lemma str_trichotomy a b : str_ltb a b = true \/ a = b \/ str_ltb b a = true.
Proof.
  unfold str_ltb. rewrite (String.compare_antisym b a). destruct (String.compare a b) eqn:E; simpl; auto.
  right. left. apply String.compare_eq_iff in E. exact E.
Qed.

Lemma str_leb_trans a b c : str_leb a b = true -> str_leb b c = true -> str_leb a c = true.
Proof.
  unfold str_leb. intros H1 H2. apply negb_true_iff in H1, H2. apply negb_true_iff.
  destruct (str_ltb c a) eqn:E; [|reflexivity]. exfalso.
  destruct (str_trichotomy a b) as [L|[->|L]].
  - rewrite (str_ltb_trans _ _ _ E L) in H2. discriminate.
  - congruence.
  - congruence.
Qed.

Lemma str_leb_refl a : str_leb a a = true.
Proof. unfold str_leb. rewrite str_ltb_irrefl. reflexivity. Qed.

Lemma str_ltb_leb a b : str_ltb a b = true -> str_leb a b = true.
Proof. intros H. unfold str_leb. rewrite (str_ltb_asym _ _ H). reflexivity. Qed.

Lemma str_leb_total a b : str_leb a b = true \/ str_leb b a = true.
Proof.
  unfold str_leb. destruct (str_ltb b a) eqn:E; [right|left; reflexivity].
  rewrite (str_ltb_asym _ _ E). reflexivity.
Qed.


(* ================================================================== *)
(** * B. Event masks, bit by bit *)

Lemma land_pow2_eq0 m k : (0 <= k)%Z -> (Z.land m (2 ^ k) =? 0)%Z = negb (Z.testbit m k).
Proof.
  intros Hk. destruct (Z.testbit m k) eqn:Hb; simpl.
  - apply Z.eqb_neq. intros E.
    assert (T : Z.testbit (Z.land m (2 ^ k)) k = true).
    { rewrite Z.land_spec, Hb, Z.pow2_bits_true; auto. }
    rewrite E, Z.bits_0 in T. discriminate.
  - apply Z.eqb_eq. apply Z.bits_inj'. intros n Hn.
    rewrite Z.land_spec, Z.bits_0, Z.pow2_bits_eqb by exact Hk.
    destruct (Z.eqb_spec k n) as [->|Hne]; [rewrite Hb; reflexivity| apply andb_false_r].
Qed.

(* IsSet(e) reads exactly bit e-1 of the mask — for every integer mask *)
Lemma is_set_testbit m e : (1 <= e)%Z -> is_set m e = Z.testbit m (e - 1).
Proof.
  intros He. unfold is_set, bit_of. rewrite Z.shiftl_1_l, land_pow2_eq0 by lia.
  apply negb_involutive.
Qed.

Definition events_1_13 : list Z := map Z.of_nat (seq 1 13).

Lemma in_events e : (1 <= e <= 13)%Z -> In e events_1_13.
Proof.
  intros H. unfold events_1_13. apply in_map_iff. exists (Z.to_nat e). split; [lia|].
  apply in_seq. lia.
Qed.

Lemma valid_events_all_set : forallb (is_set valid_events) events_1_13 = true.
Proof. vm_compute. reflexivity. Qed.

Lemma event_last_is_14 : event_last = 14%Z.
Proof. reflexivity. Qed.

Lemma valid_events_value : valid_events = (2 ^ 13 - 1)%Z.
Proof. reflexivity. Qed.

(* the subscription a Configure reply yields, for every mask an int32 can hold
   without the sign bit: the empty mask subscribes to all thirteen events, any other
   accepted mask to exactly the events whose bit it has; a refused mask has a bit
   outside ValidEvents *)
Lemma configure_subscription raw e :
  (0 <= raw < 2 ^ 31)%Z -> (1 <= e <= 13)%Z ->
  match configure_events raw with
  | Some m => is_set m e = if (raw =? 0)%Z then true else Z.testbit raw (e - 1)
  | None => raw <> 0%Z /\ exists k, (13 <= k < 31)%Z /\ Z.testbit raw k = true
  end.
Proof.
  intros Hr He. unfold configure_events.
  destruct (Z.eqb_spec raw 0) as [->|Hne].
  - pose proof valid_events_all_set as A. rewrite forallb_forall in A. apply A, in_events, He.
  - destruct (Z.eqb_spec (Z.land raw (Z.lnot valid_events)) 0) as [E|E].
    + apply is_set_testbit. lia.
    + split; [exact Hne|].
      (* some bit of raw & ~valid is set; it is a bit >= 13 of raw, and raw < 2^31 *)
      destruct (Z.eq_dec (Z.land raw (Z.lnot valid_events)) 0) as [E0|_]; [contradiction|].
      assert (Hex : exists k, (0 <= k)%Z /\ Z.testbit (Z.land raw (Z.lnot valid_events)) k = true).
      { destruct (Z.land raw (Z.lnot valid_events)) eqn:EL; [contradiction| |].
        - exists (Z.log2 (Z.pos p)). split; [apply Z.log2_nonneg|]. apply Z.bit_log2. lia.
        - exfalso. assert (0 <= Z.land raw (Z.lnot valid_events))%Z by (apply Z.land_nonneg; lia). lia. }
      destruct Hex as [k [Hk Hb]]. rewrite Z.land_spec, Z.lnot_spec in Hb by exact Hk.
      apply andb_true_iff in Hb. destruct Hb as [Hb1 Hb2]. apply negb_true_iff in Hb2.
      exists k. split; [|exact Hb1]. split.
      * destruct (Z.ltb_spec k 13) as [Hlt|]; [|lia]. exfalso.
        rewrite valid_events_value in Hb2.
        assert (Z.testbit (2 ^ 13 - 1) k = true).
        { replace (2 ^ 13 - 1)%Z with (Z.ones 13) by reflexivity. apply Z.ones_spec_low. lia. }
        congruence.
      * destruct (Z.ltb_spec k 31) as [|Hge]; [lia|]. exfalso.
        assert (Z.testbit raw k = false).
        { apply Z.bits_above_log2; [lia|]. destruct (Z.eq_dec raw 0); [lia|].
          assert (Z.log2 raw < 31)%Z by (apply Z.log2_lt_pow2; lia). lia. }
        congruence.
Qed.

(* ================================================================== *)
(** * C. sortPlugins *)

Definition ple (p q : plugin) : Prop := plugin_leb p q = true.

Lemma ple_trans p q r : ple p q -> ple q r -> ple p r.
Proof. unfold ple, plugin_leb. apply str_leb_trans. Qed.

Lemma ple_refl p : ple p p.
Proof. unfold ple, plugin_leb. apply str_leb_refl. Qed.

Lemma insert_perm p l : Permutation (insert_plugin p l) (p :: l).
Proof.
  induction l as [|q r IH]; simpl; [reflexivity|].
  destruct (plugin_ltb p q); [reflexivity|].
  rewrite IH. apply perm_swap.
Qed.

Lemma insert_sorted p l : Sorted ple l -> Sorted ple (insert_plugin p l).
Proof.
  induction l as [|q r IH]; intros Hs; simpl.
  - constructor; constructor.
  - destruct (plugin_ltb p q) eqn:E.
    + constructor; [exact Hs|]. constructor. unfold ple, plugin_leb. apply str_ltb_leb. exact E.
    + inversion Hs as [|? ? Hs' Hd]; subst. constructor; [apply IH; exact Hs'|].
      assert (Hqp : ple q p). { unfold ple, plugin_leb, str_leb. unfold plugin_ltb in E. rewrite E. reflexivity. }
      destruct r as [|q' r']; simpl.
      * constructor. exact Hqp.
      * destruct (plugin_ltb p q'); constructor; [exact Hqp|].
        inversion Hd; subst. assumption.
Qed.

Lemma fold_insert_sorted l acc : Sorted ple acc -> Sorted ple (fold_left (fun a p => insert_plugin p a) l acc).
Proof. revert acc. induction l as [|p r IH]; intros acc H; simpl; [exact H|]. apply IH, insert_sorted, H. Qed.

Lemma fold_insert_perm l acc : Permutation (fold_left (fun a p => insert_plugin p a) l acc) (l ++ acc).
Proof.
  revert acc. induction l as [|p r IH]; intros acc; simpl; [reflexivity|].
  rewrite IH, insert_perm. symmetry. apply Permutation_middle.
Qed.

Lemma sort_plugins_sorted l : Sorted ple (sort_plugins l).
Proof. apply fold_insert_sorted. constructor. Qed.

Lemma sort_plugins_perm l : Permutation (sort_plugins l) (prune l).
Proof. unfold sort_plugins. rewrite fold_insert_perm, app_nil_r. reflexivity. Qed.

Lemma Sorted_strongly l : Sorted ple l -> StronglySorted ple l.
Proof. apply Sorted_StronglySorted. intros p q r. apply ple_trans. Qed.

(* in a sorted list, position order implies index order; on valid indices: numeric order *)
Lemma strongly_sorted_nth l : StronglySorted ple l ->
  forall i j d, (i < j < length l)%nat -> ple (nth i l d) (nth j l d).
Proof.
  induction 1 as [|p r Hs IH Hall]; intros i j d Hij; simpl in *; [lia|].
  destruct i as [|i], j as [|j]; try lia.
  - rewrite Forall_forall in Hall. apply Hall. apply nth_In. lia.
  - apply IH. lia.
Qed.

Lemma strongly_sorted_filter (f : plugin -> bool) l : StronglySorted ple l -> StronglySorted ple (filter f l).
Proof.
  induction 1 as [|p r Hs IH Hall]; simpl; [constructor|].
  destruct (f p); [|exact IH]. constructor; [exact IH|].
  rewrite Forall_forall in *. intros q Hq. apply filter_In in Hq. apply Hall. tauto.
Qed.


(* ================================================================== *)
(** * D. One request *)

Lemma closed_is_fatal : is_fatal "ttrpc.ErrClosed" = true.
Proof. vm_compute. reflexivity. Qed.

Lemma In_firstn_local {A} (x : A) n l : In x (firstn n l) -> In x l.
Proof. revert l. induction n as [|n IH]; intros [|y l] H; simpl in *; try contradiction. destruct H; auto. Qed.

Section RelayProofs.
Variables Rq Rp Acc Res : Type.
Variable ev_of : Rq -> Z.
Variable init : Rq -> Acc.
Variable apply : Acc -> plugin -> Rp -> Acc + string.
Variable finish : Rq -> Acc -> Res.

Notation relay := (relay ev_of apply).
Notation exchanges := (exchanges ev_of apply).
Notation eval_exchanges := (eval_exchanges apply).
Notation run_request := (run_request ev_of init apply finish).

(* the classified outcome of asking plugin p *)
Definition oc (T : N) (h : plugin -> call Rp) (p : plugin) : outcome Rp := classify (effective T (h p)).

Lemma callable_split ev p : callable ev p = true <-> subscribed ev p = true /\ p_closed p = false.
Proof. unfold callable. rewrite andb_true_iff, negb_true_iff. tauto. Qed.

Lemma relay_skip T rq h p r acc : callable (ev_of rq) p = false ->
  relay T rq h (p :: r) acc =
  let o := relay T rq h r acc in
  {| ro_result := ro_result o; ro_invoked := ro_invoked o; ro_plugins := p :: ro_plugins o; ro_time := ro_time o |}.
Proof.
  intros H. cbn [Dispatch.relay]. unfold callable in H.
  destruct (subscribed (ev_of rq) p); cbn [negb]; [|reflexivity].
  destruct (p_closed p); [|discriminate H].
  unfold classify. rewrite closed_is_fatal. reflexivity.
Qed.

Lemma relay_call T rq h p r acc : callable (ev_of rq) p = true ->
  relay T rq h (p :: r) acc =
  match oc T h p with
  | Ok rp =>
      match apply acc p rp with
      | inl acc' => cons_invoked p (relay T rq h r acc') (call_time T (h p)) p
      | inr e => {| ro_result := inr e; ro_invoked := [p]; ro_plugins := p :: r; ro_time := call_time T (h p) |}
      end
  | Veto m => {| ro_result := inr m; ro_invoked := [p]; ro_plugins := p :: r; ro_time := call_time T (h p) |}
  | Fatal => cons_invoked p (relay T rq h r acc) (call_time T (h p)) (close_plugin p)
  end.
Proof.
  intros H. apply callable_split in H. destruct H as [Hs Hc].
  cbn [Dispatch.relay]. rewrite Hs, Hc. reflexivity.
Qed.

Lemma exchanges_skip T rq h p r acc : callable (ev_of rq) p = false ->
  exchanges T rq h (p :: r) acc = exchanges T rq h r acc.
Proof. intros H. cbn [Dispatch.exchanges]. rewrite H. reflexivity. Qed.

Lemma exchanges_call T rq h p r acc : callable (ev_of rq) p = true ->
  exchanges T rq h (p :: r) acc =
  match oc T h p with
  | Ok rp => match apply acc p rp with
             | inl acc' => (p, oc T h p) :: exchanges T rq h r acc'
             | inr _ => [(p, oc T h p)]
             end
  | Veto _ => [(p, oc T h p)]
  | Fatal => (p, oc T h p) :: exchanges T rq h r acc
  end.
Proof. intros H. cbn [Dispatch.exchanges]. rewrite H. reflexivity. Qed.

(* -- the plugins called are always a prefix of the subscribed, connected ones, in list order *)
Lemma relay_invoked_prefix T rq h ps : forall acc,
  exists n, ro_invoked (relay T rq h ps acc) = firstn n (filter (callable (ev_of rq)) ps).
Proof.
  induction ps as [|p r IH]; intros acc.
  - exists 0%nat. reflexivity.
  - destruct (callable (ev_of rq) p) eqn:Hc.
    + rewrite relay_call by exact Hc. cbn [filter]. rewrite Hc.
      destruct (oc T h p) as [rp|m|].
      * destruct (apply acc p rp) as [acc'|e].
        -- destruct (IH acc') as [n Hn]. exists (S n). cbn [cons_invoked ro_invoked firstn]. rewrite Hn. reflexivity.
        -- exists 1%nat. reflexivity.
      * exists 1%nat. reflexivity.
      * destruct (IH acc) as [n Hn]. exists (S n). cbn [cons_invoked ro_invoked firstn]. rewrite Hn. reflexivity.
    + rewrite relay_skip by exact Hc. cbn [filter]. rewrite Hc. apply IH.
Qed.

(* -- a request that succeeds called every subscribed, connected plugin, in list order *)
Lemma relay_ok_invoked T rq h ps : forall acc a,
  ro_result (relay T rq h ps acc) = inl a ->
  ro_invoked (relay T rq h ps acc) = filter (callable (ev_of rq)) ps.
Proof.
  induction ps as [|p r IH]; intros acc a H; [reflexivity|].
  destruct (callable (ev_of rq) p) eqn:Hc.
  - rewrite relay_call in * by exact Hc. cbn [filter]. rewrite Hc.
    destruct (oc T h p) as [rp|m|].
    + destruct (apply acc p rp) as [acc'|e]; [|discriminate H].
      cbn [cons_invoked ro_invoked ro_result] in *. f_equal. eapply IH; eauto.
    + discriminate H.
    + cbn [cons_invoked ro_invoked ro_result] in *. f_equal. eapply IH; eauto.
  - rewrite relay_skip in * by exact Hc. cbn [filter]. rewrite Hc. cbn [ro_invoked ro_result] in *. eapply IH; eauto.
Qed.

(* -- the result is a function of the request and the exchanges with the plugins *)
Lemma relay_exchanges T rq h ps : forall acc,
  ro_result (relay T rq h ps acc) = eval_exchanges (exchanges T rq h ps acc) acc /\
  ro_invoked (relay T rq h ps acc) = map fst (exchanges T rq h ps acc).
Proof.
  induction ps as [|p r IH]; intros acc; [split; reflexivity|].
  destruct (callable (ev_of rq) p) eqn:Hc.
  - rewrite relay_call, exchanges_call by exact Hc.
    destruct (oc T h p) as [rp|m|] eqn:Ho.
    + destruct (apply acc p rp) as [acc'|e] eqn:Ha.
      * cbn [cons_invoked ro_invoked ro_result Dispatch.eval_exchanges map fst]. rewrite Ha.
        destruct (IH acc') as [I1 I2]. rewrite I1, I2. split; reflexivity.
      * cbn [ro_invoked ro_result Dispatch.eval_exchanges map fst]. rewrite Ha. split; reflexivity.
    + split; reflexivity.
    + cbn [cons_invoked ro_invoked ro_result Dispatch.eval_exchanges map fst].
      destruct (IH acc) as [I1 I2]. rewrite I1, I2. split; reflexivity.
  - rewrite relay_skip, exchanges_skip by exact Hc. apply IH.
Qed.

(* -- splitting the loop at a point before which nothing failed the request *)
Lemma relay_app T rq h l1 l2 : forall acc acc1,
  ro_result (relay T rq h l1 acc) = inl acc1 ->
  let o1 := relay T rq h l1 acc in
  let o2 := relay T rq h l2 acc1 in
  let o := relay T rq h (l1 ++ l2) acc in
  ro_result o = ro_result o2 /\ ro_invoked o = ro_invoked o1 ++ ro_invoked o2 /\
  ro_plugins o = ro_plugins o1 ++ ro_plugins o2 /\ ro_time o = (ro_time o1 + ro_time o2)%N.
Proof.
  induction l1 as [|p r IH]; intros acc acc1 H; cbn zeta.
  - cbn in H. injection H as <-. cbn [app]. repeat split; cbn; reflexivity.
  - cbn [app]. destruct (callable (ev_of rq) p) eqn:Hc.
    + rewrite !relay_call in * by exact Hc.
      destruct (oc T h p) as [rp|m|].
      * destruct (apply acc p rp) as [acc'|e]; [|discriminate H].
        cbn [cons_invoked ro_invoked ro_result ro_plugins ro_time] in *.
        destruct (IH acc' acc1 H) as [I1 [I2 [I3 I4]]]. rewrite I1, I2, I3, I4.
        repeat split. lia.
      * discriminate H.
      * cbn [cons_invoked ro_invoked ro_result ro_plugins ro_time] in *.
        destruct (IH acc acc1 H) as [I1 [I2 [I3 I4]]]. rewrite I1, I2, I3, I4.
        repeat split. lia.
    + rewrite !relay_skip in * by exact Hc. cbn [ro_invoked ro_result ro_plugins ro_time] in *.
      destruct (IH acc acc1 H) as [I1 [I2 [I3 I4]]]. rewrite I1, I2, I3, I4. repeat split.
Qed.

(* -- time: every call that got its request out is cut off at T *)
Lemma call_time_le T c : c_in_write c = false -> (call_time (Rp:=Rp) T c <= T)%N.
Proof. intros H. unfold call_time. rewrite H. lia. Qed.

Lemma relay_time T rq h ps : (forall p, In p ps -> c_in_write (h p) = false) -> forall acc,
  (ro_time (relay T rq h ps acc) <= N.of_nat (length (ro_invoked (relay T rq h ps acc))) * T)%N /\
  (length (ro_invoked (relay T rq h ps acc)) <= length ps)%nat.
Proof.
  induction ps as [|p r IH]; intros Hw acc; [cbn; split; lia|].
  assert (Hw' : forall q, In q r -> c_in_write (h q) = false) by (intros q Hq; apply Hw; right; exact Hq).
  specialize (IH Hw').
  destruct (callable (ev_of rq) p) eqn:Hc.
  - rewrite relay_call by exact Hc. pose proof (call_time_le T (h p) (Hw p (or_introl eq_refl))) as Hd.
    destruct (oc T h p) as [rp|m|].
    + destruct (apply acc p rp) as [acc'|e].
      * destruct (IH acc') as [I1 I2]. cbn [cons_invoked ro_invoked ro_time length]. split; [|lia].
        rewrite Nat2N.inj_succ. lia.
      * cbn [ro_invoked ro_time length]. split; [lia|lia].
    + cbn [ro_invoked ro_time length]. split; lia.
    + destruct (IH acc) as [I1 I2]. cbn [cons_invoked ro_invoked ro_time length]. split; [|lia].
      rewrite Nat2N.inj_succ. lia.
  - rewrite relay_skip by exact Hc. destruct (IH acc) as [I1 I2]. cbn [ro_invoked ro_time length]. split; lia.
Qed.

(* -- the list after the loop: same plugins in the same order, some newly closed *)
Definition same_plugin (a b : plugin) : Prop :=
  p_id a = p_id b /\ p_idx a = p_idx b /\ p_name a = p_name b /\ p_events a = p_events b /\
  (p_closed a = true -> p_closed b = true).

Lemma same_plugin_refl a : same_plugin a a.
Proof. unfold same_plugin. tauto. Qed.

Lemma same_plugin_close a : same_plugin a (close_plugin a).
Proof. unfold same_plugin. cbn. tauto. Qed.

Lemma Forall2_same_refl l : Forall2 same_plugin l l.
Proof. induction l; constructor; auto using same_plugin_refl. Qed.

Lemma relay_plugins_same T rq h ps : forall acc, Forall2 same_plugin ps (ro_plugins (relay T rq h ps acc)).
Proof.
  induction ps as [|p r IH]; intros acc; [constructor|].
  destruct (callable (ev_of rq) p) eqn:Hc.
  - rewrite relay_call by exact Hc.
    destruct (oc T h p) as [rp|m|].
    + destruct (apply acc p rp) as [acc'|e]; cbn [cons_invoked ro_plugins].
      * constructor; [apply same_plugin_refl|apply IH].
      * apply Forall2_same_refl.
    + apply Forall2_same_refl.
    + cbn [cons_invoked ro_plugins]. constructor; [apply same_plugin_close|apply IH].
  - rewrite relay_skip by exact Hc. cbn [ro_plugins]. constructor; [apply same_plugin_refl|apply IH].
Qed.

(* -- who is still in the list after removeClosedPlugins: un-closed plugins of the list
      whose call did not end fatally *)
Lemma relay_survivors T rq h ps : forall acc q,
  NoDup (map p_id ps) ->
  In q (prune (ro_plugins (relay T rq h ps acc))) ->
  In q ps /\ p_closed q = false /\
  ~ (In q (ro_invoked (relay T rq h ps acc)) /\ oc T h q = Fatal).
Proof.
  induction ps as [|p r IH]; intros acc q Hnd Hq; [contradiction|].
  cbn [map] in Hnd. inversion Hnd as [|? ? Hnotin Hnd']; subst.
  assert (Hfresh : forall x, In x r -> x <> p).
  { intros x Hx ->. apply Hnotin. apply in_map. exact Hx. }
  destruct (callable (ev_of rq) p) eqn:Hc.
  - rewrite relay_call in * by exact Hc.
    destruct (oc T h p) as [rp|m|] eqn:Ho.
    + destruct (apply acc p rp) as [acc'|e]; cbn [cons_invoked ro_plugins ro_invoked] in *.
      * unfold prune in Hq. cbn [filter] in Hq. apply callable_split in Hc. destruct Hc as [_ Hc].
        rewrite Hc in Hq. cbn [negb] in Hq. destruct Hq as [<-|Hq].
        -- split; [left; reflexivity|]. split; [exact Hc|]. intros [_ Hf]. unfold oc in *. congruence.
        -- destruct (IH acc' q Hnd' Hq) as [I1 [I2 I3]]. split; [right; exact I1|]. split; [exact I2|].
           intros [[->|Hin] Hf]; [exact (Hfresh _ I1 eq_refl)|]. apply I3. split; assumption.
      * unfold prune in Hq. apply filter_In in Hq. destruct Hq as [Hq Hcl]. apply negb_true_iff in Hcl.
        split; [exact Hq|]. split; [exact Hcl|]. intros [[<-|[]] Hf]. unfold oc in *. congruence.
    + unfold prune in Hq. cbn [ro_plugins ro_invoked] in *. apply filter_In in Hq. destruct Hq as [Hq Hcl].
      apply negb_true_iff in Hcl. split; [exact Hq|]. split; [exact Hcl|].
      intros [[<-|[]] Hf]. unfold oc in *. congruence.
    + cbn [cons_invoked ro_plugins ro_invoked] in *. unfold prune in Hq. cbn [filter close_plugin p_closed negb] in Hq.
      destruct (IH acc q Hnd' Hq) as [I1 [I2 I3]]. split; [right; exact I1|]. split; [exact I2|].
      intros [[->|Hin] Hf]; [exact (Hfresh _ I1 eq_refl)|]. apply I3. split; assumption.
  - rewrite relay_skip in * by exact Hc. cbn [ro_plugins ro_invoked] in *.
    unfold prune in Hq. cbn [filter] in Hq.
    destruct (negb (p_closed p)) eqn:Hcl.
    + destruct Hq as [<-|Hq].
      * split; [left; reflexivity|]. apply negb_true_iff in Hcl. split; [exact Hcl|].
        intros [Hin _]. destruct (relay_invoked_prefix T rq h r acc) as [n Hn]. rewrite Hn in Hin.
        apply In_firstn_local in Hin. apply filter_In in Hin. destruct Hin as [Hin _].
        exact (Hfresh _ Hin eq_refl).
      * destruct (IH acc q Hnd' Hq) as [I1 [I2 I3]]. split; [right; exact I1|]. split; [exact I2|exact I3].
    + destruct (IH acc q Hnd' Hq) as [I1 [I2 I3]]. split; [right; exact I1|]. split; [exact I2|exact I3].
Qed.

End RelayProofs.


(* ---------- order of occurrence in a list *)
Fixpoint before {A} (a b : A) (l : list A) : Prop :=
  match l with
  | [] => False
  | x :: r => (x = a /\ In b r) \/ before a b r
  end.

Lemma before_In {A} (a b : A) l : before a b l -> In a l /\ In b l.
Proof.
  induction l as [|x r IH]; simpl; [tauto|]. intros [[-> H]|H]; [tauto|]. apply IH in H. tauto.
Qed.

Lemma before_map_filter {A B} (g : A -> B) (f : A -> bool) a b l :
  before a b (map g (filter f l)) -> before a b (map g l).
Proof.
  induction l as [|x r IH]; simpl; [tauto|]. destruct (f x); simpl.
  - intros [[E H]|H]; [left; split; [exact E|]|right; apply IH; exact H].
    apply in_map_iff in H. destruct H as [y [Ey Hy]]. apply filter_In in Hy. apply in_map_iff. exists y. tauto.
  - intros H. right. apply IH. exact H.
Qed.

Lemma before_asym {A} (a b : A) l : NoDup l -> before a b l -> before b a l -> False.
Proof.
  induction l as [|x r IH]; simpl; [tauto|]. intros Hnd. inversion Hnd as [|? ? Hx Hr]; subst.
  intros [[-> H1]|H1] [[E2 H2]|H2].
  - subst. contradiction.
  - apply before_In in H2. tauto.
  - subst. apply before_In in H1. tauto.
  - eapply IH; eauto.
Qed.

Lemma before_total {A} (a b : A) l : In a l -> In b l -> a <> b -> before a b l \/ before b a l.
Proof.
  induction l as [|x r IH]; simpl; [tauto|]. intros [->|Ha] [->|Hb] Hne.
  - contradiction.
  - left. left. tauto.
  - right. left. tauto.
  - destruct (IH Ha Hb Hne); [left|right]; right; assumption.
Qed.

Lemma before_neq {A} (a b : A) l : NoDup l -> before a b l -> a <> b.
Proof.
  induction l as [|x r IH]; simpl; [tauto|]. intros Hnd. inversion Hnd; subst.
  intros [[-> H]|H]; [intros ->; contradiction|]. apply IH; assumption.
Qed.

(* two sub-sequences of one duplicate-free sequence order their common elements alike *)
Lemma filters_agree {A B} (g : A -> B) (f1 f2 : A -> bool) l a b :
  NoDup (map g l) ->
  before a b (map g (filter f1 l)) ->
  In a (map g (filter f2 l)) -> In b (map g (filter f2 l)) ->
  before a b (map g (filter f2 l)).
Proof.
  intros Hnd H1 Ha Hb.
  pose proof (before_map_filter g f1 a b l H1) as Hl.
  pose proof (before_neq a b _ Hnd Hl) as Hne.
  destruct (before_total a b _ Ha Hb Hne) as [H|H]; [exact H|].
  exfalso. apply (before_asym a b _ Hnd Hl). eapply before_map_filter. exact H.
Qed.

(* ---------- small list facts *)
Definition ids (l : list plugin) : list N := map p_id l.

Lemma NoDup_map_filter {A B} (g : A -> B) (f : A -> bool) l : NoDup (map g l) -> NoDup (map g (filter f l)).
Proof.
  induction l as [|x r IH]; simpl; intros H; [constructor|]. inversion H as [|? ? Hx Hr]; subst.
  destruct (f x); simpl; [|apply IH; exact Hr]. constructor; [|apply IH; exact Hr].
  intros Hin. apply Hx. apply in_map_iff in Hin. destruct Hin as [y [Ey Hy]]. apply filter_In in Hy.
  apply in_map_iff. exists y. tauto.
Qed.

Lemma NoDup_map_firstn {A B} (g : A -> B) n l : NoDup (map g l) -> NoDup (map g (firstn n l)).
Proof.
  revert l. induction n as [|n IH]; intros [|x r] H; simpl; try constructor.
  - inversion H; subst. intros Hin. apply H2. apply in_map_iff in Hin. destruct Hin as [y [Ey Hy]].
    apply In_firstn_local in Hy. apply in_map_iff. exists y. tauto.
  - inversion H; subst. apply IH. assumption.
Qed.

Lemma strongly_sorted_firstn n l : StronglySorted ple l -> StronglySorted ple (firstn n l).
Proof.
  revert l. induction n as [|n IH]; intros l H; [constructor|]. destruct H as [|p r Hs Hall]; simpl; [constructor|].
  constructor; [apply IH; exact Hs|]. rewrite Forall_forall in *. intros q Hq. apply Hall. eapply In_firstn_local; eauto.
Qed.

Lemma same_ids l l' : Forall2 same_plugin l l' -> ids l' = ids l.
Proof. induction 1 as [|a b l l' H _ IH]; simpl; [reflexivity|]. destruct H as [H _]. rewrite IH, H. reflexivity. Qed.

Lemma same_sorted l l' : Forall2 same_plugin l l' -> StronglySorted ple l -> StronglySorted ple l'.
Proof.
  induction 1 as [|a b l l' H H2 IH]; intros Hs; [constructor|]. inversion Hs as [|? ? Hs' Hall]; subst.
  constructor; [apply IH; exact Hs'|]. clear IH Hs Hs'.
  destruct H as [_ [Hidx _]]. induction H2 as [|c d l l' Hcd _ IH2]; [constructor|].
  inversion Hall; subst. constructor; [|apply IH2; assumption].
  destruct Hcd as [_ [Hidx2 _]]. unfold ple, plugin_leb in *. rewrite <- Hidx, <- Hidx2. assumption.
Qed.

Lemma disconnect_same id l : Forall2 same_plugin l (disconnect id l).
Proof.
  induction l as [|p r IH]; simpl; constructor; [|exact IH].
  destruct (N.eqb (p_id p) id); [apply same_plugin_close|apply same_plugin_refl].
Qed.

Lemma NoDup_inj_on {A B} (g : A -> B) l x y : NoDup (map g l) -> In x l -> In y l -> g x = g y -> x = y.
Proof.
  induction l as [|z r IH]; simpl; [tauto|]. intros H. inversion H as [|? ? Hz Hr]; subst.
  intros [->|Hx] [->|Hy] E; auto.
  - exfalso. apply Hz. rewrite E. apply in_map. exact Hy.
  - exfalso. apply Hz. rewrite <- E. apply in_map. exact Hx.
Qed.

Lemma NoDup_app_local {A} (l1 l2 : list A) : NoDup l1 -> NoDup l2 -> (forall x, In x l1 -> ~ In x l2) -> NoDup (l1 ++ l2).
Proof.
  induction l1 as [|x r IH]; simpl; intros H1 H2 Hd; [exact H2|]. inversion H1; subst.
  constructor; [|apply IH; auto]. intros Hin. apply in_app_iff in Hin. destruct Hin as [Hin|Hin]; [contradiction|].
  apply (Hd x); auto.
Qed.

(* ================================================================== *)
(** * E. Sequences of requests *)

Section Sequences.
Variables Rq Rp Acc Res : Type.
Variable ev_of : Rq -> Z.
Variable init : Rq -> Acc.
Variable apply : Acc -> plugin -> Rp -> Acc + string.
Variable finish : Rq -> Acc -> Res.

Notation relay := (relay ev_of apply).
Notation run_request := (run_request ev_of init apply finish).
Notation action := (action Rq Rp).
Notation observation := (observation Rq Res).
Notation oc := (oc Rp).

(* the transition relation: a request is processed atomically by run_request; a
   registration (under the mutex) prunes, appends and sorts — sort.Slice may leave
   plugins with equal indices in any order, so every sorted permutation is allowed;
   connection ids are new *)
Inductive Step (T : N) : list plugin -> action -> list plugin -> list observation -> Prop :=
| St_request ps rq h :
    Step T ps (ARequest rq h) (fst (run_request T rq h ps)) [snd (run_request T rq h ps)]
| St_register ps p ps' :
    ~ In (p_id p) (ids ps) -> Permutation ps' (prune (ps ++ [p])) -> Sorted ple ps' ->
    Step T ps (ARegister p) ps' []
| St_disconnect ps id :
    Step T ps (ADisconnect id) (disconnect id ps) [].

Inductive Run (T : N) : list plugin -> list action -> list plugin -> list observation -> Prop :=
| Run_nil ps : Run T ps [] ps []
| Run_cons ps a ps1 o1 s ps2 o2 :
    Step T ps a ps1 o1 -> Run T ps1 s ps2 o2 -> Run T ps (a :: s) ps2 (o1 ++ o2).

(* the executable machine of the model is one run of the relation *)
Fixpoint fresh_registrations (seen : list N) (s : list action) : Prop :=
  match s with
  | [] => True
  | ARegister p :: r => ~ In (p_id p) seen /\ fresh_registrations (p_id p :: seen) r
  | _ :: r => fresh_registrations seen r
  end.

Definition Inv (ps : list plugin) : Prop := StronglySorted ple ps /\ NoDup (ids ps).

Lemma prune_ids_incl l x : In x (ids (prune l)) -> In x (ids l).
Proof.
  unfold ids, prune. intros H. apply in_map_iff in H. destruct H as [y [E Hy]]. apply filter_In in Hy.
  apply in_map_iff. exists y. tauto.
Qed.

Lemma request_state_ids T rq h ps x : In x (ids (fst (run_request T rq h ps))) -> In x (ids ps).
Proof.
  unfold Dispatch.run_request. cbn [fst]. intros H. apply prune_ids_incl in H.
  rewrite (same_ids _ _ (relay_plugins_same _ _ _ ev_of apply T rq h ps (init rq))) in H. exact H.
Qed.

Lemma step_ids T ps a ps' o x : Step T ps a ps' o -> In x (ids ps') ->
  In x (ids ps) \/ exists p, a = ARegister p /\ p_id p = x.
Proof.
  intros St Hx. destruct St as [ps rq h|ps p ps' Hf Hp Hs|ps id].
  - left. eapply request_state_ids; eauto.
  - unfold ids in Hx. rewrite (Permutation_map p_id Hp) in Hx. apply prune_ids_incl in Hx.
    unfold ids in Hx. rewrite map_app in Hx. apply in_app_iff in Hx. destruct Hx as [Hx|[Hx|[]]]; [left; exact Hx|].
    right. exists p. auto.
  - left. rewrite (same_ids _ _ (disconnect_same id ps)) in Hx. exact Hx.
Qed.

Lemma step_inv T ps a ps' o : Step T ps a ps' o -> Inv ps -> Inv ps'.
Proof.
  intros St [Hs Hn]. destruct St as [ps rq h|ps p ps' Hf Hp Hso|ps id].
  - pose proof (relay_plugins_same _ _ _ ev_of apply T rq h ps (init rq)) as Hsame.
    unfold Dispatch.run_request. cbn [fst]. split.
    + apply strongly_sorted_filter. eapply same_sorted; eauto.
    + unfold ids, prune. apply NoDup_map_filter. fold (ids (ro_plugins (relay T rq h ps (init rq)))).
      rewrite (same_ids _ _ Hsame). exact Hn.
  - split; [apply Sorted_strongly; exact Hso|].
    unfold ids. rewrite (Permutation_map p_id Hp). unfold prune. apply NoDup_map_filter.
    rewrite map_app. cbn [map]. apply NoDup_app_local; [exact Hn|constructor; [tauto|constructor]|].
    intros x Hx [<-|[]]. contradiction.
  - pose proof (disconnect_same id ps) as Hsame. split; [eapply same_sorted; eauto|].
    rewrite (same_ids _ _ Hsame). exact Hn.
Qed.

(* what one request's observation looks like, in a well-formed state *)
Lemma request_observation T rq h ps : Inv ps ->
  let o := snd (run_request T rq h ps) in
  StronglySorted ple (o_invoked o) /\ NoDup (ids (o_invoked o)) /\
  (exists n, o_invoked o = firstn n (filter (callable (ev_of rq)) ps)) /\
  o_result o = result_of init apply finish rq (exchanges ev_of apply T rq h ps (init rq)).
Proof.
  intros [Hs Hn]. cbn zeta. unfold Dispatch.run_request. cbn [snd o_invoked o_result].
  destruct (relay_invoked_prefix _ _ _ ev_of apply T rq h ps (init rq)) as [n Hp].
  rewrite Hp. split; [apply strongly_sorted_firstn, strongly_sorted_filter, Hs|].
  split; [apply NoDup_map_firstn, NoDup_map_filter, Hn|]. split; [exists n; reflexivity|].
  unfold result_of. destruct (relay_exchanges _ _ _ ev_of apply T rq h ps (init rq)) as [E _]. rewrite E. reflexivity.
Qed.

(* -- every observation of every run: called plugins in index order, each once *)
Lemma run_observations T ps s ps' os : Run T ps s ps' os -> Inv ps ->
  Inv ps' /\ forall o, In o os -> StronglySorted ple (o_invoked o) /\ NoDup (ids (o_invoked o)).
Proof.
  induction 1 as [ps|ps a ps1 o1 s ps2 o2 St _ IH]; intros HI; [split; [exact HI|intros o []]|].
  pose proof (step_inv _ _ _ _ _ St HI) as HI1. destruct (IH HI1) as [HI2 Hos]. split; [exact HI2|].
  intros o Ho. apply in_app_iff in Ho. destruct Ho as [Ho|Ho]; [|apply Hos; exact Ho].
  destruct St as [ps rq h| |]; try contradiction. destruct Ho as [<-|[]].
  destruct (request_observation T rq h ps HI) as [A [B _]]. split; assumption.
Qed.

(* -- one plugin's view of the global log is the sub-sequence of the requests in which it was called *)
Lemma trace_one id (o : observation) : NoDup (ids (o_invoked o)) ->
  trace id (map (fun p => (p_id p, o_rq o)) (o_invoked o)) = if was_invoked id o then [o_rq o] else [].
Proof.
  unfold was_invoked, trace. generalize (o_rq o) as rq. induction (o_invoked o) as [|p r IH]; intros rq Hn; [reflexivity|].
  cbn [map filter fst existsb ids] in *. inversion Hn as [|? ? Hp Hr]; subst.
  destruct (N.eqb_spec (p_id p) id) as [E|E]; cbn [orb map snd].
  - assert (Hno : existsb (fun q => N.eqb (p_id q) id) r = false).
    { destruct (existsb (fun q => N.eqb (p_id q) id) r) eqn:Ex; [|reflexivity]. exfalso.
      apply existsb_exists in Ex. destruct Ex as [q [Hq Eq]]. apply N.eqb_eq in Eq. apply Hp.
      rewrite E, <- Eq. apply in_map. exact Hq. }
    rewrite (IH rq Hr), Hno. reflexivity.
  - apply IH. exact Hr.
Qed.

Lemma trace_app id (l1 l2 : list (N * Rq)) : trace id (l1 ++ l2) = trace id l1 ++ trace id l2.
Proof. unfold trace. rewrite filter_app, map_app. reflexivity. Qed.

Lemma trace_is_filter id (os : list observation) :
  (forall o, In o os -> NoDup (ids (o_invoked o))) ->
  trace id (log_of os) = map o_rq (filter (was_invoked id) os).
Proof.
  induction os as [|o r IH]; intros H; [reflexivity|].
  unfold log_of in *. cbn [flat_map filter]. rewrite trace_app, trace_one by (apply H; left; reflexivity).
  rewrite IH by (intros o' Ho'; apply H; right; exact Ho').
  destruct (was_invoked id o); reflexivity.
Qed.

(* -- a plugin that is not in the list and does not register again is never called *)
Lemma invoked_in_state T rq h ps q : In q (o_invoked (snd (run_request T rq h ps))) -> In q ps.
Proof.
  unfold Dispatch.run_request. cbn [snd o_invoked]. intros H.
  destruct (relay_invoked_prefix _ _ _ ev_of apply T rq h ps (init rq)) as [n Hp]. rewrite Hp in H.
  apply In_firstn_local in H. apply filter_In in H. tauto.
Qed.

Lemma absent_never_called T ps s ps' os id : Run T ps s ps' os ->
  ~ In id (ids ps) -> (forall p, In (ARegister p) s -> p_id p <> id) ->
  forall o, In o os -> was_invoked id o = false.
Proof.
  induction 1 as [ps|ps a ps1 o1 s ps2 o2 St _ IH]; intros Hno Hreg o Ho; [contradiction|].
  apply in_app_iff in Ho. destruct Ho as [Ho|Ho].
  - destruct St as [ps rq h| |]; try contradiction. destruct Ho as [<-|[]].
    unfold was_invoked. destruct (existsb _ _) eqn:Ex; [|reflexivity]. exfalso.
    apply existsb_exists in Ex. destruct Ex as [q [Hq Eq]]. apply N.eqb_eq in Eq.
    apply invoked_in_state in Hq. apply Hno. rewrite <- Eq. apply in_map. exact Hq.
  - apply IH; [|intros p Hp; apply Hreg; right; exact Hp|exact Ho].
    intros Hin. destruct (step_ids _ _ _ _ _ _ St Hin) as [H|[p [-> E]]]; [contradiction|].
    apply (Hreg p); [left; reflexivity|exact E].
Qed.

(* -- a plugin whose call ends fatally is gone from the list when the request returns *)
Lemma fatal_dropped T rq h ps q : NoDup (ids ps) ->
  In q (o_invoked (snd (run_request T rq h ps))) -> oc T h q = Fatal ->
  ~ In (p_id q) (ids (fst (run_request T rq h ps))).
Proof.
  intros Hn Hq Hf Hin. pose proof (invoked_in_state _ _ _ _ _ Hq) as Hqps.
  unfold Dispatch.run_request in *. cbn [fst snd o_invoked] in *.
  unfold ids in Hin. apply in_map_iff in Hin. destruct Hin as [q' [E Hq']].
  destruct (relay_survivors _ _ _ ev_of apply T rq h ps (init rq) q' Hn Hq') as [I1 [_ I3]].
  assert (q' = q) by (eapply NoDup_inj_on; eauto). subst q'. apply I3. split; assumption.
Qed.

(* the executable machine is a run of the relation *)
Lemma run_is_Run T s : forall ps seen,
  incl (ids ps) seen -> fresh_registrations seen s ->
  Run T ps s (fst (run ev_of init apply finish T ps s)) (snd (run ev_of init apply finish T ps s)).
Proof.
  induction s as [|a r IH]; intros ps seen Hincl Hf; [constructor|].
  cbn [Dispatch.run]. destruct a as [rq h|p|id]; cbn [Dispatch.step fresh_registrations] in *.
  - destruct (run_request T rq h ps) as [ps1 o] eqn:E.
    destruct (run ev_of init apply finish T ps1 r) as [ps2 o2] eqn:E2. cbn [fst snd].
    replace (o :: o2) with ([o] ++ o2) by reflexivity.
    econstructor.
    + pose proof (St_request T ps rq h) as St. rewrite E in St. exact St.
    + specialize (IH ps1 seen). rewrite E2 in IH. apply IH; [|exact Hf].
      intros x Hx. apply Hincl. replace ps1 with (fst (run_request T rq h ps)) in Hx by (rewrite E; reflexivity).
      eapply request_state_ids; eauto.
  - destruct Hf as [Hfresh Hf].
    destruct (run ev_of init apply finish T (sort_plugins (ps ++ [p])) r) as [ps2 o2] eqn:E2. cbn [fst snd].
    replace o2 with ([] ++ o2) by reflexivity. econstructor.
    + constructor; [intros H; apply Hfresh, Hincl, H|apply sort_plugins_perm|apply sort_plugins_sorted].
    + specialize (IH (sort_plugins (ps ++ [p])) (p_id p :: seen)). rewrite E2 in IH. apply IH; [|exact Hf].
      intros x Hx. unfold ids in Hx. rewrite (Permutation_map p_id (sort_plugins_perm _)) in Hx.
      apply prune_ids_incl in Hx. unfold ids in Hx. rewrite map_app in Hx. apply in_app_iff in Hx.
      destruct Hx as [Hx|[Hx|[]]]; [right; apply Hincl; exact Hx|left; exact Hx].
  - destruct (run ev_of init apply finish T (disconnect id ps) r) as [ps2 o2] eqn:E2. cbn [fst snd].
    replace o2 with ([] ++ o2) by reflexivity. econstructor; [constructor|].
    specialize (IH (disconnect id ps) seen). rewrite E2 in IH. apply IH; [|exact Hf].
    intros x Hx. rewrite (same_ids _ _ (disconnect_same id ps)) in Hx. apply Hincl. exact Hx.
Qed.

End Sequences.


Section Faults.
Variables Rq Rp Acc Res : Type.
Variable ev_of : Rq -> Z.
Variable init : Rq -> Acc.
Variable apply : Acc -> plugin -> Rp -> Acc + string.
Variable finish : Rq -> Acc -> Res.

Notation relay := (relay ev_of apply).
Notation run_request := (run_request ev_of init apply finish).
Notation oc := (oc Rp).

(* -- plugins whose calls end fatally contribute exactly what they would if they were not there *)
Lemma relay_without_fatal T rq h (I : plugin -> bool) ps : forall acc,
  (forall p, In p ps -> I p = true -> callable (ev_of rq) p = true -> oc T h p = Fatal) ->
  let o := relay T rq h ps acc in
  let o' := relay T rq h (filter (fun p => negb (I p)) ps) acc in
  ro_result o = ro_result o' /\ filter (fun p => negb (I p)) (ro_invoked o) = ro_invoked o'.
Proof.
  induction ps as [|p r IH]; intros acc HI; cbn zeta; [split; reflexivity|].
  assert (HI' : forall q, In q r -> I q = true -> callable (ev_of rq) q = true -> oc T h q = Fatal).
  { intros q Hq. apply HI. right. exact Hq. }
  cbn [filter]. destruct (I p) eqn:Ip; cbn [negb].
  - destruct (callable (ev_of rq) p) eqn:Hc.
    + rewrite relay_call by exact Hc. rewrite (HI p (or_introl eq_refl) Ip Hc).
      cbn [cons_invoked ro_result ro_invoked filter]. rewrite Ip. cbn [negb]. apply IH. exact HI'.
    + rewrite relay_skip by exact Hc. cbn [ro_result ro_invoked]. apply IH. exact HI'.
  - destruct (callable (ev_of rq) p) eqn:Hc.
    + rewrite !relay_call by exact Hc. destruct (oc T h p) as [rp|m|].
      * destruct (apply acc p rp) as [acc'|e]; cbn [cons_invoked ro_result ro_invoked filter]; rewrite Ip; cbn [negb].
        -- destruct (IH acc' HI') as [I1 I2]. rewrite I1, I2. split; reflexivity.
        -- split; reflexivity.
      * cbn [ro_result ro_invoked filter]. rewrite Ip. split; reflexivity.
      * cbn [cons_invoked ro_result ro_invoked filter]. rewrite Ip. cbn [negb].
        destruct (IH acc HI') as [I1 I2]. rewrite I1, I2. split; reflexivity.
    + rewrite !relay_skip by exact Hc. cbn [ro_result ro_invoked]. apply IH. exact HI'.
Qed.

(* -- the first plugin that answers with a non-fatal error fails the request with that error *)
Lemma relay_veto T rq h l1 p l2 acc acc1 m :
  ro_result (relay T rq h l1 acc) = inl acc1 ->
  callable (ev_of rq) p = true -> oc T h p = Veto m ->
  let o := relay T rq h (l1 ++ p :: l2) acc in
  ro_result o = inr m /\ ro_invoked o = filter (callable (ev_of rq)) l1 ++ [p].
Proof.
  intros H1 Hc Hv. cbn zeta.
  destruct (relay_app _ _ _ ev_of apply T rq h l1 (p :: l2) acc acc1 H1) as [R1 [R2 _]].
  rewrite R1, R2, relay_call by exact Hc. rewrite Hv. cbn [ro_result ro_invoked].
  rewrite (relay_ok_invoked _ _ _ ev_of apply T rq h l1 acc acc1 H1). split; reflexivity.
Qed.

End Faults.

(* ================================================================== *)
(** * F. The table of fatal errors and the structure of the entry points *)

Lemma documented_fatal_all : forallb is_fatal documented_fatal = true.
Proof. vm_compute. reflexivity. Qed.

Lemma structure_holds : structure_ok = true.
Proof. vm_compute. reflexivity. Qed.

(* every error class a failing plugin was observed to produce at the relay functions is in
   isFatalError's table (evaluated on the table regenerated from plugin.go) *)
Lemma fault_gap_empty : fault_gap = [].
Proof. vm_compute. reflexivity. Qed.

Lemma fault_classes_all_fatal c : In c fault_error_classes -> is_fatal c = true.
Proof.
  intros H. destruct (is_fatal c) eqn:E; [reflexivity|exfalso].
  assert (G : In c fault_gap) by (unfold fault_gap; apply filter_In; split; [exact H|rewrite E; reflexivity]).
  rewrite fault_gap_empty in G. exact G.
Qed.

Lemma fatal_class_is_dropped (Rp : Type) c msg : is_fatal c = true -> classify (Rp:=Rp) (Failed c msg) = Fatal.
Proof. intros H. unfold classify. rewrite H. reflexivity. Qed.

Lemma nonfatal_class_vetoes (Rp : Type) c msg : is_fatal c = false -> classify (Rp:=Rp) (Failed c msg) = Veto msg.
Proof. intros H. unfold classify. rewrite H. reflexivity. Qed.

Lemma deadline_is_fatal : is_fatal "context.DeadlineExceeded" = true.
Proof. vm_compute. reflexivity. Qed.

(* no status a handler can produce by returning an error is in the table, and the table names
   nothing but the fault classes (both evaluated on the table regenerated from plugin.go) *)
Lemma handler_classes_not_fatal_b : forallb (fun c => negb (is_fatal c)) handler_error_classes = true.
Proof. vm_compute. reflexivity. Qed.

Lemma handler_class_not_fatal c : In c handler_error_classes -> is_fatal c = false.
Proof.
  intros H. pose proof handler_classes_not_fatal_b as B. rewrite forallb_forall in B.
  apply negb_true_iff. apply B. exact H.
Qed.

Lemma handler_class_vetoes (Rp : Type) c msg : In c handler_error_classes -> classify (Rp:=Rp) (Failed c msg) = Veto msg.
Proof. intros H. apply nonfatal_class_vetoes. apply handler_class_not_fatal. exact H. Qed.

Lemma fatal_table_exact_holds : fatal_table_exact = true.
Proof. vm_compute. reflexivity. Qed.

Lemma smem_In_local c l : smem c l = true -> In c l.
Proof. apply smem_In. Qed.

Lemma fatal_only_fault_classes c : is_fatal c = true -> In c fault_error_classes.
Proof.
  intros H. unfold is_fatal in H. apply smem_In_local in H.
  pose proof fatal_table_exact_holds as E. unfold fatal_table_exact in E. rewrite forallb_forall in E.
  apply smem_In_local. apply E. exact H.
Qed.

(* a call that lasts T or longer, or that fails with one of the fault classes, is Fatal *)
Lemma failing_call_is_fatal (Rp : Type) (T : N) (c : call Rp) :
  (c_in_write c = false /\ (T <= c_dur c)%N) \/
  (exists cls msg, c_res c = Failed cls msg /\ In cls fault_error_classes) ->
  classify (effective T c) = Fatal.
Proof.
  intros H. unfold effective. destruct (c_in_write c) eqn:W.
  - destruct H as [[H _]|[cls [msg [Hr Hc]]]]; [discriminate|].
    rewrite Hr. apply fatal_class_is_dropped. apply fault_classes_all_fatal. exact Hc.
  - destruct (N.leb T (c_dur c)) eqn:E.
    + apply fatal_class_is_dropped. exact deadline_is_fatal.
    + destruct H as [[_ H]|[cls [msg [Hr Hc]]]].
      * apply N.leb_le in H. congruence.
      * rewrite Hr. apply fatal_class_is_dropped. apply fault_classes_all_fatal. exact Hc.
Qed.

(* a call stuck in the write of its request is not cut at T: witness with three plugins, the
   second one stalled for 100000 time units under T = 100 (the request still ends with the
   others' contributions once the connection goes down) *)
Definition stall_witness_plugins : list plugin :=
  [ {| p_id := 1; p_idx := "10"; p_name := "A"; p_events := 8191; p_closed := false |};
    {| p_id := 2; p_idx := "20"; p_name := "B"; p_events := 8191; p_closed := false |};
    {| p_id := 3; p_idx := "30"; p_name := "C"; p_events := 8191; p_closed := false |} ].
Definition stall_witness_handler (p : plugin) : call string :=
  if N.eqb (p_id p) 2
  then {| c_res := Failed "ttrpc.ErrClosed" "ttrpc: closed"; c_dur := 100000; c_in_write := true |}
  else {| c_res := Reply (p_name p); c_dur := 1; c_in_write := false |}.

Lemma time_bound_refuted_for_stalled_reader :
  exists (T : N) (h : plugin -> call string) (ps : list plugin),
    let o := snd (run_request (fun rq : N * Z => snd rq) (fun _ => @nil string)
                    (fun acc _ tok => inl (acc ++ [tok])) (fun _ acc => acc) T (1%N, 4%Z) h ps) in
    (N.of_nat (length ps) * T < o_time o)%N /\ o_result o = inl ["A"; "C"] /\
    (exists p, In p ps /\ c_in_write (h p) = true).
Proof.
  exists 100%N, stall_witness_handler, stall_witness_plugins. cbn zeta. split; [vm_compute; reflexivity|].
  split; [vm_compute; reflexivity|].
  eexists. split; [right; left; reflexivity|reflexivity].
Qed.

(* ================================================================== *)
(** * G. Unsolicited updates *)

Lemma relay_update_exact {U} (us : list U) (cb : callback U) :
  relay_update us cb =
  (match cb us with (failed, None) => (failed, None) | (_, Some e) => ([], Some e) end, [us]).
Proof. unfold relay_update. destruct (cb us) as [failed [e|]]; reflexivity. Qed.

Lemma stub_update_started {U} (us : list U) (cb : callback U) :
  stub_update true us cb = relay_update us cb.
Proof. reflexivity. Qed.

Lemma stub_update_no_service {U} (us : list U) (cb : callback U) :
  stub_update false us cb = (([], Some err_no_service), []).
Proof. reflexivity. Qed.

(* ---------- the adaptation mutex *)

Lemma stub_update_has_no_deadline : stub_update_deadline = None.
Proof. vm_compute. reflexivity. Qed.

(* however long the call-back takes or waits for the adaptation mutex, a started stub returns what
   the relay returns *)
Lemma stub_update_any_duration {U} (us : list U) (cb : callback U) (dur : N) :
  stub_update_timed stub_update_deadline true us cb dur = relay_update us cb.
Proof. rewrite stub_update_has_no_deadline. reflexivity. Qed.

(* … whereas under a deadline d a call-back that takes d or longer loses its result *)
Lemma stub_update_deadline_loses_result {U} (us : list U) (cb : callback U) (d dur : N) :
  (d <= dur)%N -> stub_update_timed (Some d) true us cb dur = (([], Some "context deadline exceeded"), [us]).
Proof. intros H. unfold stub_update_timed. apply N.leb_le in H. rewrite H. reflexivity. Qed.

Definition mutex_inv (s : mstate) : Prop :=
  (forall a w, pcs s a = Running w -> holder s = Some a) /\
  (forall a, holder s = Some a -> exists w, pcs s a = Running w).

Lemma set_pc_same f a v : set_pc f a v a = v.
Proof. unfold set_pc. rewrite Nat.eqb_refl. reflexivity. Qed.

Lemma set_pc_other f a v b : b <> a -> set_pc f a v b = f b.
Proof. unfold set_pc. intros H. apply Nat.eqb_neq in H. rewrite H. reflexivity. Qed.

Lemma mutex_inv_init : mutex_inv minit.
Proof. split; cbn; intros; discriminate. Qed.

Lemma mutex_inv_step s a s' : mstep s a s' -> mutex_inv s -> mutex_inv s'.
Proof.
  intros St [I1 I2]. destruct St as [s a w Hp|s a w Hp Hh|s a w Hp|s a w Hp]; cbn.
  - split; cbn.
    + intros b w' H. destruct (Nat.eq_dec b a) as [->|Hne]; [rewrite set_pc_same in H; discriminate|].
      rewrite set_pc_other in H by exact Hne. eapply I1; eauto.
    + intros b H. destruct (I2 b H) as [w' Hw]. exists w'.
      destruct (Nat.eq_dec b a) as [->|Hne]; [congruence|]. rewrite set_pc_other by exact Hne. exact Hw.
  - split; cbn.
    + intros b w' H. destruct (Nat.eq_dec b a) as [->|Hne]; [reflexivity|].
      rewrite set_pc_other in H by exact Hne. specialize (I1 b w' H). congruence.
    + intros b H. injection H as <-. exists w. apply set_pc_same.
  - split; assumption.
  - split; cbn.
    + intros b w' H. destruct (Nat.eq_dec b a) as [->|Hne]; [rewrite set_pc_same in H; discriminate|].
      rewrite set_pc_other in H by exact Hne. pose proof (I1 b w' H) as E1. pose proof (I1 a w Hp) as E2. congruence.
    + intros b H. discriminate.
Qed.

Lemma mutex_inv_reach s : mreach s -> mutex_inv s.
Proof. induction 1; [apply mutex_inv_init|eapply mutex_inv_step; eauto]. Qed.

(* no reachable state has two actors inside the adaptation: a call-back never runs
   together with a request or with another call-back (nor two requests together) *)
Lemma mutual_exclusion s : mreach s ->
  forall a b wa wb, pcs s a = Running wa -> pcs s b = Running wb -> a = b.
Proof.
  intros Hr a b wa wb Ha Hb. destruct (mutex_inv_reach s Hr) as [I1 _].
  pose proof (I1 a wa Ha) as Ea. pose proof (I1 b wb Hb) as Eb. congruence.
Qed.

(* every step of a request's loop and every step of a call-back is taken by the holder of the mutex *)
Lemma work_holds_mutex s a s' : mreach s -> mstep s (MWork a) s' -> holder s = Some a.
Proof.
  intros Hr St. destruct (mutex_inv_reach s Hr) as [I1 _]. inversion St; subst. eapply I1; eauto.
Qed.

(* the schedule a run of the LTS leaves behind passes the executable overlap check *)
Inductive mrun : mstate -> list maction -> mstate -> Prop :=
| mrun_nil s : mrun s [] s
| mrun_cons s a s1 l s2 : mstep s a s1 -> mrun s1 l s2 -> mrun s (a :: l) s2.

(* marks of a run: acquiring starts the actor's work, leaving ends it *)
Fixpoint marks_of (s : mstate) (l : list maction) : list mark :=
  match l with
  | [] => []
  | MAcquire a :: r =>
      match pcs s a with
      | Waiting w => MBegin w :: marks_of {| holder := Some a; pcs := set_pc (pcs s) a (Running w) |} r
      | _ => marks_of s r
      end
  | MLeave a :: r =>
      match pcs s a with
      | Running w => MEnd w :: marks_of {| holder := None; pcs := set_pc (pcs s) a Idle |} r
      | _ => marks_of s r
      end
  | MEnter a w :: r => marks_of {| holder := holder s; pcs := set_pc (pcs s) a (Waiting w) |} r
  | MWork _ :: r => marks_of s r
  end.

Definition counts_ok (s : mstate) (ncb nh : nat) : Prop :=
  match holder s with
  | None => ncb = 0%nat /\ nh = 0%nat
  | Some a => (pcs s a = Running WCallback /\ ncb = 1%nat /\ nh = 0%nat) \/
              (pcs s a = Running WRequest /\ ncb = 0%nat /\ nh = 1%nat)
  end.

Lemma lts_schedules_pass s l s' : mrun s l s' -> forall ncb nh,
  mutex_inv s -> counts_ok s ncb nh -> no_overlap (marks_of s l) ncb nh = true.
Proof.
  induction 1 as [s|s a s1 l s2 St _ IH]; intros ncb nh HI HC; [reflexivity|].
  pose proof (mutex_inv_step _ _ _ St HI) as HI1.
  destruct St as [s a w Hp|s a w Hp Hh|s a w Hp|s a w Hp]; cbn [marks_of].
  - apply IH; [exact HI1|]. unfold counts_ok in *. cbn [holder pcs].
    destruct (holder s) as [b|] eqn:Hb; [|exact HC].
    assert (b <> a). { intros ->. destruct HI as [_ I2]. destruct (I2 a Hb) as [w' Hw]. congruence. }
    rewrite set_pc_other by assumption. exact HC.
  - rewrite Hp. unfold counts_ok in HC. rewrite Hh in HC. destruct HC as [-> ->].
    destruct w; cbn [no_overlap Nat.eqb andb]; apply IH; try exact HI1;
      unfold counts_ok; cbn [holder pcs]; rewrite set_pc_same; [right|left]; auto.
  - apply IH; assumption.
  - rewrite Hp. destruct HI as [I1 I2]. pose proof (I1 a w Hp) as Hh. unfold counts_ok in HC. rewrite Hh in HC.
    destruct HC as [[Hw [-> ->]]|[Hw [-> ->]]]; rewrite Hp in Hw; injection Hw as ->; cbn [no_overlap pred];
      apply IH; try exact HI1; unfold counts_ok; cbn [holder]; auto.
Qed.

Lemma lts_schedules_pass_init l s' : mrun minit l s' -> no_overlap (marks_of minit l) 0 0 = true.
Proof. intros H. eapply lts_schedules_pass; eauto; [apply mutex_inv_init|]. unfold counts_ok. cbn. auto. Qed.


(* ================================================================== *)
(** * H. The statements of C06, C07 and C19 *)

Lemma ple_numeric p q : In (p_idx p) all_indices -> In (p_idx q) all_indices ->
  ple p q -> (index_num (p_idx p) <= index_num (p_idx q))%Z.
Proof.
  intros Hp Hq H. unfold ple, plugin_leb, str_leb in H. apply negb_true_iff in H.
  destruct (Z.le_gt_cases (index_num (p_idx p)) (index_num (p_idx q))) as [L|G]; [exact L|].
  exfalso. assert (str_ltb (p_idx q) (p_idx p) = true) by (apply index_order_is_numeric; auto; lia). congruence.
Qed.

Section Statements.
Variables Rq Rp Acc Res : Type.
Variable ev_of : Rq -> Z.
Variable init : Rq -> Acc.
Variable apply : Acc -> plugin -> Rp -> Acc + string.
Variable finish : Rq -> Acc -> Res.

Notation run_request := (run_request ev_of init apply finish).
Notation Run := (Run Rq Rp Acc Res ev_of init apply finish).
Notation oc := (oc Rp).

Lemma filter_ext_in_local {A} (f g : A -> bool) l : (forall x, In x l -> f x = g x) -> filter f l = filter g l.
Proof.
  induction l as [|x r IH]; intros H; [reflexivity|]. cbn [filter]. rewrite (H x (or_introl eq_refl)).
  rewrite IH; [reflexivity|]. intros y Hy. apply H. right. exact Hy.
Qed.

(* C06: exactly the subscribed plugins, each once, in index order *)
Lemma exactly_subscribed_in_order T rq h ps :
  Sorted ple ps -> NoDup (ids ps) -> (forall p, In p ps -> p_closed p = false) ->
  let o := snd (run_request T rq h ps) in
  (forall r, o_result o = inl r -> o_invoked o = filter (subscribed (ev_of rq)) ps) /\
  NoDup (ids (o_invoked o)) /\
  StronglySorted ple (o_invoked o) /\
  (forall i j d, (i < j < length (o_invoked o))%nat ->
     ple (nth i (o_invoked o) d) (nth j (o_invoked o) d)) /\
  (forall p, In p (o_invoked o) -> subscribed (ev_of rq) p = true).
Proof.
  intros Hs Hn Hc. cbn zeta.
  assert (HI : Inv ps) by (split; [apply Sorted_strongly; exact Hs|exact Hn]).
  destruct (request_observation _ _ _ _ ev_of init apply finish T rq h ps HI) as [A [B [[n C] _]]].
  split; [|split; [exact B|split; [exact A|split; [apply strongly_sorted_nth; exact A|]]]].
  - intros r Hr. unfold Dispatch.run_request in *. cbn [snd o_result o_invoked] in *.
    destruct (ro_result (relay ev_of apply T rq h ps (init rq))) as [a|e] eqn:E; [|discriminate Hr].
    rewrite (relay_ok_invoked _ _ _ ev_of apply T rq h ps (init rq) a E).
    apply filter_ext_in_local. intros p Hp. unfold callable. rewrite (Hc p Hp). apply andb_true_r.
  - intros p Hp. rewrite C in Hp. apply In_firstn_local in Hp. apply filter_In in Hp. destruct Hp as [_ Hp].
    apply callable_split in Hp. tauto.
Qed.

(* C06: whatever happens, the plugins called are a prefix of the subscribed, connected plugins *)
Lemma veto_prefix T rq h ps :
  let o := snd (run_request T rq h ps) in
  exists n, o_invoked o = firstn n (filter (callable (ev_of rq)) ps) /\
            (forall r, o_result o = inl r -> o_invoked o = filter (callable (ev_of rq)) ps).
Proof.
  cbn zeta. unfold Dispatch.run_request. cbn [snd o_invoked o_result].
  destruct (relay_invoked_prefix _ _ _ ev_of apply T rq h ps (init rq)) as [n Hn]. exists n. split; [exact Hn|].
  intros r Hr. destruct (ro_result (relay ev_of apply T rq h ps (init rq))) as [a|e] eqn:E; [|discriminate Hr].
  eapply relay_ok_invoked; eauto.
Qed.

(* C06: one common order; each plugin's view is a sub-sequence of the one sequence of requests *)
Lemma common_order T ps s ps' os : Run T ps s ps' os -> Inv ps ->
  (forall id, trace id (log_of os) = map o_rq (filter (was_invoked id) os)) /\
  (NoDup (map o_rq os) ->
   forall p q a b, before a b (trace p (log_of os)) ->
                   In a (trace q (log_of os)) -> In b (trace q (log_of os)) ->
                   before a b (trace q (log_of os))) /\
  (forall o, In o os -> StronglySorted ple (o_invoked o) /\ NoDup (ids (o_invoked o))).
Proof.
  intros HR HI. destruct (run_observations _ _ _ _ ev_of init apply finish T ps s ps' os HR HI) as [_ Hos].
  assert (Htr : forall id, trace id (log_of os) = map o_rq (filter (was_invoked id) os)).
  { intros id. apply trace_is_filter. intros o Ho. apply Hos. exact Ho. }
  split; [exact Htr|]. split; [|exact Hos].
  intros Hnd p q a b. rewrite (Htr p), (Htr q). apply filters_agree. exact Hnd.
Qed.

(* C06: the result a caller gets is a function of its own request and the exchanges of that request *)
Lemma observation_form T ps s ps' os : Run T ps s ps' os ->
  forall o, In o os -> exists ps1 h, In (ARequest (o_rq o) h) s /\ o = snd (run_request T (o_rq o) h ps1).
Proof.
  induction 1 as [ps|ps a ps1 o1 s ps2 o2 St _ IH]; intros o Ho; [contradiction|].
  apply in_app_iff in Ho. destruct Ho as [Ho|Ho].
  - destruct St as [ps rq h| |]; try contradiction. destruct Ho as [<-|[]].
    exists ps, h. split; [left; reflexivity|reflexivity].
  - destruct (IH o Ho) as [ps3 [h [H1 H2]]]. exists ps3, h. split; [right; exact H1|exact H2].
Qed.

Lemma isolation T ps s ps' os : Run T ps s ps' os ->
  forall o, In o os -> exists ps1 h, In (ARequest (o_rq o) h) s /\
    o_result o = result_of init apply finish (o_rq o) (exchanges ev_of apply T (o_rq o) h ps1 (init (o_rq o))) /\
    o_invoked o = map fst (exchanges ev_of apply T (o_rq o) h ps1 (init (o_rq o))).
Proof.
  intros HR o Ho. destruct (observation_form T ps s ps' os HR o Ho) as [ps1 [h [H1 H2]]].
  exists ps1, h. split; [exact H1|].
  assert (R1 : o_result o = o_result (snd (run_request T (o_rq o) h ps1))) by (rewrite <- H2; reflexivity).
  assert (R2 : o_invoked o = o_invoked (snd (run_request T (o_rq o) h ps1))) by (rewrite <- H2; reflexivity).
  rewrite R1, R2. unfold Dispatch.run_request. cbn [snd o_result o_invoked].
  destruct (relay_exchanges _ _ _ ev_of apply T (o_rq o) h ps1 (init (o_rq o))) as [E1 E2].
  unfold result_of. rewrite E1, E2. split; reflexivity.
Qed.

(* C07: plugins whose calls end fatally leave the request as if they had not been there *)
Lemma fatal_is_absent T rq h (I : plugin -> bool) ps :
  (forall p, In p ps -> I p = true -> callable (ev_of rq) p = true -> oc T h p = Fatal) ->
  let o := snd (run_request T rq h ps) in
  let o' := snd (run_request T rq h (filter (fun p => negb (I p)) ps)) in
  o_result o = o_result o' /\ filter (fun p => negb (I p)) (o_invoked o) = o_invoked o'.
Proof.
  intros HI. cbn zeta. unfold Dispatch.run_request. cbn [snd o_result o_invoked].
  destruct (relay_without_fatal _ _ _ ev_of apply T rq h I ps (init rq) HI) as [E1 E2].
  rewrite E1, E2. split; reflexivity.
Qed.

(* C07: plugins that hang past the time-out or whose calls fail with a fault class are absent *)
Lemma failing_is_absent T rq h (I : plugin -> bool) ps :
  (forall p, In p ps -> I p = true ->
     (c_in_write (h p) = false /\ (T <= c_dur (h p))%N) \/
     (exists cls msg, c_res (h p) = Failed cls msg /\ In cls fault_error_classes)) ->
  let o := snd (run_request T rq h ps) in
  let o' := snd (run_request T rq h (filter (fun p => negb (I p)) ps)) in
  o_result o = o_result o' /\ filter (fun p => negb (I p)) (o_invoked o) = o_invoked o'.
Proof.
  intros HI. apply fatal_is_absent. intros p Hp Ip _. unfold oc, DispatchProofs.oc.
  apply failing_call_is_fatal. apply HI; assumption.
Qed.

(* C07: … they are pruned when the request returns and never called in any later request *)
Lemma fatal_never_called_again T ps rq h s ps' os : Run T ps (ARequest rq h :: s) ps' os -> Inv ps ->
  forall q, In q (o_invoked (snd (run_request T rq h ps))) -> oc T h q = Fatal ->
  ~ In (p_id q) (ids (fst (run_request T rq h ps))) /\
  ((forall p, In (ARegister p) s -> p_id p <> p_id q) ->
   exists o1 os2, os = o1 :: os2 /\ o1 = snd (run_request T rq h ps) /\
                  forall o, In o os2 -> was_invoked (p_id q) o = false).
Proof.
  intros HR [_ Hn] q Hq Hf.
  pose proof (fatal_dropped _ _ _ _ ev_of init apply finish T rq h ps q Hn Hq Hf) as Hd.
  split; [exact Hd|]. intros Hreg. inversion HR as [|? ? ps1 o1 ? ? o2 St HR2]; subst.
  inversion St; subst. exists (snd (run_request T rq h ps)), o2. split; [reflexivity|]. split; [reflexivity|].
  eapply absent_never_called; eauto.
Qed.

(* C07: the first non-fatal error fails the request with that error *)
Lemma veto T rq h l1 p l2 acc1 m :
  ro_result (relay ev_of apply T rq h l1 (init rq)) = inl acc1 ->
  callable (ev_of rq) p = true -> oc T h p = Veto m ->
  let o := snd (run_request T rq h (l1 ++ p :: l2)) in
  o_result o = inr m /\ o_invoked o = filter (callable (ev_of rq)) l1 ++ [p] /\
  (forall q, In q l2 -> ~ In (p_id q) (ids (l1 ++ [p])) -> was_invoked (p_id q) o = false).
Proof.
  intros H1 Hc Hv. cbn zeta. unfold Dispatch.run_request. cbn [snd o_result o_invoked].
  destruct (relay_veto _ _ _ ev_of apply T rq h l1 p l2 (init rq) acc1 m H1 Hc Hv) as [E1 E2].
  rewrite E1. split; [reflexivity|]. split; [exact E2|].
  intros q Hq Hnot. unfold was_invoked. cbn [o_invoked]. rewrite E2.
  destruct (existsb _ _) eqn:Ex; [|reflexivity]. exfalso. apply existsb_exists in Ex.
  destruct Ex as [x [Hx Ex]]. apply N.eqb_eq in Ex. apply Hnot. rewrite <- Ex. unfold ids. apply in_map.
  apply in_app_iff in Hx. apply in_app_iff. destruct Hx as [Hx|Hx]; [left|right; exact Hx].
  apply filter_In in Hx. tauto.
Qed.

(* C07: a request takes at most (number of plugins called) x T <= (number of plugins) x T *)
Lemma time_bound T rq h ps :
  (forall p, In p ps -> c_in_write (h p) = false) ->
  let o := snd (run_request T rq h ps) in
  (o_time o <= N.of_nat (length (o_invoked o)) * T)%N /\ (o_time o <= N.of_nat (length ps) * T)%N.
Proof.
  intros Hw. cbn zeta. unfold Dispatch.run_request. cbn [snd o_time o_invoked].
  destruct (relay_time _ _ _ ev_of apply T rq h ps Hw (init rq)) as [H1 H2]. split; [exact H1|].
  eapply N.le_trans; [exact H1|]. apply N.mul_le_mono_r. lia.
Qed.

End Statements.

Arguments Step {Rq Rp Acc Res}. Arguments Run {Rq Rp Acc Res}.
Arguments fresh_registrations {Rq Rp}. Arguments oc {Rp}.
