package main

// Fallback of the translator: when the SHAPE of setupHandlers / StateChange / a request method is not one it
// reads, the table is obtained by RUNNING the stub this translator is linked against (the harness module
// replaces github.com/containerd/nri by the tree under check, so it is the same source):
//
//   - for each of the thirteen handler interfaces a probe plugin type implementing exactly that interface (and
//     one implementing all of them) is handed to stub.New; the stub is started against a minimal runtime end
//     (unix socket + multiplex + ttrpc) and the subscription it reports for Configure is the row's event bits;
//   - every event number 0..Event_LAST+1 and 99 is delivered through the stub's StateChange method, every
//     request through its own method, with recognisable pod / container / resource values and scripted
//     results; which plugin method ran with which arguments, and what came back, are the dispatch tables.
//
// Only the exported API of pkg/stub is used, so nothing depends on how the code is spelled.  A probe that
// fails, times out, or disagrees with itself (the all-handlers plugin against the single-handler ones) is
// fatal: the translator exits non-zero and the tie stays broken.  Nothing is defaulted.

import (
	"context"
	"errors"
	"fmt"
	"io"
	"net"
	"os"
	"path/filepath"
	"sort"
	"strings"
	"sync"
	"time"

	"github.com/containerd/nri/pkg/api"
	"github.com/containerd/nri/pkg/net/multiplex"
	"github.com/containerd/nri/pkg/stub"
	"github.com/containerd/ttrpc"
	"github.com/sirupsen/logrus"
)

// ---- probe plugins ---------------------------------------------------------------------------

type probeCall struct {
	method string
	args   []string
}

type probeRec struct {
	mu    sync.Mutex
	calls []probeCall
	fail  bool
}

func (r *probeRec) hit(method string, args ...string) error {
	r.mu.Lock()
	defer r.mu.Unlock()
	r.calls = append(r.calls, probeCall{method, args})
	if r.fail {
		return errors.New("PROBE-ERR")
	}
	return nil
}

func (r *probeRec) take() []probeCall {
	r.mu.Lock()
	defer r.mu.Unlock()
	c := r.calls
	r.calls = nil
	return c
}

func argPod(p *api.PodSandbox) string {
	switch {
	case p == nil:
		return "?nil"
	case p.Id == "PROBE-POD":
		return "Pod"
	}
	return "?" + p.Id
}

func argCtr(c *api.Container) string {
	switch {
	case c == nil:
		return "?nil"
	case c.Id == "PROBE-CTR":
		return "Container"
	}
	return "?" + c.Id
}

func argRes(r *api.LinuxResources) string {
	if r == nil {
		return "?nil"
	}
	switch r.Unified["tok"] {
	case "PROBE-RES":
		return "LinuxResources"
	case "PROBE-OVH":
		return "OverheadLinuxResources"
	}
	return "?res"
}

func probeAdjust() *api.ContainerAdjustment {
	return &api.ContainerAdjustment{Annotations: map[string]string{"tok": "PROBE-ADJ"}}
}
func probeUpdates() []*api.ContainerUpdate { return []*api.ContainerUpdate{{ContainerId: "PROBE-UPD"}} }

type qRunPod struct{ r *probeRec }

func (q qRunPod) RunPodSandbox(_ context.Context, p *api.PodSandbox) error {
	return q.r.hit("RunPodSandbox", argPod(p))
}

type qUpdatePod struct{ r *probeRec }

func (q qUpdatePod) UpdatePodSandbox(_ context.Context, p *api.PodSandbox, o, res *api.LinuxResources) error {
	return q.r.hit("UpdatePodSandbox", argPod(p), argRes(o), argRes(res))
}

type qStopPod struct{ r *probeRec }

func (q qStopPod) StopPodSandbox(_ context.Context, p *api.PodSandbox) error {
	return q.r.hit("StopPodSandbox", argPod(p))
}

type qRemovePod struct{ r *probeRec }

func (q qRemovePod) RemovePodSandbox(_ context.Context, p *api.PodSandbox) error {
	return q.r.hit("RemovePodSandbox", argPod(p))
}

type qPostUpdatePod struct{ r *probeRec }

func (q qPostUpdatePod) PostUpdatePodSandbox(_ context.Context, p *api.PodSandbox) error {
	return q.r.hit("PostUpdatePodSandbox", argPod(p))
}

type qCreate struct{ r *probeRec }

func (q qCreate) CreateContainer(_ context.Context, p *api.PodSandbox, c *api.Container) (*api.ContainerAdjustment, []*api.ContainerUpdate, error) {
	return probeAdjust(), probeUpdates(), q.r.hit("CreateContainer", argPod(p), argCtr(c))
}

type qStart struct{ r *probeRec }

func (q qStart) StartContainer(_ context.Context, p *api.PodSandbox, c *api.Container) error {
	return q.r.hit("StartContainer", argPod(p), argCtr(c))
}

type qUpdate struct{ r *probeRec }

func (q qUpdate) UpdateContainer(_ context.Context, p *api.PodSandbox, c *api.Container, res *api.LinuxResources) ([]*api.ContainerUpdate, error) {
	return probeUpdates(), q.r.hit("UpdateContainer", argPod(p), argCtr(c), argRes(res))
}

type qStop struct{ r *probeRec }

func (q qStop) StopContainer(_ context.Context, p *api.PodSandbox, c *api.Container) ([]*api.ContainerUpdate, error) {
	return probeUpdates(), q.r.hit("StopContainer", argPod(p), argCtr(c))
}

type qRemove struct{ r *probeRec }

func (q qRemove) RemoveContainer(_ context.Context, p *api.PodSandbox, c *api.Container) error {
	return q.r.hit("RemoveContainer", argPod(p), argCtr(c))
}

type qPostCreate struct{ r *probeRec }

func (q qPostCreate) PostCreateContainer(_ context.Context, p *api.PodSandbox, c *api.Container) error {
	return q.r.hit("PostCreateContainer", argPod(p), argCtr(c))
}

type qPostStart struct{ r *probeRec }

func (q qPostStart) PostStartContainer(_ context.Context, p *api.PodSandbox, c *api.Container) error {
	return q.r.hit("PostStartContainer", argPod(p), argCtr(c))
}

type qPostUpdate struct{ r *probeRec }

func (q qPostUpdate) PostUpdateContainer(_ context.Context, p *api.PodSandbox, c *api.Container) error {
	return q.r.hit("PostUpdateContainer", argPod(p), argCtr(c))
}

type qAll struct {
	qRunPod
	qUpdatePod
	qStopPod
	qRemovePod
	qPostUpdatePod
	qCreate
	qStart
	qUpdate
	qStop
	qRemove
	qPostCreate
	qPostStart
	qPostUpdate
}

// the thirteen handlers in the order of Model.Stub.hindex: interface name, method name, a plugin implementing only it.
var probeHandlers = []struct {
	iface, method string
	mk            func(*probeRec) interface{}
}{
	{"RunPodInterface", "RunPodSandbox", func(r *probeRec) interface{} { return qRunPod{r} }},
	{"UpdatePodInterface", "UpdatePodSandbox", func(r *probeRec) interface{} { return qUpdatePod{r} }},
	{"StopPodInterface", "StopPodSandbox", func(r *probeRec) interface{} { return qStopPod{r} }},
	{"RemovePodInterface", "RemovePodSandbox", func(r *probeRec) interface{} { return qRemovePod{r} }},
	{"PostUpdatePodInterface", "PostUpdatePodSandbox", func(r *probeRec) interface{} { return qPostUpdatePod{r} }},
	{"CreateContainerInterface", "CreateContainer", func(r *probeRec) interface{} { return qCreate{r} }},
	{"StartContainerInterface", "StartContainer", func(r *probeRec) interface{} { return qStart{r} }},
	{"UpdateContainerInterface", "UpdateContainer", func(r *probeRec) interface{} { return qUpdate{r} }},
	{"StopContainerInterface", "StopContainer", func(r *probeRec) interface{} { return qStop{r} }},
	{"RemoveContainerInterface", "RemoveContainer", func(r *probeRec) interface{} { return qRemove{r} }},
	{"PostCreateContainerInterface", "PostCreateContainer", func(r *probeRec) interface{} { return qPostCreate{r} }},
	{"PostStartContainerInterface", "PostStartContainer", func(r *probeRec) interface{} { return qPostStart{r} }},
	{"PostUpdateContainerInterface", "PostUpdateContainer", func(r *probeRec) interface{} { return qPostUpdate{r} }},
}

// the interfaces of pkg/stub are what the names above stand for (checked by the compiler)
var (
	_ stub.RunPodInterface              = qRunPod{}
	_ stub.UpdatePodInterface           = qUpdatePod{}
	_ stub.StopPodInterface             = qStopPod{}
	_ stub.RemovePodInterface           = qRemovePod{}
	_ stub.PostUpdatePodInterface       = qPostUpdatePod{}
	_ stub.CreateContainerInterface     = qCreate{}
	_ stub.StartContainerInterface      = qStart{}
	_ stub.UpdateContainerInterface     = qUpdate{}
	_ stub.StopContainerInterface       = qStop{}
	_ stub.RemoveContainerInterface     = qRemove{}
	_ stub.PostCreateContainerInterface = qPostCreate{}
	_ stub.PostStartContainerInterface  = qPostStart{}
	_ stub.PostUpdateContainerInterface = qPostUpdate{}
)

func mkAll(r *probeRec) interface{} {
	return qAll{qRunPod{r}, qUpdatePod{r}, qStopPod{r}, qRemovePod{r}, qPostUpdatePod{r}, qCreate{r}, qStart{r},
		qUpdate{r}, qStop{r}, qRemove{r}, qPostCreate{r}, qPostStart{r}, qPostUpdate{r}}
}

// ---- a minimal runtime end: accept, register, Configure ----------------------------------------

type probeRuntime struct {
	dir        string
	l          net.Listener
	registered chan struct{}
}

func (p *probeRuntime) RegisterPlugin(context.Context, *api.RegisterPluginRequest) (*api.Empty, error) {
	select {
	case p.registered <- struct{}{}:
	default:
	}
	return &api.Empty{}, nil
}

func (p *probeRuntime) UpdateContainers(context.Context, *api.UpdateContainersRequest) (*api.UpdateContainersResponse, error) {
	return &api.UpdateContainersResponse{}, nil
}

func newProbeRuntime() (*probeRuntime, error) {
	dir, err := os.MkdirTemp("", "gen_stubconsts_")
	if err != nil {
		return nil, err
	}
	l, err := net.Listen("unix", filepath.Join(dir, "nri.sock"))
	if err != nil {
		os.RemoveAll(dir)
		return nil, err
	}
	return &probeRuntime{dir: dir, l: l, registered: make(chan struct{}, 1)}, nil
}

func (p *probeRuntime) close() {
	p.l.Close()
	os.RemoveAll(p.dir)
}

// subscription starts a stub for the plugin against the runtime end and returns the event mask it answers
// Configure with (the plugin has no Configure hook: the stub's own mask of implemented events).
func (p *probeRuntime) subscription(plugin interface{}) (int32, error) {
	st, err := stub.New(plugin, stub.WithPluginName("probe"), stub.WithPluginIdx("00"),
		stub.WithSocketPath(filepath.Join(p.dir, "nri.sock")), stub.WithOnClose(func() {}))
	if err != nil {
		return 0, fmt.Errorf("stub.New: %w", err)
	}
	startErr := make(chan error, 1)
	go func() { startErr <- st.Start(context.Background()) }()
	type accepted struct {
		c   net.Conn
		err error
	}
	ac := make(chan accepted, 1)
	go func() { c, err := p.l.Accept(); ac <- accepted{c, err} }()
	var conn net.Conn
	select {
	case a := <-ac:
		if a.err != nil {
			return 0, a.err
		}
		conn = a.c
	case err := <-startErr:
		return 0, fmt.Errorf("Start returned before connecting: %v", err)
	case <-time.After(10 * time.Second):
		return 0, errors.New("the stub did not connect")
	}
	mux := multiplex.Multiplex(conn, multiplex.WithBlockedRead())
	defer mux.Close()
	pconn, err := mux.Open(multiplex.PluginServiceConn)
	if err != nil {
		return 0, err
	}
	rpcc := ttrpc.NewClient(pconn)
	defer rpcc.Close()
	rpcs, err := ttrpc.NewServer()
	if err != nil {
		return 0, err
	}
	defer rpcs.Close()
	rl, err := mux.Listen(multiplex.RuntimeServiceConn)
	if err != nil {
		return 0, err
	}
	api.RegisterRuntimeService(rpcs, p)
	go rpcs.Serve(context.Background(), rl)
	mux.Unblock()
	select {
	case <-p.registered:
	case <-time.After(10 * time.Second):
		return 0, errors.New("the stub did not register")
	}
	ctx, cancel := context.WithTimeout(context.Background(), 10*time.Second)
	defer cancel()
	rpl, err := api.NewPluginClient(rpcc).Configure(ctx, &api.ConfigureRequest{Config: "", RuntimeName: "probe", RuntimeVersion: "v0",
		RegistrationTimeout: 5000, RequestTimeout: 2000})
	if err != nil {
		return 0, fmt.Errorf("Configure: %w", err)
	}
	select {
	case err := <-startErr:
		if err != nil {
			return 0, fmt.Errorf("Start: %w", err)
		}
	case <-time.After(10 * time.Second):
		return 0, errors.New("Start did not return after Configure was answered")
	}
	stopped := make(chan struct{})
	go func() { st.Stop(); close(stopped) }()
	select {
	case <-stopped:
	case <-time.After(10 * time.Second):
		return 0, errors.New("Stop did not return")
	}
	return rpl.GetEvents(), nil
}

// ---- the tables ---------------------------------------------------------------------------------

type probedTables struct {
	setup []setupRow
	sc    map[int64][]probeCall
	rpc   map[string]probedRPC
}

type probedRPC struct {
	field string
	args  []string
	resp  []string
}

func bitsOf(mask int32) []int64 {
	var out []int64
	for b := 0; b < 31; b++ {
		if mask&(1<<uint(b)) != 0 {
			out = append(out, int64(b+1))
		}
	}
	return out
}

func callsKey(cs []probeCall) string {
	var parts []string
	for _, c := range cs {
		parts = append(parts, c.method+"("+strings.Join(c.args, ",")+")")
	}
	return strings.Join(parts, ";")
}

// service: the stub's plugin service, to call its request / event methods directly (no connection needed)
func serviceOf(plugin interface{}) (api.PluginService, error) {
	st, err := stub.New(plugin, stub.WithPluginName("probe"), stub.WithPluginIdx("00"), stub.WithOnClose(func() {}))
	if err != nil {
		return nil, err
	}
	svc, ok := st.(api.PluginService)
	if !ok {
		return nil, errors.New("the stub does not implement api.PluginService")
	}
	return svc, nil
}

func probePod() *api.PodSandbox { return &api.PodSandbox{Id: "PROBE-POD"} }
func probeCtr() *api.Container  { return &api.Container{Id: "PROBE-CTR"} }
func probeRes(t string) *api.LinuxResources {
	return &api.LinuxResources{Unified: map[string]string{"tok": t}}
}

var probeRPCs = []string{"CreateContainer", "UpdateContainer", "StopContainer", "UpdatePodSandbox"}

// callRPC delivers one request and returns what came back as the response-field list of rpc_table.
func callRPC(svc api.PluginService, name string) (adjust, update string, err error) {
	ctx := context.Background()
	switch name {
	case "CreateContainer":
		r, e := svc.CreateContainer(ctx, &api.CreateContainerRequest{Pod: probePod(), Container: probeCtr()})
		err = e
		if r != nil {
			adjust = r.GetAdjust().GetAnnotations()["tok"]
			for _, u := range r.GetUpdate() {
				update += u.GetContainerId() + ";"
			}
		}
	case "UpdateContainer":
		r, e := svc.UpdateContainer(ctx, &api.UpdateContainerRequest{Pod: probePod(), Container: probeCtr(), LinuxResources: probeRes("PROBE-RES")})
		err = e
		for _, u := range r.GetUpdate() {
			update += u.GetContainerId() + ";"
		}
	case "StopContainer":
		r, e := svc.StopContainer(ctx, &api.StopContainerRequest{Pod: probePod(), Container: probeCtr()})
		err = e
		for _, u := range r.GetUpdate() {
			update += u.GetContainerId() + ";"
		}
	case "UpdatePodSandbox":
		_, err = svc.UpdatePodSandbox(ctx, &api.UpdatePodSandboxRequest{Pod: probePod(),
			OverheadLinuxResources: probeRes("PROBE-OVH"), LinuxResources: probeRes("PROBE-RES")})
	}
	return adjust, update, err
}

// probeTables runs the probes.  Any inconsistency is an error.
func probeTables() (*probedTables, error) {
	logrus.SetOutput(io.Discard) // the stub logs every session
	t := &probedTables{sc: map[int64][]probeCall{}, rpc: map[string]probedRPC{}}
	events := []int64{99}
	for e := int64(0); e <= int64(api.Event_LAST)+1; e++ {
		events = append(events, e)
	}
	sort.Slice(events, func(i, j int) bool { return events[i] < events[j] })

	// (1) subscription masks through a real session
	rt, err := newProbeRuntime()
	if err != nil {
		return nil, err
	}
	defer rt.close()
	var union int32
	for _, h := range probeHandlers {
		mask, err := rt.subscription(h.mk(&probeRec{}))
		if err != nil {
			return nil, fmt.Errorf("plugin implementing only %s: %w", h.iface, err)
		}
		union |= mask
		t.setup = append(t.setup, setupRow{iface: h.iface, field: h.method, method: h.method, events: bitsOf(mask)})
	}
	all, err := rt.subscription(mkAll(&probeRec{}))
	if err != nil {
		return nil, fmt.Errorf("plugin implementing all handlers: %w", err)
	}
	if all != union {
		return nil, fmt.Errorf("the subscription of the all-handlers plugin (%#x) is not the union of the single-handler ones (%#x)", all, union)
	}

	// (2) dispatch with the all-handlers plugin, through the stub's service methods
	rec := &probeRec{}
	svc, err := serviceOf(mkAll(rec))
	if err != nil {
		return nil, err
	}
	deliverSC := func(svc api.PluginService, rec *probeRec, e int64) ([]probeCall, error) {
		rec.take()
		_, err := svc.StateChange(context.Background(), &api.StateChangeEvent{Event: api.Event(e), Pod: probePod(), Container: probeCtr()})
		if err != nil {
			return nil, fmt.Errorf("StateChange(event %d) failed although no handler fails: %v", e, err)
		}
		return rec.take(), nil
	}
	for _, e := range events {
		calls, err := deliverSC(svc, rec, e)
		if err != nil {
			return nil, err
		}
		for _, c := range calls {
			for _, a := range c.args {
				if strings.HasPrefix(a, "?") {
					return nil, fmt.Errorf("StateChange(event %d): %s was handed an argument that is not a field of the message (%s)", e, c.method, a)
				}
			}
		}
		if len(calls) > 0 {
			t.sc[e] = calls
		}
		// a failing handler's error must come back (the model relays the last error)
		if len(calls) == 1 {
			rec.fail = true
			rec.take()
			_, err := svc.StateChange(context.Background(), &api.StateChangeEvent{Event: api.Event(e), Pod: probePod(), Container: probeCtr()})
			rec.fail = false
			rec.take()
			if err == nil || err.Error() != "PROBE-ERR" {
				return nil, fmt.Errorf("StateChange(event %d): the handler's error did not come back unchanged (%v)", e, err)
			}
		}
	}
	for _, name := range probeRPCs {
		rec.take()
		adj, upd, err := callRPC(svc, name)
		calls := rec.take()
		if err != nil {
			return nil, fmt.Errorf("%s failed although the handler succeeded: %v", name, err)
		}
		if len(calls) != 1 {
			return nil, fmt.Errorf("%s ran %d plugin methods (%s)", name, len(calls), callsKey(calls))
		}
		for _, a := range calls[0].args {
			if strings.HasPrefix(a, "?") {
				return nil, fmt.Errorf("%s: %s was handed an argument that is not a field of the request (%s)", name, calls[0].method, a)
			}
		}
		p := probedRPC{field: calls[0].method, args: calls[0].args}
		switch adj {
		case "PROBE-ADJ":
			p.resp = append(p.resp, "Adjust=adjust")
		case "":
		default:
			return nil, fmt.Errorf("%s returned an adjustment that is not the handler's", name)
		}
		switch upd {
		case "PROBE-UPD;":
			p.resp = append(p.resp, "Update=update")
		case "":
		default:
			return nil, fmt.Errorf("%s returned updates that are not the handler's (%s)", name, upd)
		}
		rec.fail = true
		_, _, err = callRPC(svc, name)
		rec.fail = false
		rec.take()
		if err != nil {
			if err.Error() != "PROBE-ERR" {
				return nil, fmt.Errorf("%s: the handler's error came back changed (%v)", name, err)
			}
			p.resp = append(p.resp, "error=err")
		}
		t.rpc[name] = p
	}

	// (3) the single-handler plugins must agree with the all-handlers one
	for _, h := range probeHandlers {
		r1 := &probeRec{}
		s1, err := serviceOf(h.mk(r1))
		if err != nil {
			return nil, fmt.Errorf("plugin implementing only %s: %w", h.iface, err)
		}
		for _, e := range events {
			calls, err := deliverSC(s1, r1, e)
			if err != nil {
				return nil, err
			}
			var want []probeCall
			for _, c := range t.sc[e] {
				if c.method == h.method {
					want = append(want, c)
				}
			}
			if callsKey(calls) != callsKey(want) {
				return nil, fmt.Errorf("StateChange(event %d) on the plugin implementing only %s ran [%s], the all-handlers plugin ran [%s] of it",
					e, h.iface, callsKey(calls), callsKey(want))
			}
		}
		for _, name := range probeRPCs {
			r1.take()
			if _, _, err := callRPC(s1, name); err != nil {
				return nil, fmt.Errorf("%s on the plugin implementing only %s: %v", name, h.iface, err)
			}
			calls := r1.take()
			want := ""
			if t.rpc[name].field == h.method {
				want = h.method + "(" + strings.Join(t.rpc[name].args, ",") + ")"
			}
			if callsKey(calls) != want {
				return nil, fmt.Errorf("%s on the plugin implementing only %s ran [%s], expected [%s]", name, h.iface, callsKey(calls), want)
			}
		}
	}
	return t, nil
}
