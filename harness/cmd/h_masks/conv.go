package main

// Driver "conv": the real NRI <-> OCI conversion functions of pkg/api in both
// directions on boundary and random values, and the optional-value constructors
// with every argument type.  Each case is written as a Coq term holding the input
// and the observed results (coq/Run/RunC14.v: conv_case, opt_case).

import (
	"fmt"
	"os"
	"reflect"

	rspec "github.com/opencontainers/runtime-spec/specs-go"

	"github.com/containerd/nri/pkg/api"

	"verif/harness/internal/coqfmt"
	"verif/harness/internal/hx"
)

const runImports = "From NRI Require Import Model.Convert Spec.ConvertSpec Run.Common Run.RunC14."

type convRaw struct {
	Kind string      `json:"kind"`
	In   interface{} `json:"in"`
	Out  interface{} `json:"out"`
	Back interface{} `json:"back"`
	Note string      `json:"note,omitempty"`
}

// checkShapes aborts (harness error) when a converted Go struct has gained or
// lost fields since the Coq records were written: the model would be stale.
func checkShapes(c *hx.Ctx) {
	want := []struct {
		name string
		v    interface{}
		n    int
	}{
		{"api.LinuxResources", api.LinuxResources{}, 8}, {"api.LinuxMemory", api.LinuxMemory{}, 8}, {"api.LinuxCPU", api.LinuxCPU{}, 7},
		{"api.HugepageLimit", api.HugepageLimit{}, 2}, {"api.LinuxDeviceCgroup", api.LinuxDeviceCgroup{}, 5}, {"api.LinuxPids", api.LinuxPids{}, 1},
		{"api.Mount", api.Mount{}, 4}, {"api.LinuxDevice", api.LinuxDevice{}, 7}, {"api.Hook", api.Hook{}, 4}, {"api.Hooks", api.Hooks{}, 6},
		{"api.KeyValue", api.KeyValue{}, 2},
		{"rspec.LinuxResources", rspec.LinuxResources{}, 9}, {"rspec.LinuxMemory", rspec.LinuxMemory{}, 9}, {"rspec.LinuxCPU", rspec.LinuxCPU{}, 9},
		{"rspec.LinuxHugepageLimit", rspec.LinuxHugepageLimit{}, 2}, {"rspec.LinuxDeviceCgroup", rspec.LinuxDeviceCgroup{}, 5},
		{"rspec.LinuxPids", rspec.LinuxPids{}, 1}, {"rspec.Mount", rspec.Mount{}, 6}, {"rspec.LinuxDevice", rspec.LinuxDevice{}, 7},
		{"rspec.Hook", rspec.Hook{}, 4}, {"rspec.Hooks", rspec.Hooks{}, 6},
	}
	for _, w := range want {
		if n := exportedFields(w.v); n != w.n {
			c.HarnessError("%s has %d exported fields, the Coq model (Model/Convert.v) was written for %d: update the model", w.name, n, w.n)
		}
	}
}

func nriNontrivial(r *api.LinuxResources) bool {
	return r != nil && (r.Memory != nil || r.Cpu != nil || len(r.HugepageLimits) > 0 || len(r.Unified) > 0 || len(r.Devices) > 0 || r.Pids != nil)
}
func ociNontrivial(o *rspec.LinuxResources) bool {
	return o != nil && (o.Memory != nil || o.CPU != nil || len(o.HugepageLimits) > 0 || len(o.Unified) > 0 || len(o.Devices) > 0 || o.Pids != nil)
}

// projected observables compared in Go (the same comparisons the Coq predicates make)
func sameNRIRes(a, b *api.LinuxResources) bool { return cResources(a) == cResources(b) }
func sameOCIRes(a, b *rspec.LinuxResources) bool {
	return cOResources(a) == cOResources(b)
}

func normNRI(r *api.LinuxResources) *api.LinuxResources {
	if r == nil {
		return nil
	}
	n := &api.LinuxResources{Memory: r.Memory, Cpu: r.Cpu, HugepageLimits: r.HugepageLimits, Unified: r.Unified, Devices: r.Devices, Pids: r.Pids}
	if n.Memory == nil {
		n.Memory = &api.LinuxMemory{}
	}
	if n.Cpu == nil {
		n.Cpu = &api.LinuxCPU{}
	}
	return n
}

func normOCI(o *rspec.LinuxResources) *rspec.LinuxResources {
	if o == nil {
		return nil
	}
	n := &rspec.LinuxResources{Devices: o.Devices, Pids: o.Pids, HugepageLimits: o.HugepageLimits, Unified: o.Unified,
		Memory: &rspec.LinuxMemory{}, CPU: &rspec.LinuxCPU{}}
	if o.Memory != nil {
		m := *o.Memory
		m.CheckBeforeUpdate = nil
		n.Memory = &m
	}
	if o.CPU != nil {
		c := *o.CPU
		c.Burst, c.Idle = nil, nil
		n.CPU = &c
	}
	return n
}

func driveConv(c *hx.Ctx) error {
	checkShapes(c)
	convResources(c)
	convMounts(c)
	convDevices(c)
	convHooks(c)
	convEnv(c)
	convDup(c)
	driveOptional(c)
	c.Stats.Rule = "conv: the real pkg/api conversion functions in both directions (resources, mounts, devices, hooks, env, DupStringSlice/Map). " +
		"Inputs: for every field of every converted struct each boundary value alone (0, +-1, 2^31-1, 2^31, 2^32-1, 2^63-1, -2^63, 2^63, 2^64-1 as the type allows; " +
		"unset / zero / value for optionals), nil and empty sub-structs, nil pointers, empty collections, then random combinations. " +
		"A case is non-trivial when some field both sides carry is present. A separate malformed env stream (keys containing '=') is compared with the model only. " +
		"optional: the eight constructors x every argument type (value, nil pointer, pointer, nil wrapper, wrapper, unsupported type, untyped nil) x the boundary pool, with Get() of the result."
	return nil
}

// ---------------------------------------------------------------- resources

func convResources(c *hx.Ctx) {
	r := c.Rand("conv/resources")
	sh := c.NewShard("conv_resources", runImports, "conv_case", "corr_conv", "holds_conv", 500)

	addN := func(in *api.LinuxResources, note string) {
		out := in.ToOCI()
		back := api.FromOCILinuxResources(out, nil)
		raw := convRaw{Kind: "resources/nri", In: in, Out: out, Back: back, Note: note}
		sh.Add(app("CResN", cResources(in), cOResources(out), cResources(back)), raw)
		c.Eval("resN/"+cResources(in), nriNontrivial(in))
		c.Count("conv.resources.nri."+note, 1)
		if !sameNRIRes(back, normNRI(in)) {
			c.ImplFail("conv_resources", "FromOCILinuxResources(r.ToOCI()) differs from r on the fields both representations carry", raw)
		}
	}
	addO := func(in *rspec.LinuxResources, note string) {
		out := api.FromOCILinuxResources(in, nil)
		back := out.ToOCI()
		raw := convRaw{Kind: "resources/oci", In: in, Out: out, Back: back, Note: note}
		sh.Add(app("CResO", cOResources(in), cResources(out), cOResources(back)), raw)
		c.Eval("resO/"+cOResources(in), ociNontrivial(in))
		c.Count("conv.resources.oci."+note, 1)
		if !sameOCIRes(back, normOCI(in)) {
			c.ImplFail("conv_resources", "FromOCILinuxResources(o).ToOCI() differs from o on the fields both representations carry", raw)
		}
	}

	// boundary shapes
	addN(nil, "nil")
	addN(&api.LinuxResources{}, "empty")
	addN(&api.LinuxResources{Memory: &api.LinuxMemory{}}, "empty-sub")
	addN(&api.LinuxResources{Cpu: &api.LinuxCPU{}}, "empty-sub")
	addN(&api.LinuxResources{Memory: &api.LinuxMemory{}, Cpu: &api.LinuxCPU{}, Pids: &api.LinuxPids{}, Unified: map[string]string{},
		HugepageLimits: []*api.HugepageLimit{}, Devices: []*api.LinuxDeviceCgroup{}}, "empty-sub")
	addO(nil, "nil")
	addO(&rspec.LinuxResources{}, "empty")
	addO(&rspec.LinuxResources{Memory: &rspec.LinuxMemory{}}, "empty-sub")
	addO(&rspec.LinuxResources{CPU: &rspec.LinuxCPU{}}, "empty-sub")
	addO(&rspec.LinuxResources{Memory: &rspec.LinuxMemory{}, CPU: &rspec.LinuxCPU{}, Pids: &rspec.LinuxPids{}, Unified: map[string]string{},
		HugepageLimits: []rspec.LinuxHugepageLimit{}, Devices: []rspec.LinuxDeviceCgroup{}}, "empty-sub")
	addO(&rspec.LinuxResources{BlockIO: &rspec.LinuxBlockIO{}, Network: &rspec.LinuxNetwork{}, Rdma: map[string]rspec.LinuxRdma{"d": {}}}, "oci-only")

	// every field alone, every boundary value
	for _, m := range singles(&api.LinuxMemory{}) {
		addN(&api.LinuxResources{Memory: m.(*api.LinuxMemory)}, "single-memory")
	}
	for _, x := range singles(&api.LinuxCPU{}) {
		addN(&api.LinuxResources{Cpu: x.(*api.LinuxCPU)}, "single-cpu")
	}
	for _, x := range singles(&api.HugepageLimit{}) {
		addN(&api.LinuxResources{HugepageLimits: []*api.HugepageLimit{x.(*api.HugepageLimit)}}, "single-hugepage")
	}
	for _, x := range singles(&api.LinuxDeviceCgroup{}) {
		addN(&api.LinuxResources{Devices: []*api.LinuxDeviceCgroup{x.(*api.LinuxDeviceCgroup)}}, "single-devcg")
	}
	for _, x := range singles(&api.LinuxPids{}) {
		addN(&api.LinuxResources{Pids: x.(*api.LinuxPids)}, "single-pids")
	}
	for _, s := range strPool {
		addN(&api.LinuxResources{BlockioClass: api.String(s)}, "single-class")
		addN(&api.LinuxResources{RdtClass: api.String(s)}, "single-class")
		addN(&api.LinuxResources{Unified: map[string]string{"memory.high": s}}, "single-unified")
		addN(&api.LinuxResources{Unified: map[string]string{s: "1"}}, "single-unified")
	}
	for _, m := range singles(&rspec.LinuxMemory{}) {
		addO(&rspec.LinuxResources{Memory: m.(*rspec.LinuxMemory)}, "single-memory")
	}
	for _, x := range singles(&rspec.LinuxCPU{}) {
		addO(&rspec.LinuxResources{CPU: x.(*rspec.LinuxCPU)}, "single-cpu")
	}
	for _, x := range singles(&rspec.LinuxHugepageLimit{}) {
		addO(&rspec.LinuxResources{HugepageLimits: []rspec.LinuxHugepageLimit{*x.(*rspec.LinuxHugepageLimit)}}, "single-hugepage")
	}
	for _, x := range singles(&rspec.LinuxDeviceCgroup{}) {
		addO(&rspec.LinuxResources{Devices: []rspec.LinuxDeviceCgroup{*x.(*rspec.LinuxDeviceCgroup)}}, "single-devcg")
	}
	for _, x := range singles(&rspec.LinuxPids{}) {
		addO(&rspec.LinuxResources{Pids: x.(*rspec.LinuxPids)}, "single-pids")
	}
	for _, s := range strPool {
		addO(&rspec.LinuxResources{Unified: map[string]string{"memory.high": s}}, "single-unified")
		addO(&rspec.LinuxResources{Unified: map[string]string{s: "1"}}, "single-unified")
	}

	// random combinations
	n := c.Pick(500, 6000)
	for i := 0; i < n; i++ {
		addN(genNRIResources(r), "random")
		addO(genOCIResources(r), "random")
	}
	c.Sample(convRaw{Kind: "resources/nri", In: &api.LinuxResources{Memory: &api.LinuxMemory{Limit: api.Int64(int64(0))}}, Note: "sample shape"}, 10)
}

// ---------------------------------------------------------------- mounts

func convMounts(c *hx.Ctx) {
	r := c.Rand("conv/mounts")
	sh := c.NewShard("conv_mounts", runImports, "conv_case", "corr_conv", "holds_conv", 500)

	addN := func(m *api.Mount, q *string) {
		var qBefore *string
		if q != nil {
			s := *q
			qBefore = &s
		}
		out := m.ToOCI(q)
		back := api.FromOCIMounts([]rspec.Mount{out})
		raw := convRaw{Kind: "mount/nri", In: map[string]interface{}{"mount": m, "query": qBefore}, Out: map[string]interface{}{"mount": out, "query": q}, Back: back}
		sh.Add(app("CMountN", cMount(m), pStr(qBefore), cOMount(out), pStr(q), cMounts(back)), raw)
		c.Eval("mountN/"+cMount(m)+pStr(qBefore), len(m.Options) > 0 || m.Destination != "")
		c.Count("conv.mounts.nri", 1)
		if len(back) != 1 || cMount(back[0]) != cMount(m) {
			c.ImplFail("conv_mounts", "FromOCIMounts([m.ToOCI()]) differs from [m]", raw)
		}
	}
	addO := func(in []rspec.Mount) {
		out := api.FromOCIMounts(in)
		var back []rspec.Mount
		for _, m := range out {
			back = append(back, m.ToOCI(nil))
		}
		raw := convRaw{Kind: "mounts/oci", In: in, Out: out, Back: back}
		sh.Add(app("CMountsO", cOMounts(in), cMounts(out), cOMounts(back)), raw)
		c.Eval("mountsO/"+cOMounts(in), len(in) > 0)
		c.Count("conv.mounts.oci", 1)
		var norm []rspec.Mount
		for _, m := range in {
			norm = append(norm, rspec.Mount{Destination: m.Destination, Type: m.Type, Source: m.Source, Options: m.Options})
		}
		if cOMounts(back) != cOMounts(norm) {
			c.ImplFail("conv_mounts", "ToOCI of FromOCIMounts(o) differs from o on destination/type/source/options", raw)
		}
	}

	addN(&api.Mount{}, nil)
	empty := ""
	addN(&api.Mount{Options: []string{}}, &empty)
	for _, x := range singles(&api.Mount{}) {
		addN(x.(*api.Mount), nil)
	}
	for _, o := range mountOpts {
		q := "before"
		addN(&api.Mount{Destination: "/d", Options: []string{"ro", o, "rw"}}, &q)
		addN(&api.Mount{Destination: "/d", Options: []string{o}}, nil)
	}
	addO(nil)
	addO([]rspec.Mount{})
	for _, x := range singles(&rspec.Mount{}) {
		addO([]rspec.Mount{*x.(*rspec.Mount)})
	}
	n := c.Pick(300, 3000)
	for i := 0; i < n; i++ {
		var q *string
		if r.Intn(2) == 0 {
			s := []string{"", "rprivate", "x"}[r.Intn(3)]
			q = &s
		}
		addN(genNRIMount(r), q)
		var in []rspec.Mount
		for k := r.Intn(4); k > 0; k-- {
			in = append(in, genOCIMount(r))
		}
		addO(in)
	}
}

// ---------------------------------------------------------------- devices

func convDevices(c *hx.Ctx) {
	r := c.Rand("conv/devices")
	sh := c.NewShard("conv_devices", runImports, "conv_case", "corr_conv", "holds_conv", 500)

	addN := func(d *api.LinuxDevice) {
		out := d.ToOCI()
		back := api.FromOCILinuxDevices([]rspec.LinuxDevice{out})
		raw := convRaw{Kind: "device/nri", In: d, Out: out, Back: back}
		in := "None"
		want := cDevice(&api.LinuxDevice{})
		if d != nil {
			in = some(cDevice(d))
			want = cDevice(d)
		}
		sh.Add(app("CDevN", in, cODevice(out), cDevices(back)), raw)
		c.Eval("devN/"+in, d != nil)
		c.Count("conv.devices.nri", 1)
		if len(back) != 1 || cDevice(back[0]) != want {
			c.ImplFail("conv_devices", "FromOCILinuxDevices([d.ToOCI()]) differs from [d]", raw)
		}
	}
	addO := func(in []rspec.LinuxDevice) {
		out := api.FromOCILinuxDevices(in)
		var back []rspec.LinuxDevice
		for _, d := range out {
			back = append(back, d.ToOCI())
		}
		raw := convRaw{Kind: "devices/oci", In: in, Out: out, Back: back}
		sh.Add(app("CDevsO", cODevices(in), cDevices(out), cODevices(back)), raw)
		c.Eval("devsO/"+cODevices(in), len(in) > 0)
		c.Count("conv.devices.oci", 1)
		if cODevices(back) != cODevices(in) {
			c.ImplFail("conv_devices", "ToOCI of FromOCILinuxDevices(o) differs from o", raw)
		}
	}

	addN(nil)
	addN(&api.LinuxDevice{})
	for _, x := range singles(&api.LinuxDevice{}) {
		addN(x.(*api.LinuxDevice))
	}
	addO(nil)
	addO([]rspec.LinuxDevice{})
	for _, x := range singles(&rspec.LinuxDevice{}) {
		addO([]rspec.LinuxDevice{*x.(*rspec.LinuxDevice)})
	}
	n := c.Pick(300, 3000)
	for i := 0; i < n; i++ {
		addN(genNRIDevice(r))
		var in []rspec.LinuxDevice
		for k := r.Intn(4); k > 0; k-- {
			in = append(in, genOCIDevice(r))
		}
		addO(in)
	}
}

// ---------------------------------------------------------------- hooks

func hookListToOCI(l []*api.Hook) []rspec.Hook {
	var out []rspec.Hook
	for _, h := range l {
		out = append(out, h.ToOCI())
	}
	return out
}

// the composition the generator (pkg/runtime-tools/generate) performs: each of the six lists, hook by hook
func hooksToOCI(h *api.Hooks) *rspec.Hooks {
	return &rspec.Hooks{Prestart: hookListToOCI(h.Prestart), CreateRuntime: hookListToOCI(h.CreateRuntime),
		CreateContainer: hookListToOCI(h.CreateContainer), StartContainer: hookListToOCI(h.StartContainer),
		Poststart: hookListToOCI(h.Poststart), Poststop: hookListToOCI(h.Poststop)}
}

func convHooks(c *hx.Ctx) {
	r := c.Rand("conv/hooks")
	sh := c.NewShard("conv_hooks", runImports, "conv_case", "corr_conv", "holds_conv", 500)

	addN := func(h *api.Hooks) {
		out := hooksToOCI(h)
		back := api.FromOCIHooks(out)
		raw := convRaw{Kind: "hooks/nri", In: h, Out: out, Back: back}
		sh.Add(app("CHooksN", cHooks(h), cOHooks(out), cHooksOpt(back)), raw)
		c.Eval("hooksN/"+cHooks(h), h.Hooks() != nil)
		c.Count("conv.hooks.nri", 1)
		if cHooksOpt(back) != some(cHooks(h)) {
			c.ImplFail("conv_hooks", "FromOCIHooks of the hook-by-hook ToOCI differs from the hooks", raw)
		}
	}
	addO := func(in *rspec.Hooks) {
		out := api.FromOCIHooks(in)
		var back *rspec.Hooks
		if out != nil {
			back = hooksToOCI(out)
		}
		raw := convRaw{Kind: "hooks/oci", In: in, Out: out, Back: back}
		sh.Add(app("CHooksO", cOHooksOpt(in), cHooksOpt(out), cOHooksOpt(back)), raw)
		c.Eval("hooksO/"+cOHooksOpt(in), in != nil)
		c.Count("conv.hooks.oci", 1)
		if cOHooksOpt(back) != cOHooksOpt(in) {
			c.ImplFail("conv_hooks", "hook-by-hook ToOCI of FromOCIHooks(o) differs from o", raw)
		}
	}

	addN(&api.Hooks{})
	addO(nil)
	addO(&rspec.Hooks{})
	for i, x := range singles(&api.Hook{}) {
		h := &api.Hooks{}
		l := []*api.Hook{x.(*api.Hook)}
		switch i % 6 {
		case 0:
			h.Prestart = l
		case 1:
			h.CreateRuntime = l
		case 2:
			h.CreateContainer = l
		case 3:
			h.StartContainer = l
		case 4:
			h.Poststart = l
		case 5:
			h.Poststop = l
		}
		addN(h)
	}
	for i, x := range singles(&rspec.Hook{}) {
		h := &rspec.Hooks{}
		l := []rspec.Hook{*x.(*rspec.Hook)}
		switch i % 6 {
		case 0:
			h.Prestart = l
		case 1:
			h.CreateRuntime = l
		case 2:
			h.CreateContainer = l
		case 3:
			h.StartContainer = l
		case 4:
			h.Poststart = l
		case 5:
			h.Poststop = l
		}
		addO(h)
	}
	// one distinguishable hook per list: a swap of two lists cannot go unnoticed
	six := func(i int) *api.Hook {
		return &api.Hook{Path: fmt.Sprint("/hook", i), Args: []string{fmt.Sprint("a", i)}, Env: []string{fmt.Sprint("E=", i)}, Timeout: api.Int(i)}
	}
	addN(&api.Hooks{Prestart: []*api.Hook{six(1)}, CreateRuntime: []*api.Hook{six(2)}, CreateContainer: []*api.Hook{six(3)},
		StartContainer: []*api.Hook{six(4)}, Poststart: []*api.Hook{six(5)}, Poststop: []*api.Hook{six(6)}})
	addO(hooksToOCI(&api.Hooks{Prestart: []*api.Hook{six(1)}, CreateRuntime: []*api.Hook{six(2)}, CreateContainer: []*api.Hook{six(3)},
		StartContainer: []*api.Hook{six(4)}, Poststart: []*api.Hook{six(5)}, Poststop: []*api.Hook{six(6)}}))
	n := c.Pick(250, 2500)
	for i := 0; i < n; i++ {
		addN(genNRIHooks(r))
		addO(genOCIHooks(r))
	}
}

// ---------------------------------------------------------------- env

func convEnv(c *hx.Ctx) {
	r := c.Rand("conv/env")
	sh := c.NewShard("conv_env", runImports, "conv_case", "corr_conv", "holds_conv", 500)
	mal := c.NewShard("conv_env_malformed", runImports, "conv_case", "corr_conv", "holds_conv", 500)

	hasEq := func(s string) bool {
		for i := 0; i < len(s); i++ {
			if s[i] == '=' {
				return true
			}
		}
		return false
	}
	addN := func(s *hx.Shard, in []*api.KeyValue) {
		var out []string
		for _, e := range in {
			out = append(out, e.ToOCI())
		}
		back := api.FromOCIEnv(out)
		raw := convRaw{Kind: "env/nri", In: in, Out: out, Back: back}
		s.Add(app("CEnvN", cKVs(in), coqfmt.StrList(out), cKVs(back)), raw)
		wf := true
		for _, e := range in {
			if hasEq(e.Key) {
				wf = false
			}
		}
		c.Eval("envN/"+cKVs(in), len(in) > 0 && wf)
		if wf {
			c.Count("conv.env.nri", 1)
			if cKVs(back) != cKVs(in) {
				c.ImplFail("conv_env", "FromOCIEnv of the ToOCI strings differs from the key/value list", raw)
			}
		} else {
			c.Count("conv.env.nri.malformed-key", 1)
		}
	}
	addO := func(in []string) {
		out := api.FromOCIEnv(in)
		var back []string
		for _, e := range out {
			back = append(back, e.ToOCI())
		}
		raw := convRaw{Kind: "env/oci", In: in, Out: out, Back: back}
		sh.Add(app("CEnvO", coqfmt.StrList(in), cKVs(out), coqfmt.StrList(back)), raw)
		c.Eval("envO/"+coqfmt.StrList(in), len(in) > 0)
		c.Count("conv.env.oci", 1)
		var norm []string
		for _, s := range in {
			if !hasEq(s) {
				s += "="
			}
			norm = append(norm, s)
		}
		if coqfmt.StrList(back) != coqfmt.StrList(norm) {
			c.ImplFail("conv_env", "ToOCI of FromOCIEnv(l) differs from l (entries with '=' must come back unchanged)", raw)
		}
	}

	addN(sh, nil)
	addN(sh, []*api.KeyValue{})
	for _, k := range envKeys {
		for _, v := range envVals {
			addN(sh, []*api.KeyValue{{Key: k, Value: v}})
			addO([]string{k + "=" + v})
		}
		addO([]string{k})
	}
	addO(nil)
	addO([]string{})
	n := c.Pick(400, 4000)
	for i := 0; i < n; i++ {
		addN(sh, genKVs(r, true))
		addO(genEnvStrings(r))
		if i%4 == 0 {
			addN(mal, genKVs(r, false))
		}
	}
}

// ---------------------------------------------------------------- DupStringSlice / DupStringMap

func convDup(c *hx.Ctx) {
	r := c.Rand("conv/dup")
	sh := c.NewShard("conv_dup", runImports, "conv_case", "corr_conv", "holds_conv", 500)
	addS := func(in []string) {
		out := api.DupStringSlice(in)
		raw := convRaw{Kind: "dup/slice", In: in, Out: out}
		sh.Add(app("CDupSlice", coqfmt.StrList(in), coqfmt.StrList(out)), raw)
		c.Eval("dupS/"+coqfmt.StrList(in), len(in) > 0)
		c.Count("conv.dup.slice", 1)
		if (in == nil) != (out == nil) || coqfmt.StrList(in) != coqfmt.StrList(out) {
			c.ImplFail("conv_dup", "DupStringSlice result differs from its argument (or nil-ness changed)", raw)
		}
	}
	addM := func(in map[string]string) {
		out := api.DupStringMap(in)
		raw := convRaw{Kind: "dup/map", In: in, Out: out}
		sh.Add(app("CDupMap", cMap(in), cMap(out)), raw)
		c.Eval("dupM/"+cMap(in), len(in) > 0)
		c.Count("conv.dup.map", 1)
		if (in == nil) != (out == nil) || cMap(in) != cMap(out) {
			c.ImplFail("conv_dup", "DupStringMap result differs from its argument (or nil-ness changed)", raw)
		}
	}
	addS(nil)
	addS([]string{})
	addM(nil)
	addM(map[string]string{})
	n := c.Pick(60, 1000)
	for i := 0; i < n; i++ {
		addS(genStrs(r, 5))
		addM(genMap(r))
	}
}

// ---------------------------------------------------------------- optional constructors

type optRaw struct {
	Ctor string      `json:"ctor"`
	Arg  string      `json:"arg"`
	Res  interface{} `json:"result"`
	Get  interface{} `json:"get"`
}

type goArg struct {
	v    interface{} // the Go value handed to the constructor
	term string      // the Coq goarg term
}

// argsOf returns every argument form for pool index j of every Go type in the
// model's goarg sum (nil when j is beyond the type's pool).
func optionalArgs() []goArg {
	var out []goArg
	add := func(v interface{}, term string) { out = append(out, goArg{v, term}) }
	add(nil, "GNil")
	add(3.5, "GOther")
	add(int8(1), "GOther")
	add(uint16(1), "GOther")
	add([]string{"x"}, "GOther")
	add(struct{}{}, "GOther")
	add((*int8)(nil), "GOther")

	add((*string)(nil), "(GPString None)")
	add((*api.OptionalString)(nil), "(GOptString None)")
	for _, s := range strPool {
		s := s
		add(s, app("GString", coqfmt.Str(s)))
		add(&s, app("GPString", some(coqfmt.Str(s))))
		add(&api.OptionalString{Value: s}, app("GOptString", some(coqfmt.Str(s))))
	}
	add((*int)(nil), "(GPInt None)")
	add((*api.OptionalInt)(nil), "(GOptInt None)")
	for _, v := range intPool {
		v := v
		add(v, app("GInt", coqfmt.Z(int64(v))))
		add(&v, app("GPInt", some(coqfmt.Z(int64(v)))))
		add(&api.OptionalInt{Value: int64(v)}, app("GOptInt", some(coqfmt.Z(int64(v)))))
	}
	for _, v := range u64Pool {
		add(uint(v), app("GUint", coqfmt.ZU(v)))
	}
	add((*int32)(nil), "(GPInt32 None)")
	add((*api.OptionalInt32)(nil), "(GOptInt32 None)")
	for _, v := range i32Pool {
		v := v
		add(v, app("GInt32", coqfmt.Z(int64(v))))
		add(&v, app("GPInt32", some(coqfmt.Z(int64(v)))))
		add(&api.OptionalInt32{Value: v}, app("GOptInt32", some(coqfmt.Z(int64(v)))))
	}
	add((*uint32)(nil), "(GPUint32 None)")
	add((*api.OptionalUInt32)(nil), "(GOptUint32 None)")
	for _, v := range u32Pool {
		v := v
		add(v, app("GUint32", coqfmt.ZU(uint64(v))))
		add(&v, app("GPUint32", some(coqfmt.ZU(uint64(v)))))
		add(&api.OptionalUInt32{Value: v}, app("GOptUint32", some(coqfmt.ZU(uint64(v)))))
	}
	add((*int64)(nil), "(GPInt64 None)")
	add((*api.OptionalInt64)(nil), "(GOptInt64 None)")
	for _, v := range i64Pool {
		v := v
		add(v, app("GInt64", coqfmt.Z(v)))
		add(&v, app("GPInt64", some(coqfmt.Z(v))))
		add(&api.OptionalInt64{Value: v}, app("GOptInt64", some(coqfmt.Z(v))))
	}
	add((*uint64)(nil), "(GPUint64 None)")
	add((*api.OptionalUInt64)(nil), "(GOptUint64 None)")
	for _, v := range u64Pool {
		v := v
		add(v, app("GUint64", coqfmt.ZU(v)))
		add(&v, app("GPUint64", some(coqfmt.ZU(v))))
		add(&api.OptionalUInt64{Value: v}, app("GOptUint64", some(coqfmt.ZU(v))))
	}
	add((*bool)(nil), "(GPBool None)")
	add((*api.OptionalBool)(nil), "(GOptBool None)")
	for _, v := range []bool{false, true} {
		v := v
		add(v, app("GBool", coqfmt.Bool(v)))
		add(&v, app("GPBool", some(coqfmt.Bool(v))))
		add(&api.OptionalBool{Value: v}, app("GOptBool", some(coqfmt.Bool(v))))
	}
	add((*os.FileMode)(nil), "(GPFileMode None)")
	add((*api.OptionalFileMode)(nil), "(GOptFileMode None)")
	for _, v := range fmPool {
		v := v
		add(v, app("GFileMode", coqfmt.ZU(uint64(v))))
		add(&v, app("GPFileMode", some(coqfmt.ZU(uint64(v)))))
		add(&api.OptionalFileMode{Value: uint32(v)}, app("GOptFileMode", some(coqfmt.ZU(uint64(v)))))
	}
	return out
}

type optCtor struct {
	name, kind string
	// call applies the constructor and Get; it returns the two Coq ovals and raw forms
	call func(arg interface{}) (res, got string, rres, rget interface{})
}

func optionalCtors() []optCtor {
	oz := func(s string) string { return "(OZ " + s + ")" }
	return []optCtor{
		{"String", "KString", func(a interface{}) (string, string, interface{}, interface{}) {
			o := api.String(a)
			g := o.Get()
			return "(OS " + oStr(o) + ")", "(OS " + pStr(g) + ")", o, g
		}},
		{"Int", "KInt", func(a interface{}) (string, string, interface{}, interface{}) {
			o := api.Int(a)
			g := o.Get()
			return oz(oInt(o)), oz(pInt(g)), o, g
		}},
		{"Int32", "KInt32", func(a interface{}) (string, string, interface{}, interface{}) {
			o := api.Int32(a)
			g := o.Get()
			return oz(oI32(o)), oz(pI32(g)), o, g
		}},
		{"UInt32", "KUInt32", func(a interface{}) (string, string, interface{}, interface{}) {
			o := api.UInt32(a)
			g := o.Get()
			return oz(oU32(o)), oz(pU32(g)), o, g
		}},
		{"Int64", "KInt64", func(a interface{}) (string, string, interface{}, interface{}) {
			o := api.Int64(a)
			g := o.Get()
			return oz(oI64(o)), oz(pI64(g)), o, g
		}},
		{"UInt64", "KUInt64", func(a interface{}) (string, string, interface{}, interface{}) {
			o := api.UInt64(a)
			g := o.Get()
			return oz(oU64(o)), oz(pU64(g)), o, g
		}},
		{"Bool", "KBool", func(a interface{}) (string, string, interface{}, interface{}) {
			o := api.Bool(a)
			g := o.Get()
			return "(OB " + oBool(o) + ")", "(OB " + pBool(g) + ")", o, g
		}},
		{"FileMode", "KFileMode", func(a interface{}) (string, string, interface{}, interface{}) {
			o := api.FileMode(a)
			g := o.Get()
			return oz(oFM(o)), oz(pFM(g)), o, g
		}},
	}
}

// goExpect is the Go-side oracle for the constructor clause, written against
// the property text and not against the code: nil in any form gives unset; a
// value of the constructor's own native type (plain, behind a pointer, or in
// the wrapper) gives exactly that value.  Returns "" when it does not judge.
func goExpect(ctor string, arg interface{}) string {
	v := reflect.ValueOf(arg)
	unset := map[string]string{"String": "(OS None)", "Bool": "(OB None)"}[ctor]
	if unset == "" {
		unset = "(OZ None)"
	}
	if arg == nil || (v.Kind() == reflect.Ptr && v.IsNil()) {
		return unset
	}
	oz := func(s string) string { return "(OZ (Some " + s + "))" }
	switch ctor {
	case "String":
		switch x := arg.(type) {
		case string:
			return "(OS (Some " + coqfmt.Str(x) + "))"
		case *string:
			return "(OS (Some " + coqfmt.Str(*x) + "))"
		case *api.OptionalString:
			return "(OS (Some " + coqfmt.Str(x.Value) + "))"
		}
	case "Int":
		switch x := arg.(type) {
		case int:
			return oz(coqfmt.Z(int64(x)))
		case *int:
			return oz(coqfmt.Z(int64(*x)))
		case *api.OptionalInt:
			return oz(coqfmt.Z(x.Value))
		}
	case "Int32":
		switch x := arg.(type) {
		case int32:
			return oz(coqfmt.Z(int64(x)))
		case *int32:
			return oz(coqfmt.Z(int64(*x)))
		case *api.OptionalInt32:
			return oz(coqfmt.Z(int64(x.Value)))
		}
	case "UInt32":
		switch x := arg.(type) {
		case uint32:
			return oz(coqfmt.ZU(uint64(x)))
		case *uint32:
			return oz(coqfmt.ZU(uint64(*x)))
		case *api.OptionalUInt32:
			return oz(coqfmt.ZU(uint64(x.Value)))
		}
	case "Int64":
		switch x := arg.(type) {
		case int64:
			return oz(coqfmt.Z(x))
		case *int64:
			return oz(coqfmt.Z(*x))
		case *api.OptionalInt64:
			return oz(coqfmt.Z(x.Value))
		case int:
			return oz(coqfmt.Z(int64(x)))
		case uint64:
			if x < 1<<63 {
				return oz(coqfmt.ZU(x))
			}
		case *uint64:
			if *x < 1<<63 {
				return oz(coqfmt.ZU(*x))
			}
		case uint:
			if x < 1<<63 {
				return oz(coqfmt.ZU(uint64(x)))
			}
		}
	case "UInt64":
		switch x := arg.(type) {
		case uint64:
			return oz(coqfmt.ZU(x))
		case *uint64:
			return oz(coqfmt.ZU(*x))
		case *api.OptionalUInt64:
			return oz(coqfmt.ZU(x.Value))
		case uint:
			return oz(coqfmt.ZU(uint64(x)))
		case int64:
			if x >= 0 {
				return oz(coqfmt.Z(x))
			}
		case *int64:
			if *x >= 0 {
				return oz(coqfmt.Z(*x))
			}
		case int:
			if x >= 0 {
				return oz(coqfmt.Z(int64(x)))
			}
		}
	case "Bool":
		switch x := arg.(type) {
		case bool:
			return "(OB (Some " + coqfmt.Bool(x) + "))"
		case *bool:
			return "(OB (Some " + coqfmt.Bool(*x) + "))"
		case *api.OptionalBool:
			return "(OB (Some " + coqfmt.Bool(x.Value) + "))"
		}
	case "FileMode":
		switch x := arg.(type) {
		case os.FileMode:
			return oz(coqfmt.ZU(uint64(x)))
		case *os.FileMode:
			return oz(coqfmt.ZU(uint64(*x)))
		case *api.OptionalFileMode:
			return oz(coqfmt.ZU(uint64(x.Value)))
		case uint32:
			return oz(coqfmt.ZU(uint64(x)))
		}
	}
	return ""
}

func driveOptional(c *hx.Ctx) {
	sh := c.NewShard("optional", runImports, "opt_case", "corr_opt", "holds_opt", 1000)
	args := optionalArgs()
	for _, k := range optionalCtors() {
		for _, a := range args {
			res, got, rres, rget := k.call(a.v)
			raw := optRaw{Ctor: k.name, Arg: a.term, Res: rres, Get: rget}
			sh.Add(fmt.Sprintf("{| oc_kind := %s; oc_arg := %s; oc_res := %s; oc_get := %s |}", k.kind, a.term, res, got), raw)
			exp := goExpect(k.name, a.v)
			c.Eval("opt/"+k.name+"/"+a.term, exp != "")
			if exp != "" {
				c.Count("optional.judged", 1)
			} else {
				c.Count("optional.unsupported-or-wrapping", 1)
			}
			if got != res {
				c.ImplFail("optional", "Get() of the constructor's result differs from the result", raw)
			}
			if exp != "" && res != exp {
				c.ImplFail("optional", "constructor result differs from nil->unset / value->that value", raw)
			}
		}
	}
}
