#!/usr/bin/env python3
"""lib/seedtrial.py SEEDDIR PROP [PROP...] — confirms a seeded change and runs checks against it in an
isolated sandbox (never touches /repo).  SEEDDIR holds patch.diff, demo/, meta.json.
Prints one JSON line with: demo_clean_pass, builds, suite_pass, demo_mutated_fail, and per property the
check's exit code and VIOLATION line."""
import json, os, shutil, subprocess, sys, tempfile

def sh(cmd, cwd, timeout=1800):
    env = dict(os.environ, GOFLAGS="-mod=mod", GOPROXY="off", GOSUMDB="off", GOTOOLCHAIN="local")
    p = subprocess.run(cmd, cwd=cwd, shell=True, env=env, stdout=subprocess.PIPE, stderr=subprocess.STDOUT, text=True, timeout=timeout)
    return p.returncode, p.stdout

seed = os.path.abspath(sys.argv[1]); props = sys.argv[2:]
meta = json.load(open(os.path.join(seed, "meta.json")))
box = tempfile.mkdtemp(prefix="trial-", dir="/tmp")
res = {"seed": seed, "summary": meta.get("summary")}
try:
    rc, out = sh("/verif/lib/sandbox.sh %s" % box, "/")
    repo, verif = box + "/repo", box + "/verif"
    placed = []
    for dst, src in (meta.get("demo_files") or {}).items():
        s = os.path.join(seed, "demo", src) if not os.path.isabs(src) else src
        if not os.path.exists(s):
            s = os.path.join(seed, src)
        d = os.path.join(repo, dst)
        os.makedirs(os.path.dirname(d), exist_ok=True)
        shutil.copy(s, d); placed.append(d)
    cmd = meta.get("demo_cmd")
    if cmd:
        rc, out = sh(cmd, repo); res["demo_clean_pass"] = rc == 0
        if rc != 0: res["demo_clean_out"] = out[-800:]
    rc, out = sh("git init -q . 2>/dev/null; patch -p1 -s < %s/patch.diff" % seed, repo)
    res["patch_applies"] = rc == 0
    if rc != 0: res["patch_out"] = out[-500:]
    rc, out = sh("go build ./... ", repo); res["builds"] = rc == 0
    if cmd:
        rc, out = sh(cmd, repo); res["demo_mutated_fail"] = rc != 0
    for d in placed:
        os.remove(d)
    ok = True
    for m in (".", "plugins/device-injector", "plugins/ulimit-adjuster"):
        rc, out = sh("go test -vet=off -count=1 ./... 2>&1 | grep -v 'no test files' | tail -5", os.path.join(repo, m))
        if "FAIL" in out or rc != 0: ok = False; res["suite_out"] = out[-600:]
    res["suite_pass"] = ok
    res["checks"] = {}
    for p in props:
        rc, out = sh("VERIF_REPO=%s ./check %s --tier quick" % (repo, p), verif, timeout=3600)
        lines = [l for l in out.splitlines() if l.startswith(("VIOLATION", "OK", "FAIL", "HARNESS", "KNOWN"))]
        res["checks"][p] = {"rc": rc, "lines": lines[-4:]}
        rp = [l.split("replay=")[1].split()[0] for l in lines if "replay=" in l]
        if rp and os.path.exists(rp[0]):
            res["checks"][p]["replay_head"] = open(rp[0]).read()[:700]
finally:
    shutil.rmtree(box, ignore_errors=True)
print(json.dumps(res, indent=1))
