(* Model of pkg/stub/stub.go.

   Part 1 (C15): setupHandlers, Configure's mask clamping and the per-RPC /
   per-event dispatch.  The wiring tables (which interface assertion assigns
   which handlers field and sets which event bit; which case of StateChange and
   which request RPC calls which handlers field with which message fields; which
   results go into the response) are read from stub.go on every run
   (Model/StubConsts.v, generated); the event numbers come from Model/Consts.v.
   What is hand-written here is (a) how the Go code *uses* those tables and
   (b) the protocol the property refers to: which handler exists for which
   event, which message fields it is to be shown and which results it returns.

   Part 2 (C16): the life-cycle labelled transition system, one state per point
   where Start/Stop/Wait/close/connClosed block or branch.

   No proofs in this file. *)
From Coq Require Import String Ascii List Bool ZArith NArith Arith Lia.
From NRI Require Import Base.Strs Base.Assoc Model.Consts Model.Event Model.StubConsts.
Import ListNotations.
Open Scope string_scope.
Open Scope list_scope.

(* ====================================================================== *)
(* Part 1 — subscription and dispatch                                      *)
(* ====================================================================== *)

(* the thirteen event handlers a plugin may implement (the event-handling
   fields of stub.go's [handlers] struct / the thirteen XxxInterface types) *)
Inductive handler :=
| HRunPodSandbox | HUpdatePodSandbox | HStopPodSandbox | HRemovePodSandbox | HPostUpdatePodSandbox
| HCreateContainer | HStartContainer | HUpdateContainer | HStopContainer | HRemoveContainer
| HPostCreateContainer | HPostStartContainer | HPostUpdateContainer.

Definition all_handlers : list handler :=
  [HRunPodSandbox; HUpdatePodSandbox; HStopPodSandbox; HRemovePodSandbox; HPostUpdatePodSandbox;
   HCreateContainer; HStartContainer; HUpdateContainer; HStopContainer; HRemoveContainer;
   HPostCreateContainer; HPostStartContainer; HPostUpdateContainer].

Definition hindex (h : handler) : N :=
  match h with
  | HRunPodSandbox => 0 | HUpdatePodSandbox => 1 | HStopPodSandbox => 2 | HRemovePodSandbox => 3
  | HPostUpdatePodSandbox => 4 | HCreateContainer => 5 | HStartContainer => 6 | HUpdateContainer => 7
  | HStopContainer => 8 | HRemoveContainer => 9 | HPostCreateContainer => 10 | HPostStartContainer => 11
  | HPostUpdateContainer => 12
  end%N.

Definition handler_eqb (a b : handler) : bool := N.eqb (hindex a) (hindex b).

(* --- the protocol (what the property refers to) ------------------------ *)

(* the plugin method that handles the event (and the name of the Go interface
   declaring it: XxxInterface in stub.go) *)
Definition method_of (h : handler) : string :=
  match h with
  | HRunPodSandbox => "RunPodSandbox" | HUpdatePodSandbox => "UpdatePodSandbox"
  | HStopPodSandbox => "StopPodSandbox" | HRemovePodSandbox => "RemovePodSandbox"
  | HPostUpdatePodSandbox => "PostUpdatePodSandbox" | HCreateContainer => "CreateContainer"
  | HStartContainer => "StartContainer" | HUpdateContainer => "UpdateContainer"
  | HStopContainer => "StopContainer" | HRemoveContainer => "RemoveContainer"
  | HPostCreateContainer => "PostCreateContainer" | HPostStartContainer => "PostStartContainer"
  | HPostUpdateContainer => "PostUpdateContainer"
  end.

Definition iface_of (h : handler) : string :=
  match h with
  | HRunPodSandbox => "RunPodInterface" | HUpdatePodSandbox => "UpdatePodInterface"
  | HStopPodSandbox => "StopPodInterface" | HRemovePodSandbox => "RemovePodInterface"
  | HPostUpdatePodSandbox => "PostUpdatePodInterface" | HCreateContainer => "CreateContainerInterface"
  | HStartContainer => "StartContainerInterface" | HUpdateContainer => "UpdateContainerInterface"
  | HStopContainer => "StopContainerInterface" | HRemoveContainer => "RemoveContainerInterface"
  | HPostCreateContainer => "PostCreateContainerInterface" | HPostStartContainer => "PostStartContainerInterface"
  | HPostUpdateContainer => "PostUpdateContainerInterface"
  end.

Definition enum_event (name : string) : Z :=
  match alookup name event_enum with Some v => v | None => 0%Z end.

(* the event each handler exists for (enum Event of api.proto, numbers regenerated) *)
Definition proto_event (h : handler) : Z :=
  enum_event
    match h with
    | HRunPodSandbox => "Event_RUN_POD_SANDBOX" | HUpdatePodSandbox => "Event_UPDATE_POD_SANDBOX"
    | HStopPodSandbox => "Event_STOP_POD_SANDBOX" | HRemovePodSandbox => "Event_REMOVE_POD_SANDBOX"
    | HPostUpdatePodSandbox => "Event_POST_UPDATE_POD_SANDBOX" | HCreateContainer => "Event_CREATE_CONTAINER"
    | HStartContainer => "Event_START_CONTAINER" | HUpdateContainer => "Event_UPDATE_CONTAINER"
    | HStopContainer => "Event_STOP_CONTAINER" | HRemoveContainer => "Event_REMOVE_CONTAINER"
    | HPostCreateContainer => "Event_POST_CREATE_CONTAINER" | HPostStartContainer => "Event_POST_START_CONTAINER"
    | HPostUpdateContainer => "Event_POST_UPDATE_CONTAINER"
    end.

(* how the runtime carries an event to the plugin (api.proto, Plugin service):
   four events are requests with an RPC of their own, the rest are StateChange *)
Inductive carrier := ByRPC (name : string) | ByStateChange.
Definition carrier_of (h : handler) : carrier :=
  match h with
  | HCreateContainer => ByRPC "CreateContainer"
  | HUpdateContainer => ByRPC "UpdateContainer"
  | HStopContainer => ByRPC "StopContainer"
  | HUpdatePodSandbox => ByRPC "UpdatePodSandbox"
  | _ => ByStateChange
  end.

(* the message fields the handler is to be shown, in the order of its signature *)
Definition proto_args (h : handler) : list string :=
  match h with
  | HRunPodSandbox | HStopPodSandbox | HRemovePodSandbox | HPostUpdatePodSandbox => ["Pod"]
  | HUpdatePodSandbox => ["Pod"; "OverheadLinuxResources"; "LinuxResources"]
  | HUpdateContainer => ["Pod"; "Container"; "LinuxResources"]
  | _ => ["Pod"; "Container"]
  end.

(* what the handler returns besides its error *)
Definition proto_returns_adjust (h : handler) : bool :=
  match h with HCreateContainer => true | _ => false end.
Definition proto_returns_update (h : handler) : bool :=
  match h with HCreateContainer | HUpdateContainer | HStopContainer => true | _ => false end.

(* --- the plugin -------------------------------------------------------- *)

(* a plugin type = the subset of the thirteen interfaces it implements, as a
   13-bit number (bit hindex h = implements iface_of h); 0 <= p < 8192 *)
Definition plugin := N.
Definition num_plugins : N := 8192.
Definition implements (p : plugin) (h : handler) : bool := N.testbit p (hindex h).
Definition implements_iface (p : plugin) (iface : string) : bool :=
  existsb (fun h => implements p h && String.eqb (iface_of h) iface) all_handlers.

(* --- setupHandlers ------------------------------------------------------ *)

Definition setup_row := (string * string * string * list Z)%type.
Definition row_iface (r : setup_row) := fst (fst (fst r)).
Definition row_field (r : setup_row) := snd (fst (fst r)).
Definition row_method (r : setup_row) := snd (fst r).
Definition row_bits (r : setup_row) := snd r.

(* stub.events after setupHandlers *)
Definition stub_events (p : plugin) : Z :=
  fold_left (fun m r => if implements_iface p (row_iface r) then fold_left set_bit (row_bits r) m else m)
            setup_table 0%Z.

(* stub.handlers after setupHandlers: field -> plugin method bound (a later
   assignment to the same field would win, as in Go) *)
Definition stub_handlers (p : plugin) : list (string * string) :=
  fold_left (fun hs r => if implements_iface p (row_iface r) then aset (row_field r) (row_method r) hs else hs)
            setup_table [].

Definition implemented (p : plugin) (e : Z) : bool := is_set (stub_events p) e.

(* stub.New fails for a plugin without any event handler *)
Definition new_ok (p : plugin) : bool := negb (stub_events p =? 0)%Z.

(* --- Configure ---------------------------------------------------------- *)

(* what the plugin's Configure hook does: absent, fails, or returns a mask
   (EventMask is an int32: -2^31 <= m < 2^31) *)
Inductive cfg_hook := NoHook | HookFails | HookMask (m : Z).
Inductive cfg_result := COk (events : Z) | CErrHook | CErrUnhandled.

(* Configure for a stub whose mask is ev (the mask is a parameter so that the clamping lemmas
   are proved for every mask, without looking into setupHandlers) *)
Definition configure_with (ev : Z) (h : cfg_hook) : cfg_result :=
  match h with
  | NoHook => COk ev
  | HookFails => CErrHook
  | HookMask m =>
      let events := if (configure_zero_default && (m =? 0)%Z)%bool then ev else m in
      let extra := Z.land events (Z.lnot ev) in
      if (configure_rejects_extra && negb (extra =? 0)%Z)%bool then CErrUnhandled else COk events
  end.
Definition configure (p : plugin) (h : cfg_hook) : cfg_result := configure_with (stub_events p) h.

(* Several sessions of ONE stub object (Start ... Stop, Start ...): the stub's state that Configure reads
   is its mask.  [stores] = Configure writes the accepted subscription back into that mask
   (regenerated: configure_stores_events).  Result of the session and the mask the next session sees. *)
Definition configure_st (stores : bool) (ev : Z) (h : cfg_hook) : cfg_result * Z :=
  let r := configure_with ev h in
  (r, match h, r with
      | HookMask _, COk m => if stores then m else ev
      | _, _ => ev
      end).
Fixpoint run_sessions (stores : bool) (ev : Z) (hooks : list cfg_hook) : list cfg_result :=
  match hooks with
  | [] => []
  | h :: rest => fst (configure_st stores ev h) :: run_sessions stores (snd (configure_st stores ev h)) rest
  end.
(* the answers a stub of plugin type p gives in consecutive sessions *)
Definition sessions (p : plugin) (hooks : list cfg_hook) : list cfg_result :=
  run_sessions configure_stores_events (stub_events p) hooks.

(* --- dispatch ----------------------------------------------------------- *)

(* a message from the runtime: the event and its fields, each field reduced to
   a token that identifies its content ("" = the field is absent) *)
Record message := { m_event : Z; m_fields : list (string * string) }.
Definition field (m : message) (name : string) : string :=
  match alookup name (m_fields m) with Some v => v | None => "" end.

(* what a plugin method returns: tokens for adjustment and updates, error text ("" = nil) *)
Record hresult := { r_adjust : string; r_update : string; r_error : string }.
(* what the runtime gets back (ttrpc relays either the response or the error) *)
Inductive reply := ROk (adjust update : string) | RErr (msg : string).

(* one handler invocation: the plugin method that ran and the tokens it was given *)
Definition invocation := (string * list string)%type.

(* the handlers fields that the stub calls for a message carried by RPC [name]:
   (field, request fields passed, response assembled from the results) *)
Definition rpc_row := (string * string * list string * list string * list string)%type.
Definition find_rpc (name : string) : option rpc_row :=
  find (fun r => String.eqb (fst (fst (fst (fst r)))) name) rpc_table.

Definition resp_has (resp : list string) (entry : string) : bool := smem entry resp.

(* assemble the runtime-visible reply from the handler's results the way the RPC
   function does: a response field is relayed iff the function stores the
   corresponding result variable into it; the error iff it returns it *)
Definition relay_rpc (resp : list string) (r : hresult) : reply :=
  if (resp_has resp "error=err" && negb (String.eqb (r_error r) ""))%bool then RErr (r_error r)
  else ROk (if resp_has resp "Adjust=adjust" then r_adjust r else "")
           (if resp_has resp "Update=update" then r_update r else "").

Definition no_reply : reply := ROk "" "".

(* run the calls a StateChange case makes; the last error wins (err = handler(...)) *)
Fixpoint run_calls (hs : list (string * string)) (m : message) (beh : string -> hresult)
         (calls : list (string * list string)) (acc : list invocation) (err : string)
  : list invocation * string :=
  match calls with
  | [] => (acc, err)
  | (fld, args) :: rest =>
      match alookup fld hs with
      | Some meth => run_calls hs m beh rest (acc ++ [(meth, map (field m) args)]) (r_error (beh meth))
      | None => run_calls hs m beh rest acc err
      end
  end.

(* deliver one message to a stub whose handler table is hs and whose plugin methods behave as beh:
   the invocations made (in order) and the reply the runtime sees *)
Definition deliver_with (hs : list (string * string)) (c : carrier) (m : message) (beh : string -> hresult)
  : list invocation * reply :=
  match c with
  | ByRPC name =>
      match find_rpc name with
      | None => ([], no_reply)
      | Some (_, fld, args, _, resp) =>
          match alookup fld hs with
          | None => ([], no_reply)
          | Some meth => ([(meth, map (field m) args)], relay_rpc resp (beh meth))
          end
      end
  | ByStateChange =>
      match zlookup (m_event m) statechange_table with
      | None => ([], no_reply)
      | Some calls =>
          let '(inv, err) := run_calls hs m beh calls [] "" in
          (inv, if String.eqb err "" then no_reply else RErr err)
      end
  end.
Definition deliver (p : plugin) (c : carrier) (m : message) (beh : string -> hresult)
  : list invocation * reply := deliver_with (stub_handlers p) c m beh.

(* the handler id the stub routes an event to: the unique handlers field called *)
Definition handler_of_field (f : string) : option handler :=
  find (fun h => String.eqb (method_of h) f) all_handlers.
Definition dispatch (h : handler) : option handler :=
  match carrier_of h with
  | ByRPC name =>
      match find_rpc name with Some (_, fld, _, _, _) => handler_of_field fld | None => None end
  | ByStateChange =>
      match zlookup (proto_event h) statechange_table with
      | Some [(fld, _)] => handler_of_field fld
      | _ => None
      end
  end.

(* what the property demands of one delivery (reference); b = the plugin implements h *)
Definition expected_with (b : bool) (h : handler) (m : message) (beh : string -> hresult)
  : list invocation * reply :=
  if b then
    let r := beh (method_of h) in
    ([(method_of h, map (field m) (proto_args h))],
     if String.eqb (r_error r) "" then
       ROk (if proto_returns_adjust h then r_adjust r else "") (if proto_returns_update h then r_update r else "")
     else RErr (r_error r))
  else ([], no_reply).
Definition expected_delivery (p : plugin) (h : handler) (m : message) (beh : string -> hresult)
  : list invocation * reply := expected_with (implements p h) h m beh.

(* --- executable predicates over the whole finite domain ----------------- *)

Definition plugins_upto (n : N) : list N := map N.of_nat (seq 0 (N.to_nat n)).
Definition event_bits : list Z := map Z.of_nat (seq 1 31).

(* the stub's mask has exactly the bits of the implemented handlers' events.
   [sub_ok] and [handler_ok] take the stub's mask / handler table as a parameter so that
   (a) the VM computes them once per plugin type and (b) the lemmas about them are
   proved for an arbitrary mask / table, without ever unfolding stub_events. *)
Definition handler_events : list (handler * Z) := map (fun h => (h, proto_event h)) all_handlers.
Definition sub_ok (he : list (handler * Z)) (ev : Z) (p : plugin) (e : Z) : bool :=
  Bool.eqb (is_set ev e) (existsb (fun x => implements p (fst x) && (snd x =? e)%Z) he).
Definition subscription_exact_t (he : list (handler * Z)) (p : plugin) : bool :=
  forallb (sub_ok he (stub_events p) p) event_bits.
Definition all_subscriptions_exact (n : N) : bool :=
  forallb (subscription_exact_t handler_events) (plugins_upto n).

(* field h is bound iff the plugin implements h's interface, and then to h's method *)
Definition handler_ok (hs : list (string * string)) (p : plugin) (h : handler) : bool :=
  match alookup (method_of h) hs with
  | Some meth => implements p h && String.eqb meth (method_of h)
  | None => negb (implements p h)
  end.
Definition handlers_exact (p : plugin) : bool := forallb (handler_ok (stub_handlers p) p) all_handlers.
Definition all_handlers_exact (n : N) : bool := forallb handlers_exact (plugins_upto n).

(* ====================================================================== *)
(* Part 2 — the life cycle                                                 *)
(* ====================================================================== *)

(* The three behaviours of the pinned code that C16 is about, as switches:
   wait_cfg_unguarded      Start's receive on cfgErrC is not released by the loss of the connection
   stale_close_unfiltered  connClosed closes whatever session is current, whichever client it came from
   dead_conn_reused        a failed Start leaves the closed connection in stub.conn *)
Record switches := { wait_cfg_unguarded : bool; stale_close_unfiltered : bool; dead_conn_reused : bool;
  (* a variant of the second defect: connClosed does filter, but by a number that is advanced only when an
     ESTABLISHED session is closed, so the client of a failed Start shares its number with the next client *)
  failed_start_shares_session : bool;
  (* Configure hands its result to Start (the send on cfgErrC) on every way it can end; one switch per way
     that omits it: accepted, the plugin's hook failed, the stub refused the mask (unhandled events) *)
  cfg_ok_unsent : bool; cfg_hookerr_unsent : bool; cfg_reject_unsent : bool;
  (* close() waits for the server loop by receiving from srvErrC — the one-slot channel Run() receives from —
     instead of doneC: a blocked Run and the teardown compete for the single value *)
  close_takes_srv_result : bool;
  (* cfgErrC, the one-slot channel through which Configure reports to Start, is NOT created anew by every
     Start: a result that no Start consumed stays in it and is taken for the next session's *)
  cfg_chan_shared : bool }.

Definition fixed : switches :=
  {| wait_cfg_unguarded := false; stale_close_unfiltered := false; dead_conn_reused := false;
     failed_start_shares_session := false;
     cfg_ok_unsent := false; cfg_hookerr_unsent := false; cfg_reject_unsent := false;
     close_takes_srv_result := false; cfg_chan_shared := false |}.
(* the code as pinned in round 1: all three defects present *)
Definition pinned : switches :=
  {| wait_cfg_unguarded := true; stale_close_unfiltered := true; dead_conn_reused := true;
     failed_start_shares_session := false;
     cfg_ok_unsent := false; cfg_hookerr_unsent := false; cfg_reject_unsent := false;
     close_takes_srv_result := false; cfg_chan_shared := false |}.
(* the repaired code with the session number advanced in close() instead of Start() *)
Definition shared_session : switches :=
  {| wait_cfg_unguarded := false; stale_close_unfiltered := false; dead_conn_reused := false;
     failed_start_shares_session := true;
     cfg_ok_unsent := false; cfg_hookerr_unsent := false; cfg_reject_unsent := false;
     close_takes_srv_result := false; cfg_chan_shared := false |}.
(* the repaired code with explicit sends in Configure, the one on the rejection path missing *)
Definition reject_unsent : switches :=
  {| wait_cfg_unguarded := false; stale_close_unfiltered := false; dead_conn_reused := false;
     failed_start_shares_session := false;
     cfg_ok_unsent := false; cfg_hookerr_unsent := false; cfg_reject_unsent := true;
     close_takes_srv_result := false; cfg_chan_shared := false |}.
(* the repaired code whose close() receives from srvErrC *)
Definition srv_result_shared : switches :=
  {| wait_cfg_unguarded := false; stale_close_unfiltered := false; dead_conn_reused := false;
     failed_start_shares_session := false;
     cfg_ok_unsent := false; cfg_hookerr_unsent := false; cfg_reject_unsent := false;
     close_takes_srv_result := true; cfg_chan_shared := false |}.
(* the repaired code whose cfgErrC is created once, in New() *)
Definition shared_cfg_chan : switches :=
  {| wait_cfg_unguarded := false; stale_close_unfiltered := false; dead_conn_reused := false;
     failed_start_shares_session := false;
     cfg_ok_unsent := false; cfg_hookerr_unsent := false; cfg_reject_unsent := false;
     close_takes_srv_result := false; cfg_chan_shared := true |}.
(* the switch values of the CURRENT code in /repo: read from the shapes of Start and connClosed on
   every run (Model/StubConsts.v; a switch is off only when the repaired shape is recognised) *)
Definition faithful : switches :=
  {| wait_cfg_unguarded := life_wait_cfg_unguarded; stale_close_unfiltered := life_stale_close_unfiltered;
     dead_conn_reused := life_dead_conn_reused; failed_start_shares_session := life_session_not_per_client;
     (* a Configure handler that calls an accessor of the stub which takes the stub lock (held by Start) never
        finishes: its result does not reach Start either, whichever it would have been *)
     cfg_ok_unsent := life_cfg_ok_unsent || life_accessor_takes_lock;
     cfg_hookerr_unsent := life_cfg_hookerr_unsent || life_accessor_takes_lock;
     cfg_reject_unsent := life_cfg_reject_unsent || life_accessor_takes_lock;
     close_takes_srv_result := life_close_takes_srv_result; cfg_chan_shared := life_cfg_chan_shared |}.

(* stub.conn: nil, the socket dialled for generation g (live), or that socket closed / peer gone *)
Inductive conn := CNone | CLive (g : nat) | CDead (g : nat).
Definition kill (c : conn) : conn := match c with CLive g => CDead g | c => c end.
Definition conn_live (c : conn) : bool := match c with CLive _ => true | _ => false end.
Definition conn_gen (c : conn) : option nat := match c with CNone => None | CLive g | CDead g => Some g end.

(* where the stub stands.  Idle: not started, lock free.  Dialing..AwaitConfigure:
   inside Start, lock held (Dialing = connect(); MuxUp = mux, listener, server, client set-up;
   Registering = RegisterPlugin under the registration time-out; AwaitConfigure = <-cfgErrC).
   Configured: started, lock free.  Closing: inside close(), lock held, waiting for the server loop.
   AwaitLost: inside Start, lock held; Configure has been handled but its result was never handed to
   Start, which still sits in its wait: only a lost connection can release it.
   ClosingStuck: inside close(), lock held, waiting for a server result that a blocked Run() has taken. *)
Inductive phase := Idle | Dialing | MuxUp | Registering | AwaitConfigure | AwaitLost | Configured | Closing | ClosingStuck.

Inductive result := ResOk | ResErr | ResAlready.

Record state := {
  gen : nat;                (* ttrpc clients created so far; the newest one has this number *)
  started : bool;           (* stub.started *)
  sconn : conn;             (* stub.conn *)
  ph : phase;
  cli_open : bool;          (* the newest client has not been closed yet (its close notification is still to come) *)
  pending : list nat;       (* close notifications under way: connClosed of that client waits for the lock *)
  closer : option nat;      (* Closing on behalf of: Some g = connClosed of client g, None = Stop *)
  fired : list nat;         (* the plugin's close call-back ran for these clients (newest first) *)
  established : list nat;   (* clients whose session reached Configured (newest first) *)
  waiters : list nat;       (* Wait calls blocked on the doneC of that session *)
  last_start : option result; (* result of the most recent Start that returned *)
  runners : list nat;         (* Run calls blocked on the srvErrC of that session (Run = Start, then this receive) *)
  stale_cfg : bool            (* a Configure result of an EARLIER session that no Start consumed is still in cfgErrC
                                 (possible only when the channel is not created anew by every Start) *)
}.

Definition init : state :=
  {| gen := 0; started := false; sconn := CNone; ph := Idle; cli_open := false; pending := [];
     closer := None; fired := []; established := []; waiters := []; last_start := None; runners := []; stale_cfg := false |}.

Inductive action :=
(* calls made by the plugin's threads *)
| AStart | AStop | AWait
| ARunWait                          (* Run(): its Start has returned nil, Run now receives from srvErrC *)
| IRunTakes                         (* the blocked Run() takes the server result that close() is waiting for *)
(* the ttrpc client of generation g runs its close call-back: stub.connClosed *)
| ADeliver (g : nat)
(* environment, as observed by the stub *)
| EDialOk | EDialFail               (* connect(): the dial returns *)
| ISetupOk | ISetupFail             (* mux / listener / server / client set-up (internal; can fail on bad options) *)
| ERegOk | ERegRefused              (* RegisterPlugin answered *)
| ETimeout                          (* the registration time-out expires (silent peer) *)
| ECfgOk | ECfgErr | ECfgRejected   (* Configure handled: accepted / the plugin's hook failed / the stub refused the mask *)
| ECfgLate                          (* a Configure handler posts a (nil) result that no Start is waiting for any more — it was
                                       still running when its session's Start gave up, or ran although registration failed *)
| EConnLost                         (* the connection is lost (peer closes, or the stub notices a dead one) *)
| IServeDone.                       (* the ttrpc server loop returns after rpcs.Close(): doneC is closed *)

Definition set_ph (s : state) (p : phase) : state :=
  {| gen := gen s; started := started s; sconn := sconn s; ph := p; cli_open := cli_open s; pending := pending s;
     closer := closer s; fired := fired s; established := established s; waiters := waiters s;
     last_start := last_start s; runners := runners s; stale_cfg := stale_cfg s |}.

(* the newest client goes away (closed by the stub, or its receive loop fails):
   it emits its one close notification *)
Definition emit_close (s : state) : state :=
  if cli_open s then
    {| gen := gen s; started := started s; sconn := sconn s; ph := ph s; cli_open := false;
       pending := pending s ++ [gen s];
       closer := closer s; fired := fired s; established := established s; waiters := waiters s;
       last_start := last_start s; runners := runners s; stale_cfg := stale_cfg s |}
  else s.

(* Start returns an error: the deferred clean-ups close client, server, listener and mux
   (hence the socket); stub.conn is left in place by the pinned code *)
Definition fail_start (sw : switches) (s : state) : state :=
  let s1 := emit_close s in
  {| gen := gen s1; started := false;
     sconn := if dead_conn_reused sw then kill (sconn s1) else CNone;
     ph := Idle; cli_open := false; pending := pending s1; closer := None; fired := fired s1;
     established := established s1; waiters := waiters s1; last_start := Some ResErr; runners := runners s1; stale_cfg := stale_cfg s1 |}.

(* close() with started = true: everything is closed, then it waits for the server loop *)
Definition begin_close (s : state) (by_ : option nat) : state :=
  let s1 := emit_close s in
  {| gen := gen s1; started := true; sconn := kill (sconn s1); ph := Closing; cli_open := false;
     pending := pending s1; closer := by_; fired := fired s1; established := established s1;
     waiters := waiters s1; last_start := last_start s1; runners := runners s1; stale_cfg := stale_cfg s1 |}.

Fixpoint remove_first (g : nat) (l : list nat) : list nat :=
  match l with [] => [] | x :: r => if Nat.eqb x g then r else x :: remove_first g r end.
Definition memn (g : nat) (l : list nat) : bool := existsb (Nat.eqb g) l.

(* client g was created under the session number that is current now: no established session
   x with g <= x < gen was closed in between *)
Definition shares_session (s : state) (g : nat) : bool :=
  negb (existsb (fun x => Nat.leb g x && Nat.ltb x (gen s)) (established s)).

Fixpoint remove_all (g : nat) (l : list nat) : list nat :=
  match l with [] => [] | x :: r => if Nat.eqb x g then remove_all g r else x :: remove_all g r end.

Definition lock_free (s : state) : bool :=
  match ph s with Idle | Configured => true | _ => false end.
Definition start_pending (s : state) : bool :=
  match ph s with Dialing | MuxUp | Registering | AwaitConfigure | AwaitLost => true | _ => false end.

Definition step (sw : switches) (s : state) (a : action) : state :=
  match a, ph s with
  (* ---- Start ---- *)
  | AStart, Idle =>
      (* doneC = make(...); connect(): a connection left in stub.conn is used as it is *)
      match sconn s with
      | CNone => set_ph s Dialing
      | _ => set_ph s MuxUp
      end
  | AStart, Configured =>            (* "stub already started" *)
      {| gen := gen s; started := started s; sconn := sconn s; ph := ph s; cli_open := cli_open s;
         pending := pending s; closer := closer s; fired := fired s; established := established s;
         waiters := waiters s; last_start := Some ResAlready; runners := runners s; stale_cfg := stale_cfg s |}
  | EDialOk, Dialing =>
      {| gen := gen s; started := false; sconn := CLive (S (gen s)); ph := MuxUp; cli_open := false;
         pending := pending s; closer := None; fired := fired s; established := established s;
         waiters := waiters s; last_start := last_start s; runners := runners s; stale_cfg := stale_cfg s |}
  | EDialFail, Dialing =>            (* nothing was set up: no client, no notification, conn stays nil *)
      {| gen := gen s; started := false; sconn := CNone; ph := Idle; cli_open := false;
         pending := pending s; closer := None; fired := fired s; established := established s;
         waiters := waiters s; last_start := Some ResErr; runners := runners s; stale_cfg := stale_cfg s |}
  | ISetupOk, MuxUp =>               (* the client of the next generation exists from here on *)
      {| gen := S (gen s); started := false; sconn := sconn s; ph := Registering; cli_open := true;
         pending := pending s; closer := None; fired := fired s; established := established s;
         waiters := waiters s; last_start := last_start s; runners := runners s; stale_cfg := stale_cfg s |}
  | ISetupFail, MuxUp => fail_start sw s
  | ERegOk, Registering =>
      if conn_live (sconn s) then
        if stale_cfg s then
          (* Start finds a result in cfgErrC at once and takes it for its own: "configured" *)
          {| gen := gen s; started := true; sconn := sconn s; ph := Configured; cli_open := cli_open s;
             pending := pending s; closer := None; fired := fired s; established := gen s :: established s;
             waiters := waiters s; last_start := Some ResOk; runners := runners s; stale_cfg := false |}
        else set_ph s AwaitConfigure
      else s
  | ECfgLate, Idle | ECfgLate, Dialing | ECfgLate, MuxUp | ECfgLate, Registering =>
      if cfg_chan_shared sw then
        {| gen := gen s; started := started s; sconn := sconn s; ph := ph s; cli_open := cli_open s;
           pending := pending s; closer := closer s; fired := fired s; established := established s;
           waiters := waiters s; last_start := last_start s; runners := runners s; stale_cfg := true |}
      else s  (* the result went into the channel of the session that is over *)
  | ERegRefused, Registering => if conn_live (sconn s) then fail_start sw s else s
  | ETimeout, Registering => fail_start sw s
  | EConnLost, Registering =>
      fail_start sw (emit_close {| gen := gen s; started := started s; sconn := kill (sconn s); ph := ph s;
                                   cli_open := cli_open s; pending := pending s; closer := closer s;
                                   fired := fired s; established := established s; waiters := waiters s;
                                   last_start := last_start s; runners := runners s; stale_cfg := stale_cfg s |})
  | ECfgOk, AwaitConfigure =>
      if conn_live (sconn s) then
        if cfg_ok_unsent sw then set_ph s AwaitLost else
        {| gen := gen s; started := true; sconn := sconn s; ph := Configured; cli_open := cli_open s;
           pending := pending s; closer := None; fired := fired s; established := gen s :: established s;
           waiters := waiters s; last_start := Some ResOk; runners := runners s; stale_cfg := stale_cfg s |}
      else s
  | ECfgErr, AwaitConfigure =>
      if conn_live (sconn s) then (if cfg_hookerr_unsent sw then set_ph s AwaitLost else fail_start sw s) else s
  | ECfgRejected, AwaitConfigure =>
      if conn_live (sconn s) then (if cfg_reject_unsent sw then set_ph s AwaitLost else fail_start sw s) else s
  | EConnLost, AwaitConfigure | EConnLost, AwaitLost =>
      let s1 := emit_close {| gen := gen s; started := started s; sconn := kill (sconn s); ph := ph s;
                              cli_open := cli_open s; pending := pending s; closer := closer s;
                              fired := fired s; established := established s; waiters := waiters s;
                              last_start := last_start s; runners := runners s; stale_cfg := stale_cfg s |} in
      if wait_cfg_unguarded sw then s1 (* nobody tells Start: it keeps waiting, holding the lock *)
      else fail_start sw s1
  (* ---- established session ---- *)
  | EConnLost, Configured =>
      emit_close {| gen := gen s; started := started s; sconn := kill (sconn s); ph := ph s;
                    cli_open := cli_open s; pending := pending s; closer := closer s;
                    fired := fired s; established := established s; waiters := waiters s;
                    last_start := last_start s; runners := runners s; stale_cfg := stale_cfg s |}
  | AStop, Configured => begin_close s None
  | AWait, Configured =>
      {| gen := gen s; started := started s; sconn := sconn s; ph := ph s; cli_open := cli_open s;
         pending := pending s; closer := closer s; fired := fired s; established := established s;
         waiters := gen s :: waiters s; last_start := last_start s; runners := runners s; stale_cfg := stale_cfg s |}
  | ARunWait, Configured =>
      {| gen := gen s; started := started s; sconn := sconn s; ph := ph s; cli_open := cli_open s;
         pending := pending s; closer := closer s; fired := fired s; established := established s;
         waiters := waiters s; last_start := last_start s; runners := gen s :: runners s; stale_cfg := stale_cfg s |}
  | IServeDone, Closing =>
      (* the server loop has returned: its result goes into srvErrC, doneC is closed; close() goes on.
         A Run blocked on this session gets the result — unless close() itself receives from srvErrC and wins *)
      {| gen := gen s; started := false; sconn := CNone; ph := Idle; cli_open := false;
         pending := pending s; closer := None;
         fired := match closer s with Some g => g :: fired s | None => fired s end;
         established := established s; waiters := []; last_start := last_start s;
         runners := if close_takes_srv_result sw then runners s else remove_all (gen s) (runners s); stale_cfg := stale_cfg s |}
  | IRunTakes, Closing =>
      (* only when close() receives from srvErrC and a Run is blocked on this session: Run wins, returns;
         doneC is closed (Wait calls return); close() waits for ever *)
      if close_takes_srv_result sw && memn (gen s) (runners s) then
        {| gen := gen s; started := started s; sconn := sconn s; ph := ClosingStuck; cli_open := cli_open s;
           pending := pending s; closer := closer s; fired := fired s; established := established s;
           waiters := []; last_start := last_start s; runners := remove_all (gen s) (runners s); stale_cfg := stale_cfg s |}
      else s
  (* ---- connClosed of client g ---- *)
  | ADeliver g, Idle =>
      if memn g (pending s) then
        {| gen := gen s; started := started s; sconn := sconn s; ph := ph s; cli_open := cli_open s;
           pending := remove_first g (pending s); closer := closer s; fired := g :: fired s;
           established := established s; waiters := waiters s; last_start := last_start s; runners := runners s; stale_cfg := stale_cfg s |}
      else s
  | ADeliver g, Configured =>
      if memn g (pending s) then
        let s1 := {| gen := gen s; started := started s; sconn := sconn s; ph := ph s; cli_open := cli_open s;
                     pending := remove_first g (pending s); closer := closer s; fired := fired s;
                     established := established s; waiters := waiters s; last_start := last_start s; runners := runners s; stale_cfg := stale_cfg s |} in
        if Nat.eqb g (gen s) || stale_close_unfiltered sw || (failed_start_shares_session sw && shares_session s g)
        then begin_close s1 (Some g)
        else {| gen := gen s1; started := started s1; sconn := sconn s1; ph := ph s1; cli_open := cli_open s1;
                pending := pending s1; closer := closer s1; fired := g :: fired s1;
                established := established s1; waiters := waiters s1; last_start := last_start s1; runners := runners s1; stale_cfg := stale_cfg s1 |}
      else s
  (* everything else: the call blocks on the lock / returns without effect (Stop and Wait
     when not started), or the event cannot occur in this phase *)
  | _, _ => s
  end.

Definition run (sw : switches) (s : state) (l : list action) : state := fold_left (step sw) l s.

(* the environment / timer / internal events that can occur while a Start is under way;
   in Registering the timer is always among them; a dead connection can only be noticed *)
Definition enabled_env (sw : switches) (s : state) : list action :=
  match ph s with
  | Dialing => [EDialOk; EDialFail]
  | MuxUp => [ISetupOk; ISetupFail]
  | Registering =>
      if conn_live (sconn s) then [ERegOk; ERegRefused; EConnLost; ETimeout] else [EConnLost; ETimeout]
  | AwaitConfigure =>
      if conn_live (sconn s) then [ECfgOk; ECfgErr; ECfgRejected; EConnLost] else []
  | AwaitLost => []   (* a runtime end that keeps the connection is not bound to do anything any more *)
  | Closing => [IServeDone]
  | _ => []
  end.

(* how far a Start is from returning *)
Definition rank (s : state) : nat :=
  match ph s with Dialing => 4 | MuxUp => 3 | Registering => 2 | AwaitConfigure | AwaitLost => 1 | _ => 0 end.

(* the scheduler lets every waiting connClosed and the server loop run: deliver what can be delivered *)
Fixpoint drain (sw : switches) (fuel : nat) (s : state) : state :=
  match fuel with
  | O => s
  | S f =>
      match ph s with
      | Closing => drain sw f (step sw s IServeDone)
      | Idle | Configured =>
          match pending s with
          | g :: _ => drain sw f (step sw s (ADeliver g))
          | [] => s
          end
      | _ => s
      end
  end.
Definition drain_fuel (s : state) : nat := 2 * length (pending s) + 4.
Definition settle (sw : switches) (s : state) : state := drain sw (drain_fuel s) s.

(* the same with the other outcome of the competition for the server result (only when close()
   receives from srvErrC and a Run is blocked on the session): the blocked Run wins *)
Fixpoint drain_r (sw : switches) (fuel : nat) (s : state) : state :=
  match fuel with
  | O => s
  | S f =>
      match ph s with
      | Closing =>
          if close_takes_srv_result sw && memn (gen s) (runners s) then step sw s IRunTakes
          else drain_r sw f (step sw s IServeDone)
      | Idle | Configured =>
          match pending s with
          | g :: _ => drain_r sw f (step sw s (ADeliver g))
          | [] => s
          end
      | _ => s
      end
  end.
Definition settle_r (sw : switches) (s : state) : state := drain_r sw (drain_fuel s) s.

Fixpoint count_occ_nat (g : nat) (l : list nat) : nat :=
  match l with [] => 0 | x :: r => (if Nat.eqb x g then 1 else 0) + count_occ_nat g r end.

(* ---------------------------------------------------------------------- *)
(* Operations as a plugin (and the correspondence driver) performs them     *)
(* ---------------------------------------------------------------------- *)

(* what the runtime end does with one Start *)
Inductive behaviour :=
| BHealthy          (* registers, configures, synchronizes *)
| BUnreachable      (* the dial fails *)
| BRefuse           (* RegisterPlugin answered with an error *)
| BDropInReg        (* connection dropped on receipt of RegisterPlugin, no answer *)
| BSilentReg        (* RegisterPlugin never answered: the registration time-out expires *)
| BDropAfterReg     (* registration answered, connection dropped before Configure is sent *)
| BCfgError         (* the plugin's Configure hook fails; the runtime end keeps the connection *)
| BCfgReject        (* the hook returns an event without handler: the stub refuses; the runtime end keeps the connection *)
| BCfgErrorDrop     (* as BCfgError, and the runtime end then drops the connection (as pkg/adaptation does) *)
| BCfgRejectDrop    (* as BCfgReject, then dropped *)
| BDropInSlowCfg    (* the connection is dropped while the plugin's slow Configure hook is still running; the hook
                       finishes (and reports) after Start has given up *)
| BCfgThenRefuse    (* the runtime end configures the plugin BEFORE answering RegisterPlugin, then refuses the registration *)
| BDropAfterCfg.    (* configured, then the connection is dropped *)

Definition start_actions (b : behaviour) : list action :=
  match b with
  | BHealthy => [AStart; EDialOk; ISetupOk; ERegOk; ECfgOk]
  | BUnreachable => [AStart; EDialFail; ISetupOk]  (* ISetupOk: only when no dial was needed (a connection was left in place) *)
  | BRefuse => [AStart; EDialOk; ISetupOk; ERegRefused]
  | BDropInReg => [AStart; EDialOk; ISetupOk; EConnLost]
  | BSilentReg => [AStart; EDialOk; ISetupOk; ETimeout]
  | BDropAfterReg => [AStart; EDialOk; ISetupOk; ERegOk; EConnLost]
  | BCfgError => [AStart; EDialOk; ISetupOk; ERegOk; ECfgErr]
  | BCfgReject => [AStart; EDialOk; ISetupOk; ERegOk; ECfgRejected]
  | BCfgErrorDrop => [AStart; EDialOk; ISetupOk; ERegOk; ECfgErr; EConnLost]
  | BCfgRejectDrop => [AStart; EDialOk; ISetupOk; ERegOk; ECfgRejected; EConnLost]
  | BDropInSlowCfg => [AStart; EDialOk; ISetupOk; ERegOk; EConnLost; ECfgLate]
  | BCfgThenRefuse => [AStart; EDialOk; ISetupOk; ERegRefused; ECfgLate]
  | BDropAfterCfg => [AStart; EDialOk; ISetupOk; ERegOk; ECfgOk; EConnLost]
  end.

Definition is_registering (s : state) : bool := match ph s with Registering => true | _ => false end.

(* one Start against a runtime end behaving as b: the environment events of b in order (events
   that cannot occur in the phase reached are skipped by [step]); a registration attempted on a
   dead connection is noticed as a lost connection; on a started stub Start fails at once *)
Definition run_start (sw : switches) (s : state) (b : behaviour) : state :=
  match ph s with
  | Configured => step sw s AStart   (* "stub already started": nothing reaches the runtime end *)
  | _ =>
      let s1 := run sw s (start_actions b) in
      if is_registering s1 && negb (conn_live (sconn s1)) then step sw s1 EConnLost else s1
  end.

(* Run against a runtime end behaving as b: as run_start, and at the moment its Start returns nil
   (the step that ends a pending Start in Configured) Run goes on to its receive from srvErrC *)
Definition is_configured (s : state) : bool := match ph s with Configured => true | _ => false end.
Definition step_run (sw : switches) (s : state) (a : action) : state :=
  let s' := step sw s a in
  if start_pending s && is_configured s' then step sw s' ARunWait else s'.
Definition run_run (sw : switches) (s : state) (b : behaviour) : state :=
  match ph s with
  | Configured => step sw s AStart
  | _ =>
      let s1 := fold_left (step_run sw) (start_actions b) s in
      if is_registering s1 && negb (conn_live (sconn s1)) then step sw s1 EConnLost else s1
  end.

Inductive op :=
| OStart (b : behaviour)      (* Start, then wait until everything under way has happened *)
| ORun (b : behaviour)        (* Run in a thread of its own: its Start as above; if that succeeds Run stays blocked
                                 until the session ends *)
| OStop | OWait | OLose       (* Stop / a Wait call in the background / the runtime drops an established session *)
| OStopStart (b : behaviour)  (* Stop immediately followed by Start: the close notification of the
                                 stopped session may run before or after the new Start *)
| OStartMany (b : behaviour) (n : nat) (* n Starts in a row against b (each returns before the next), observed once at the end *)
| OStartStart (f b : behaviour). (* Start against a runtime behaving as f (meant to fail) immediately followed
                                 by Start against b: the close notification of the first attempt's client
                                 may run before or after the second Start *)

(* what is observed of one operation *)
Inductive oclass := KOk | KErr | KReturned | KBlocked
| KCrashed.  (* the process died (a panic in the code under test); no model predicts this, under any switches *)
Record obs := {
  o_class : oclass;
  o_started : option bool;  (* IsStarted; None = the call does not return (the lock is held for ever) *)
  o_closes : nat;           (* close call-backs seen so far *)
  o_waiting : nat;          (* Wait calls still blocked *)
  o_running : nat           (* Run calls still blocked *)
}.

Definition observe (k : oclass) (s : state) : obs :=
  {| o_class := k; o_started := if lock_free s then Some (started s) else None;
     o_closes := length (fired s); o_waiting := length (waiters s); o_running := length (runners s) |}.

Definition start_class (s : state) : oclass :=
  if start_pending s then KBlocked
  else match last_start s with Some ResOk => KOk | _ => KErr end.

Definition serve_done (sw : switches) (s : state) : state :=
  match ph s with Closing => step sw s IServeDone | _ => s end.

(* the possible outcomes of one operation (more than one only where the schedule matters) *)
(* Stop / connection loss: returned, or — the lock is not free afterwards — the teardown hangs *)
Definition end_class (s : state) : oclass := if lock_free s then KReturned else KBlocked.

(* the outcomes of one operation for one way [st] of letting everything under way happen *)
Definition do_op_with (st : switches -> state -> state) (sw : switches) (s : state) (o : op) : list (state * obs) :=
  match o with
  | OStart b =>
      let s1 := st sw (run_start sw s b) in [(s1, observe (start_class s1) s1)]
  | ORun b =>
      let s1 := st sw (run_run sw s b) in [(s1, observe (start_class s1) s1)]
  | OStartMany b n =>
      let s1 := Nat.iter n (fun x => st sw (run_start sw x b)) s in [(s1, observe (start_class s1) s1)]
  | OStop => let s1 := st sw (step sw s AStop) in [(s1, observe (end_class s1) s1)]
  | OWait => let s1 := step sw s AWait in [(s1, observe KReturned s1)]
  | OLose => let s1 := st sw (step sw s EConnLost) in [(s1, observe KReturned s1)]
  | OStopStart b =>
      let s0 := serve_done sw (step sw s AStop) in
      let late := st sw (run_start sw s0 b) in              (* the new Start wins the lock *)
      let early := st sw (run_start sw (st sw s0) b) in     (* the old notification runs first *)
      [(late, observe (start_class late) late); (early, observe (start_class early) early)]
  | OStartStart f b =>
      let s0 := run_start sw s f in
      if start_pending s0 then [(s0, observe KBlocked s0)]
      else
        let late := st sw (run_start sw s0 b) in
        let early := st sw (run_start sw (st sw s0) b) in
        [(late, observe (start_class late) late); (early, observe (start_class early) early)]
  end.

(* the possible outcomes of one operation (more than one only where the schedule matters) *)
Definition do_op (sw : switches) (s : state) (o : op) : list (state * obs) :=
  if negb (lock_free s) then [(s, observe KBlocked s)]
  else do_op_with settle sw s o ++
       (if close_takes_srv_result sw then do_op_with settle_r sw s o else []).

(* nothing is attempted any more once an operation did not return or left the stub lock held *)
Definition is_blocked (o : obs) : bool :=
  match o_class o, o_started o with KBlocked, _ => true | _, None => true | _, _ => false end.

(* all possible observation sequences of a sequence of operations; nothing is attempted any
   more once an operation did not return *)
Fixpoint run_ops (sw : switches) (s : state) (ops : list op) : list (list obs) :=
  match ops with
  | [] => [[]]
  | o :: rest =>
      flat_map (fun so : state * obs =>
                  if is_blocked (snd so) then [[snd so]]
                  else map (cons (snd so)) (run_ops sw (fst so) rest))
               (do_op sw s o)
  end.
