#!/bin/sh
# Builds the framework from files on disk only (offline): Go harness (from /repo's tree), generated Coq
# files, full .vo build of the Coq development.
set -e
cd "$(dirname "$0")"
export GOFLAGS=-mod=mod GOPROXY=off GOSUMDB=off GOTOOLCHAIN=local
python3 - <<'PY'
import sys, os
sys.path.insert(0, "lib")
import vcheck
import props
vcheck.regen_generated(vcheck.all_generated())
vcheck.build_go(sorted(set(P["binary"] for P in props.PROPS.values())))
vcheck.ensure_makefile()
ok, log = vcheck.make_targets([], timeout=7200)
print(log[-3000:])
sys.exit(0 if ok else 1)
PY
