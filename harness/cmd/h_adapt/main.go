// h_adapt drives the real runtime adaptation (pkg/adaptation) with pools of
// scripted in-process plugins, and the real OCI spec generator
// (pkg/runtime-tools/generate), and writes correspondence cases for the Coq
// models Model/Result.v and Model/Generate.v (properties C01..C05, C13).
package main

import (
	"context"
	"encoding/json"
	"fmt"
	"os"
	"reflect"
	"sort"
	"strings"
	"sync"
	"time"

	"github.com/containerd/nri/pkg/adaptation"
	"github.com/containerd/nri/pkg/api"

	"verif/harness/internal/coqfmt"
	"verif/harness/internal/hx"
	"verif/harness/internal/nm"
	"verif/harness/internal/rt"
)

func main() {
	hx.Main(map[string]func(*hx.Ctx) error{"adapt": driveAdapt, "gen": driveGen})
}

const imports = "From NRI Require Import Base.Strs Base.Assoc Model.Types Model.Result Model.Generate Spec.Apply Spec.AbsLedger Spec.Updates Run.RunAdapt."

// pool is one Adaptation with registered plugins in index order.
type pool struct {
	rt      *rt.Runtime
	plugins []*rt.Plugin // ascending index
}

func newPool(base string, idx []string, regOrder []int, twins bool, events func(k int) []string) (*pool, error) {
	// time-outs are not under test in this driver: a scripted plugin that is merely slow under load (race
	// detector, concurrent callers, a busy machine) must not be dropped by the runtime
	adaptation.SetPluginRegistrationTimeout(60 * time.Second)
	adaptation.SetPluginRequestTimeout(60 * time.Second)
	r, err := rt.New(base)
	if err != nil {
		return nil, err
	}
	p := &pool{rt: r, plugins: make([]*rt.Plugin, len(idx))}
	for _, k := range regOrder {
		name := fmt.Sprintf("p%d", k+1)
		if twins {
			name = "twin" // every instance registers under the same index and name
		}
		var ev []string
		if events != nil {
			ev = events(k)
		}
		pl, err := r.AddPlugin(idx[k], name, ev...)
		if err != nil {
			r.Close()
			return nil, err
		}
		p.plugins[k] = pl
	}
	if twins {
		if err := p.calibrate(); err != nil {
			r.Close()
			return nil, err
		}
	}
	return p, nil
}

// calibrate measures the invocation order of a pool whose plugins share one index (the order among equal
// indices is not specified, only fixed until the next registration): every plugin adds one environment
// variable to a probe container and the reply lists them in invocation order.
func (p *pool) calibrate() error {
	const id = "calibrate"
	for k, pl := range p.plugins {
		pl.Script(id, rt.Answer{Adjust: &api.ContainerAdjustment{Env: []*api.KeyValue{{Key: fmt.Sprintf("ORD%d", k), Value: "1"}}}})
	}
	pod := &api.PodSandbox{Id: "pod-" + id, Name: "pod"}
	rpl, err := p.rt.A.CreateContainer(context.Background(), &api.CreateContainerRequest{Pod: pod, Container: &api.Container{Id: id, PodSandboxId: pod.Id, Name: id}})
	if err != nil {
		return fmt.Errorf("calibrating the twin pool: %w", err)
	}
	var order []*rt.Plugin
	for _, e := range rpl.GetAdjust().GetEnv() {
		var k int
		if _, err := fmt.Sscanf(e.Key, "ORD%d", &k); err == nil && k >= 0 && k < len(p.plugins) {
			order = append(order, p.plugins[k])
		}
	}
	if len(order) != len(p.plugins) {
		return fmt.Errorf("calibrating the twin pool: %d of %d plugins answered", len(order), len(p.plugins))
	}
	for _, pl := range p.plugins {
		pl.TakeSeen(id)
	}
	p.plugins = order
	return nil
}

func errClass(err error) (int, string) {
	if err == nil {
		return 0, ""
	}
	t := err.Error()
	switch {
	case strings.Contains(t, "both tried to set"):
		return 1, t
	case strings.Contains(t, "during creation"):
		return 2, t
	}
	return 3, t
}

// execute runs one case against the pool and records the observation.
func (p *pool) execute(c *Case) error {
	id := c.Container.ID
	var adjs []*api.ContainerAdjustment
	for k, pos := range c.Plugins {
		rp := c.Resps[k]
		a := rt.Answer{Adjust: rp.Adjust.ToAPI()}
		for _, u := range rp.Updates {
			a.Updates = append(a.Updates, u.ToAPI())
		}
		p.plugins[pos].Script(id, a)
		adjs = append(adjs, rp.Adjust.ToAPI())
	}
	pod := &api.PodSandbox{Id: "pod-" + id, Name: "pod"}
	ctx := context.Background()
	var err error
	// a panic inside the adaptation is an observation (the runtime process would have died), not a reason to
	// stop the driver: it is recorded as error class 4 and judged by the predicates
	defer func() {
		if r := recover(); r != nil {
			c.Err, c.ErrText = 4, fmt.Sprintf("panic: %v", r)
			c.Reply, c.Updates, c.Combined, c.Sequent = nil, nil, nil, nil
			for _, pos := range c.Plugins {
				p.plugins[pos].TakeSeen(id)
			}
			c.Views = nil
			c.Crashed = true
		}
	}()
	switch c.Kind {
	case "create":
		var rpl *api.CreateContainerResponse
		rpl, err = p.rt.A.CreateContainer(ctx, &api.CreateContainerRequest{Pod: pod, Container: c.Container.ToAPI(pod.Id)})
		if err == nil {
			c.Reply = nm.AdjustFromAPI(rpl.Adjust)
			c.Updates = nm.OutUpdatesFromAPI(rpl.Update)
			// C03: the real generator on the real reply vs plugin by plugin
			comb, e1 := applyAll(c.Container, []*api.ContainerAdjustment{rpl.Adjust})
			seq, e2 := applyAll(c.Container, adjs)
			if e1 != nil || e2 != nil {
				return fmt.Errorf("generator failed: %v / %v", e1, e2)
			}
			c.Combined, c.Sequent = comb, seq
		}
	case "update":
		var rpl *api.UpdateContainerResponse
		rpl, err = p.rt.A.UpdateContainer(ctx, &api.UpdateContainerRequest{Pod: pod, Container: c.Container.ToAPI(pod.Id), LinuxResources: c.ReqRes.ToAPI()})
		if err == nil {
			c.Updates = nm.OutUpdatesFromAPI(rpl.Update)
		}
	case "stop":
		var rpl *api.StopContainerResponse
		rpl, err = p.rt.A.StopContainer(ctx, &api.StopContainerRequest{Pod: pod, Container: c.Container.ToAPI(pod.Id)})
		if err == nil {
			c.Updates = nm.OutUpdatesFromAPI(rpl.Update)
		}
	}
	c.Err, c.ErrText = errClass(err)
	// class 3: an error that is neither a conflict nor the self-update refusal; an observation, judged by the
	// predicates (C02: no conflict => no error) and reported by the Go oracle below
	asked := true
	for _, pos := range c.Plugins {
		s, ok := p.plugins[pos].TakeSeen(id)
		if !ok {
			asked = false
			continue
		}
		if !asked {
			return fmt.Errorf("case %s: a plugin was invoked after one that was not", id)
		}
		v := View{}
		if c.Kind == "update" {
			v.Res = nm.ResFromAPI(s.Resources)
		} else if c.Kind == "create" {
			v.Container = nm.ContainerFromAPI(s.Container)
		} else {
			v.Container = &nm.Container{ID: s.Container.GetId()}
		}
		c.Views = append(c.Views, v)
	}
	return nil
}

func (c *Case) Coq() string {
	var rq string
	switch c.Kind {
	case "create":
		rq = "RCreate " + c.Container.Coq()
	case "update":
		rq = "RUpdate " + coqfmt.Str(c.Container.ID) + " " + c.ReqRes.Coq()
	default:
		rq = "RStop " + coqfmt.Str(c.Container.ID)
	}
	resps := make([]string, len(c.Resps))
	for i, r := range c.Resps {
		resps[i] = r.Coq()
	}
	views := make([]string, len(c.Views))
	for i, v := range c.Views {
		switch {
		case c.Kind == "create":
			views[i] = "ShownContainer " + v.Container.Coq()
		case c.Kind == "update":
			views[i] = "ShownResources " + v.Res.Coq()
		default:
			views[i] = "ShownNothing"
		}
	}
	spec := func(s *SpecObs) string {
		if s == nil {
			return "None"
		}
		return "(Some " + s.Coq() + ")"
	}
	return fmt.Sprintf("{| ac_req := %s;\n     ac_resps := %s;\n     ac_err := %s; ac_views := %s;\n     ac_reply := %s; ac_updates := %s;\n     ac_combined := %s; ac_sequential := %s |}",
		rq, coqfmt.List(resps), coqfmt.Nat(c.Err), coqfmt.List(views), c.Reply.Coq(), nm.OutUpdatesCoq(c.Updates), spec(c.Combined), spec(c.Sequent))
}

// ------------------------------------------------------------------ planning of cases

func (g *G) subset(poolSize, n int) []int {
	s := g.r.Perm(poolSize)[:n]
	sort.Ints(s)
	return s
}

func (g *G) planCreate(stream string, id string, poolSize int, kind Item, variant int) *Case {
	n := 1 + g.r.Intn(poolSize)
	if strings.HasPrefix(stream, "collide") && n < 2 {
		n = 2 + g.r.Intn(poolSize-1)
	}
	between := strings.HasPrefix(stream, "collide") && (variant == 2 || variant == 4) // needs a plugin in between
	if between && n < 3 {
		n = 3 + g.r.Intn(poolSize-2)
	}
	c := &Case{Kind: "create", Stream: stream, Container: g.container(id, stream == "removal"), Plugins: g.subset(poolSize, n)}
	g.echoC, g.echoRes = c.Container, c.Container.Res
	p := newPlanner(g, n)
	targets := []string{"o1", "o2", ""} // "": an update that names no container is an update of the container named "" (a target of its own)
	switch {
	case stream == "disjoint", stream == "removal":
		p.dealDisjoint(true, targets, 5)
	case strings.HasPrefix(stream, "collide"):
		p.dealDisjoint(true, targets, 3)
		j := 1 + g.r.Intn(n-1)
		i := g.r.Intn(j)
		if between {
			j = 2 + g.r.Intn(n-2)
			i = g.r.Intn(j - 1)
		}
		via := ""
		if updatable(kind) && g.r.Intn(2) == 0 {
			via = targets[g.r.Intn(len(targets))]
		}
		_, c.Note = p.collide(kind, i, j, variant, via)
	case stream == "selfupdate":
		p.dealDisjoint(true, targets, 3)
		who := g.r.Intn(n)
		p.update(who, id, g.randomItems(updatableItems, 1), g.r.Intn(2) == 0, false)
		c.Note = fmt.Sprintf("self-update by %d", who)
	case stream == "ignore":
		p.dealDisjoint(true, targets, 2)
		g.planIgnored(p, n, targets)
	default: // mixed: independent random choices, collisions by chance
		for who := 0; who < n; who++ {
			for _, it := range g.randomItems(allItems(), g.r.Intn(5)) {
				p.act(who, it, []Op{OpSet, OpSet, OpRemove, OpRemoveSet}[g.r.Intn(4)])
			}
			if g.r.Intn(3) == 0 {
				p.update(who, targets[g.r.Intn(len(targets))], g.randomItems(updatableItems, 1+g.r.Intn(2)), g.r.Intn(4) == 0, false)
			}
		}
	}
	c.Resps = p.responses()
	// hooks never conflict: a third of the plugins that answer with an adjustment also append hooks (the view
	// of every hook list and the order of all plugins' hooks in the reply are compared)
	for i := range c.Resps {
		if c.Resps[i].Adjust != nil && g.r.Intn(3) == 0 {
			c.Resps[i].Adjust.Hooks = g.hooks(c.Plugins[i] + 1)
		}
	}
	return c
}

// planIgnored creates a collision inside updates where the later update is marked ignore-failure and
// carries further fields (which must all be dropped); no later plugin touches the fields of the dropped
// update (interpretation I2).
func (g *G) planIgnored(p *planner, n int, targets []string) {
	if n < 2 {
		return
	}
	j := 1 + g.r.Intn(n-1)
	i := g.r.Intn(j)
	t := targets[g.r.Intn(len(targets))]
	its := g.randomItems(updatableItems, 3)
	var mine []Item
	for _, it := range its {
		if p.free(t, it) {
			mine = append(mine, it)
		}
	}
	if len(mine) == 0 {
		return
	}
	hit := mine[len(mine)-1]
	p.take(t, hit, i)
	p.update(i, t, []Item{hit}, false, false)
	for _, it := range mine[:len(mine)-1] {
		p.take(t, it, j) // reserved: nobody else may set what the dropped update names
	}
	// a claim the SAME plugin made in an earlier, successful update of its response must survive its dropped
	// update too: a third of the time j first sets an item z2 (of any target) and a later plugin collides with it
	var own *Item
	ownT := targets[g.r.Intn(len(targets))]
	if j < n-1 && g.r.Intn(3) == 0 {
		g.aftermath++
		for x := range updatableItems {
			z := updatableItems[(g.aftermath+x)%len(updatableItems)]
			named := false
			for _, it := range mine {
				if it == z {
					named = true
				}
			}
			if !named && p.free(ownT, z) {
				p.take(ownT, z, j)
				p.update(j, ownT, []Item{z}, false, false)
				own = &z
				break
			}
		}
	}
	p.update(j, t, mine, true, false)
	// the dropped update is not the last one of its response half of the time: what FOLLOWS it (another target,
	// or another field of the same target) must still be collected
	if g.r.Intn(2) == 0 {
		g.aftermath++
		t2 := targets[g.aftermath%len(targets)]
		for x := range updatableItems {
			z := updatableItems[(g.aftermath+x)%len(updatableItems)]
			named := false
			for _, it := range mine {
				if it == z {
					named = true
				}
			}
			if !named && p.free(t2, z) {
				p.take(t2, z, j)
				p.update(j, t2, []Item{z}, false, false)
				break
			}
		}
	}
	if own != nil {
		k := j + 1 + g.r.Intn(n-j-1)
		p.update(k, ownT, []Item{*own}, false, false)
		return
	}
	// aftermath: a claim made BEFORE the dropped update must survive it — half of the time a later plugin
	// collides with an item the first plugin set (an item the dropped update does not name): conflict expected
	if j < n-1 && g.r.Intn(3) != 0 {
		g.aftermath++   // walk through every updatable item kind in turn, then random ones
		var cand []Item // every updatable item kind gets its turn: the list rotated by the call number
		for x := range updatableItems {
			cand = append(cand, updatableItems[(g.aftermath+x)%len(updatableItems)])
		}
		for _, z := range cand {
			named := false
			for _, it := range mine {
				if it == z {
					named = true
				}
			}
			if named || !p.free(t, z) {
				continue
			}
			p.take(t, z, i)
			p.update(i, t, []Item{z}, false, false)
			k := j + 1 + g.r.Intn(n-j-1)
			p.update(k, t, []Item{z}, false, false)
			break
		}
	}
}

func (g *G) planUpdate(stream string, id string, poolSize int, kind Item) *Case {
	n := 1 + g.r.Intn(poolSize)
	if strings.HasPrefix(stream, "ucollide") && n < 2 {
		n = 2 + g.r.Intn(poolSize-1)
	}
	c := &Case{Kind: "update", Stream: stream, Container: &nm.Container{ID: id}, Plugins: g.subset(poolSize, n)}
	switch g.r.Intn(3) {
	case 0:
		c.ReqRes = g.res(0, 1, true) // every field pre-populated
	case 1:
		c.ReqRes = g.res(0, 3, true)
	default:
		c.ReqRes = &nm.Res{}
	}
	g.echoC, g.echoRes = nil, c.ReqRes
	p := newPlanner(g, n)
	targets := []string{id, id, "o1", "o2", ""}
	switch {
	case stream == "udisjoint":
		p.dealDisjoint(false, targets, 0)
	case strings.HasPrefix(stream, "ucollide"):
		p.dealDisjoint(false, targets, 0)
		j := 1 + g.r.Intn(n-1)
		i := g.r.Intn(j)
		_, c.Note = p.collide(kind, i, j, 0, targets[g.r.Intn(len(targets))])
	case stream == "uignore":
		p.dealDisjoint(false, targets, 0)
		g.planIgnored(p, n, targets)
	}
	c.Resps = p.responses()
	return c
}

func (g *G) planStop(stream string, id string, poolSize int, kind Item) *Case {
	n := 1 + g.r.Intn(poolSize)
	if strings.HasPrefix(stream, "scollide") && n < 2 {
		n = 2
	}
	c := &Case{Kind: "stop", Stream: stream, Container: &nm.Container{ID: id}, Plugins: g.subset(poolSize, n)}
	g.echoC, g.echoRes = nil, nil
	p := newPlanner(g, n)
	targets := []string{id, "o1", "o2", ""}
	if stream == "sdisjoint" {
		p.dealDisjoint(false, targets, 0)
	} else if strings.HasPrefix(stream, "scollide") {
		// a planned collision inside a stop request: on the stopped container or on a third party
		p.dealDisjoint(false, targets, 0)
		j := 1 + g.r.Intn(n-1)
		i := g.r.Intn(j)
		_, c.Note = p.collide(kind, i, j, 0, targets[g.r.Intn(len(targets))])
	} else {
		for who := 0; who < n; who++ {
			if g.r.Intn(2) == 0 {
				p.update(who, targets[g.r.Intn(len(targets))], g.randomItems(updatableItems, 1+g.r.Intn(2)), g.r.Intn(4) == 0, false)
			}
		}
	}
	c.Resps = p.responses()
	return c
}

// ------------------------------------------------------------------ the adapt driver

func driveAdapt(c *hx.Ctx) error {
	base, err := os.MkdirTemp("", "nriv")
	if err != nil {
		return err
	}
	defer os.RemoveAll(base)
	g := &G{r: c.Rand("adapt")}

	// pools: ascending indices registered in order; arbitrary two-digit indices registered in random order
	const poolSize = 6
	idxA := []string{"10", "20", "30", "40", "50", "60"}
	idxB := make([]string, poolSize)
	used := map[int]bool{}
	var nums []int
	for len(nums) < poolSize {
		v := g.r.Intn(100)
		if !used[v] {
			used[v] = true
			nums = append(nums, v)
		}
	}
	sort.Ints(nums)
	for i, v := range nums {
		idxB[i] = fmt.Sprintf("%02d", v)
	}
	pA, err := newPool(base, idxA, []int{0, 1, 2, 3, 4, 5}, false, nil)
	if err != nil {
		return err
	}
	defer pA.rt.Close()
	pB, err := newPool(base, idxB, g.r.Perm(poolSize), false, nil)
	if err != nil {
		return err
	}
	defer pB.rt.Close()
	// six instances registered under one and the same index and name: they are six plugins all the same
	pC, err := newPool(base, []string{"30", "30", "30", "30", "30", "30"}, []int{0, 1, 2, 3, 4, 5}, true, nil)
	if err != nil {
		return err
	}
	defer pC.rt.Close()
	// plugins that are NOT subscribed to update requests (the first one is): creation and stop requests only
	pD, err := newPool(base, []string{"15", "25", "35", "45", "55", "65"}, []int{0, 1, 2, 3, 4, 5}, false, func(k int) []string {
		if k == 0 {
			return []string{"RunPodSandbox", "CreateContainer", "UpdateContainer", "StopContainer"}
		}
		return []string{"RunPodSandbox", "CreateContainer", "StopContainer"}
	})
	if err != nil {
		return err
	}
	defer pD.rt.Close()
	// no plugin at all
	pE, err := newPool(base, nil, nil, false, nil)
	if err != nil {
		return err
	}
	defer pE.rt.Close()
	pools := []*pool{pA, pB, pC, pD, pE}
	const nGeneral, poolNoUpdate, poolEmpty = 3, 3, 4

	// plan
	var cases []*Case
	seq := 0
	nextID := func() string { seq++; return fmt.Sprintf("c%05d", seq) }
	if corpus, err := loadCorpus(); err != nil {
		return err
	} else {
		for _, cs := range corpus {
			cs.Container.ID = nextID()
			cases = append(cases, cs)
		}
	}
	per := c.Pick(8, 120)
	for _, kind := range collisionKinds() {
		for v := 0; v < 6; v++ {
			if v > 0 && !markable[kind.Kind] {
				continue
			}
			for k := 0; k < per; k++ {
				cases = append(cases, g.planCreate("collide/"+kind.Kind+kind.Key, nextID(), poolSize, kind, v))
			}
		}
		if updatable(kind) {
			for k := 0; k < per; k++ {
				cases = append(cases, g.planUpdate("ucollide/"+kind.Kind+kind.Key, nextID(), poolSize, kind))
			}
			for k := 0; k < (per+1)/2; k++ {
				cs := g.planStop("scollide/"+kind.Kind+kind.Key, nextID(), poolSize, kind)
				if k%2 == 0 {
					cs.Pool = 3 // the pool whose plugins are not subscribed to update requests
				}
				cases = append(cases, cs)
			}
		}
	}
	for k := 0; k < c.Pick(250, 4000); k++ {
		cases = append(cases, g.planCreate("disjoint", nextID(), poolSize, Item{}, 0))
	}
	for k := 0; k < c.Pick(150, 2500); k++ {
		cases = append(cases, g.planCreate("removal", nextID(), poolSize, Item{}, 0))
	}
	for k := 0; k < c.Pick(120, 2000); k++ {
		cases = append(cases, g.planCreate("mixed", nextID(), poolSize, Item{}, 0))
	}
	for k := 0; k < c.Pick(40, 500); k++ {
		cases = append(cases, g.planCreate("selfupdate", nextID(), poolSize, Item{}, 0))
	}
	for k := 0; k < c.Pick(100, 1000); k++ {
		cases = append(cases, g.planCreate("ignore", nextID(), poolSize, Item{}, 0))
	}
	for k := 0; k < c.Pick(150, 2500); k++ {
		cases = append(cases, g.planUpdate("udisjoint", nextID(), poolSize, Item{}))
	}
	for k := 0; k < c.Pick(100, 1000); k++ {
		cases = append(cases, g.planUpdate("uignore", nextID(), poolSize, Item{}))
	}
	for k := 0; k < c.Pick(60, 800); k++ {
		cases = append(cases, g.planStop("sdisjoint", nextID(), poolSize, Item{}))
	}
	for k := 0; k < c.Pick(40, 600); k++ {
		cases = append(cases, g.planStop("smixed", nextID(), poolSize, Item{}))
	}

	// requests that reach nobody: the reply is the empty one, an update request still ends with its own entry
	for k := 0; k < c.Pick(6, 60); k++ {
		id := nextID()
		cs := &Case{Kind: []string{"create", "update", "stop"}[k%3], Stream: "noplugins", Pool: poolEmpty}
		switch cs.Kind {
		case "create":
			cs.Container = g.container(id, false)
		default:
			cs.Container = &nm.Container{ID: id}
		}
		if cs.Kind == "update" {
			cs.ReqRes = []*nm.Res{{}, g.res(0, 3, true), g.res(0, 2, false)}[(k/3)%3]
		}
		cases = append(cases, cs)
	}
	poolOf := func(i int) *pool {
		cs := cases[i]
		if cs.Pool > 0 {
			return pools[cs.Pool]
		}
		// every fourth creation / stop case runs on the pool whose plugins are not subscribed to update requests
		if cs.Kind != "update" && i%4 == 3 {
			return pools[poolNoUpdate]
		}
		return pools[i%nGeneral]
	}

	// execute: 8 concurrent callers per pool (requests in flight concurrently)
	var wg sync.WaitGroup
	var emu sync.Mutex
	var firstErr error
	work := make(chan int, len(cases))
	for i := range cases {
		work <- i
	}
	close(work)
	for w := 0; w < 8; w++ {
		wg.Add(1)
		go func(w int) {
			defer wg.Done()
			for i := range work {
				if err := poolOf(i).execute(cases[i]); err != nil {
					emu.Lock()
					if firstErr == nil {
						firstErr = fmt.Errorf("case %d (%s): %w", i, cases[i].Stream, err)
					}
					emu.Unlock()
				}
			}
		}(w)
	}
	wg.Wait()
	if firstErr != nil {
		return firstErr
	}

	// emit
	sh := c.NewShardV("adapt", imports, "adapt_case", "verdict_adapt",
		[]string{"corr_adapt", "holds_C01", "holds_C02", "holds_C03", "holds_C04", "holds_C05"}, c.Pick(120, 400))
	for _, cs := range cases {
		if cs.Note == "skip" {
			continue
		}
		sh.Add(cs.Coq(), cs)
		stream := cs.Stream
		c.Count("stream."+strings.SplitN(stream, "/", 2)[0], 1)
		c.Count(fmt.Sprintf("err.%d", cs.Err), 1)
		c.Count(fmt.Sprintf("plugins.%d", len(cs.Plugins)), 1)
		if cs.Err == 1 {
			c.Count("conflict."+conflictSubject(cs.ErrText), 1)
		}
		js, _ := json.Marshal([]interface{}{cs.Kind, cs.Container, cs.ReqRes, cs.Resps})
		nontrivial := false
		for _, r := range cs.Resps {
			if r.Adjust != nil || len(r.Updates) > 0 {
				nontrivial = true
			}
		}
		c.Eval(string(js), nontrivial)
		// a panic or an error that is neither a conflict nor the self-update refusal: no property allows it
		if cs.Err >= 3 {
			c.ImplFail("adapt", "the adaptation answered the request with "+cs.ErrText, cs)
		}
		// implementation-only oracle of C03: the generator on the combined reply vs plugin by plugin
		if cs.Combined != nil && wfCreate(cs.Resps) && !reflect.DeepEqual(canonSpec(cs.Combined), canonSpec(cs.Sequent)) {
			c.ImplFail("adapt", "C03: applying the combined adjustment differs from applying the plugins' adjustments in turn", cs)
		}
	}
	for _, i := range []int{0, len(cases) / 3, 2 * len(cases) / 3} {
		if i < len(cases) {
			c.Sample(cases[i], 3)
		}
	}
	// every collision stream must have produced conflicts for its kind
	for _, kind := range collisionKinds() {
		want := subjectOf(kind)
		if c.Stats.Distribution["conflict."+want] == 0 {
			// either the generator lost its shape or the tree under check reports no conflict for this kind at
			// all: the first planned collision of the kind decides (two plugins set the same item: C01)
			var witness *Case
			for _, cs := range cases {
				if (cs.Stream == "collide/"+kind.Kind+kind.Key || cs.Stream == "ucollide/"+kind.Kind+kind.Key || cs.Stream == "scollide/"+kind.Kind+kind.Key) && cs.Err == 0 && cs.Note != "skip" {
					witness = cs
					break
				}
			}
			if witness != nil {
				c.ImplFail("adapt", fmt.Sprintf("no collision on %s was reported as a conflict (%q never named in an error)", kind, want), witness)
			} else {
				c.HarnessError("collision stream for %v produced no conflict (%q)", kind, want)
			}
		}
	}
	c.Stats.Rule = "adapt: requests against a real Adaptation with 6 scripted stub plugins per pool (five pools: ascending indices; random indices registered in random order; six instances registered under one and the same index and name, invocation order measured; plugins not subscribed to update requests, for creation and stop requests; no plugin at all), 8 concurrent callers; streams: per-item-kind collisions (plain / remove-then-set / lone removal in between / set-before-marker / take-over by a plugin in between then plain set; echo values equal to the current value and explicit zeros; via adjustment or via updates of a third party), disjoint writers, removals of original items, mixed random, self-update, ignore-failure, update requests with pre-populated resources, stop requests incl. planned collisions per updatable kind (half of them on the pool not subscribed to update requests), requests that reach no plugin; a case is non-trivial when some plugin answers with an adjustment or update; distinct by full input"
	return nil
}

func conflictSubject(t string) string {
	i := strings.Index(t, "both tried to set ")
	if i < 0 {
		return "?"
	}
	s := t[i+len("both tried to set "):]
	for _, subj := range []string{"annotation", "mount", "device", "CDI device", "env", "args", "memory limit", "memory reservation",
		"memory swap limit", "memory kernel limit", "memory TCP limit", "memory swappiness", "memory disable OOM killer",
		"memory 'UseHierarchy'", "CPU shares", "CPU quota", "CPU period", "CPU realtime runtime", "CPU realtime period",
		"CPU pinning", "memory pinning", "pids pinning", "hugepage limit of size", "block I/O class", "RDT class",
		"unified resource", "cgroups path", "oom score adj", "rlimit"} {
		if s == subj || strings.HasPrefix(s, subj+" ") {
			return subj
		}
	}
	return s
}

func subjectOf(kind Item) string {
	switch kind.Kind {
	case "ann":
		return "annotation"
	case "dev":
		return "device"
	case "cdi":
		return "CDI device"
	case "hp":
		return "hugepage limit of size"
	case "uni":
		return "unified resource"
	case "cgroups":
		return "cgroups path"
	case "oom":
		return "oom score adj"
	case "scal":
		return map[string]string{"MemLimit": "memory limit", "MemReservation": "memory reservation", "MemSwap": "memory swap limit",
			"MemKernel": "memory kernel limit", "MemKernelTcp": "memory TCP limit", "MemSwappiness": "memory swappiness",
			"MemDisableOom": "memory disable OOM killer", "MemUseHierarchy": "memory 'UseHierarchy'", "CpuShares": "CPU shares",
			"CpuQuota": "CPU quota", "CpuPeriod": "CPU period", "CpuRtRuntime": "CPU realtime runtime", "CpuRtPeriod": "CPU realtime period",
			"CpuCpus": "CPU pinning", "CpuMems": "memory pinning", "BlockioClass": "block I/O class", "RdtClass": "RDT class", "Pids": "pids pinning"}[kind.Key]
	}
	return kind.Kind
}

// canonSpec projects a spec observation to the maps of interpretation I3.
func canonSpec(s *SpecObs) interface{} {
	env := map[string]string{}
	for _, e := range s.C.Env {
		kv := strings.SplitN(e, "=", 2)
		if len(kv) == 2 {
			env[kv[0]] = kv[1]
		} else {
			env[kv[0]] = ""
		}
	}
	mounts := map[string]nm.Mount{}
	for _, m := range s.C.Mounts {
		mounts[m.Dest] = m
	}
	devs := map[string]nm.Device{}
	for _, d := range s.C.Devices {
		devs[d.Path] = d
	}
	hp := map[string]uint64{}
	for _, h := range s.C.Res.HP {
		hp[h.Size] = h.Limit
	}
	return normEmpty([]interface{}{s.C.Ann, env, mounts, devs, s.C.Args, s.C.Hooks, s.C.Rlimits, s.CDI, s.C.Res.Scal, hp, s.C.Res.Uni, s.C.Cgroups, s.C.Oom})
}

// normEmpty: the projection is compared as VALUES — a nil list and an empty list (the generator leaves one or
// the other depending on whether a section of the spec was ever touched) are the same list.  Through JSON:
// null, [] and {} are dropped from objects and replaced by nil elsewhere; pointers are compared by content.
func normEmpty(v interface{}) interface{} {
	b, err := json.Marshal(v)
	if err != nil {
		return v
	}
	var x interface{}
	if err := json.Unmarshal(b, &x); err != nil {
		return v
	}
	var walk func(interface{}) interface{}
	walk = func(x interface{}) interface{} {
		switch t := x.(type) {
		case []interface{}:
			if len(t) == 0 {
				return nil
			}
			for i := range t {
				t[i] = walk(t[i])
			}
			return t
		case map[string]interface{}:
			for k, e := range t {
				if w := walk(e); w == nil {
					delete(t, k)
				} else {
					t[k] = w
				}
			}
			if len(t) == 0 {
				return nil
			}
			return t
		}
		return x
	}
	return walk(x)
}

func loadCorpus() ([]*Case, error) {
	var out []*Case
	dir := os.Getenv("VERIF_CORPUS")
	if dir == "" {
		return nil, nil
	}
	ents, err := os.ReadDir(dir)
	if err != nil {
		return nil, nil
	}
	for _, e := range ents {
		if !strings.HasSuffix(e.Name(), ".json") {
			continue
		}
		b, err := os.ReadFile(dir + "/" + e.Name())
		if err != nil {
			return nil, err
		}
		var cs Case
		if err := json.Unmarshal(b, &cs); err != nil {
			return nil, fmt.Errorf("corpus %s: %w", e.Name(), err)
		}
		cs.Err, cs.ErrText, cs.Views, cs.Reply, cs.Updates, cs.Combined, cs.Sequent = 0, "", nil, nil, nil, nil, nil
		cs.Stream = "corpus/" + strings.TrimSuffix(e.Name(), ".json")
		out = append(out, &cs)
	}
	return out, nil
}

// wfCreate is the Go twin of Proofs/CombineWf.v's wf_create (the domain of C03): the key left after stripping one
// removal marker is not itself marked, a plain env name has no '=', the command line is neither the bare
// removal marker nor begins with it twice.
func wfCreate(resps []nm.Response) bool {
	keyOK := func(k string) bool { return !(len(k) >= 2 && k[0] == '-' && k[1] == '-') }
	for _, r := range resps {
		a := r.Adjust
		if a == nil {
			continue
		}
		for _, e := range a.Ann {
			if !keyOK(e.K) {
				return false
			}
		}
		for _, m := range a.Mounts {
			if !keyOK(m.Dest) {
				return false
			}
		}
		for _, d := range a.Devices {
			if !keyOK(d.Path) {
				return false
			}
		}
		for _, e := range a.Env {
			if !keyOK(e.K) || (!strings.HasPrefix(e.K, "-") && strings.Contains(e.K, "=")) {
				return false
			}
		}
		if len(a.Args) > 0 && a.Args[0] == "" && (len(a.Args) == 1 || a.Args[1] == "") {
			return false
		}
	}
	return true
}
