package main

import (
	"encoding/binary"
	"encoding/hex"
	"fmt"

	"verif/harness/internal/coqfmt"
)

// The simulator below is NOT the judge.  It is bookkeeping used (a) while a script is
// generated, to know which calls would block, and (b) after the run, to turn the script
// plus the observed results into the event lists that the Coq model replays
// (Run.RunMux.replay): which frames reached which reader in which order, where the
// trunk went down.  Whether the implementation agreed with the model is decided in Coq.

type evObs struct{ ev, obs string }

type sentW struct {
	id  uint32
	hex string
}

type simSide struct {
	raw        bool
	blocked    bool
	readerDone bool
	closed     bool
	txDown     bool
	gone       bool // this end of the transport is closed
	opened     []uint32
	mapped     map[uint32]bool
	cclosed    map[uint32]bool
	q          map[uint32]int
	budget     int
	stall      bool // the failure of the outgoing direction is transient (recConn.cutErr)
	rdFailAt   int  // offset of the incoming stream at which the trunk Read fails once with a time-out; -1: never
	rdFailed   bool
	pend       []func()
	unread     int // frames waiting in this end's socket buffer while its reader is still blocked
	events     []evObs
	after      []string
	sent       []sentW // Writes that reached the trunk wholly or in part
	full       []sentW // Writes that reached the trunk wholly (single frames)
	recv       map[uint32][]string
	rawbuf     []byte
	rawSeen    int
}

type sim struct {
	qlen       int
	unix       bool // a unix socket: closing an end that has unread bytes resets the connection
	side       [2]*simSide
	orderly    bool
	overflow   bool
	selfClosed []int        // sides whose Mux closed itself (reader failure, overflow, failing Write), in order
	bad        []string     // time-outs, panics, early returns (Go-side oracle)
	done       map[int]bool // background Writes already accounted for at their start
}

func newSim(s *scriptScn) *sim {
	m := &sim{qlen: s.QLen, orderly: true, unix: s.Transport == "unix"}
	for i := 0; i < 2; i++ {
		sd := &simSide{raw: s.Raw[i], blocked: s.Blocked[i], opened: s.Open[i], budget: s.Cut[i], stall: s.CutErr[i] != "", rdFailAt: s.RdFail[i] - 1,
			mapped: map[uint32]bool{}, cclosed: map[uint32]bool{}, q: map[uint32]int{}, recv: map[uint32][]string{}}
		for _, id := range s.Open[i] {
			sd.mapped[id] = true
		}
		m.side[i] = sd
	}
	for i := 0; i < 2; i++ {
		if s.Cut[i] == 0 && s.CutErr[i] == "" {
			m.cutHappens(i)
		}
	}
	for i := 0; i < 2; i++ {
		if m.side[i].rdFailAt == 0 {
			m.readFails(i) // the very first Read of the reader
		}
	}
	return m
}

func (m *sim) ev(i int, ev, obs string) {
	if m.side[i].raw {
		return
	}
	m.side[i].events = append(m.side[i].events, evObs{ev, obs})
}

// reader: activity of side i's reader goroutine; deferred while the Mux is still blocked
func (m *sim) reader(i int, f func()) {
	sd := m.side[i]
	if sd.raw {
		return
	}
	if sd.blocked {
		sd.pend = append(sd.pend, f)
		return
	}
	f()
}

func (m *sim) connClosed(i int, id uint32) bool { return m.side[i].closed || m.side[i].cclosed[id] }

// wouldBlock: a Read on (i, id) issued now would block
func (m *sim) wouldBlock(i int, id uint32) bool {
	return !m.connClosed(i, id) && m.side[i].q[id] == 0
}

// a complete frame for id arrives at side i
func (m *sim) onFrame(i int, id uint32) {
	if sd := m.side[i]; !sd.raw && sd.blocked && !sd.gone {
		sd.unread++
	}
	m.reader(i, func() {
		sd := m.side[i]
		m.ev(i, "EvReader", "ONone")
		if sd.readerDone {
			return
		}
		if sd.closed {
			sd.readerDone = true
			return
		}
		if !sd.mapped[id] {
			return
		}
		if sd.q[id] < m.qlen {
			sd.q[id]++
			return
		}
		// queue overflow: the reader latches the error and closes everything
		m.overflow, m.orderly = true, false
		sd.readerDone = true
		m.selfClose(i)
		m.trunkShut(i)
	})
}

// side i's reader gets an error that is not an end-of-file from its trunk Read (a time-out): a read failure of any
// kind at any offset ends the reader — it latches the error and closes the Mux, whatever the trunk does afterwards
func (m *sim) readFails(i int) {
	sd := m.side[i]
	if sd.rdFailed || sd.raw {
		return
	}
	sd.rdFailed = true
	m.orderly = false
	m.reader(i, func() {
		m.ev(i, "EvTrunkFail", "ONone")
		if !sd.readerDone {
			sd.readerDone = true
			m.selfClose(i)
		}
		m.trunkShut(i)
	})
}

// side i's end of the transport gets closed (once): the peer notices
func (m *sim) trunkShut(i int) {
	sd := m.side[i]
	if sd.gone {
		return
	}
	sd.gone, sd.txDown = true, true
	m.peerGone(1-i, m.resets(i))
}

// resets: side i closes its end of a unix socket while bytes of the peer are unread in its
// receive buffer.  The kernel then reports ECONNRESET to the peer instead of an end-of-file:
// for the peer this is a failing trunk, not an orderly close.
func (m *sim) resets(i int) bool {
	return m.unix && m.side[i].blocked && m.side[i].unread > 0
}

// the other end has shut the trunk: writes fail from now on, the reader sees the end
func (m *sim) peerGone(i int, reset bool) {
	sd := m.side[i]
	if sd.raw {
		return
	}
	sd.txDown = true
	m.ev(i, "EvTrunkDown", "ONone")
	if reset {
		m.orderly = false
	}
	m.readerEnd(i, reset)
}

// side i's reader finds the trunk ended or closed; it closes its own Mux
func (m *sim) readerEnd(i int, reset bool) {
	m.reader(i, func() {
		sd := m.side[i]
		if reset {
			m.ev(i, "EvTrunkFail", "ONone")
		} else {
			m.ev(i, "EvReader", "ONone")
		}
		if !sd.readerDone {
			sd.readerDone = true
			m.selfClose(i)
		}
		m.trunkShut(i)
	})
}

func (m *sim) selfClose(i int) {
	if !m.side[i].closed {
		m.side[i].closed = true
		m.selfClosed = append(m.selfClosed, i)
	}
}

// the byte budget of side i's outgoing direction is used up (see recConn): if the failing
// trunk.Write returned n != 0 the Mux has closed itself and thereby the whole trunk; otherwise the
// Mux stays open, only the outgoing direction is shut down and the peer's reader sees the stream end
func (m *sim) cutHappens(i int) {
	m.orderly = false
	sd := m.side[i]
	sd.txDown = true
	if sd.closed {
		m.reader(i, func() {
			m.ev(i, "EvReader", "ONone")
			sd.readerDone = true
		})
		m.trunkShut(i)
		return
	}
	m.readerEnd(1-i, false)
}

// side i's end of the transport is closed under the Mux (a failing transport)
func (m *sim) transportClosed(i int) {
	m.orderly = false
	sd := m.side[i]
	was := sd.gone
	reset := !was && m.resets(i)
	sd.gone, sd.txDown = true, true
	if !sd.raw {
		m.readerEnd(i, false)
	}
	if !was {
		m.peerGone(1-i, reset)
	}
}

func (m *sim) localClose(i int) {
	sd := m.side[i]
	sd.closed = true
	m.reader(i, func() {
		m.ev(i, "EvReader", "ONone")
		sd.readerDone = true
	})
	m.trunkShut(i)
}

func obsOf(r actRes, write bool) string {
	switch r.Kind {
	case "ok":
		return "OOk"
	case "data":
		return "(OData " + coqfmt.Str(r.Hex) + ")"
	case "eof":
		if write {
			return "OAnyErr"
		}
		return "OEof"
	case "err":
		if write {
			return "OAnyErr"
		}
		return "OErr"
	case "panic":
		return "OPanic"
	}
	return "OTimeout"
}

func (m *sim) note(i int, what string, r actRes) {
	if r.Kind == "timeout" || r.Kind == "panic" || r.Kind == "early" {
		m.bad = append(m.bad, fmt.Sprintf("%s on side %d: %s %s", what, i, r.Kind, r.Err))
	}
}

func (m *sim) doWrite(i int, id uint32, seq, size int, r actRes) {
	sd := m.side[i]
	b := spayload(i, seq, size)
	hx := hex.EncodeToString(b)
	cut := "None"
	if sd.budget >= 0 {
		cut = fmt.Sprintf("(Some %s)", coqfmt.N(uint64(sd.budget)))
	}
	o := obsOf(r, true)
	m.ev(i, fmt.Sprintf("(EvWrite %s (unhex %s) %s)", coqfmt.N(uint64(id)), coqfmt.Str(hx), cut), o)
	m.note(i, "Write", r)
	if sd.closed {
		sd.after = append(sd.after, o)
	}
	if sd.cclosed[id] || sd.closed || sd.txDown {
		return
	}
	flen := 8 + size
	if sd.budget < 0 || flen <= sd.budget {
		sd.sent = append(sd.sent, sentW{id, hx})
		sd.full = append(sd.full, sentW{id, hx})
		if sd.budget >= 0 {
			sd.budget -= flen
		}
		m.onFrame(1-i, id)
		if sd.budget == 0 && !sd.stall {
			m.cutHappens(i)
		}
		return
	}
	// the trunk fails inside this Write: in the header call (n = budget < 8) or in the payload call
	n, inPayload := sd.budget, sd.budget >= 8
	if inPayload {
		n = sd.budget - 8
	}
	if sd.budget > 0 {
		sd.sent = append(sd.sent, sentW{id, hx})
	}
	if sd.stall {
		sd.budget = -1 // transient: the trunk takes bytes again
	} else {
		sd.budget = 0
	}
	if n != 0 || inPayload {
		// setError + Close inside mux.write: part of the frame is out (a header without its payload counts)
		m.selfClose(i)
		m.cutHappens(i)
		return
	}
	if sd.stall {
		// the header call wrote nothing, nothing of the frame is out: the Mux lives and the trunk carries on
		m.ev(i, "EvTrunkUp", "ONone")
		return
	}
	m.cutHappens(i)
}

func (m *sim) doRead(i int, id uint32, r actRes) {
	sd := m.side[i]
	pick := "false"
	if r.Kind == "data" {
		pick = "true"
	}
	o := obsOf(r, false)
	m.ev(i, fmt.Sprintf("(EvRead %s %s)", coqfmt.N(uint64(id)), pick), o)
	m.note(i, "Read", r)
	if m.connClosed(i, id) {
		sd.after = append(sd.after, o)
	}
	if r.Kind == "data" {
		if sd.q[id] > 0 {
			sd.q[id]--
		}
		sd.recv[id] = append(sd.recv[id], r.Hex)
	}
}

// raw bytes written by a bare end i arrive at the Mux on the other side
func (m *sim) doRaw(i int, b []byte, r actRes) {
	sd := m.side[i]
	m.note(i, "raw write", r)
	if sd.txDown {
		return
	}
	if r.Kind != "ok" {
		// the Mux at the other end shut the trunk while the bytes were going out (net.Pipe hands
		// over exactly what the reader consumed): an initial part arrived
		if r.N < 0 || r.N > len(b) {
			return
		}
		b = b[:r.N]
	}
	sd.rawbuf = append(sd.rawbuf, b...)
	defer func() {
		// the reader has consumed what arrived up to the offset of the read failure and asks for more
		if peer := m.side[1-i]; peer.rdFailAt >= 0 && !peer.rdFailed && len(sd.rawbuf) >= peer.rdFailAt {
			m.readFails(1 - i)
		}
	}()
	for {
		rest := sd.rawbuf[sd.rawSeen:]
		if len(rest) < 8 {
			return
		}
		id := binary.BigEndian.Uint32(rest)
		n := int(binary.BigEndian.Uint32(rest[4:]))
		if len(rest)-8 < n {
			return
		}
		peer := m.side[1-i]
		end := sd.rawSeen + 8 + n
		if peer.rdFailAt >= 0 && !peer.rdFailed && end > peer.rdFailAt {
			m.readFails(1 - i) // the failure falls inside this frame: it is never completed
			return
		}
		hx := hex.EncodeToString(rest[8 : 8+n])
		sd.sent = append(sd.sent, sentW{id, hx})
		sd.full = append(sd.full, sentW{id, hx})
		sd.rawSeen += 8 + n
		if !peer.rdFailed {
			m.onFrame(1-i, id)
		}
		if peer.rdFailAt >= 0 && !peer.rdFailed && end == peer.rdFailAt {
			m.readFails(1 - i) // the reader's next header Read
			return
		}
	}
}

// predicted result of an act (used only while generating scripts)
func (m *sim) predict(a act) actRes {
	sd := m.side[a.Side]
	switch a.Op {
	case "read", "bgread":
		if !m.connClosed(a.Side, a.ID) && sd.q[a.ID] > 0 {
			return actRes{Kind: "data"}
		}
		return actRes{Kind: "eof"}
	case "drain":
		r := actRes{Kind: "ok"}
		for k := 0; k < sd.q[a.ID]; k++ {
			r.Items = append(r.Items, actRes{Kind: "data"})
		}
		r.Items = append(r.Items, actRes{Kind: "eof"})
		return r
	}
	return actRes{Kind: "ok"}
}

// apply one act with its result
func (m *sim) apply(s *scriptScn, idx int, a act, r actRes, results []actRes) {
	i := a.Side
	sd := m.side[i]
	if r.Kind == "skipped" {
		return // not executed: it depended on an Open that hung or failed (reported there)
	}
	switch a.Op {
	case "write":
		m.doWrite(i, a.ID, a.Seq, a.Size, r)
	case "read":
		m.doRead(i, a.ID, r)
	case "drain":
		for _, it := range r.Items {
			m.doRead(i, a.ID, it)
		}
		if len(r.Items) == 0 {
			m.bad = append(m.bad, "drain returned nothing")
		}
	case "bgread", "bgwrite":
		if a.Op == "bgwrite" && r.Kind == "started" && results != nil {
			// a Write that blocked in the trunk and later succeeded took its decisions when it started:
			// it is placed here; one that failed is placed where it was joined (after the fault)
			for j := idx + 1; j < len(s.Acts); j++ {
				if s.Acts[j].Op == "join" && s.Acts[j].N == idx && results[j].Kind == "ok" {
					if m.done == nil {
						m.done = map[int]bool{}
					}
					m.done[idx] = true
					m.doWrite(i, a.ID, a.Seq, a.Size, results[j])
				}
			}
		}
		if r.Kind == "early" {
			// it was expected to block here: no model result matches
			m.note(i, a.Op+" expected to block", r)
			m.ev(i, fmt.Sprintf("(EvRead %s false)", coqfmt.N(uint64(a.ID))), "OPanic")
		}
	case "join":
		b := s.Acts[a.N]
		switch b.Op {
		case "bgread":
			m.doRead(b.Side, b.ID, r)
		case "bgwrite":
			if !m.done[a.N] {
				m.doWrite(b.Side, b.ID, b.Seq, b.Size, r)
			}
		}
	case "close":
		m.ev(i, "EvClose", obsOf(r, true))
		m.note(i, "Close", r)
		m.localClose(i)
	case "cclose":
		m.ev(i, fmt.Sprintf("(EvConnClose %s)", coqfmt.N(uint64(a.ID))), obsOf(r, true))
		m.note(i, "conn.Close", r)
		sd.mapped[a.ID] = false
		sd.cclosed[a.ID] = true
	case "closers":
		m.note(i, "concurrent closers", r)
		for k := 0; k < a.N; k++ {
			if closerIsConn(k, a.Mode) && len(sd.opened) > 0 {
				id := sd.opened[k%len(sd.opened)]
				m.ev(i, fmt.Sprintf("(EvConnClose %s)", coqfmt.N(uint64(id))), obsOf(r, true))
				sd.mapped[id] = false
				sd.cclosed[id] = true
			} else {
				m.ev(i, "EvClose", obsOf(r, true))
			}
		}
		m.localClose(i)
	case "open":
		m.ev(i, fmt.Sprintf("(EvOpen %s)", coqfmt.N(uint64(a.ID))), obsOf(r, true))
		m.note(i, "Open", r)
		if a.ID != 0 && r.Kind == "ok" {
			if sd.cclosed[a.ID] {
				// the id's connection was closed by conn.Close: Open makes a fresh object with an empty queue
				sd.cclosed[a.ID] = false
				sd.q[a.ID] = 0
			}
			sd.mapped[a.ID] = true
		}
	case "deadline":
		m.ev(i, fmt.Sprintf("(EvDeadline %s %s)", coqfmt.N(uint64(a.ID)), []string{"DBoth", "DRead", "DWrite"}[a.Mode%3]), obsOf(r, true))
		m.note(i, "Set*Deadline", r)
	case "staleclose":
		m.ev(i, fmt.Sprintf("(EvStaleClose %s)", coqfmt.N(uint64(a.ID))), obsOf(r, true))
		m.note(i, "Close of a stale handle", r)
	case "openrace":
		// whichever comes first, Close or an Open: the connection ends up closed and every call on it fails;
		// the model is run on "Close first", the order in which only Open itself can close the connection
		m.note(i, "Open racing with Close", r)
		m.ev(i, "EvClose", "OOk")
		m.localClose(i)
		for k := 0; k < a.N; k++ {
			id := a.ID + uint32(k)
			m.ev(i, fmt.Sprintf("(EvOpen %s)", coqfmt.N(uint64(id))), obsOf(r, true))
			sd.mapped[id] = true
		}
	case "trunkclose":
		m.orderly = false
		m.ev(i, "EvTrunkDown", "ONone")
		m.transportClosed(i)
	case "await":
		m.note(i, "waiting for the Mux to close its trunk after the fault", r)
	case "unblock":
		m.ev(i, "EvUnblock", obsOf(r, true))
		m.note(i, "Unblock", r)
		sd.blocked = false
		sd.unread = 0
		p := sd.pend
		sd.pend = nil
		for _, f := range p {
			f()
		}
	case "raw":
		b, _ := hex.DecodeString(a.Hex)
		m.doRaw(i, b, r)
	}
}
