package main

// A small symbolic executor over go/ast, used to read the MEANING of a handful of
// short functions off the sources instead of their statement shapes:
//
//   - unexported helpers, closures and immediately invoked function literals are
//     executed in place (parameters bound to the argument values), so an extracted
//     helper or a closure doing lock / defer unlock / call looks the same as the
//     inlined code; named locals and named results are just bindings;
//   - statements without effect on the modelled behaviour are dropped: calls on
//     the log package, updates of diagnostic counters (fields that are only ever
//     incremented, logged, or read by functions nobody calls);
//   - conditions are normalised (De Morgan by evaluation, `a > b` as `b < a`,
//     `x != y` as `!(x == y)`, `x & ^m` as `x &^ m`, `x&m != x` as `x&^m != 0`,
//     `strings.Compare(a, b) < 0` as `a < b`, a tag-less switch as an if-chain);
//     nil-safe generated getters x.GetF() are the field F under a nil test;
//   - a condition the executor cannot decide forks the path; a path is the list of
//     decisions taken, the trace of effects (calls that were not executed in place,
//     stores) and the returned values.
//
// Whatever is not recognised is reported as unsupported and makes the fact that
// needed it false — never true by default.

import (
	"fmt"
	"go/ast"
	"go/token"
	"os"
	"path/filepath"
	"regexp"
	"sort"
	"strings"

	"verif/harness/internal/gast"
)

// ---------------------------------------------------------------- package

type fnInfo struct {
	fd   *ast.FuncDecl
	file *gast.File
	recv string // receiver type name, "" for functions
}

type pkgInfo struct {
	files    []*gast.File
	funcs    map[string][]*fnInfo // by name
	vars     map[string]ast.Expr  // package-level variables with an initialiser
	varFile  map[string]*gast.File
	counters map[string]bool // diagnostic-only fields
	callers  map[string]int  // how often a function/method name is called or referenced in the package
}

func loadPkg(dir string) *pkgInfo {
	p := &pkgInfo{funcs: map[string][]*fnInfo{}, vars: map[string]ast.Expr{}, varFile: map[string]*gast.File{}, counters: map[string]bool{}, callers: map[string]int{}}
	names, _ := filepath.Glob(filepath.Join(dir, "*.go"))
	sort.Strings(names)
	for _, n := range names {
		if strings.HasSuffix(n, "_test.go") {
			continue
		}
		if b, err := os.ReadFile(n); err != nil || len(b) == 0 {
			continue
		}
		f := gast.Parse(n)
		p.files = append(p.files, f)
		for _, d := range f.F.Decls {
			switch x := d.(type) {
			case *ast.FuncDecl:
				fi := &fnInfo{fd: x, file: f}
				if x.Recv != nil && len(x.Recv.List) == 1 {
					fi.recv = strings.TrimPrefix(rnd(f, x.Recv.List[0].Type), "*")
				}
				p.funcs[x.Name.Name] = append(p.funcs[x.Name.Name], fi)
			case *ast.GenDecl:
				if x.Tok != token.VAR {
					continue
				}
				for _, s := range x.Specs {
					vs := s.(*ast.ValueSpec)
					for i, nm := range vs.Names {
						if i < len(vs.Values) {
							p.vars[nm.Name] = vs.Values[i]
							p.varFile[nm.Name] = f
						}
					}
				}
			}
		}
	}
	p.findCallers()
	p.findCounters()
	return p
}

func rnd(f *gast.File, n ast.Node) string { return render(f, n) }

func (p *pkgInfo) findCallers() {
	for _, f := range p.files {
		ast.Inspect(f.F, func(n ast.Node) bool {
			switch x := n.(type) {
			case *ast.SelectorExpr:
				p.callers[x.Sel.Name]++
			case *ast.CallExpr:
				if id, ok := x.Fun.(*ast.Ident); ok {
					p.callers[id.Name]++
				}
			}
			return true
		})
	}
}

func isLogCall(s string) bool {
	return strings.HasPrefix(s, "log.") || strings.HasPrefix(s, "logrus.") || strings.HasPrefix(s, "klog.")
}

// findCounters finds the diagnostic-only fields: a field f is diagnostic when every occurrence of `.f`
// in the package is
//   - the target of an assignment, ++, op= or an Add / Inc / Store call (a write),
//   - inside the arguments of a log call,
//   - inside an unexported function that nothing in the package calls,
//   - inside the initialiser or condition of an `if` whose branches only log or write diagnostic fields, or
//   - returned by an unexported accessor (lock, unlock, return of diagnostic fields) all of whose calls are
//     themselves in such a place.
//
// Such a field cannot influence any behaviour the model has.  Computed as a greatest fixpoint.
func (p *pkgInfo) findCounters() {
	type occ struct {
		f     *gast.File
		fd    *ast.FuncDecl
		stack []ast.Node
	}
	occs := map[string][]occ{}
	calls := map[string][]occ{} // call sites by callee name
	for _, f := range p.files {
		for _, d := range f.F.Decls {
			fd, ok := d.(*ast.FuncDecl)
			if !ok || fd.Body == nil {
				continue
			}
			var stack []ast.Node
			ast.Inspect(fd.Body, func(n ast.Node) bool {
				if n == nil {
					stack = stack[:len(stack)-1]
					return true
				}
				stack = append(stack, n)
				switch x := n.(type) {
				case *ast.SelectorExpr:
					occs[x.Sel.Name] = append(occs[x.Sel.Name], occ{f, fd, append([]ast.Node(nil), stack...)})
				case *ast.CallExpr:
					name := ""
					switch fn := x.Fun.(type) {
					case *ast.Ident:
						name = fn.Name
					case *ast.SelectorExpr:
						name = fn.Sel.Name
					}
					if name != "" {
						calls[name] = append(calls[name], occ{f, fd, append([]ast.Node(nil), stack...)})
					}
				}
				return true
			})
		}
	}
	// only unexported fields of struct types declared in this package: nobody else can read them
	declared := map[string]bool{}
	for _, f := range p.files {
		ast.Inspect(f.F, func(n ast.Node) bool {
			if st, ok := n.(*ast.StructType); ok && st.Fields != nil {
				for _, fl := range st.Fields.List {
					for _, nm := range fl.Names {
						if !ast.IsExported(nm.Name) {
							declared[nm.Name] = true
						}
					}
				}
			}
			return true
		})
	}
	cand := map[string]bool{}
	for name := range occs {
		if len(p.funcs[name]) == 0 && declared[name] {
			cand[name] = true
		}
	}
	p.counters = cand
	dead := func(fd *ast.FuncDecl) bool { return !ast.IsExported(fd.Name.Name) && p.callers[fd.Name.Name] == 0 }
	// contextOK: the node on top of the stack sits where its value cannot matter
	var contextOK func(o occ, depth int) bool
	accessor := func(fd *ast.FuncDecl) bool {
		if ast.IsExported(fd.Name.Name) || fd.Body == nil {
			return false
		}
		for _, s := range fd.Body.List {
			switch x := s.(type) {
			case *ast.ReturnStmt:
			case *ast.ExprStmt, *ast.DeferStmt:
				var ce *ast.CallExpr
				if e, ok := x.(*ast.ExprStmt); ok {
					ce, _ = e.X.(*ast.CallExpr)
				} else {
					ce = x.(*ast.DeferStmt).Call
				}
				if ce == nil {
					return false
				}
				se, ok := ce.Fun.(*ast.SelectorExpr)
				if !ok || !(se.Sel.Name == "Lock" || se.Sel.Name == "Unlock" || se.Sel.Name == "RLock" || se.Sel.Name == "RUnlock") {
					return false
				}
			default:
				return false
			}
		}
		return true
	}
	contextOK = func(o occ, depth int) bool {
		if dead(o.fd) {
			return true
		}
		top := o.stack[len(o.stack)-1]
		for i := len(o.stack) - 2; i >= 0; i-- {
			child := o.stack[i+1]
			switch x := o.stack[i].(type) {
			case *ast.IncDecStmt:
				if x.X == child {
					return true
				}
			case *ast.AssignStmt:
				for _, l := range x.Lhs {
					if l == child && child == top {
						return true
					}
				}
			case *ast.CallExpr:
				if isLogCall(rnd(o.f, x.Fun)) {
					return true
				}
				if fs, ok := x.Fun.(*ast.SelectorExpr); ok && fs.X == top && i == len(o.stack)-3 &&
					(fs.Sel.Name == "Add" || fs.Sel.Name == "Inc" || fs.Sel.Name == "Store") {
					return true
				}
			case *ast.IfStmt:
				if (x.Init == child || x.Cond == child) && p.insignificantIf(o.f, x) {
					return true
				}
			case *ast.ReturnStmt:
				if depth < 3 && accessor(o.fd) {
					ok := true
					for _, c := range calls[o.fd.Name.Name] {
						ok = ok && contextOK(c, depth+1)
					}
					if ok {
						return true
					}
				}
			}
		}
		return false
	}
	for changed := true; changed; {
		changed = false
		for name := range cand {
			for _, o := range occs[name] {
				if !contextOK(o, 0) {
					delete(cand, name)
					changed = true
					break
				}
			}
		}
	}
}

// insignificant: the statement only logs or writes diagnostic fields (p.counters is the current candidate set).
func (p *pkgInfo) insignificant(f *gast.File, s ast.Stmt) bool {
	switch x := s.(type) {
	case *ast.EmptyStmt:
		return true
	case *ast.ExprStmt:
		ce, ok := x.X.(*ast.CallExpr)
		if !ok {
			return false
		}
		if isLogCall(rnd(f, ce.Fun)) {
			return true
		}
		if se, ok := ce.Fun.(*ast.SelectorExpr); ok {
			if in, ok := se.X.(*ast.SelectorExpr); ok && p.counters[in.Sel.Name] &&
				(se.Sel.Name == "Add" || se.Sel.Name == "Inc" || se.Sel.Name == "Store") {
				return true
			}
		}
		return false
	case *ast.IncDecStmt:
		se, ok := x.X.(*ast.SelectorExpr)
		return ok && p.counters[se.Sel.Name]
	case *ast.AssignStmt:
		for _, l := range x.Lhs {
			se, ok := l.(*ast.SelectorExpr)
			if !ok || !p.counters[se.Sel.Name] {
				return false
			}
		}
		return true
	case *ast.IfStmt:
		return p.insignificantIf(f, x)
	case *ast.BlockStmt:
		for _, b := range x.List {
			if !p.insignificant(f, b) {
				return false
			}
		}
		return true
	}
	return false
}

func (p *pkgInfo) insignificantIf(f *gast.File, x *ast.IfStmt) bool {
	for _, b := range x.Body.List {
		if !p.insignificant(f, b) {
			return false
		}
	}
	if x.Else != nil && !p.insignificant(f, x.Else) {
		return false
	}
	return true
}

// ---------------------------------------------------------------- values

type val struct {
	s      string
	fields map[string]*val // struct literal
	typ    string
	lit    *ast.FuncLit // closure
	vis    []int
	file   *gast.File
	list   []*val
	isList bool
	tuple  []*val
}

func sym(s string) *val { return &val{s: s} }

func (v *val) String() string {
	switch {
	case v == nil:
		return "<none>"
	case v.fields != nil:
		var ks []string
		for k := range v.fields {
			ks = append(ks, k)
		}
		sort.Strings(ks)
		var ps []string
		for _, k := range ks {
			ps = append(ps, k+":"+v.fields[k].String())
		}
		return v.typ + "{" + strings.Join(ps, ",") + "}"
	case v.lit != nil:
		return "closure"
	case v.isList:
		var ps []string
		for _, e := range v.list {
			ps = append(ps, e.String())
		}
		return "[" + strings.Join(ps, ",") + "]"
	case v.tuple != nil:
		var ps []string
		for _, e := range v.tuple {
			ps = append(ps, e.String())
		}
		return "<" + strings.Join(ps, ",") + ">"
	}
	return v.s
}

func (v *val) clone() *val {
	if v == nil || v.fields == nil {
		return v
	}
	c := &val{typ: v.typ, fields: map[string]*val{}}
	for k, f := range v.fields {
		c.fields[k] = f.clone()
	}
	return c
}

// normalising constructors -----------------------------------------------------

var binParts = map[string][3]string{} // result -> op, a, b
var callParts = map[string][]string{} // result -> fn, args...

func mkNot(s string) string {
	if strings.HasPrefix(s, "!") {
		return s[1:]
	}
	if s == "true" {
		return "false"
	}
	if s == "false" {
		return "true"
	}
	return "!" + s
}

func isConstLike(s string) bool { return strings.HasPrefix(s, "lit:") || s == "nil" }

// bitTestIsIsSet is set by main when running api.EventMask.IsSet confirmed that IsSet(e) is m&(1<<(e-1)) != 0.
var bitTestIsIsSet bool

// maskBitTest recognises (M & (1 << (E - 1))) and returns M, E.
func maskBitTest(s string) (string, string, bool) {
	p, ok := binParts[s]
	if !ok || p[0] != "&" {
		return "", "", false
	}
	for _, sw := range [2][2]string{{p[1], p[2]}, {p[2], p[1]}} {
		sh, ok := binParts[sw[1]]
		if !ok || sh[0] != "<<" || !(sh[1] == "lit:1" || strings.HasSuffix(sh[1], "EventMask(lit:1)")) {
			continue
		}
		d, ok := binParts[sh[2]]
		if ok && d[0] == "-" && d[2] == "lit:1" {
			return sw[0], d[1], true
		}
	}
	return "", "", false
}

func mkBin(op, a, b string) string {
	switch op {
	case "&^", "-", "^":
		if a == b {
			return "lit:0"
		}
	}
	if op == "==" && a == b {
		return "true"
	}
	if op == "==" && bitTestIsIsSet {
		for _, sw := range [2][2]string{{a, b}, {b, a}} {
			if sw[1] == "lit:0" {
				if m, e, ok := maskBitTest(sw[0]); ok {
					r := m + ".IsSet(" + e + ")"
					callParts[r] = []string{m + ".IsSet", e}
					return mkNot(r)
				}
			}
		}
	}
	switch op {
	case ">":
		return mkBin("<", b, a)
	case ">=":
		return mkNot(mkBin("<", a, b))
	case "<=":
		return mkNot(mkBin("<", b, a))
	case "!=":
		return mkNot(mkBin("==", a, b))
	case "&":
		if strings.HasPrefix(b, "^") {
			return mkBin("&^", a, b[1:])
		}
	case "<", "==":
		// strings.Compare(x, y) <op> 0
		if c, ok := callParts[a]; ok && c[0] == "strings.Compare" && b == "lit:0" && len(c) == 3 {
			return mkBin(op, c[1], c[2])
		}
		if c, ok := callParts[b]; ok && c[0] == "strings.Compare" && a == "lit:0" && len(c) == 3 {
			return mkBin(op, c[2], c[1])
		}
		if op == "==" {
			// (x & m) == x   is   (x &^ m) == 0
			if p, ok := binParts[a]; ok && p[0] == "&" && p[1] == b {
				return mkBin("==", mkBin("&^", p[1], p[2]), "lit:0")
			}
			if p, ok := binParts[b]; ok && p[0] == "&" && p[1] == a {
				return mkBin("==", mkBin("&^", p[1], p[2]), "lit:0")
			}
			if isConstLike(a) && !isConstLike(b) || (!isConstLike(a) && !isConstLike(b) && b < a) {
				a, b = b, a
			}
		}
	}
	r := "(" + a + op + b + ")"
	binParts[r] = [3]string{op, a, b}
	return r
}

func mkCall(fn string, args []*val) string {
	var as []string
	for _, a := range args {
		as = append(as, a.String())
	}
	r := fn + "(" + strings.Join(as, ",") + ")"
	callParts[r] = append([]string{fn}, as...)
	return r
}

// ---------------------------------------------------------------- state

type event struct {
	fn       string
	args     []string
	deferred bool
	id       int
}

func (e event) String() string {
	d := ""
	if e.deferred {
		d = "defer "
	}
	return d + e.fn + "(" + strings.Join(e.args, ",") + ")"
}

type dec struct {
	key string
	v   bool
}

type deferRec struct {
	ce *ast.CallExpr
	cx *actx
}

type state struct {
	defers   map[int][]deferRec // by activation
	exiting  int
	nextID   int
	frames   map[int]map[string]*val
	trace    []event
	decs     []dec
	unsup    []string
	loopExit map[string]string
}

func (st *state) clone() *state {
	c := &state{frames: map[int]map[string]*val{}, loopExit: map[string]string{}, defers: map[int][]deferRec{}, exiting: st.exiting, nextID: st.nextID}
	for a, l := range st.defers {
		c.defers[a] = append([]deferRec(nil), l...)
	}
	for id, fr := range st.frames {
		m := map[string]*val{}
		for k, v := range fr {
			m[k] = v.clone()
		}
		c.frames[id] = m
	}
	c.trace = append([]event(nil), st.trace...)
	c.decs = append([]dec(nil), st.decs...)
	c.unsup = append([]string(nil), st.unsup...)
	for k, v := range st.loopExit {
		c.loopExit[k] = v
	}
	return c
}

func (st *state) decided(key string) (bool, bool) {
	for _, d := range st.decs {
		if d.key == key {
			return d.v, true
		}
	}
	return false, false
}

type actx struct {
	act     int // activation (the frame of the function's parameters)
	file    *gast.File
	vis     []int
	results []string
	depth   int
}

const (
	kFall = iota
	kReturn
	kBreak
	kContinue
)

type out struct {
	st   *state
	kind int
	ret  []*val
}

type evr struct {
	st *state
	v  *val
}

type cr struct {
	st *state
	b  bool
}

type symex struct {
	p         *pkgInfo
	opaque    map[string]bool // function / method names that stay calls (events)
	pure      map[string]bool // function / method names whose calls are values without effect
	nextFrame int
	// drop X.Lock() immediately followed by X.Unlock() from the traces.  Only sound where taking X briefly adds no
	// lock-order edge — the relay functions, which take the plugin's mutex in p.close() in the same context anyway.
	dropEmptySections bool
}

var pureQualified = map[string]bool{
	"context.Background": true, "context.TODO": true, "context.WithTimeout": true, "context.WithCancel": true, "context.WithDeadline": true,
	"errors.Is": true, "errors.New": true, "fmt.Errorf": true, "fmt.Sprintf": true, "fmt.Sprint": true,
	"status.Code": true, "strings.Compare": true, "time.After": true, "time.NewTimer": true, "time.Duration": true,
	"strings.HasPrefix": true, "strings.TrimPrefix": true,
}

var builtinPure = map[string]bool{"len": true, "cap": true, "append": true, "make": true, "new": true, "string": true,
	"int": true, "int32": true, "int64": true, "uint": true, "uint32": true, "uint64": true, "byte": true, "min": true, "max": true}

var pureMethods = map[string]bool{"IsSet": true, "Error": true, "String": true, "name": true, "Name": true, "Load": true, "GetValue": true}

var getterRE = regexp.MustCompile(`^Get[A-Z]`)

func newSymex(p *pkgInfo, opaque, pure []string) *symex {
	x := &symex{p: p, opaque: map[string]bool{}, pure: map[string]bool{}}
	for _, n := range opaque {
		x.opaque[n] = true
	}
	for _, n := range pure {
		x.pure[n] = true
	}
	return x
}

func (x *symex) frame(st *state) int {
	x.nextFrame++
	st.frames[x.nextFrame] = map[string]*val{}
	return x.nextFrame
}

func (x *symex) lookup(st *state, cx *actx, name string) (*val, int) {
	for i := len(cx.vis) - 1; i >= 0; i-- {
		if v, ok := st.frames[cx.vis[i]][name]; ok {
			return v, cx.vis[i]
		}
	}
	return nil, 0
}

func (x *symex) emit(st *state, fn string, args []*val, deferred bool) *val {
	var as []string
	for _, a := range args {
		as = append(as, a.String())
	}
	id := st.nextID
	st.nextID++
	st.trace = append(st.trace, event{fn: fn, args: as, deferred: deferred || st.exiting > 0, id: id})
	return sym(fmt.Sprintf("call%d", id))
}

// run executes a declared function with receiver "$r" and parameters "$0", "$1", …
func (x *symex) run(fi *fnInfo) []out {
	st := newState()
	cx := &actx{file: fi.file}
	fr := x.frame(st)
	cx.vis = []int{fr}
	cx.act = fr
	if fi.fd.Recv != nil && len(fi.fd.Recv.List) == 1 && len(fi.fd.Recv.List[0].Names) == 1 {
		st.frames[fr][fi.fd.Recv.List[0].Names[0].Name] = sym("$r")
	}
	i := 0
	for _, f := range fi.fd.Type.Params.List {
		for _, n := range f.Names {
			st.frames[fr][n.Name] = sym(fmt.Sprintf("$%d", i))
			i++
		}
		if len(f.Names) == 0 {
			i++
		}
	}
	x.declResults(st, cx, fi.fd.Type, fr)
	outs := x.runDefers(x.finish(x.stmts(st, fi.fd.Body.List, cx), cx), cx)
	if x.dropEmptySections {
		for i := range outs {
			outs[i].st.trace = dropEmptyCriticalSections(outs[i].st.trace)
		}
	}
	return mergeIrrelevant(outs)
}

func newState() *state {
	return &state{frames: map[int]map[string]*val{}, loopExit: map[string]string{}, defers: map[int][]deferRec{}}
}

// runDefers executes the calls deferred by the activation of cx, last registered first, on every outcome.
func (x *symex) runDefers(outs []out, cx *actx) []out {
	var res []out
	for _, o := range outs {
		cur := []*state{o.st}
		list := o.st.defers[cx.act]
		delete(o.st.defers, cx.act)
		for i := len(list) - 1; i >= 0; i-- {
			var next []*state
			for _, s := range cur {
				s.exiting++
				for _, r := range x.call(s, list[i].cx, list[i].ce) {
					r.st.exiting--
					next = append(next, r.st)
				}
			}
			cur = next
		}
		for _, s := range cur {
			res = append(res, out{st: s, kind: o.kind, ret: o.ret})
		}
	}
	return res
}

// dropEmptyCriticalSections removes X.Lock() immediately followed by X.Unlock(): nothing happened under the lock.
func dropEmptyCriticalSections(tr []event) []event {
	for changed := true; changed; {
		changed = false
		for i := 0; i+1 < len(tr); i++ {
			a, b := tr[i], tr[i+1]
			for _, pr := range [][2]string{{".Lock", ".Unlock"}, {".RLock", ".RUnlock"}} {
				if strings.HasSuffix(a.fn, pr[0]) && strings.HasSuffix(b.fn, pr[1]) &&
					strings.TrimSuffix(a.fn, pr[0]) == strings.TrimSuffix(b.fn, pr[1]) && len(a.args) == 0 && len(b.args) == 0 {
					tr = append(append([]event(nil), tr[:i]...), tr[i+2:]...)
					changed = true
					break
				}
			}
			if changed {
				break
			}
		}
	}
	return tr
}

func outSignature(o out) string {
	var b strings.Builder
	for _, e := range o.st.trace {
		b.WriteString(e.String())
		b.WriteString(fmt.Sprintf("#%d;", e.id))
	}
	b.WriteString("|")
	for _, v := range o.ret {
		b.WriteString(v.String() + ",")
	}
	b.WriteString(fmt.Sprintf("|%d|%v|", o.kind, o.st.unsup))
	var ks []string
	for k, v := range o.st.loopExit {
		ks = append(ks, k+"="+v)
	}
	sort.Strings(ks)
	b.WriteString(strings.Join(ks, ","))
	return b.String()
}

// mergeIrrelevant drops decisions that change nothing: a condition both of whose outcomes lead to the same
// effects and results (whatever else was decided) is not a condition the behaviour depends on.
func mergeIrrelevant(outs []out) []out {
	for {
		keys := map[string]bool{}
		for _, o := range outs {
			for _, d := range o.st.decs {
				keys[d.key] = true
			}
		}
		var ks []string
		for k := range keys {
			ks = append(ks, k)
		}
		sort.Strings(ks)
		merged := false
		for _, k := range ks {
			groups := map[string][]int{}
			var order []string
			for i, o := range outs {
				var rest []string
				for _, d := range o.st.decs {
					if d.key != k {
						rest = append(rest, fmt.Sprintf("%s=%v", d.key, d.v))
					}
				}
				g := strings.Join(rest, "&")
				if _, ok := groups[g]; !ok {
					order = append(order, g)
				}
				groups[g] = append(groups[g], i)
			}
			same, both := true, false
			for _, g := range order {
				idx := groups[g]
				seenT, seenF := false, false
				for _, i := range idx {
					if outSignature(outs[i]) != outSignature(outs[idx[0]]) {
						same = false
					}
					if v, ok := outs[i].st.decided(k); ok {
						seenT, seenF = seenT || v, seenF || !v
					}
				}
				if seenT && seenF {
					both = true
				} else if seenT || seenF {
					// decided one way only on these paths: dropping it would lose the information
					if len(idx) > 0 {
						same = same && false
					}
				}
			}
			if !same || !both {
				continue
			}
			var next []out
			for _, g := range order {
				o := outs[groups[g][0]]
				var nd []dec
				for _, d := range o.st.decs {
					if d.key != k {
						nd = append(nd, d)
					}
				}
				o.st.decs = nd
				next = append(next, o)
			}
			outs, merged = next, true
			break
		}
		if !merged {
			return outs
		}
	}
}

func (x *symex) declResults(st *state, cx *actx, ft *ast.FuncType, fr int) {
	cx.results = nil
	if ft.Results == nil {
		return
	}
	for _, f := range ft.Results.List {
		for _, n := range f.Names {
			st.frames[fr][n.Name] = sym("nil")
			cx.results = append(cx.results, n.Name)
		}
	}
}

// finish turns "fell off the end" and bare returns into returns of the named results.
func (x *symex) finish(outs []out, cx *actx) []out {
	for i := range outs {
		o := &outs[i]
		if o.kind != kReturn || (len(o.ret) == 0 && len(cx.results) > 0) {
			o.kind = kReturn
			o.ret = nil
			for _, n := range cx.results {
				v, _ := x.lookup(o.st, cx, n)
				o.ret = append(o.ret, v)
			}
		}
	}
	return outs
}

// ---------------------------------------------------------------- statements

func (x *symex) stmts(st *state, list []ast.Stmt, cx *actx) []out {
	cur := []out{{st: st, kind: kFall}}
	for _, s := range list {
		var next []out
		for _, o := range cur {
			if o.kind != kFall {
				next = append(next, o)
				continue
			}
			next = append(next, x.stmt(o.st, s, cx)...)
		}
		cur = next
		if len(cur) > 4096 {
			for i := range cur {
				cur[i].st.unsup = append(cur[i].st.unsup, "path explosion")
			}
			return cur
		}
	}
	return cur
}

func falls(rs []evr) []out {
	var o []out
	for _, r := range rs {
		o = append(o, out{st: r.st, kind: kFall})
	}
	return o
}

func (x *symex) block(st *state, list []ast.Stmt, cx *actx) []out {
	inner := *cx
	fr := x.frame(st)
	inner.vis = append(append([]int(nil), cx.vis...), fr)
	return x.stmts(st, list, &inner)
}

func (x *symex) stmt(st *state, s ast.Stmt, cx *actx) []out {
	switch n := s.(type) {
	case nil, *ast.EmptyStmt:
		return []out{{st: st}}
	case *ast.ExprStmt:
		return falls(x.expr(st, cx, n.X))
	case *ast.BlockStmt:
		return x.block(st, n.List, cx)
	case *ast.LabeledStmt:
		return x.stmt(st, n.Stmt, cx)
	case *ast.DeclStmt:
		if gd, ok := n.Decl.(*ast.GenDecl); ok && gd.Tok == token.VAR {
			cur := []out{{st: st}}
			for _, sp := range gd.Specs {
				vs := sp.(*ast.ValueSpec)
				var next []out
				for _, o := range cur {
					if len(vs.Values) == 0 {
						for _, nm := range vs.Names {
							o.st.frames[cx.vis[len(cx.vis)-1]][nm.Name] = sym("nil")
						}
						next = append(next, o)
						continue
					}
					for _, r := range x.exprList(o.st, cx, vs.Values) {
						for i, nm := range vs.Names {
							if i < len(r.v.tuple) {
								r.st.frames[cx.vis[len(cx.vis)-1]][nm.Name] = r.v.tuple[i]
							}
						}
						next = append(next, out{st: r.st})
					}
				}
				cur = next
			}
			return cur
		}
		return []out{{st: st}}
	case *ast.AssignStmt:
		return x.assign(st, n, cx)
	case *ast.IncDecStmt:
		if se, ok := n.X.(*ast.SelectorExpr); ok {
			if x.p.counters[se.Sel.Name] {
				return []out{{st: st}}
			}
			var o []out
			for _, r := range x.expr(st, cx, se.X) {
				x.emit(r.st, "store", []*val{sym(r.v.String() + "." + se.Sel.Name)}, false)
				o = append(o, out{st: r.st})
			}
			return o
		}
		if id, ok := n.X.(*ast.Ident); ok {
			if v, fr := x.lookup(st, cx, id.Name); v != nil {
				st.frames[fr][id.Name] = sym(mkBin("+", v.String(), "lit:1"))
				return []out{{st: st}}
			}
		}
		x.emit(st, "store", []*val{sym(rnd(cx.file, n.X))}, false)
		return []out{{st: st}}
	case *ast.IfStmt:
		inner := *cx
		fr := x.frame(st)
		inner.vis = append(append([]int(nil), cx.vis...), fr)
		var res []out
		for _, o := range x.stmt(st, n.Init, &inner) {
			if o.kind != kFall {
				res = append(res, o)
				continue
			}
			for _, c := range x.cond(o.st, &inner, n.Cond) {
				if c.b {
					res = append(res, x.block(c.st, n.Body.List, &inner)...)
				} else if n.Else != nil {
					res = append(res, x.stmt(c.st, n.Else, &inner)...)
				} else {
					res = append(res, out{st: c.st})
				}
			}
		}
		return res
	case *ast.SwitchStmt:
		if n.Tag != nil {
			st.unsup = append(st.unsup, "switch with a tag")
			return []out{{st: st}}
		}
		inner := *cx
		fr := x.frame(st)
		inner.vis = append(append([]int(nil), cx.vis...), fr)
		var res []out
		for _, o := range x.stmt(st, n.Init, &inner) {
			if o.kind != kFall {
				res = append(res, o)
				continue
			}
			pending := []*state{o.st}
			var deflt *ast.CaseClause
			for _, c := range n.Body.List {
				cc := c.(*ast.CaseClause)
				if cc.List == nil {
					deflt = cc
					continue
				}
				var still []*state
				for _, ps := range pending {
					// the clause is taken when any of its conditions holds
					cands := []*state{ps}
					for _, ce := range cc.List {
						var rest []*state
						for _, cs := range cands {
							for _, r := range x.cond(cs, &inner, ce) {
								if r.b {
									for _, bo := range x.block(r.st, cc.Body, &inner) {
										if bo.kind == kBreak {
											bo.kind = kFall
										}
										res = append(res, bo)
									}
								} else {
									rest = append(rest, r.st)
								}
							}
						}
						cands = rest
					}
					still = append(still, cands...)
				}
				pending = still
			}
			for _, ps := range pending {
				if deflt == nil {
					res = append(res, out{st: ps})
					continue
				}
				for _, bo := range x.block(ps, deflt.Body, &inner) {
					if bo.kind == kBreak {
						bo.kind = kFall
					}
					res = append(res, bo)
				}
			}
		}
		return res
	case *ast.RangeStmt:
		return x.rangeStmt(st, n, cx)
	case *ast.ForStmt:
		inner := *cx
		fr := x.frame(st)
		inner.vis = append(append([]int(nil), cx.vis...), fr)
		key := fmt.Sprintf("for@%d", len(st.trace))
		var res []out
		for _, o := range x.stmt(st, n.Init, &inner) {
			if o.kind != kFall {
				res = append(res, o)
				continue
			}
			x.emit(o.st, "for", nil, false)
			res = append(res, x.loopBody(o.st, n.Body.List, &inner, key)...)
		}
		return res
	case *ast.ReturnStmt:
		var res []out
		for _, r := range x.exprList(st, cx, n.Results) {
			res = append(res, out{st: r.st, kind: kReturn, ret: r.v.tuple})
		}
		return res
	case *ast.BranchStmt:
		switch n.Tok {
		case token.BREAK:
			return []out{{st: st, kind: kBreak}}
		case token.CONTINUE:
			return []out{{st: st, kind: kContinue}}
		}
		st.unsup = append(st.unsup, "branch "+n.Tok.String())
		return []out{{st: st}}
	case *ast.DeferStmt:
		if _, ok := n.Call.Fun.(*ast.FuncLit); ok {
			st.unsup = append(st.unsup, "deferred function literal")
			return []out{{st: st}}
		}
		if isLogCall(rnd(cx.file, n.Call.Fun)) {
			return []out{{st: st}}
		}
		cc := *cx
		st.defers[cx.act] = append(st.defers[cx.act], deferRec{ce: n.Call, cx: &cc})
		return []out{{st: st}}
	case *ast.GoStmt:
		x.emit(st, "go", nil, false)
		return []out{{st: st}}
	}
	st.unsup = append(st.unsup, fmt.Sprintf("statement %T", s))
	return []out{{st: st}}
}

func (x *symex) loopBody(st *state, body []ast.Stmt, cx *actx, key string) []out {
	var res []out
	for _, o := range x.block(st, body, cx) {
		switch o.kind {
		case kReturn:
			o.st.loopExit[key] = "return"
			res = append(res, o)
		case kBreak:
			o.st.loopExit[key] = "break"
			res = append(res, out{st: o.st})
		default:
			if _, ok := o.st.loopExit[key]; !ok {
				o.st.loopExit[key] = "fall"
			}
			res = append(res, out{st: o.st})
		}
	}
	return res
}

func (x *symex) rangeStmt(st *state, n *ast.RangeStmt, cx *actx) []out {
	var res []out
	for _, r := range x.expr(st, cx, n.X) {
		inner := *cx
		fr := x.frame(r.st)
		inner.vis = append(append([]int(nil), cx.vis...), fr)
		bind := func(s *state, k, v *val) {
			if id, ok := n.Key.(*ast.Ident); ok && id.Name != "_" {
				s.frames[fr][id.Name] = k
			}
			if id, ok := n.Value.(*ast.Ident); ok && id.Name != "_" {
				s.frames[fr][id.Name] = v
			}
		}
		if r.v.isList {
			// a literal table: every element in turn
			cur := []*state{r.st}
			for i, e := range r.v.list {
				var next []*state
				for _, s := range cur {
					bind(s, sym(fmt.Sprintf("lit:%d", i)), e)
					for _, o := range x.block(s, n.Body.List, &inner) {
						switch o.kind {
						case kReturn:
							res = append(res, o)
						case kBreak:
							res = append(res, out{st: o.st})
						default:
							next = append(next, o.st)
						}
					}
				}
				cur = next
			}
			for _, s := range cur {
				res = append(res, out{st: s})
			}
			continue
		}
		key := "range(" + r.v.String() + ")"
		x.emit(r.st, "range", []*val{r.v}, false)
		bind(r.st, sym("idx("+r.v.String()+")"), sym("elem("+r.v.String()+")"))
		res = append(res, x.loopBody(r.st, n.Body.List, &inner, key)...)
	}
	return res
}

func (x *symex) assign(st *state, n *ast.AssignStmt, cx *actx) []out {
	if n.Tok != token.ASSIGN && n.Tok != token.DEFINE {
		// x op= y
		if se, ok := n.Lhs[0].(*ast.SelectorExpr); ok && x.p.counters[se.Sel.Name] {
			return []out{{st: st}}
		}
		if id, ok := n.Lhs[0].(*ast.Ident); ok {
			var res []out
			for _, r := range x.expr(st, cx, n.Rhs[0]) {
				if v, fr := x.lookup(r.st, cx, id.Name); v != nil {
					r.st.frames[fr][id.Name] = sym(mkBin(strings.TrimSuffix(n.Tok.String(), "="), v.String(), r.v.String()))
				}
				res = append(res, out{st: r.st})
			}
			return res
		}
		x.emit(st, "store", []*val{sym(rnd(cx.file, n.Lhs[0]))}, false)
		return []out{{st: st}}
	}
	var res []out
	for _, r := range x.exprList(st, cx, n.Rhs) {
		vals := r.v.tuple
		if len(n.Lhs) > 1 && len(vals) == 1 {
			v := vals[0]
			if v.tuple != nil {
				vals = v.tuple
			} else {
				vals = nil
				for i := range n.Lhs {
					vals = append(vals, sym(fmt.Sprintf("%s.%d", v.String(), i)))
				}
			}
		}
		for i, l := range n.Lhs {
			if i >= len(vals) {
				break
			}
			x.store(r.st, cx, l, vals[i], n.Tok == token.DEFINE)
		}
		res = append(res, out{st: r.st})
	}
	return res
}

func (x *symex) store(st *state, cx *actx, l ast.Expr, v *val, define bool) {
	switch t := l.(type) {
	case *ast.Ident:
		if t.Name == "_" {
			return
		}
		top := cx.vis[len(cx.vis)-1]
		if define {
			st.frames[top][t.Name] = v
			return
		}
		if old, fr := x.lookup(st, cx, t.Name); old != nil {
			st.frames[fr][t.Name] = v
			return
		}
		x.emit(st, "store", []*val{sym(t.Name), v}, false)
	case *ast.SelectorExpr:
		if x.p.counters[t.Sel.Name] {
			return
		}
		if id, ok := t.X.(*ast.Ident); ok {
			if base, _ := x.lookup(st, cx, id.Name); base != nil && base.fields != nil {
				base.fields[t.Sel.Name] = v
				return
			}
		}
		bs := rnd(cx.file, t.X)
		if id, ok := t.X.(*ast.Ident); ok {
			if base, _ := x.lookup(st, cx, id.Name); base != nil {
				bs = base.String()
			}
		}
		x.emit(st, "store", []*val{sym(bs + "." + t.Sel.Name), v}, false)
	default:
		x.emit(st, "store", []*val{sym(rnd(cx.file, l)), v}, false)
	}
}

// ---------------------------------------------------------------- expressions

// exprList evaluates expressions left to right; the value is a tuple of the results.
func (x *symex) exprList(st *state, cx *actx, es []ast.Expr) []evr {
	cur := []evr{{st: st, v: &val{tuple: []*val{}}}}
	for _, e := range es {
		var next []evr
		for _, c := range cur {
			for _, r := range x.expr(c.st, cx, e) {
				t := append(append([]*val(nil), c.v.tuple...), r.v)
				next = append(next, evr{st: r.st, v: &val{tuple: t}})
			}
		}
		cur = next
	}
	return cur
}

func unparen(e ast.Expr) ast.Expr {
	for {
		p, ok := e.(*ast.ParenExpr)
		if !ok {
			return e
		}
		e = p.X
	}
}

func normSel(base, sel string) string {
	if sel == "Mutex" {
		return base // an embedded mutex named explicitly
	}
	return base + "." + sel
}

func (x *symex) expr(st *state, cx *actx, e ast.Expr) []evr {
	switch n := unparen(e).(type) {
	case *ast.Ident:
		switch n.Name {
		case "nil", "true", "false":
			return []evr{{st, sym(n.Name)}}
		}
		if v, _ := x.lookup(st, cx, n.Name); v != nil {
			return []evr{{st, v}}
		}
		if init, ok := x.p.vars[n.Name]; ok {
			if cl, ok := init.(*ast.CompositeLit); ok {
				if _, isArr := cl.Type.(*ast.ArrayType); isArr {
					vcx := &actx{file: x.p.varFile[n.Name], vis: cx.vis}
					return x.expr(st, vcx, cl)
				}
			}
		}
		return []evr{{st, sym(n.Name)}}
	case *ast.BasicLit:
		return []evr{{st, sym("lit:" + n.Value)}}
	case *ast.FuncLit:
		return []evr{{st, &val{s: "closure", lit: n, vis: append([]int(nil), cx.vis...), file: cx.file}}}
	case *ast.CompositeLit:
		if _, isArr := n.Type.(*ast.ArrayType); isArr {
			cur := []evr{{st, &val{isList: true}}}
			for _, el := range n.Elts {
				var next []evr
				for _, c := range cur {
					for _, r := range x.expr(c.st, cx, el) {
						next = append(next, evr{r.st, &val{isList: true, list: append(append([]*val(nil), c.v.list...), r.v)}})
					}
				}
				cur = next
			}
			return cur
		}
		typ := ""
		if n.Type != nil {
			typ = rnd(cx.file, n.Type)
			if i := strings.LastIndex(typ, "."); i >= 0 {
				typ = typ[i+1:]
			}
		}
		cur := []evr{{st, &val{typ: typ, fields: map[string]*val{}}}}
		for _, el := range n.Elts {
			kv, ok := el.(*ast.KeyValueExpr)
			if !ok {
				st.unsup = append(st.unsup, "positional composite literal")
				continue
			}
			var next []evr
			for _, c := range cur {
				for _, r := range x.expr(c.st, cx, kv.Value) {
					nv := c.v.clone()
					nv.fields[rnd(cx.file, kv.Key)] = r.v
					next = append(next, evr{r.st, nv})
				}
			}
			cur = next
		}
		return cur
	case *ast.UnaryExpr:
		var res []evr
		for _, r := range x.expr(st, cx, n.X) {
			switch n.Op {
			case token.AND:
				res = append(res, r)
			case token.NOT:
				res = append(res, evr{r.st, sym(mkNot(r.v.String()))})
			case token.ARROW:
				res = append(res, evr{r.st, sym("recv(" + r.v.String() + ")")})
			default:
				res = append(res, evr{r.st, sym(n.Op.String() + r.v.String())})
			}
		}
		return res
	case *ast.StarExpr:
		return x.expr(st, cx, n.X)
	case *ast.BinaryExpr:
		var res []evr
		for _, a := range x.expr(st, cx, n.X) {
			for _, b := range x.expr(a.st, cx, n.Y) {
				res = append(res, evr{b.st, sym(mkBin(n.Op.String(), a.v.String(), b.v.String()))})
			}
		}
		return res
	case *ast.SelectorExpr:
		if id, ok := n.X.(*ast.Ident); ok {
			if v, _ := x.lookup(st, cx, id.Name); v == nil {
				if _, isVar := x.p.vars[id.Name]; !isVar {
					return []evr{{st, sym(id.Name + "." + n.Sel.Name)}} // package-qualified name
				}
			}
		}
		var res []evr
		for _, r := range x.expr(st, cx, n.X) {
			if r.v.fields != nil {
				if f, ok := r.v.fields[n.Sel.Name]; ok {
					res = append(res, evr{r.st, f})
				} else {
					res = append(res, evr{r.st, sym("nil")})
				}
				continue
			}
			res = append(res, evr{r.st, sym(normSel(r.v.String(), n.Sel.Name))})
		}
		return res
	case *ast.IndexExpr:
		var res []evr
		for _, a := range x.expr(st, cx, n.X) {
			for _, b := range x.expr(a.st, cx, n.Index) {
				res = append(res, evr{b.st, sym(a.v.String() + "[" + b.v.String() + "]")})
			}
		}
		return res
	case *ast.SliceExpr:
		var res []evr
		for _, a := range x.expr(st, cx, n.X) {
			res = append(res, evr{a.st, sym("slice(" + a.v.String() + "," + rnd(cx.file, n) + ")")})
		}
		return res
	case *ast.TypeAssertExpr:
		return x.expr(st, cx, n.X)
	case *ast.CallExpr:
		return x.call(st, cx, n)
	}
	st.unsup = append(st.unsup, fmt.Sprintf("expression %T", e))
	return []evr{{st, sym("?" + rnd(cx.file, e))}}
}

// calleeAndArgs: the canonical callee string (v.s) and the argument values (v.tuple) of a call that is
// recorded rather than executed.
func (x *symex) calleeAndArgs(st *state, cx *actx, ce *ast.CallExpr) []evr {
	var res []evr
	for _, a := range x.exprList(st, cx, ce.Args) {
		switch f := unparen(ce.Fun).(type) {
		case *ast.Ident:
			name := f.Name
			if v, _ := x.lookup(a.st, cx, f.Name); v != nil {
				name = v.String()
			}
			res = append(res, evr{a.st, &val{s: name, tuple: a.v.tuple}})
		case *ast.SelectorExpr:
			if id, ok := f.X.(*ast.Ident); ok {
				if v, _ := x.lookup(a.st, cx, id.Name); v == nil {
					res = append(res, evr{a.st, &val{s: id.Name + "." + f.Sel.Name, tuple: a.v.tuple}})
					continue
				}
			}
			for _, r := range x.expr(a.st, cx, f.X) {
				res = append(res, evr{r.st, &val{s: normSel(r.v.String(), f.Sel.Name), tuple: a.v.tuple}})
			}
		default:
			res = append(res, evr{a.st, &val{s: rnd(cx.file, ce.Fun), tuple: a.v.tuple}})
		}
	}
	return res
}

func (x *symex) inlinable(fi *fnInfo) bool {
	if fi == nil || fi.fd.Body == nil || ast.IsExported(fi.fd.Name.Name) || x.opaque[fi.fd.Name.Name] {
		return false
	}
	n := 0
	ast.Inspect(fi.fd.Body, func(m ast.Node) bool {
		if _, ok := m.(ast.Stmt); ok {
			n++
		}
		return true
	})
	return n <= 40
}

func (x *symex) call(st *state, cx *actx, ce *ast.CallExpr) []evr {
	fun := unparen(ce.Fun)
	rs := rnd(cx.file, fun)
	if isLogCall(rs) {
		return []evr{{st, sym("nil")}}
	}
	// immediately invoked function literal
	if fl, ok := fun.(*ast.FuncLit); ok {
		var res []evr
		for _, a := range x.exprList(st, cx, ce.Args) {
			res = append(res, x.invoke(a.st, cx, fl.Type, fl.Body, cx.file, cx.vis, nil, "", a.v.tuple)...)
		}
		return res
	}
	switch f := fun.(type) {
	case *ast.Ident:
		if v, _ := x.lookup(st, cx, f.Name); v != nil {
			var res []evr
			for _, a := range x.exprList(st, cx, ce.Args) {
				if v.lit != nil && cx.depth < 5 {
					res = append(res, x.invoke(a.st, cx, v.lit.Type, v.lit.Body, v.file, v.vis, nil, "", a.v.tuple)...)
				} else {
					res = append(res, evr{a.st, x.emit(a.st, v.String(), a.v.tuple, false)})
				}
			}
			return res
		}
		var res []evr
		for _, a := range x.exprList(st, cx, ce.Args) {
			fis := x.p.funcs[f.Name]
			var fi *fnInfo
			for _, c := range fis {
				if c.recv == "" {
					fi = c
				}
			}
			switch {
			case f.Name == "new" && len(ce.Args) == 1:
				typ := rnd(cx.file, ce.Args[0])
				if i := strings.LastIndex(typ, "."); i >= 0 {
					typ = typ[i+1:]
				}
				res = append(res, evr{a.st, &val{typ: typ, fields: map[string]*val{}}})
			case builtinPure[f.Name] || x.pure[f.Name]:
				res = append(res, evr{a.st, sym(mkCall(f.Name, a.v.tuple))})
			case x.opaque[f.Name]:
				res = append(res, evr{a.st, x.emit(a.st, f.Name, a.v.tuple, false)})
			case fi != nil && x.inlinable(fi) && cx.depth < 5:
				res = append(res, x.invoke(a.st, cx, fi.fd.Type, fi.fd.Body, fi.file, nil, nil, "", a.v.tuple)...)
			case fi == nil && len(ce.Args) == 1 && len(fis) == 0:
				// a conversion to a named type
				res = append(res, evr{a.st, sym(mkCall(f.Name, a.v.tuple))})
			default:
				res = append(res, evr{a.st, x.emit(a.st, f.Name, a.v.tuple, false)})
			}
		}
		return res
	case *ast.SelectorExpr:
		name := f.Sel.Name
		if id, ok := f.X.(*ast.Ident); ok {
			if v, _ := x.lookup(st, cx, id.Name); v == nil {
				if _, isVar := x.p.vars[id.Name]; !isVar {
					q := id.Name + "." + name
					var res []evr
					for _, a := range x.exprList(st, cx, ce.Args) {
						if pureQualified[q] {
							res = append(res, evr{a.st, sym(mkCall(q, a.v.tuple))})
						} else {
							res = append(res, evr{a.st, x.emit(a.st, q, a.v.tuple, false)})
						}
					}
					return res
				}
			}
		}
		// a method call on a counter field: x.f.Add(1)
		if inner, ok := f.X.(*ast.SelectorExpr); ok && x.p.counters[inner.Sel.Name] {
			return []evr{{st, sym("counter")}}
		}
		var res []evr
		for _, r := range x.expr(st, cx, f.X) {
			for _, a := range x.exprList(r.st, cx, ce.Args) {
				recv := r.v
				callee := normSel(recv.String(), name)
				var fi *fnInfo
				if ms := x.p.funcs[name]; len(ms) == 1 && ms[0].recv != "" {
					fi = ms[0]
				}
				switch {
				case recv.lit != nil:
					res = append(res, evr{a.st, x.emit(a.st, callee, a.v.tuple, false)})
				case x.opaque[name]:
					res = append(res, evr{a.st, x.emit(a.st, callee, a.v.tuple, false)})
				case getterRE.MatchString(name) && len(ce.Args) == 0 && fi == nil:
					fld := name[3:]
					if recv.fields != nil {
						if fv, ok := recv.fields[fld]; ok {
							res = append(res, evr{a.st, fv})
						} else {
							res = append(res, evr{a.st, sym("nil")})
						}
					} else {
						res = append(res, evr{a.st, sym("getf(" + recv.String() + "," + fld + ")")})
					}
				case pureMethods[name] || x.pure[name]:
					res = append(res, evr{a.st, sym(mkCall(callee, a.v.tuple))})
				case fi != nil && x.inlinable(fi) && cx.depth < 5:
					rname := ""
					if len(fi.fd.Recv.List[0].Names) == 1 {
						rname = fi.fd.Recv.List[0].Names[0].Name
					}
					res = append(res, x.invoke(a.st, cx, fi.fd.Type, fi.fd.Body, fi.file, nil, recv, rname, a.v.tuple)...)
				default:
					res = append(res, evr{a.st, x.emit(a.st, callee, a.v.tuple, false)})
				}
			}
		}
		return res
	}
	var res []evr
	for _, a := range x.exprList(st, cx, ce.Args) {
		res = append(res, evr{a.st, x.emit(a.st, rs, a.v.tuple, false)})
	}
	return res
}

// invoke executes a function body in place.
func (x *symex) invoke(st *state, cx *actx, ft *ast.FuncType, body *ast.BlockStmt, file *gast.File, vis []int, recv *val, rname string, args []*val) []evr {
	inner := &actx{file: file, depth: cx.depth + 1}
	fr := x.frame(st)
	inner.act = fr
	inner.vis = append(append([]int(nil), vis...), fr)
	if recv != nil && rname != "" {
		st.frames[fr][rname] = recv
	}
	i := 0
	for _, f := range ft.Params.List {
		for _, n := range f.Names {
			if i < len(args) {
				st.frames[fr][n.Name] = args[i]
			} else {
				st.frames[fr][n.Name] = sym("nil")
			}
			i++
		}
		if len(f.Names) == 0 {
			i++
		}
	}
	x.declResults(st, inner, ft, fr)
	var res []evr
	for _, o := range x.runDefers(x.finish(x.stmts(st, body.List, inner), inner), inner) {
		switch len(o.ret) {
		case 0:
			res = append(res, evr{o.st, sym("nil")})
		case 1:
			res = append(res, evr{o.st, o.ret[0]})
		default:
			res = append(res, evr{o.st, &val{tuple: o.ret}})
		}
	}
	return res
}

// ---------------------------------------------------------------- conditions

func (x *symex) decide(st *state, key string) []cr {
	switch key {
	case "true":
		return []cr{{st, true}}
	case "false":
		return []cr{{st, false}}
	}
	neg := false
	for strings.HasPrefix(key, "!") {
		key, neg = key[1:], !neg
	}
	if key == "true" || key == "false" {
		return []cr{{st, (key == "true") != neg}}
	}
	if v, ok := st.decided(key); ok {
		return []cr{{st, v != neg}}
	}
	t, f := st, st.clone()
	t.decs = append(t.decs, dec{key, true})
	f.decs = append(f.decs, dec{key, false})
	return []cr{{t, !neg}, {f, neg}}
}

func isNilIdent(e ast.Expr) bool {
	id, ok := unparen(e).(*ast.Ident)
	return ok && id.Name == "nil"
}

func (x *symex) cond(st *state, cx *actx, e ast.Expr) []cr {
	switch n := unparen(e).(type) {
	case *ast.UnaryExpr:
		if n.Op == token.NOT {
			var res []cr
			for _, c := range x.cond(st, cx, n.X) {
				res = append(res, cr{c.st, !c.b})
			}
			return res
		}
	case *ast.BinaryExpr:
		switch n.Op {
		case token.LAND, token.LOR:
			var res []cr
			for _, a := range x.cond(st, cx, n.X) {
				if a.b == (n.Op == token.LOR) {
					res = append(res, a) // short circuit
					continue
				}
				res = append(res, x.cond(a.st, cx, n.Y)...)
			}
			return res
		case token.EQL, token.NEQ:
			var other ast.Expr
			if isNilIdent(n.Y) {
				other = n.X
			} else if isNilIdent(n.X) {
				other = n.Y
			}
			if other != nil {
				var res []cr
				for _, r := range x.expr(st, cx, other) {
					for _, c := range x.nilTest(r.st, r.v) {
						res = append(res, cr{c.st, c.b == (n.Op == token.EQL)})
					}
				}
				return res
			}
		}
	}
	var res []cr
	for _, r := range x.expr(st, cx, e) {
		res = append(res, x.decide(r.st, r.v.String())...)
	}
	return res
}

func (x *symex) nilTest(st *state, v *val) []cr {
	switch {
	case v.fields != nil || v.lit != nil || v.isList:
		return []cr{{st, false}}
	case v.s == "nil":
		return []cr{{st, true}}
	}
	return x.decide(st, "nil?("+v.String()+")")
}

// ---------------------------------------------------------------- helpers for the fact extractors

func (p *pkgInfo) method(recv, name string) *fnInfo {
	for _, fi := range p.funcs[name] {
		if fi.recv == recv {
			return fi
		}
	}
	return nil
}

func decOf(o out, key string) (bool, bool) { return o.st.decided(key) }

func sigTrace(o out) []event { return o.st.trace }

func allNilVals(vs []*val) bool {
	for _, v := range vs {
		if v == nil || v.String() != "nil" {
			return false
		}
	}
	return true
}
