package main

import (
	"fmt"
	"math"
	"math/rand"
	"reflect"
	"sort"
	"strings"

	"github.com/containerd/nri/pkg/api"

	"verif/harness/internal/coqfmt"
	"verif/harness/internal/nm"
)

// Op is one call of a builder method: the method name and its arguments.
type Op struct {
	M     string     `json:"m"`
	S1    string     `json:"s1,omitempty"`
	S2    string     `json:"s2,omitempty"`
	I     int64      `json:"i,omitempty"`
	U     uint64     `json:"u,omitempty"`
	U2    uint64     `json:"u2,omitempty"`
	L     []string   `json:"l,omitempty"`
	LNil  bool       `json:"lnil,omitempty"` // SetArgs(nil) rather than SetArgs([]string{})
	Mount *nm.Mount  `json:"mount,omitempty"`
	Dev   *nm.Device `json:"dev,omitempty"`
	Hooks *nm.Hooks  `json:"hooks,omitempty"`
	P     *int64     `json:"p,omitempty"` // *int argument of SetLinuxOomScoreAdj (nil = nil)
}

// resDef describes one of the resource setters that exist on both receivers.
type resDef struct {
	kind  byte   // i int64, u uint64, s string, 0 no argument, H (size, limit), K (key, value)
	ctor  string // constructor of Model.Builders.rop
	field string // scalar field of Types.sfield it writes ("" for H and K)
	adj   func(*api.ContainerAdjustment, Op)
	upd   func(*api.ContainerUpdate, Op)
}

var resDefs = map[string]*resDef{
	"SetLinuxMemoryLimit": {'i', "RMemoryLimit", "MemLimit",
		func(a *api.ContainerAdjustment, o Op) { a.SetLinuxMemoryLimit(o.I) }, func(u *api.ContainerUpdate, o Op) { u.SetLinuxMemoryLimit(o.I) }},
	"SetLinuxMemoryReservation": {'i', "RMemoryReservation", "MemReservation",
		func(a *api.ContainerAdjustment, o Op) { a.SetLinuxMemoryReservation(o.I) }, func(u *api.ContainerUpdate, o Op) { u.SetLinuxMemoryReservation(o.I) }},
	"SetLinuxMemorySwap": {'i', "RMemorySwap", "MemSwap",
		func(a *api.ContainerAdjustment, o Op) { a.SetLinuxMemorySwap(o.I) }, func(u *api.ContainerUpdate, o Op) { u.SetLinuxMemorySwap(o.I) }},
	"SetLinuxMemoryKernel": {'i', "RMemoryKernel", "MemKernel",
		func(a *api.ContainerAdjustment, o Op) { a.SetLinuxMemoryKernel(o.I) }, func(u *api.ContainerUpdate, o Op) { u.SetLinuxMemoryKernel(o.I) }},
	"SetLinuxMemoryKernelTCP": {'i', "RMemoryKernelTCP", "MemKernelTcp",
		func(a *api.ContainerAdjustment, o Op) { a.SetLinuxMemoryKernelTCP(o.I) }, func(u *api.ContainerUpdate, o Op) { u.SetLinuxMemoryKernelTCP(o.I) }},
	"SetLinuxMemorySwappiness": {'u', "RMemorySwappiness", "MemSwappiness",
		func(a *api.ContainerAdjustment, o Op) { a.SetLinuxMemorySwappiness(o.U) }, func(u *api.ContainerUpdate, o Op) { u.SetLinuxMemorySwappiness(o.U) }},
	"SetLinuxMemoryDisableOomKiller": {'0', "RMemoryDisableOomKiller", "MemDisableOom",
		func(a *api.ContainerAdjustment, o Op) { a.SetLinuxMemoryDisableOomKiller() }, func(u *api.ContainerUpdate, o Op) { u.SetLinuxMemoryDisableOomKiller() }},
	"SetLinuxMemoryUseHierarchy": {'0', "RMemoryUseHierarchy", "MemUseHierarchy",
		func(a *api.ContainerAdjustment, o Op) { a.SetLinuxMemoryUseHierarchy() }, func(u *api.ContainerUpdate, o Op) { u.SetLinuxMemoryUseHierarchy() }},
	"SetLinuxCPUShares": {'u', "RCPUShares", "CpuShares",
		func(a *api.ContainerAdjustment, o Op) { a.SetLinuxCPUShares(o.U) }, func(u *api.ContainerUpdate, o Op) { u.SetLinuxCPUShares(o.U) }},
	"SetLinuxCPUQuota": {'i', "RCPUQuota", "CpuQuota",
		func(a *api.ContainerAdjustment, o Op) { a.SetLinuxCPUQuota(o.I) }, func(u *api.ContainerUpdate, o Op) { u.SetLinuxCPUQuota(o.I) }},
	"SetLinuxCPUPeriod": {'i', "RCPUPeriod", "CpuPeriod",
		func(a *api.ContainerAdjustment, o Op) { a.SetLinuxCPUPeriod(o.I) }, func(u *api.ContainerUpdate, o Op) { u.SetLinuxCPUPeriod(o.I) }},
	"SetLinuxCPURealtimeRuntime": {'i', "RCPURealtimeRuntime", "CpuRtRuntime",
		func(a *api.ContainerAdjustment, o Op) { a.SetLinuxCPURealtimeRuntime(o.I) }, func(u *api.ContainerUpdate, o Op) { u.SetLinuxCPURealtimeRuntime(o.I) }},
	"SetLinuxCPURealtimePeriod": {'u', "RCPURealtimePeriod", "CpuRtPeriod",
		func(a *api.ContainerAdjustment, o Op) { a.SetLinuxCPURealtimePeriod(o.U) }, func(u *api.ContainerUpdate, o Op) { u.SetLinuxCPURealtimePeriod(o.U) }},
	"SetLinuxCPUSetCPUs": {'s', "RCPUSetCPUs", "CpuCpus",
		func(a *api.ContainerAdjustment, o Op) { a.SetLinuxCPUSetCPUs(o.S1) }, func(u *api.ContainerUpdate, o Op) { u.SetLinuxCPUSetCPUs(o.S1) }},
	"SetLinuxCPUSetMems": {'s', "RCPUSetMems", "CpuMems",
		func(a *api.ContainerAdjustment, o Op) { a.SetLinuxCPUSetMems(o.S1) }, func(u *api.ContainerUpdate, o Op) { u.SetLinuxCPUSetMems(o.S1) }},
	"SetLinuxPidLimits": {'i', "RPidLimits", "Pids",
		func(a *api.ContainerAdjustment, o Op) { a.SetLinuxPidLimits(o.I) }, func(u *api.ContainerUpdate, o Op) { u.SetLinuxPidLimits(o.I) }},
	"AddLinuxHugepageLimit": {'H', "RHugepageLimit", "",
		func(a *api.ContainerAdjustment, o Op) { a.AddLinuxHugepageLimit(o.S1, o.U) }, func(u *api.ContainerUpdate, o Op) { u.AddLinuxHugepageLimit(o.S1, o.U) }},
	"SetLinuxBlockIOClass": {'s', "RBlockIOClass", "BlockioClass",
		func(a *api.ContainerAdjustment, o Op) { a.SetLinuxBlockIOClass(o.S1) }, func(u *api.ContainerUpdate, o Op) { u.SetLinuxBlockIOClass(o.S1) }},
	"SetLinuxRDTClass": {'s', "RRDTClass", "RdtClass",
		func(a *api.ContainerAdjustment, o Op) { a.SetLinuxRDTClass(o.S1) }, func(u *api.ContainerUpdate, o Op) { u.SetLinuxRDTClass(o.S1) }},
	"AddLinuxUnified": {'K', "RUnified", "",
		func(a *api.ContainerAdjustment, o Op) { a.AddLinuxUnified(o.S1, o.S2) }, func(u *api.ContainerUpdate, o Op) { u.AddLinuxUnified(o.S1, o.S2) }},
}

// the methods of *ContainerAdjustment that are not resource setters
var adjOnly = map[string]func(*api.ContainerAdjustment, Op){
	"AddAnnotation":    func(a *api.ContainerAdjustment, o Op) { a.AddAnnotation(o.S1, o.S2) },
	"RemoveAnnotation": func(a *api.ContainerAdjustment, o Op) { a.RemoveAnnotation(o.S1) },
	"AddMount":         func(a *api.ContainerAdjustment, o Op) { a.AddMount(o.Mount.ToAPI()) },
	"RemoveMount":      func(a *api.ContainerAdjustment, o Op) { a.RemoveMount(o.S1) },
	"AddEnv":           func(a *api.ContainerAdjustment, o Op) { a.AddEnv(o.S1, o.S2) },
	"RemoveEnv":        func(a *api.ContainerAdjustment, o Op) { a.RemoveEnv(o.S1) },
	"SetArgs": func(a *api.ContainerAdjustment, o Op) {
		if o.LNil {
			a.SetArgs(nil)
		} else {
			a.SetArgs(append([]string{}, o.L...))
		}
	},
	"UpdateArgs":          func(a *api.ContainerAdjustment, o Op) { a.UpdateArgs(append([]string(nil), o.L...)) },
	"AddHooks":            func(a *api.ContainerAdjustment, o Op) { a.AddHooks(o.Hooks.ToAPI()) },
	"AddRlimit":           func(a *api.ContainerAdjustment, o Op) { a.AddRlimit(o.S1, o.U, o.U2) },
	"AddDevice":           func(a *api.ContainerAdjustment, o Op) { a.AddDevice(o.Dev.ToAPI()) },
	"RemoveDevice":        func(a *api.ContainerAdjustment, o Op) { a.RemoveDevice(o.S1) },
	"AddCDIDevice":        func(a *api.ContainerAdjustment, o Op) { a.AddCDIDevice(&api.CDIDevice{Name: o.S1}) },
	"SetLinuxCgroupsPath": func(a *api.ContainerAdjustment, o Op) { a.SetLinuxCgroupsPath(o.S1) },
	"SetLinuxOomScoreAdj": func(a *api.ContainerAdjustment, o Op) {
		if o.P == nil {
			a.SetLinuxOomScoreAdj(nil)
		} else {
			v := int(*o.P)
			a.SetLinuxOomScoreAdj(&v)
		}
	},
}

// the methods of *ContainerUpdate that are not resource setters
var updOnly = map[string]func(*api.ContainerUpdate, Op){
	"SetContainerId":   func(u *api.ContainerUpdate, o Op) { u.SetContainerId(o.S1) },
	"SetIgnoreFailure": func(u *api.ContainerUpdate, o Op) { u.SetIgnoreFailure() },
}

// methods of the generated message types that are not builders
var notBuilders = map[string]bool{"Descriptor": true, "ProtoMessage": true, "ProtoReflect": true, "Reset": true, "String": true}

func builderMethods(v interface{}) []string {
	t := reflect.TypeOf(v)
	var out []string
	for i := 0; i < t.NumMethod(); i++ {
		n := t.Method(i).Name
		if notBuilders[n] || strings.HasPrefix(n, "Get") || strings.HasSuffix(n, "VT") {
			continue
		}
		out = append(out, n)
	}
	sort.Strings(out)
	return out
}

func adjMethodNames() []string {
	var out []string
	for n := range adjOnly {
		out = append(out, n)
	}
	for n := range resDefs {
		out = append(out, n)
	}
	sort.Strings(out)
	return out
}

func updMethodNames() []string {
	var out []string
	for n := range updOnly {
		out = append(out, n)
	}
	for n := range resDefs {
		out = append(out, n)
	}
	sort.Strings(out)
	return out
}

// coverage compares the method sets found by reflection with the op tables.
func coverage() []string {
	var errs []string
	cmp := func(what string, real, table []string) {
		have := map[string]bool{}
		for _, n := range table {
			have[n] = true
		}
		seen := map[string]bool{}
		for _, n := range real {
			seen[n] = true
			if !have[n] {
				errs = append(errs, fmt.Sprintf("%s has a builder method %s that the op table of h_build (and Model/Builders.v) does not cover", what, n))
			}
		}
		for _, n := range table {
			if !seen[n] {
				errs = append(errs, fmt.Sprintf("op table names %s.%s, which does not exist", what, n))
			}
		}
	}
	cmp("*api.ContainerAdjustment", builderMethods(&api.ContainerAdjustment{}), adjMethodNames())
	cmp("*api.ContainerUpdate", builderMethods(&api.ContainerUpdate{}), updMethodNames())
	return errs
}

// ---------------------------------------------------------------- applying

// applyAdj calls the real method; a panic is reported as the returned string.
func applyAdj(a *api.ContainerAdjustment, o Op) (panicked string) {
	defer func() {
		if r := recover(); r != nil {
			panicked = fmt.Sprint(r)
		}
	}()
	if f, ok := adjOnly[o.M]; ok {
		f(a, o)
	} else {
		resDefs[o.M].adj(a, o)
	}
	return ""
}

func applyUpd(u *api.ContainerUpdate, o Op) (panicked string) {
	defer func() {
		if r := recover(); r != nil {
			panicked = fmt.Sprint(r)
		}
	}()
	if f, ok := updOnly[o.M]; ok {
		f(u, o)
	} else {
		resDefs[o.M].upd(u, o)
	}
	return ""
}

// ---------------------------------------------------------------- printing

func ropCoq(o Op) string {
	d := resDefs[o.M]
	switch d.kind {
	case 'i':
		return fmt.Sprintf("(%s %s)", d.ctor, coqfmt.Z(o.I))
	case 'u':
		return fmt.Sprintf("(%s %s)", d.ctor, coqfmt.ZU(o.U))
	case 's':
		return fmt.Sprintf("(%s %s)", d.ctor, coqfmt.Str(o.S1))
	case '0':
		return d.ctor
	case 'H':
		return fmt.Sprintf("(%s %s %s)", d.ctor, coqfmt.Str(o.S1), coqfmt.ZU(o.U))
	default:
		return fmt.Sprintf("(%s %s %s)", d.ctor, coqfmt.Str(o.S1), coqfmt.Str(o.S2))
	}
}

func bopCoq(o Op) string {
	switch o.M {
	case "AddAnnotation":
		return fmt.Sprintf("BAddAnnotation %s %s", coqfmt.Str(o.S1), coqfmt.Str(o.S2))
	case "RemoveAnnotation":
		return "BRemoveAnnotation " + coqfmt.Str(o.S1)
	case "AddMount":
		return "BAddMount " + o.Mount.Coq()
	case "RemoveMount":
		return "BRemoveMount " + coqfmt.Str(o.S1)
	case "AddEnv":
		return fmt.Sprintf("BAddEnv %s %s", coqfmt.Str(o.S1), coqfmt.Str(o.S2))
	case "RemoveEnv":
		return "BRemoveEnv " + coqfmt.Str(o.S1)
	case "SetArgs":
		return "BSetArgs " + coqfmt.StrList(o.L)
	case "UpdateArgs":
		return "BUpdateArgs " + coqfmt.StrList(o.L)
	case "AddHooks":
		return "BAddHooks " + o.Hooks.Coq()
	case "AddRlimit":
		return fmt.Sprintf("BAddRlimit %s %s %s", coqfmt.Str(o.S1), coqfmt.ZU(o.U), coqfmt.ZU(o.U2))
	case "AddDevice":
		return "BAddDevice " + o.Dev.Coq()
	case "RemoveDevice":
		return "BRemoveDevice " + coqfmt.Str(o.S1)
	case "AddCDIDevice":
		return "BAddCDIDevice " + coqfmt.Str(o.S1)
	case "SetLinuxCgroupsPath":
		return "BSetLinuxCgroupsPath " + coqfmt.Str(o.S1)
	case "SetLinuxOomScoreAdj":
		return "BSetLinuxOomScoreAdj " + coqfmt.OptZ(o.P)
	}
	return "BRes " + ropCoq(o)
}

func uopCoq(o Op) string {
	switch o.M {
	case "SetContainerId":
		return "USetContainerId " + coqfmt.Str(o.S1)
	case "SetIgnoreFailure":
		return "USetIgnoreFailure"
	}
	return "URes " + ropCoq(o)
}

func opsCoq(ops []Op, f func(Op) string) string {
	out := make([]string, len(ops))
	for i, o := range ops {
		out[i] = f(o)
	}
	return coqfmt.List(out)
}

// ---------------------------------------------------------------- generation

// Key pools are small so that removals and additions of one key meet; each has the boundary keys:
// the empty key, the bare marker "-", an already marked key, a key with the marker twice.
var (
	annKeys  = []string{"k1", "k2", "io.x/y", "", "-", "-k1", "--k2", "a-"}
	annVals  = []string{"v", "", "-", "x=y", "w w"}
	mntDsts  = []string{"/m/a", "/m/b", "/data", "/m/a/sub", "", "-", "-/m/a"}
	envKeys  = []string{"E1", "E2", "PATH", "", "-", "-E1", "A=B"}
	envVals  = []string{"1", "", "a=b", "-", "/bin:/usr/bin"}
	devPaths = []string{"/dev/a", "/dev/b", "/dev/null", "", "-", "-/dev/a"}
	cdiNames = []string{"vendor.com/dev=a", "vendor.com/dev=b", "", "-x"}
	rlTypes  = []string{"RLIMIT_NOFILE", "RLIMIT_CORE", "", "-RLIMIT_AS"}
	hpSizes  = []string{"2MB", "1GB", "", "-2MB"}
	uniKeys  = []string{"memory.high", "cpu.max", "", "-io.max"}
	uniVals  = []string{"max", "", "100 1000"}
	cpuSets  = []string{"0", "0-3", "", "1,3", "-"}
	classes  = []string{"gold", "silver", "bronze", ""}
	cgPaths  = []string{"/cg/a", "", "sys.slice:pfx:name", "-"}
	ctrIDs   = []string{"ctr0", "ctr1", "", "-ctr"}
	argLists = [][]string{{}, {""}, {"", "run"}, {"sh", "-c", "x"}, {"ls"}, {"", ""}, {"-"}}
	i64s     = []int64{0, 1, -1, math.MaxInt64, math.MinInt64, 4096, 100000}
	u64s     = []uint64{0, 1, math.MaxUint64, 1 << 63, 1024, 65536}
)

// sane pools for the cases whose adjustment is handed to the real generator with a single-method / pair oracle
var (
	saneAnn = []string{"k1", "k2", "io.x/y"}
	saneMnt = []string{"/m/a", "/m/b", "/data", "/m/a/sub"}
	saneEnv = []string{"E1", "E2", "PATH"}
	saneDev = []string{"/dev/a", "/dev/b", "/dev/null"}
)

type G struct{ r *rand.Rand }

func pick[T any](r *rand.Rand, l []T) T { return l[r.Intn(len(l))] }

func (g *G) i64() int64 {
	if g.r.Intn(3) == 0 {
		return g.r.Int63n(1<<40) - 1<<39
	}
	return pick(g.r, i64s)
}

func (g *G) u64() uint64 {
	if g.r.Intn(3) == 0 {
		return g.r.Uint64()
	}
	return pick(g.r, u64s)
}

func (g *G) mount(dst string) *nm.Mount {
	m := &nm.Mount{Dest: dst, Type: pick(g.r, []string{"bind", "tmpfs", ""}), Source: pick(g.r, []string{"/host/x", "/host/y", ""})}
	for _, o := range []string{"ro", "rbind", "rprivate", "nosuid"} {
		if g.r.Intn(3) == 0 {
			m.Opts = append(m.Opts, o)
		}
	}
	return m
}

func (g *G) device(path string) *nm.Device {
	d := &nm.Device{Path: path, Type: pick(g.r, []string{"c", "b"}), Major: int64(g.r.Intn(300)), Minor: int64(g.r.Intn(300))}
	if g.r.Intn(2) == 0 {
		v := uint32(pick(g.r, []int{0, 0o600, 0o666}))
		d.Mode = &v
	}
	if g.r.Intn(2) == 0 {
		v := uint32(g.r.Intn(3))
		d.UID = &v
	}
	if g.r.Intn(2) == 0 {
		v := uint32(g.r.Intn(3))
		d.GID = &v
	}
	return d
}

func (g *G) hooks() *nm.Hooks {
	h := &nm.Hooks{}
	mk := func() []nm.Hook {
		var out []nm.Hook
		for i := g.r.Intn(3); i > 0; i-- {
			hk := nm.Hook{Path: pick(g.r, []string{"/bin/hook", "/usr/bin/h2", ""}), Args: pick(g.r, [][]string{nil, {"h", "a"}}), Env: pick(g.r, [][]string{nil, {"X=1"}})}
			if g.r.Intn(2) == 0 {
				t := int64(g.r.Intn(10))
				hk.Timeout = &t
			}
			out = append(out, hk)
		}
		return out
	}
	h.Prestart, h.CreateRuntime, h.CreateContainer = mk(), mk(), mk()
	h.StartContainer, h.Poststart, h.Poststop = mk(), mk(), mk()
	return h
}

// resOp draws the arguments of a resource setter.
func (g *G) resOp(m string) Op {
	o := Op{M: m}
	switch d := resDefs[m]; d.kind {
	case 'i':
		o.I = g.i64()
	case 'u':
		o.U = g.u64()
	case 's':
		if d.field == "CpuCpus" || d.field == "CpuMems" {
			o.S1 = pick(g.r, cpuSets)
		} else {
			o.S1 = pick(g.r, classes)
		}
	case 'H':
		o.S1, o.U = pick(g.r, hpSizes), g.u64()
	case 'K':
		o.S1, o.S2 = pick(g.r, uniKeys), pick(g.r, uniVals)
	}
	return o
}

// adjOp draws the arguments of a method of ContainerAdjustment; sane restricts keys to the plain pools.
func (g *G) adjOp(m string, sane bool) Op {
	if _, ok := resDefs[m]; ok {
		return g.resOp(m)
	}
	ks := func(all, plain []string) string {
		if sane {
			return pick(g.r, plain)
		}
		return pick(g.r, all)
	}
	o := Op{M: m}
	switch m {
	case "AddAnnotation":
		o.S1, o.S2 = ks(annKeys, saneAnn), pick(g.r, annVals)
	case "RemoveAnnotation":
		o.S1 = ks(annKeys, saneAnn)
	case "AddMount":
		o.Mount = g.mount(ks(mntDsts, saneMnt))
	case "RemoveMount":
		o.S1 = ks(mntDsts, saneMnt)
	case "AddEnv":
		o.S1, o.S2 = ks(envKeys, saneEnv), pick(g.r, envVals)
	case "RemoveEnv":
		o.S1 = ks(envKeys, saneEnv)
	case "SetArgs":
		o.L = pick(g.r, argLists)
		o.LNil = len(o.L) == 0 && g.r.Intn(2) == 0
	case "UpdateArgs":
		o.L = pick(g.r, argLists)
	case "AddHooks":
		o.Hooks = g.hooks()
	case "AddRlimit":
		o.S1, o.U, o.U2 = pick(g.r, rlTypes), g.u64(), g.u64()
	case "AddDevice":
		o.Dev = g.device(ks(devPaths, saneDev))
	case "RemoveDevice":
		o.S1 = ks(devPaths, saneDev)
	case "AddCDIDevice":
		o.S1 = pick(g.r, cdiNames)
	case "SetLinuxCgroupsPath":
		o.S1 = pick(g.r, cgPaths)
	case "SetLinuxOomScoreAdj":
		if g.r.Intn(4) != 0 {
			v := pick(g.r, []int64{0, -1000, 1000, 1, -1, math.MaxInt64, math.MinInt64})
			o.P = &v
		}
	default:
		panic("h_build: no generator for " + m)
	}
	return o
}

func (g *G) updOp(m string) Op {
	if _, ok := resDefs[m]; ok {
		return g.resOp(m)
	}
	o := Op{M: m}
	if m == "SetContainerId" {
		o.S1 = pick(g.r, ctrIDs)
	}
	return o
}

// removeOf returns the Remove call that belongs to an Add call of a markable family.
func removeOf(add Op) (Op, bool) {
	switch add.M {
	case "AddAnnotation":
		return Op{M: "RemoveAnnotation", S1: add.S1}, true
	case "AddMount":
		return Op{M: "RemoveMount", S1: add.Mount.Dest}, true
	case "AddEnv":
		return Op{M: "RemoveEnv", S1: add.S1}, true
	case "AddDevice":
		return Op{M: "RemoveDevice", S1: add.Dev.Path}, true
	}
	return Op{}, false
}
