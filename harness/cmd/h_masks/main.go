package main

import (
	"fmt"
	"strings"

	"github.com/containerd/nri/pkg/api"

	"verif/harness/internal/coqfmt"
	"verif/harness/internal/hx"
)

func main() { hx.Main(map[string]func(*hx.Ctx) error{"masks": driveMasks}) }

type maskCase struct {
	Mask   int32  `json:"mask"`
	Pretty string `json:"pretty"`
	Parsed *int64 `json:"parsed"`
}

func optMask(m api.EventMask, err error) *int64 {
	if err != nil {
		return nil
	}
	v := int64(m)
	return &v
}

// driveMasks: every valid event mask (exhaustive) through PrettyString and
// ParseEventMask, plus a stream of free-form parser inputs.
func driveMasks(c *hx.Ctx) error {
	sh := c.NewShard("masks", "From NRI Require Import Run.Common Run.RunC14.", "mask_case", "corr_mask", "holds_mask", 1024)
	valid := int32(api.ValidEvents)
	for m := int32(1); m <= valid; m++ {
		mask := api.EventMask(m)
		s := mask.PrettyString()
		parsed := optMask(api.ParseEventMask(s))
		cs := maskCase{Mask: m, Pretty: s, Parsed: parsed}
		sh.Add(fmt.Sprintf("{| mc_mask := %s; mc_pretty := %s; mc_parsed := %s |}",
			coqfmt.Z(int64(m)), coqfmt.Str(s), coqfmt.OptZ(parsed)), cs)
		c.Eval(fmt.Sprint("mask/", m), true)
		if parsed == nil || *parsed != int64(m) {
			c.ImplFail("masks", "ParseEventMask(PrettyString(m)) != m", cs)
		}
		if m == 1 || m == 4097 || m == valid {
			c.Sample(cs, 8)
		}
	}
	c.Count("masks.exhaustive", int(valid))

	// free-form parser inputs: names in mixed case, group names, blanks, junk
	r := c.Rand("parse")
	words := []string{"all", "pod", "podsandbox", "container", "RunPodSandbox", "stoppodsandbox", "RemovePodSandbox",
		"CreateContainer", "postcreatecontainer", "StartContainer", "PostStartContainer", "UpdateContainer",
		"PostUpdateContainer", "StopContainer", "RemoveContainer", "UpdatePodSandbox", "PostUpdatePodSandbox",
		" createcontainer", "stopcontainer ", " all", "", "bogus", "pods", "Container ", "unknown(0x2000)"}
	ps := c.NewShard("parse", "From NRI Require Import Run.Common Run.RunC14.", "parse_case", "corr_parse", "", 1024)
	n := c.Pick(400, 4000)
	for i := 0; i < n; i++ {
		var in []string
		for j := 0; j <= r.Intn(3); j++ {
			var parts []string
			for k := 0; k <= r.Intn(4); k++ {
				w := words[r.Intn(len(words))]
				if r.Intn(3) == 0 {
					w = strings.ToUpper(w)
				}
				parts = append(parts, w)
			}
			in = append(in, strings.Join(parts, ","))
		}
		res := optMask(api.ParseEventMask(in...))
		ps.Add(fmt.Sprintf("{| pc_input := %s; pc_result := %s |}", coqfmt.StrList(in), coqfmt.OptZ(res)),
			map[string]interface{}{"input": in, "result": res})
		c.Eval(fmt.Sprint("parse/", in), res != nil)
		if res == nil {
			c.Count("parse.error", 1)
		} else {
			c.Count("parse.ok", 1)
		}
	}
	c.Stats.Exhaustive = true
	c.Stats.Rule = "masks: every mask 1..ValidEvents printed and parsed back by the implementation (exhaustive; each is distinct and non-trivial); parse: random comma lists of event/group names in mixed case with blanks and junk, non-trivial when the parser accepts"
	return nil
}
