#!/bin/sh
# lib/sandbox.sh DIR — creates an isolated copy for experiments that must not disturb /repo or /verif:
#   DIR/repo   copy of /repo's working tree (apply a mutation there)
#   DIR/verif  copy of /verif (without build output) whose harness is redirected to DIR/repo
# Then:  cd DIR/verif && VERIF_REPO=DIR/repo ./check Cxx --tier quick
# Remove DIR when done.
set -e
D="$1"; [ -n "$D" ] || { echo "usage: $0 DIR" >&2; exit 2; }
mkdir -p "$D"
D=$(cd "$D" && pwd)
rsync -a --delete --exclude '.git' /repo/ "$D/repo/"
rsync -a --delete --exclude '.git' --exclude 'build' --exclude 'replays' /verif/ "$D/verif/"
sed -i "s#=> /repo#=> $D/repo#" "$D/verif/harness/go.mod"
echo "sandbox ready: cd $D/verif && VERIF_REPO=$D/repo ./check <ID>"
