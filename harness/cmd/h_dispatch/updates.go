package main

import (
	"context"
	"encoding/json"
	"errors"
	"fmt"
	"os"
	"path/filepath"
	"sort"
	"strconv"
	"strings"
	"sync"
	"sync/atomic"
	"time"

	"github.com/containerd/nri/pkg/adaptation"
	"github.com/containerd/nri/pkg/api"
	"github.com/containerd/nri/pkg/stub"
	"google.golang.org/grpc/codes"
	"google.golang.org/grpc/status"

	"verif/harness/internal/coqfmt"
	"verif/harness/internal/hx"
)

// ---------------------------------------------------------------- C19: updates
//
// P plugins (real stubs) issue random unsolicited update lists concurrently
// with each other and with runtime requests on one Adaptation.  The runtime's
// UpdateFn records its arguments, counts overlap with itself and with plugin
// handlers in flight, and answers with a generated failed list or error; what
// each Stub.UpdateContainers call returns is compared with that.

type updItem struct {
	ID     string `json:"id"`
	Shares int64  `json:"shares"`
}

type updCase struct {
	Stream    string      `json:"stream"`
	N         int         `json:"n"`
	Plugin    string      `json:"plugin"`
	Started   bool        `json:"started"`
	Updates   []updItem   `json:"updates"`
	CbFailed  []updItem   `json:"cb_failed"`
	CbErr     string      `json:"cb_err,omitempty"`  // what must be contained in the error the plugin gets ("code = X desc = msg" for a status error)
	CbCode    string      `json:"cb_code,omitempty"` // the call-back fails with status.Error(code, CbMsg); "" = a plain error
	CbMsg     string      `json:"cb_msg,omitempty"`
	RetCode   string      `json:"ret_code,omitempty"`
	Seen      [][]updItem `json:"seen"`
	RetFailed []updItem   `json:"ret_failed"`
	RetErr    string      `json:"ret_err,omitempty"`
	NoService bool        `json:"no_service,omitempty"`
	Micros    int64       `json:"micros"`
}

func toItems(us []*api.ContainerUpdate) []updItem {
	out := []updItem{}
	for _, u := range us {
		it := updItem{ID: u.GetContainerId()}
		if s := u.GetLinux().GetResources().GetCpu().GetShares(); s != nil {
			it.Shares = int64(s.GetValue())
		} else {
			it.Shares = -1
		}
		// entries with odd shares are sent marked ignore-failure (fromItems); a flag that does not
		// come back as sent shows as a content difference
		if it.Shares >= 0 && u.GetIgnoreFailure() != (it.Shares%2 == 1) {
			it.Shares = -2
		}
		out = append(out, it)
	}
	return out
}

func fromItems(items []updItem) []*api.ContainerUpdate {
	var out []*api.ContainerUpdate
	for _, it := range items {
		out = append(out, &api.ContainerUpdate{ContainerId: it.ID, IgnoreFailure: it.Shares >= 0 && it.Shares%2 == 1,
			Linux: &api.LinuxContainerUpdate{Resources: &api.LinuxResources{Cpu: &api.LinuxCPU{Shares: api.UInt64(uint64(it.Shares))}}}})
	}
	return out
}

func itemsTerm(items []updItem) string {
	var l []string
	for _, it := range items {
		l = append(l, coqfmt.Pair(coqfmt.Str(it.ID), coqfmt.Z(it.Shares)))
	}
	return coqfmt.List(l)
}

func optStr(s string, present bool) string {
	if !present {
		return "None"
	}
	return "(Some " + coqfmt.Str(asciiOnly(s)) + ")"
}

func updCaseTerm(u *updCase) string {
	var seen []string
	for _, s := range u.Seen {
		seen = append(seen, itemsTerm(s))
	}
	return fmt.Sprintf("{| uc_started := %s; uc_updates := %s; uc_cb_failed := %s; uc_cb_err := %s; uc_seen := %s; uc_ret_failed := %s; uc_ret_err := %s |}",
		coqfmt.Bool(u.Started), itemsTerm(u.Updates), itemsTerm(u.CbFailed), optStr(u.CbErr, u.CbErr != ""),
		coqfmt.List(seen), itemsTerm(u.RetFailed), optStr(u.RetErr, u.RetErr != ""))
}

func sameItems(a, b []updItem) bool {
	if len(a) != len(b) {
		return false
	}
	for i := range a {
		if a[i] != b[i] {
			return false
		}
	}
	return true
}

// the status codes a runtime's update call-back may fail with (besides plain errors)
var cbCodes = map[string]codes.Code{"NotFound": codes.NotFound, "Unavailable": codes.Unavailable, "Aborted": codes.Aborted,
	"ResourceExhausted": codes.ResourceExhausted, "DeadlineExceeded": codes.DeadlineExceeded, "Canceled": codes.Canceled, "Internal": codes.Internal}
var cbCodeNames = []string{"NotFound", "Unavailable", "Aborted", "ResourceExhausted", "DeadlineExceeded", "Canceled", "Internal"}

// setVerdict makes the call-back of u fail: kind "" = errors.New(msg), otherwise status.Error(kind, msg).
func setVerdict(u *updCase, kind, msg string) {
	if kind == "" {
		u.CbErr = msg
		return
	}
	u.CbCode, u.CbMsg, u.CbErr = kind, msg, "code = "+kind+" desc = "+msg
}

func cbError(u *updCase) error {
	if u.CbCode != "" {
		return status.Error(cbCodes[u.CbCode], u.CbMsg)
	}
	return errors.New(u.CbErr)
}

func noteRet(u *updCase, err error) {
	if err != nil {
		u.RetErr = err.Error()
		u.RetCode = status.Code(err).String()
	}
}

func updOracle(u *updCase) string {
	if !u.Started {
		switch {
		case !u.NoService:
			return "an un-started stub did not report its no-service error: " + u.RetErr
		case len(u.Seen) != 0 || len(u.RetFailed) != 0:
			return "an un-started stub reached the runtime or returned updates"
		}
		return ""
	}
	if len(u.Seen) != 1 {
		return fmt.Sprintf("the runtime's call-back ran %d times for one UpdateContainers call", len(u.Seen))
	}
	if !sameItems(u.Seen[0], u.Updates) {
		return "the call-back received other updates than the plugin sent"
	}
	if u.CbErr != "" {
		if !strings.Contains(u.RetErr, u.CbErr) {
			return fmt.Sprintf("call-back failed with %q, the plugin got error %q", u.CbErr, u.RetErr)
		}
		if u.CbCode != "" && u.RetCode != u.CbCode {
			return fmt.Sprintf("call-back failed with status code %s, the plugin got code %s", u.CbCode, u.RetCode)
		}
		return ""
	}
	if u.RetErr != "" {
		return "call-back succeeded, the plugin got error " + u.RetErr
	}
	if !sameItems(u.RetFailed, u.CbFailed) {
		return "the failed list returned to the plugin differs from the call-back's"
	}
	return ""
}

type schedMark struct {
	seq   int64
	begin bool
	cb    bool
}

func driveUpdates(c *hx.Ctx) error {
	quiet()
	adaptation.SetPluginRequestTimeout(10 * time.Second)
	imports := "From NRI Require Import Model.Dispatch Spec.DispatchSpec Run.Common Run.RunDispatch."
	sh := c.NewShard("updates", imports, "upd_case", "corr_update", "holds_update", 500)
	ss := c.NewShard("schedules", imports, "sched_case", "corr_sched", "holds_sched", 50)
	r := c.Rand("updates")
	c.Stats.Rule = "updates: per round a fresh Adaptation with 2-6 real stubs, each issuing update lists of 1-5 entries from its own goroutine while three goroutines fire random runtime requests (handlers take 150 us, the call-back 100 us); the call-back answers per script: nothing, a failed sub-list, or an error (with or without a list); every call is one case (content, once, result); the merged begin/end marks of all call-backs and handlers are the schedule cases; un-started stubs: UpdateContainers must return ErrNoService at once; failing call-backs return plain errors or status errors (NotFound, Unavailable, Aborted, ResourceExhausted, DeadlineExceeded, Canceled, Internal): seen once, same code and message back; a plugin is stopped while its update is inside a 700 ms call-back, then another plugin's update and a request are issued: they must wait for that call-back; slow: with a plugin request time-out of 400 ms, a call-back that takes 1.2 s, updates of other plugins queued behind it, and updates queued behind a runtime request that holds the adaptation lock for 600 ms — the plugin must get exactly the call-back's failed list or error."
	caseNo := 0

	// --- committed boundary cases, one call at a time on an otherwise idle Adaptation
	if files := corpusFiles("C19"); len(files) > 0 {
		e, err := newEnv(c.Out)
		if err != nil {
			return err
		}
		p := newPlug(e, "42", "corpus", api.ValidEvents)
		if err := p.startStub(e.sock); err != nil {
			e.closeWithin(5 * time.Second)
			return err
		}
		if err := e.waitSynced(10*time.Second, p); err != nil {
			e.closeWithin(5 * time.Second)
			return err
		}
		k := 0
		for _, f := range files {
			var l []struct {
				What     string    `json:"what"`
				Updates  []updItem `json:"updates"`
				CbFailed []updItem `json:"cb_failed"`
				CbErr    string    `json:"cb_err"`
			}
			raw, err := os.ReadFile(f)
			if err == nil {
				err = json.Unmarshal(raw, &l)
			}
			if err != nil {
				c.HarnessError("corpus %s: %v", f, err)
				continue
			}
			for _, en := range l {
				k++
				u := &updCase{Stream: "updates", N: 1000000 + k, Plugin: p.name, Started: true, Updates: append([]updItem{}, en.Updates...),
					CbFailed: append([]updItem{}, en.CbFailed...), CbErr: en.CbErr, Seen: [][]updItem{}, RetFailed: []updItem{}}
				var mu sync.Mutex
				e.setUpdateFn(func(_ context.Context, us []*adaptation.ContainerUpdate) ([]*adaptation.ContainerUpdate, error) {
					mu.Lock()
					defer mu.Unlock()
					u.Seen = append(u.Seen, toItems(us))
					if u.CbErr != "" {
						return fromItems(u.CbFailed), cbError(u)
					}
					return fromItems(u.CbFailed), nil
				})
				var cw sync.WaitGroup
				cw.Add(1)
				go func() {
					defer cw.Done()
					failed, uerr := p.st.UpdateContainers(fromItems(u.Updates))
					mu.Lock()
					u.RetFailed = toItems(failed)
					noteRet(u, uerr)
					mu.Unlock()
				}()
				if !groupWithin(&cw, wedgeWait) {
					c.ImplFail("updates", fmt.Sprintf("UpdateContainers on an idle runtime had not returned after %v", wedgeWait), map[string]interface{}{"stream": "updates", "plugin": u.Plugin, "n": u.N})
					return nil
				}
				sh.Add(updCaseTerm(u), u)
				if why := updOracle(u); why != "" {
					c.ImplFail("updates", why, u)
				}
				c.Eval(fmt.Sprintf("corpus/%s/%d", filepath.Base(f), k), true)
				c.Count("updates.corpus", 1)
			}
		}
		e.setUpdateFn(nil)
		p.stop()
		e.closeWithin(5 * time.Second)
	}

	// --- updates issued from within the Configure handler: the plugin is registered, Stub.Start has not
	// returned yet; the update must reach the call-back all the same
	{
		e, err := newEnv(c.Out)
		if err != nil {
			return err
		}
		for i := 0; i < c.Pick(3, 10); i++ {
			p := newPlug(e, fmt.Sprintf("%02d", 60+i), fmt.Sprintf("G%d", i), api.ValidEvents)
			u := &updCase{Stream: "updates", N: 2000000 + i, Plugin: p.name, Started: true, Updates: []updItem{}, CbFailed: []updItem{}, Seen: [][]updItem{}, RetFailed: []updItem{}}
			for j := 0; j <= i%3; j++ {
				u.Updates = append(u.Updates, updItem{ID: fmt.Sprintf("g%d.%d", i, j), Shares: int64(200 + j)})
			}
			if i%2 == 1 {
				u.CbFailed = append(u.CbFailed, u.Updates[0])
			}
			var mu sync.Mutex
			e.setUpdateFn(func(_ context.Context, us []*adaptation.ContainerUpdate) ([]*adaptation.ContainerUpdate, error) {
				mu.Lock()
				defer mu.Unlock()
				u.Seen = append(u.Seen, toItems(us))
				return fromItems(u.CbFailed), nil
			})
			p.onConfigure = func() {
				failed, uerr := p.st.UpdateContainers(fromItems(u.Updates))
				mu.Lock()
				u.RetFailed = toItems(failed)
				noteRet(u, uerr)
				mu.Unlock()
			}
			started := make(chan error, 1)
			go func() { started <- p.startStub(e.sock) }()
			select {
			case <-started:
			case <-time.After(40 * time.Second):
				c.ImplFail("updates", "Stub.Start did not return within 40 s when the Configure handler issues an unsolicited update", u)
			}
			mu.Lock()
			sh.Add(updCaseTerm(u), u)
			why := updOracle(u)
			mu.Unlock()
			if why != "" {
				c.ImplFail("updates", why+" (update issued from within the Configure handler)", u)
			}
			c.Eval(fmt.Sprintf("configure-update/%d", i), true)
			c.Count("updates.from_configure_handler", 1)
			go p.stop()
		}
		e.setUpdateFn(nil)
		e.closeWithin(5 * time.Second)
	}

	// --- updates that stay in the runtime for longer than the plugin request time-out: a call-back that
	// takes three times the time-out, updates queued behind that call-back, and updates queued behind a
	// runtime request in flight.  The time-out (pushed to the stubs in Configure) bounds the runtime's
	// calls to plugins, not a plugin's update: the call-back's result must reach the plugin all the same.
	{
		const slowT = 400 * time.Millisecond
		adaptation.SetPluginRequestTimeout(slowT)
		rs := c.Rand("updates/slow")
		pod, unpod := api.EventMask(1)<<(uint(api.Event_RUN_POD_SANDBOX)-1), api.EventMask(1)<<(uint(api.Event_REMOVE_POD_SANDBOX)-1)
		longWaits := 0
		for sc := 0; sc < c.Pick(2, 6); sc++ {
			e, err := newEnv(c.Out)
			if err != nil {
				return err
			}
			// updaters never see the slow request (other subscription), so no time-out can hit them
			var ups, sleepers []*plug
			for i := 0; i < 3; i++ {
				ups = append(ups, newPlug(e, fmt.Sprintf("%02d", 70+i), fmt.Sprintf("Y%d", i), unpod))
			}
			for i := 0; i < 5; i++ {
				p := newPlug(e, fmt.Sprintf("%02d", 10+i), fmt.Sprintf("S%d", i), pod)
				p.setDecide(func(request) action { return action{Sleep: 120 * time.Millisecond} })
				sleepers = append(sleepers, p)
			}
			all := append(append([]*plug{}, ups...), sleepers...)
			for _, p := range all {
				if err := p.startStub(e.sock); err != nil {
					e.closeWithin(5 * time.Second)
					return err
				}
			}
			if err := e.waitSynced(10*time.Second, all...); err != nil {
				e.closeWithin(5 * time.Second)
				return err
			}
			var mu sync.Mutex
			byID := map[string]*updCase{}
			slow := map[string]bool{}
			e.setUpdateFn(func(_ context.Context, us []*adaptation.ContainerUpdate) ([]*adaptation.ContainerUpdate, error) {
				items := toItems(us)
				mu.Lock()
				var u *updCase
				if len(items) > 0 {
					u = byID[items[0].ID]
				}
				isSlow := u != nil && slow[items[0].ID]
				mu.Unlock()
				if isSlow {
					time.Sleep(3 * slowT)
				}
				if u == nil {
					return nil, nil
				}
				mu.Lock()
				defer mu.Unlock()
				u.Seen = append(u.Seen, items)
				if u.CbErr != "" {
					return fromItems(u.CbFailed), cbError(u)
				}
				return fromItems(u.CbFailed), nil
			})
			mk := func(tag string, k int, withErr, isSlow bool) *updCase {
				caseNo++
				u := &updCase{Stream: "updates", N: 3000000 + caseNo, Plugin: ups[k].name + " " + tag, Started: true, Updates: []updItem{}, CbFailed: []updItem{}, Seen: [][]updItem{}, RetFailed: []updItem{}}
				for j := 0; j < 1+rs.Intn(4); j++ {
					u.Updates = append(u.Updates, updItem{ID: fmt.Sprintf("w%06d.%d", caseNo, j), Shares: int64(2 + rs.Intn(10000))})
				}
				u.CbFailed = append(u.CbFailed, u.Updates[rs.Intn(len(u.Updates))])
				if withErr {
					setVerdict(u, []string{"", "Unavailable", "Aborted", "NotFound"}[rs.Intn(4)], fmt.Sprintf("cb-fail-%d", caseNo))
				}
				mu.Lock()
				byID[u.Updates[0].ID] = u
				slow[u.Updates[0].ID] = isSlow
				mu.Unlock()
				return u
			}
			call := func(wg *sync.WaitGroup, k int, u *updCase, delay time.Duration) {
				wg.Add(1)
				go func() {
					defer wg.Done()
					time.Sleep(delay)
					t0 := time.Now()
					failed, uerr := ups[k].st.UpdateContainers(fromItems(u.Updates))
					mu.Lock()
					u.Micros = time.Since(t0).Microseconds()
					u.RetFailed = toItems(failed)
					noteRet(u, uerr)
					mu.Unlock()
				}()
			}
			var cases []*updCase
			// (a) a slow call-back and two updates of other plugins queued behind it
			{
				var wg sync.WaitGroup
				a := mk("slow call-back", 0, sc%2 == 1, true)
				b := mk("queued behind another plugin's slow call-back", 1, true, false)
				d := mk("queued behind another plugin's slow call-back", 2, false, false)
				call(&wg, 0, a, 0)
				call(&wg, 1, b, 100*time.Millisecond)
				call(&wg, 2, d, 100*time.Millisecond)
				if !groupWithin(&wg, wedgeWait) {
					c.ImplFail("updates", fmt.Sprintf("updates behind a slow call-back had not returned after %v: the runtime is deadlocked", wedgeWait), map[string]interface{}{"stream": "updates", "scenario": sc})
					return nil
				}
				cases = append(cases, a, b, d)
			}
			// (b) updates queued behind a runtime request in flight (five handlers of 120 ms under the adaptation lock)
			{
				var wg sync.WaitGroup
				wg.Add(1)
				go func() {
					defer wg.Done()
					e.fire(mkRequest(900000+sc, api.Event_RUN_POD_SANDBOX))
				}()
				a := mk("queued behind a request in flight", 0, false, false)
				b := mk("queued behind a request in flight", 1, true, false)
				call(&wg, 0, a, 40*time.Millisecond)
				call(&wg, 1, b, 40*time.Millisecond)
				if !groupWithin(&wg, wedgeWait) {
					c.ImplFail("updates", fmt.Sprintf("a request in flight together with unsolicited updates: neither had returned after %v: the runtime is deadlocked", wedgeWait), map[string]interface{}{"stream": "updates", "scenario": sc})
					return nil
				}
				cases = append(cases, a, b)
			}
			for _, u := range cases {
				sh.Add(updCaseTerm(u), u)
				if why := updOracle(u); why != "" {
					c.ImplFail("updates", why+" ("+u.Plugin+"; the update stayed in the runtime for "+fmt.Sprint(time.Duration(u.Micros)*time.Microsecond)+", plugin request time-out "+slowT.String()+")", u)
				}
				if time.Duration(u.Micros)*time.Microsecond >= slowT {
					longWaits++
				}
				c.Eval(fmt.Sprintf("slow/%d", u.N), true)
				c.Count("updates.longer_than_request_timeout.cases", 1)
			}
			e.setUpdateFn(nil)
			for _, p := range all {
				go p.stop()
			}
			e.closeWithin(5 * time.Second)
		}
		c.Count("updates.longer_than_request_timeout.actually_longer", longWaits)
		if longWaits == 0 {
			c.HarnessError("updates: no update stayed in the runtime longer than the request time-out")
		}
		adaptation.SetPluginRequestTimeout(10 * time.Second)
	}

	// --- a plugin that goes away while its update is inside a slow call-back: the call-back keeps running
	// under the adaptation lock; another plugin's update and a runtime request issued meanwhile must wait for it
	for sc := 0; sc < c.Pick(2, 8); sc++ {
		e, err := newEnv(c.Out)
		if err != nil {
			return err
		}
		a := newPlug(e, "71", "GA", 0)
		bb := newPlug(e, "72", "GB", 0)
		sl := newPlug(e, "20", "GS", api.ValidEvents)
		var cbActive atomic.Int32
		var mmu sync.Mutex
		var marks []schedMark
		overlaps := 0
		sl.setDecide(func(request) action {
			return action{Sleep: 60 * time.Millisecond, Before: func() {
				if cbActive.Load() > 0 {
					mmu.Lock()
					overlaps++
					mmu.Unlock()
				}
			}}
		})
		a.mask, bb.mask = api.EventMask(1)<<(uint(api.Event_REMOVE_POD_SANDBOX)-1), api.EventMask(1)<<(uint(api.Event_REMOVE_POD_SANDBOX)-1)
		for _, p := range []*plug{a, bb, sl} {
			if err := p.startStub(e.sock); err != nil {
				e.closeWithin(5 * time.Second)
				return err
			}
		}
		if err := e.waitSynced(10*time.Second, a, bb, sl); err != nil {
			e.closeWithin(5 * time.Second)
			return err
		}
		caseNo++
		ub := &updCase{Stream: "updates", N: 4000000 + caseNo, Plugin: bb.name + " behind the slow call-back of a plugin that went away", Started: true,
			Updates: []updItem{{ID: fmt.Sprintf("b%06d.0", caseNo), Shares: int64(100 + sc)}}, CbFailed: []updItem{}, Seen: [][]updItem{}, RetFailed: []updItem{}}
		if sc%2 == 1 {
			ub.CbFailed = append(ub.CbFailed, ub.Updates[0])
		}
		inSlow := make(chan struct{})
		var once sync.Once
		e.setUpdateFn(func(_ context.Context, us []*adaptation.ContainerUpdate) ([]*adaptation.ContainerUpdate, error) {
			items := toItems(us)
			b0 := e.next()
			if cbActive.Add(1) > 1 || e.handlersActive.Load() > 0 {
				mmu.Lock()
				overlaps++
				mmu.Unlock()
			}
			var failed []*adaptation.ContainerUpdate
			if len(items) > 0 && strings.HasPrefix(items[0].ID, "a") {
				once.Do(func() { close(inSlow) })
				time.Sleep(700 * time.Millisecond)
			} else {
				time.Sleep(30 * time.Millisecond)
				mmu.Lock()
				ub.Seen = append(ub.Seen, items)
				failed = fromItems(ub.CbFailed)
				mmu.Unlock()
			}
			if e.handlersActive.Load() > 0 {
				mmu.Lock()
				overlaps++
				mmu.Unlock()
			}
			cbActive.Add(-1)
			en := e.next()
			mmu.Lock()
			marks = append(marks, schedMark{b0, true, true}, schedMark{en, false, true})
			mmu.Unlock()
			return failed, nil
		})
		var wg sync.WaitGroup
		wg.Add(1)
		go func() { // the update of the plugin that will go away; its own result is lost with its connection
			defer wg.Done()
			a.st.UpdateContainers(fromItems([]updItem{{ID: fmt.Sprintf("a%06d.0", caseNo), Shares: 7}}))
		}()
		select {
		case <-inSlow:
		case <-time.After(wedgeWait):
			c.ImplFail("updates", "an unsolicited update did not reach the call-back within 20 s", map[string]interface{}{"stream": "updates", "scenario": sc})
			return nil
		}
		a.stop()
		select {
		case <-a.closed:
		case <-time.After(5 * time.Second):
		}
		time.Sleep(20 * time.Millisecond)
		wg.Add(2)
		go func() {
			defer wg.Done()
			failed, uerr := bb.st.UpdateContainers(fromItems(ub.Updates))
			mmu.Lock()
			ub.RetFailed = toItems(failed)
			noteRet(ub, uerr)
			mmu.Unlock()
		}()
		var rres reqResult
		go func() {
			defer wg.Done()
			rres = e.fire(mkRequest(950000+sc, api.Event_RUN_POD_SANDBOX))
		}()
		if !groupWithin(&wg, wedgeWait) {
			c.ImplFail("updates", fmt.Sprintf("after a plugin went away during its update's call-back, another update and a request had not returned after %v: the runtime is deadlocked", wedgeWait), map[string]interface{}{"stream": "updates", "scenario": sc})
			return nil
		}
		// give the slow call-back time to finish, then judge the schedule
		for i := 0; i < 200 && cbActive.Load() > 0; i++ {
			time.Sleep(10 * time.Millisecond)
		}
		mmu.Lock()
		for _, inv := range sl.invocations() {
			marks = append(marks, schedMark{inv.Seq, true, false}, schedMark{inv.End, false, false})
		}
		sort.Slice(marks, func(i, j int) bool { return marks[i].seq < marks[j].seq })
		open, bad := 0, overlaps
		for _, m := range marks {
			if m.begin {
				if open > 0 {
					bad++
				}
				open++
			} else {
				open--
			}
		}
		ms := append([]schedMark(nil), marks...)
		sh.Add(updCaseTerm(ub), ub)
		why := updOracle(ub)
		mmu.Unlock()
		emitSchedule(c, ss, 1000+sc, ms)
		if why != "" {
			c.ImplFail("updates", why+" ("+ub.Plugin+")", ub)
		}
		if rres.Err != "" {
			c.ImplFail("updates", "a request issued while a departed plugin's call-back was running failed: "+rres.Err, map[string]interface{}{"stream": "updates", "scenario": sc})
		}
		if bad > 0 {
			c.ImplFail("schedules", fmt.Sprintf("a plugin went away while its update was inside the runtime's call-back: the call-back then ran together with another call-back or a request's handler (%d overlaps): the adaptation lock was released before the call-back returned", bad),
				map[string]interface{}{"stream": "schedules", "scenario": sc, "marks": len(ms)})
		}
		c.Eval(fmt.Sprintf("abandoned/%d", sc), true)
		c.Count("updates.plugin_gone_during_callback", 1)
		e.setUpdateFn(nil)
		for _, p := range []*plug{bb, sl} {
			go p.stop()
		}
		e.closeWithin(5 * time.Second)
	}

	rounds := c.Pick(10, 24)
	perPlugin := c.Pick(40, 100)
	totalUpd, totalOverlapCB, totalOverlapH, withErr, withFailed, emptyList := 0, 0, 0, 0, 0, 0
	for round := 0; round < rounds; round++ {
		e, err := newEnv(c.Out)
		if err != nil {
			return err
		}
		P := 2 + r.Intn(5)
		var plugs []*plug
		for i := 0; i < P; i++ {
			p := newPlug(e, fmt.Sprintf("%02d", r.Intn(100)), fmt.Sprintf("U%d", i), api.ValidEvents)
			// handlers take a little time so that a call-back running outside the mutex would meet one
			p.setDecide(func(request) action { return action{Sleep: 150 * time.Microsecond} })
			if err := p.startStub(e.sock); err != nil {
				e.closeWithin(5 * time.Second)
				return err
			}
			plugs = append(plugs, p)
		}
		if err := e.waitSynced(10*time.Second, plugs...); err != nil {
			e.closeWithin(5 * time.Second)
			return err
		}

		// the script of the round: what each update call sends and what the call-back answers
		type script struct {
			u *updCase
		}
		var scripts []*updCase
		for i := 0; i < P; i++ {
			for k := 0; k < perPlugin; k++ {
				caseNo++
				u := &updCase{Stream: "updates", N: caseNo, Plugin: plugs[i].name, Started: true, Updates: []updItem{}, CbFailed: []updItem{}, Seen: [][]updItem{}, RetFailed: []updItem{}}
				n := 1 + r.Intn(5)
				for j := 0; j < n; j++ {
					u.Updates = append(u.Updates, updItem{ID: fmt.Sprintf("u%06d.%d", caseNo, j), Shares: int64(2 + r.Intn(10000))})
				}
				switch r.Intn(4) {
				case 0:
					kind := ""
					if r.Intn(3) > 0 {
						kind = cbCodeNames[r.Intn(len(cbCodeNames))]
					}
					setVerdict(u, kind, fmt.Sprintf("cb-fail-%d", caseNo))
					// a failing call-back may still return a list; it must not reach the plugin as a success
					if r.Intn(2) == 0 {
						u.CbFailed = append(u.CbFailed, u.Updates[0])
					}
					withErr++
				case 1:
					for _, it := range u.Updates {
						if r.Intn(2) == 0 {
							u.CbFailed = append(u.CbFailed, it)
						}
					}
					if len(u.CbFailed) == 0 {
						u.CbFailed = append(u.CbFailed, u.Updates[len(u.Updates)-1])
					}
					withFailed++
				}
				scripts = append(scripts, u)
			}
		}
		byNo := map[int]*updCase{}
		for _, u := range scripts {
			byNo[u.N] = u
		}

		var (
			cbActive  atomic.Int32
			overlapCB atomic.Int32
			overlapH  atomic.Int32
			mmu       sync.Mutex
			marks     []schedMark
			unknown   atomic.Int32
		)
		e.setUpdateFn(func(_ context.Context, us []*adaptation.ContainerUpdate) ([]*adaptation.ContainerUpdate, error) {
			b := e.next()
			if cbActive.Add(1) > 1 {
				overlapCB.Add(1)
			}
			if e.handlersActive.Load() > 0 {
				overlapH.Add(1)
			}
			time.Sleep(100 * time.Microsecond)
			if e.handlersActive.Load() > 0 {
				overlapH.Add(1)
			}
			items := toItems(us)
			var u *updCase
			if len(items) > 0 {
				if no, err := strconv.Atoi(strings.TrimLeft(strings.SplitN(items[0].ID[1:], ".", 2)[0], "0")); err == nil {
					u = byNo[no]
				}
			}
			var failed []*adaptation.ContainerUpdate
			var rerr error
			mmu.Lock()
			if u == nil {
				unknown.Add(1)
			} else {
				u.Seen = append(u.Seen, items)
				failed = fromItems(u.CbFailed)
				if u.CbErr != "" {
					rerr = cbError(u)
				}
			}
			mmu.Unlock()
			cbActive.Add(-1)
			en := e.next()
			mmu.Lock()
			marks = append(marks, schedMark{b, true, true}, schedMark{en, false, true})
			mmu.Unlock()
			return failed, rerr
		})

		// runtime requests in the background
		stop := make(chan struct{})
		var bg sync.WaitGroup
		var fired atomic.Int32
		var progress, returned atomic.Int64
		for g := 0; g < 3; g++ {
			bg.Add(1)
			go func(g int) {
				defer bg.Done()
				rr := c.Rand(fmt.Sprintf("updates/bg/%d/%d", round, g))
				for i := 0; ; i++ {
					select {
					case <-stop:
						return
					default:
					}
					rid := 1 + g*100000 + i
					res := e.fire(mkRequest(rid, allEvents[rr.Intn(len(allEvents))]))
					fired.Add(1)
					progress.Add(1)
					if res.Err != "" {
						c.HarnessError("updates: background request failed: %s", res.Err)
						return
					}
				}
			}(g)
		}
		// the plugins' update calls
		var wg sync.WaitGroup
		for i := 0; i < P; i++ {
			wg.Add(1)
			go func(i int) {
				defer wg.Done()
				for k := 0; k < perPlugin; k++ {
					u := scripts[i*perPlugin+k]
					t0 := time.Now()
					failed, err := plugs[i].st.UpdateContainers(fromItems(u.Updates))
					u.Micros = time.Since(t0).Microseconds()
					mmu.Lock()
					u.RetFailed = toItems(failed)
					noteRet(u, err)
					mmu.Unlock()
					returned.Add(1)
					progress.Add(1)
				}
			}(i)
		}
		allDone := make(chan struct{})
		go func() {
			wg.Wait()
			close(stop)
			bg.Wait()
			close(allDone)
		}()
		if !waitProgress(allDone, &progress, wedgeWait) {
			// no update call and no request has returned for 20 s: the runtime is deadlocked; the run is a failing
			// case, the blocked goroutines and this adaptation are abandoned
			c.ImplFail("updates", fmt.Sprintf("plugins issuing unsolicited updates concurrently with runtime requests: for %v neither an update call nor a request returned (%d of %d update calls had returned, %d requests completed): the runtime is deadlocked",
				wedgeWait, returned.Load(), len(scripts), fired.Load()),
				map[string]interface{}{"stream": "updates", "round": round, "plugins": P, "update_calls_returned": returned.Load(), "update_calls": len(scripts), "requests_completed": fired.Load()})
			c.Eval(fmt.Sprintf("stalled-round/%d", round), true)
			return nil
		}
		for _, p := range plugs {
			p.stop()
		}
		e.closeWithin(5 * time.Second)

		if unknown.Load() > 0 {
			c.ImplFail("updates", fmt.Sprintf("the call-back was handed %d update lists no plugin sent", unknown.Load()), map[string]interface{}{"round": round})
		}
		for _, u := range scripts {
			sh.Add(updCaseTerm(u), u)
			if why := updOracle(u); why != "" {
				c.ImplFail("updates", why, u)
			}
			c.Eval(fmt.Sprintf("upd/%d", u.N), true)
			totalUpd++
			if len(u.Updates) == 0 {
				emptyList++
			}
		}
		// the schedule of the round: call-back and handler intervals in global order
		for _, p := range plugs {
			for _, inv := range p.invocations() {
				marks = append(marks, schedMark{inv.Seq, true, false}, schedMark{inv.End, false, false})
			}
		}
		sort.Slice(marks, func(i, j int) bool { return marks[i].seq < marks[j].seq })
		emitSchedule(c, ss, round, marks)
		totalOverlapCB += int(overlapCB.Load())
		totalOverlapH += int(overlapH.Load())
		if overlapCB.Load() > 0 || overlapH.Load() > 0 {
			c.ImplFail("schedules", fmt.Sprintf("the runtime's update call-back overlapped %d times with another call-back and %d times with a plugin handler of a request in progress", overlapCB.Load(), overlapH.Load()),
				map[string]interface{}{"round": round, "plugins": P})
		}
		c.Count("updates.background_requests", int(fired.Load()))
		c.Count("updates.handler_invocations", len(marks)/2)
	}
	c.Count("updates.calls", totalUpd)
	c.Count("updates.callback_errors", withErr)
	c.Count("updates.callback_failed_lists", withFailed)
	if withErr == 0 || withFailed == 0 {
		c.HarnessError("updates: generator produced no failing call-back (%d) or no failed list (%d)", withErr, withFailed)
	}

	// --- un-started stubs: no service, no blocking
	for i := 0; i < c.Pick(10, 40); i++ {
		p := newPlug(&env{}, "07", fmt.Sprintf("N%d", i), api.ValidEvents)
		st, err := stub.New(stubAdapter{p}, stub.WithSocketPath("/nonexistent/verif.sock"), stub.WithPluginName(p.base), stub.WithPluginIdx(p.idx), stub.WithOnClose(p.onClose))
		if err != nil {
			return err
		}
		u := &updCase{Stream: "updates", N: -1 - i, Plugin: p.name, Started: false, Updates: []updItem{}, CbFailed: []updItem{}, Seen: [][]updItem{}, RetFailed: []updItem{}}
		for j := 0; j <= i%4; j++ {
			u.Updates = append(u.Updates, updItem{ID: fmt.Sprintf("n%d.%d", i, j), Shares: int64(100 + j)})
		}
		done := make(chan struct{})
		var failed []*api.ContainerUpdate
		var uerr error
		t0 := time.Now()
		go func() {
			defer close(done)
			defer func() {
				if r := recover(); r != nil {
					uerr = fmt.Errorf("panic in Stub.UpdateContainers: %v", r)
				}
			}()
			failed, uerr = st.UpdateContainers(fromItems(u.Updates))
		}()
		select {
		case <-done:
		case <-time.After(20 * time.Second):
			c.ImplFail("updates", "UpdateContainers on an un-started stub still blocked after 20 s", u)
			continue
		}
		u.Micros = time.Since(t0).Microseconds()
		u.RetFailed = toItems(failed)
		if uerr != nil {
			u.RetErr = uerr.Error()
			u.NoService = errors.Is(uerr, stub.ErrNoService)
		}
		sh.Add(updCaseTerm(u), u)
		if why := updOracle(u); why != "" {
			c.ImplFail("updates", why, u)
		}
		c.Eval(fmt.Sprintf("nosvc/%d", i), true)
		c.Count("updates.unstarted", 1)
	}
	c.Count("updates.overlap.callback_callback", totalOverlapCB)
	c.Count("updates.overlap.callback_handler", totalOverlapH)
	return nil
}

// emitSchedule cuts the round's marks at quiescent points into cases of bounded size.
func emitSchedule(c *hx.Ctx, ss *hx.Shard, round int, marks []schedMark) {
	var cur []string
	open := 0
	flush := func() {
		if len(cur) == 0 {
			return
		}
		ss.Add("{| sc_marks := "+coqfmt.List(cur)+" |}", map[string]interface{}{"stream": "schedules", "round": round, "marks": len(cur)})
		c.Eval(fmt.Sprintf("sched/%d/%d", round, len(cur)), true)
		cur = nil
	}
	for _, m := range marks {
		w := "WRequest"
		if m.cb {
			w = "WCallback"
		}
		if m.begin {
			cur = append(cur, "MBegin "+w)
			open++
		} else {
			cur = append(cur, "MEnd "+w)
			open--
		}
		if open == 0 && len(cur) >= 400 {
			flush()
		}
	}
	flush()
}
