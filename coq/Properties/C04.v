(* C04 — each plugin sees the container exactly as the earlier plugins left it.
   Only statements here; proofs are in Proofs/ResultProofs.v and Proofs/Combine*.v.  The predicates are
   those evaluated by holds_C04 (Run/RunAdapt.v): obs_eqb, apply_all, adjs_of, res_obs_eqb, own_overlay_nd
   (Spec/UpdateView.v); own_overlay / some_dropped for the earlier, weaker update-view theorem. *)
From Coq Require Import String List Bool.
From NRI Require Import Model.Types Model.Result Spec.Apply Spec.AbsLedger Spec.UpdateView Run.RunAdapt Proofs.ResultProofs
  Proofs.CombineWf Proofs.CombineProofs Proofs.CombineView Proofs.CombineUpdate Proofs.CombineHolds Proofs.CombineWitness
  Proofs.UpdateViewProofs.
Import ListNotations.

(* the first plugin sees exactly what the runtime submitted *)
Theorem C04_first_view :
  forall rq rp rps, exists rest, fst (run_request rq (rp :: rps)) = view_of (init_state rq) :: rest.
Proof. exact first_view. Qed.
Print Assumptions C04_first_view.

(* creation requests: for every original container, every well-formed history (wf_create, Proofs/CombineWf.v)
   and every position i at which a plugin was asked — including the plugin whose response then conflicts —
   the container shown is observably the original with the adjustments of the plugins before i applied in
   order.  Exactly the RCreate branch of holds_C04. *)
Theorem C04_view_is_prefix_result :
  forall c0 rps i v,
    wf_create c0 rps = true ->
    nth_error (fst (run_request (RCreate c0) rps)) i = Some v ->
    exists x, v = ShownContainer x /\ obs_eqb x (apply_all c0 (firstn i (adjs_of rps))) = true.
Proof. exact view_is_prefix_result. Qed.
Print Assumptions C04_view_is_prefix_result.

(* only the plugins before position i need to be well formed *)
Theorem C04_view_is_prefix_result_sharp :
  forall c0 rps i v,
    wf_create c0 (firstn i rps) = true ->
    nth_error (fst (run_request (RCreate c0) rps)) i = Some v ->
    exists x, v = ShownContainer x /\ obs_eqb x (apply_all c0 (firstn i (adjs_of rps))) = true.
Proof. exact view_is_prefix_result_sharp. Qed.
Print Assumptions C04_view_is_prefix_result_sharp.

(* the same under the weakest hypothesis the statement allows: W4 alone (args <> [""]) for the plugins before
   position i — no condition on markers, names with '=' or repeated keys (C04_w4_necessary below: W4 cannot
   be dropped) *)
Theorem C04_view_is_prefix_result_w4 :
  forall c0 rps i v,
    wf_views (firstn i rps) = true ->
    nth_error (fst (run_request (RCreate c0) rps)) i = Some v ->
    exists x, v = ShownContainer x /\ obs_eqb x (apply_all c0 (firstn i (adjs_of rps))) = true.
Proof. exact view_is_prefix_result_w4. Qed.
Print Assumptions C04_view_is_prefix_result_w4.

(* "what a plugin is shown always agrees with what the runtime would obtain by applying the result combined
   so far": the reply accumulated before plugin i is the combined adjustment returned by the request
   restricted to the first i plugins *)
Theorem C04_view_agrees_with_reply :
  forall c0 rps i v,
    wf_create c0 rps = true ->
    nth_error (fst (run_request (RCreate c0) rps)) i = Some v ->
    exists x s, v = ShownContainer x /\ snd (run_request (RCreate c0) (firstn i rps)) = Ok s /\
                obs_eqb x (apply_adj c0 (s_adjust s)) = true.
Proof. exact view_agrees_with_reply. Qed.
Print Assumptions C04_view_agrees_with_reply.

(* non-vacuity: the history of C03_example; four plugins are asked, so four views are judged *)
Example C04_example :
  wf_create ex_c0 ex_rps = true /\ length (fst (run_request (RCreate ex_c0) ex_rps)) = 4.
Proof. split; [exact ex_wf|exact ex_four_views]. Qed.

(* update requests: the resources shown to plugin i are the runtime's requested resources overlaid with the
   own-container updates of the plugins before i, provided no ignore-failure update of those plugins was
   dropped (DESIGN.md I2; "dropped" as the abstract ledger of Spec/AbsLedger.v says).  Exactly the RUpdate
   branch of holds_C04, position by position.  Nothing is assumed of the responses. *)
Theorem C04_update_view :
  forall id req rps i v,
    some_dropped None (firstn i rps) = false ->
    nth_error (fst (run_request (RUpdate id req) rps)) i = Some v ->
    exists x, v = ShownResources x /\ res_obs_eqb x (own_overlay id req (firstn i rps)) = true.
Proof. exact update_view. Qed.
Print Assumptions C04_update_view.

(* when the request succeeds and no ignore-failure update was dropped at all, this holds at every position *)
Theorem C04_update_view_ok :
  forall id req rps s,
    snd (run_request (RUpdate id req) rps) = Ok s -> some_dropped None rps = false ->
    forall i v, nth_error (fst (run_request (RUpdate id req) rps)) i = Some v ->
      exists x, v = ShownResources x /\ res_obs_eqb x (own_overlay id req (firstn i rps)) = true.
Proof. exact update_view_ok. Qed.
Print Assumptions C04_update_view_ok.

(* update requests at full strength — no "nothing dropped" hypothesis, nothing assumed of the responses: at
   EVERY position i at which a plugin was asked, the resources shown are the runtime's requested resources
   overlaid with those own-container updates of the plugins before i that were not dropped
   (own_overlay_nd, Spec/UpdateView.v: "dropped" as the abstract ledger of Spec/AbsLedger.v flags it).  A
   dropped ignore-failure update contributes nothing to what later plugins see, whatever fields it names and
   wherever its refused claim stands among them.  Exactly the RUpdate branch of holds_C04. *)
Theorem C04_update_view_full :
  forall id req rps i v,
    nth_error (fst (run_request (RUpdate id req) rps)) i = Some v ->
    exists x, v = ShownResources x /\ res_obs_eqb x (own_overlay_nd id req (firstn i rps)) = true.
Proof. exact update_view_full. Qed.
Print Assumptions C04_update_view_full.

(* it subsumes C04_update_view: without a hard conflict and without a drop the two overlays are the same *)
Theorem C04_overlays_agree_without_drop :
  forall id req rps,
    abs_conflict None rps = false -> some_dropped None rps = false ->
    own_overlay_nd id req rps = own_overlay id req rps.
Proof. exact own_overlay_nd_no_drop. Qed.
Print Assumptions C04_overlays_agree_without_drop.

(* non-vacuity: the third plugin of wit_ups ({CpuShares=1}, {CpuShares=2, ignore-failure} dropped,
   {CpuShares=3}) is shown CpuShares=1 — the position C04_update_view is silent about (see
   C04_update_dropped_necessary below) *)
Example C04_update_view_full_example :
  exists x, nth_error (fst (run_request (RUpdate "c" res_empty) wit_ups)) 2 = Some (ShownResources x) /\
            res_obs_eqb x (own_overlay_nd "c" res_empty (firstn 2 wit_ups)) = true /\
            some_dropped None (firstn 2 wit_ups) = true.
Proof. eexists. split; [vm_compute; reflexivity|]. split; vm_compute; reflexivity. Qed.

Example C04_update_example :
  some_dropped None ex_ups = false /\ exists s, snd (run_request (RUpdate "c" ex_req) ex_ups) = Ok s.
Proof. split; [exact ex_ups_not_dropped|exact ex_ups_succeeds]. Qed.

(* theorem and run-time check coincide: the predicate holds_C04 of Run/RunAdapt.v, evaluated on a case whose
   recorded views are the model's, is true for creation, update and stop requests alike — for ALL inputs: the
   predicate carries the theorems' guard itself (W4 per position for creation; none for updates, which are
   judged at every position by own_overlay_nd) *)
Theorem C04_holds_on_model :
  forall case : adapt_case,
    ac_views case = fst (run_request (ac_req case) (ac_resps case)) ->
    holds_C04 case = true.
Proof. exact holds_C04_on_model. Qed.
Print Assumptions C04_holds_on_model.

(* the hypotheses are necessary: W4 (args = [""] empties the command line shown to the next plugin), and, for
   the plain overlay own_overlay of C04_update_view, the per-prefix "nothing dropped" hypothesis (a later hard
   conflict hides the drop from some_dropped of the whole history) — C04_update_view_full needs none *)
Theorem C04_w4_necessary :
  exists x, nth_error (fst (run_request (RCreate wit_c0) wit_args_w4)) 1 = Some (ShownContainer x) /\
            obs_eqb x (apply_all wit_c0 (firstn 1 (adjs_of wit_args_w4))) = false.
Proof. exact wit_args_w4_fails. Qed.
Print Assumptions C04_w4_necessary.

Theorem C04_update_dropped_necessary :
  some_dropped None wit_ups = false /\ some_dropped None (firstn 2 wit_ups) = true /\
  exists x, nth_error (fst (run_request (RUpdate "c" res_empty) wit_ups)) 2 = Some (ShownResources x) /\
            res_obs_eqb x (own_overlay "c" res_empty (firstn 2 wit_ups)) = false.
Proof. exact wit_update_dropped. Qed.
Print Assumptions C04_update_dropped_necessary.
