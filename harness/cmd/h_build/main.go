// h_build drives the plugin-facing builder API of pkg/api — the methods of *ContainerAdjustment
// (adjustment.go) and *ContainerUpdate (update.go) and the removal-marker helpers (helpers.go, mount.go,
// device.go, env.go) — and compares the messages they leave with Model/Builders.v.
package main

import (
	"encoding/json"
	"fmt"
	"os"
	"path/filepath"
	"sort"
	"strings"

	"github.com/containerd/nri/pkg/api"

	"verif/harness/internal/coqfmt"
	"verif/harness/internal/hx"
	"verif/harness/internal/nm"
)

func main() {
	hx.Main(map[string]func(*hx.Ctx) error{"builders": driveBuilders})
}

func sprint(v interface{}) string { return fmt.Sprint(v) }

const imports = "From NRI Require Import Base.Strs Base.Assoc Model.Types Model.Builders Run.RunBuilders."

// BuildCase is one sequence of builder calls on a fresh adjustment and on a fresh update.
type BuildCase struct {
	Stream string        `json:"stream"`
	ID     string        `json:"id"`
	Ops    []Op          `json:"ops"`
	Adj    *nm.Adjust    `json:"adj"`
	UID    string        `json:"uid"`
	UOps   []Op          `json:"uops"`
	Upd    nm.Update     `json:"upd"`
	Spec   *nm.Container `json:"spec"`
	Gen    *SpecObs      `json:"gen,omitempty"`
	Panics []string      `json:"panics,omitempty"`
}

func (c *BuildCase) Coq() string {
	gen := "None"
	if c.Gen != nil {
		gen = "(Some " + coqfmt.Pair(c.Gen.C.Coq(), coqfmt.StrList(c.Gen.CDI)) + ")"
	}
	return fmt.Sprintf("{| bc_id := %s; bc_ops := %s;\n     bc_adj := %s;\n     bc_uid := %s; bc_uops := %s; bc_upd := %s;\n     bc_spec := %s;\n     bc_gen := %s |}",
		coqfmt.Str(c.ID), opsCoq(c.Ops, bopCoq), c.Adj.Coq(), coqfmt.Str(c.UID), opsCoq(c.UOps, uopCoq), c.Upd.Coq(), c.Spec.Coq(), gen)
}

// updateFromAPI reads a ContainerUpdate back (canonical form; Res nil when Linux or Resources is nil).
func updateFromAPI(u *api.ContainerUpdate) nm.Update {
	o := nm.Update{ID: u.ContainerId, Ignore: u.IgnoreFailure}
	if u.Linux != nil && u.Linux.Resources != nil {
		o.Res = nm.ResFromAPI(u.Linux.Resources)
	}
	return o
}

// adjustFromAPI reads the adjustment back; a nil element in a repeated field (which no builder may
// leave behind) is reported instead of being dereferenced.
func adjustFromAPI(a *api.ContainerAdjustment) (adj *nm.Adjust, bad string) {
	defer func() {
		if r := recover(); r != nil {
			adj, bad = &nm.Adjust{}, "the built adjustment cannot be read back: "+sprint(r)
		}
	}()
	return nm.AdjustFromAPI(a), ""
}

// the small specs the built adjustments are applied to: keys from the same pools, so that removals remove
// something and sets replace something
func specs() []*nm.Container {
	u32 := func(v uint32) *uint32 { return &v }
	i64 := func(v int64) *int64 { return &v }
	return []*nm.Container{
		{Args: []string{"sh"}, Env: []string{"PATH=/bin"}, Res: &nm.Res{}},
		{
			Ann:     []nm.KV{{K: "k1", V: "old1"}, {K: "k2", V: "old2"}},
			Mounts:  []nm.Mount{{Dest: "/m/a", Type: "bind", Source: "/orig/a", Opts: []string{"ro"}}, {Dest: "/data", Type: "tmpfs", Source: "tmpfs"}},
			Env:     []string{"E1=old", "PATH=/bin", "E2=x=y"},
			Args:    []string{"/bin/app", "--flag"},
			Rlimits: []nm.Rlimit{{Type: "RLIMIT_CORE", Hard: 1, Soft: 1}},
			Devices: []nm.Device{{Path: "/dev/a", Type: "c", Major: 1, Minor: 3, Mode: u32(0o600)}, {Path: "/dev/null", Type: "c", Major: 1, Minor: 3, UID: u32(0)}},
			Res: &nm.Res{Scal: []nm.SVal{{F: "MemLimit", I: 1 << 20}, {F: "MemSwap", I: 1 << 21}, {F: "CpuShares", U: 2}, {F: "CpuQuota", I: 50000}, {F: "CpuCpus", S: "0-1"}, {F: "Pids", I: 100}},
				HP: []nm.HP{{Size: "2MB", Limit: 4}}, Uni: []nm.KV{{K: "memory.high", V: "5"}}},
			Cgroups: "/cg/orig", Oom: i64(10),
		},
		{
			Ann:     []nm.KV{{K: "io.x/y", V: "z"}},
			Mounts:  []nm.Mount{{Dest: "/m/b", Type: "bind", Source: "/orig/b"}, {Dest: "/m/a/sub", Type: "bind", Source: "/orig/s", Opts: []string{"rbind", "rprivate"}}},
			Env:     []string{"E2=", "E1=1"},
			Devices: []nm.Device{{Path: "/dev/b", Type: "b", Major: 8, Minor: 0}},
			Res:     &nm.Res{Scal: []nm.SVal{{F: "CpuPeriod", U: 100000}, {F: "CpuMems", S: "0"}}, HP: []nm.HP{{Size: "1GB", Limit: 1}}},
		},
	}
}

func driveBuilders(c *hx.Ctx) error {
	for _, e := range coverage() {
		c.HarnessError("%s", e)
	}
	if len(c.Stats.HarnessErrors) > 0 {
		return nil
	}
	// ./check sets VERIF_PROPERTY: each property is judged on the files it is anchored in — C02 and C13 on the
	// adjustment builders (adjustment.go; helpers.go for C02, mount.go / device.go / env.go for C13), C05 on the
	// update builders (update.go).  Standalone (no property): everything.
	pid := os.Getenv("VERIF_PROPERTY")
	doAdj, doUpd := pid != "C05", pid != "C02" && pid != "C13"
	driveMarks(c, pid != "C05" && pid != "C13", pid != "C05" && pid != "C02")

	g := &G{r: c.Rand("builders")}
	sh := c.NewShardV("build", imports, "build_case", "verdict_build", []string{"corr_build", "holds_C02", "holds_C13", "holds_C05"}, c.Pick(250, 500))
	sp := specs()
	adjNames, updNames := adjMethodNames(), updMethodNames()
	calls := map[string]int{}

	run := func(stream string, ops, uops []Op, spec *nm.Container) {
		if !doAdj {
			ops = nil
		}
		if !doUpd {
			uops = nil
		}
		cs := &BuildCase{Stream: stream, ID: pick(g.r, []string{"ctr0", "ctr1", "c"}), Ops: ops, UID: pick(g.r, ctrIDs), UOps: uops, Spec: spec}
		a := &api.ContainerAdjustment{}
		for _, o := range ops {
			calls["adjust."+o.M]++
			if p := applyAdj(a, o); p != "" {
				cs.Panics = append(cs.Panics, "ContainerAdjustment."+o.M+": "+p)
			}
		}
		u := &api.ContainerUpdate{}
		u.SetContainerId(cs.UID)
		for _, o := range uops {
			calls["update."+o.M]++
			if p := applyUpd(u, o); p != "" {
				cs.Panics = append(cs.Panics, "ContainerUpdate."+o.M+": "+p)
			}
		}
		var bad string
		if cs.Adj, bad = adjustFromAPI(a); bad != "" {
			cs.Panics = append(cs.Panics, bad)
		}
		cs.Upd = updateFromAPI(u)
		var genFailed string
		if bad == "" && doAdj {
			cs.Gen, genFailed = generate(spec, a)
		}
		sh.Add(cs.Coq(), cs)
		js, _ := json.Marshal([]interface{}{ops, uops, spec.Ann})
		c.Eval(string(js), true)
		c.Count("stream."+stream, 1)
		c.Count(fmt.Sprintf("ops.%d", len(ops)), 1)

		// ---- the same oracles in Go
		for _, p := range cs.Panics {
			pfxs := []string{"C02", "C13"} // the adjustment builders are how plugins remove / set items in C02 and C13
			if strings.HasPrefix(p, "ContainerUpdate.") {
				pfxs = []string{"C05"}
			}
			for _, pfx := range pfxs {
				c.ImplFail("build", pfx+": a builder method panicked or left an unreadable message: "+p, cs)
			}
		}
		if what := oracleC02(cs); what != "" {
			c.ImplFail("build", "C02: "+what, cs)
		}
		if genFailed != "" {
			c.ImplFail("build", "C13: the generator failed on the built adjustment: "+genFailed, cs)
		} else if what := oracleC13(cs); what != "" {
			c.ImplFail("build", "C13: "+what, cs)
		}
		if what := oracleC05(cs); what != "" {
			c.ImplFail("build", "C05: "+what, cs)
		}
		if len(c.Stats.Samples) < 3 && len(ops) <= 3 {
			c.Sample(cs, 3)
		}
	}

	// (0) the committed boundary cases
	for _, f := range corpusFiles() {
		var cc struct {
			Note string `json:"note"`
			Ops  []Op   `json:"ops"`
			UOps []Op   `json:"uops"`
			Spec int    `json:"spec"`
		}
		b, err := os.ReadFile(f)
		if err == nil {
			err = json.Unmarshal(b, &cc)
		}
		if err == nil {
			err = checkOps(cc.Ops, cc.UOps)
		}
		if err != nil || cc.Spec < 0 || cc.Spec >= len(sp) {
			c.HarnessError("corpus file %s: %v", f, err)
			continue
		}
		run("corpus/"+strings.TrimSuffix(filepath.Base(f), ".json"), cc.Ops, cc.UOps, sp[cc.Spec])
	}
	// (1) every method alone, several argument draws each (every SetLinux* at least once per run by construction)
	reps := c.Pick(6, 40)
	for i := 0; i < reps; i++ {
		for j, m := range adjNames {
			um := updNames[(j+i)%len(updNames)]
			run("single", []Op{g.adjOp(m, i%2 == 0)}, []Op{g.updOp(um)}, sp[(i+j)%len(sp)])
		}
	}
	// (2) remove-then-add and add-then-remove of one key, every markable family; UpdateArgs after SetArgs
	for i := 0; i < c.Pick(25, 250); i++ {
		for _, m := range []string{"AddAnnotation", "AddMount", "AddEnv", "AddDevice"} {
			add := g.adjOp(m, i%4 != 3)
			rem, _ := removeOf(add)
			pair := []Op{rem, add}
			if i%2 == 1 {
				pair = []Op{add, rem}
			}
			u1, u2 := g.updOp(pick(g.r, updNames)), g.updOp(pick(g.r, updNames))
			if i%3 == 0 {
				u2 = g.updOp(u1.M) // the same setter twice: the last value counts
			}
			run("pair", pair, []Op{u1, u2}, sp[1+i%2])
		}
	}
	// (3) random sequences of 1..8 methods
	total := c.Pick(650, 20000)
	for i := 0; i < total; i++ {
		var ops, uops []Op
		for n := 1 + g.r.Intn(8); n > 0; n-- {
			ops = append(ops, g.adjOp(pick(g.r, adjNames), g.r.Intn(3) != 0))
		}
		for n := g.r.Intn(7); n > 0; n-- {
			uops = append(uops, g.updOp(pick(g.r, updNames)))
		}
		run("random", ops, uops, sp[g.r.Intn(len(sp))])
	}

	for _, m := range adjNames {
		if calls["adjust."+m] == 0 && doAdj {
			c.HarnessError("ContainerAdjustment.%s was never called", m)
		}
		c.Count("calls.adjust."+m, calls["adjust."+m])
	}
	for _, m := range updNames {
		if calls["update."+m] == 0 && doUpd {
			c.HarnessError("ContainerUpdate.%s was never called", m)
		}
		c.Count("calls.update."+m, calls["update."+m])
	}
	c.Stats.Extra = map[string]interface{}{
		"adjustment_methods": adjNames, "update_methods": updNames,
		"scope":    fmt.Sprintf("VERIF_PROPERTY=%q: adjustment builders %v, update builders %v", pid, doAdj, doUpd),
		"coverage": "method sets enumerated by reflection over *api.ContainerAdjustment / *api.ContainerUpdate and compared with the op table: equal",
	}
	c.Stats.Rule = "builders: sequences of the REAL builder methods on a fresh ContainerAdjustment and a fresh ContainerUpdate: every method alone with several argument draws (boundary values 0, +-1, max/min int64, max uint64, empty strings, the bare marker \"-\", already marked keys), remove-then-add and add-then-remove pairs of one key for annotations / mounts / env / devices, random sequences of 1..8 methods with keys from small pools so that removals and sets of one key meet; the built adjustment is also applied by the real generator to one of three small specs; all are non-trivial; distinct by (method sequence, arguments). marks: IsMarkedForRemoval / MarkForRemoval / ClearRemovalMarker and the per-type methods on a pool of keys (empty, \"-\", \"--\", marked, unmarked) and random strings"
	return nil
}

// ---------------------------------------------------------------- helpers.go, mount.go, device.go, env.go

type MarkCase struct {
	Key   string `json:"key"`
	Mark  string `json:"mark"`
	IsK   string `json:"is_key"`
	IsM   bool   `json:"is_marked"`
	RtK   string `json:"rt_key"`
	RtM   bool   `json:"rt_marked"`
	Clear string `json:"clear"`
}

type TypedCase struct {
	Key    string `json:"key"`
	MountK string `json:"mount_key"`
	MountM bool   `json:"mount_marked"`
	DevK   string `json:"dev_key"`
	DevM   bool   `json:"dev_marked"`
	EnvK   string `json:"env_key"`
	EnvM   bool   `json:"env_marked"`
}

func sb(k string, m bool) string { return coqfmt.Pair(coqfmt.Str(k), coqfmt.Bool(m)) }

// driveMarks: the helpers of helpers.go (marks) and the per-type methods (typed) on a pool of keys.
func driveMarks(c *hx.Ctx, marks, typed bool) {
	var sh, th *hx.Shard
	if marks {
		sh = c.NewShardV("marks", imports, "mark_case", "verdict_marks", []string{"corr_marks", "holds_C02"}, 1000)
	}
	if typed {
		th = c.NewShardV("typed_marks", imports, "typed_case", "verdict_typed", []string{"corr_typed_marks", "holds_C13"}, 1000)
	}
	keys := []string{"", "-", "--", "---", "-a", "a", "a-", "-/m/a", "/m/a", "--x", "- ", " -", "k=v", "-k=v", "E1", "-E1", "/dev/null", "-/dev/null"}
	r := c.Rand("marks")
	alphabet := "-ab/=. "
	for i := 0; i < c.Pick(150, 2000); i++ {
		n := r.Intn(5)
		b := make([]byte, n)
		for j := range b {
			b[j] = alphabet[r.Intn(len(alphabet))]
		}
		keys = append(keys, string(b))
	}
	for _, k := range keys {
		// the oracle in Go, written without the functions under test
		wantK, wantM := k, false
		if len(k) > 0 && k[0] == '-' {
			wantK, wantM = k[1:], true
		}
		if marks {
			cs := MarkCase{Key: k, Mark: api.MarkForRemoval(k), Clear: api.ClearRemovalMarker(k)}
			cs.IsK, cs.IsM = api.IsMarkedForRemoval(k)
			cs.RtK, cs.RtM = api.IsMarkedForRemoval(api.MarkForRemoval(k))
			sh.Add(fmt.Sprintf("{| mk_key := %s; mk_mark := %s; mk_is := %s; mk_rt := %s; mk_clear := %s |}",
				coqfmt.Str(k), coqfmt.Str(cs.Mark), sb(cs.IsK, cs.IsM), sb(cs.RtK, cs.RtM), coqfmt.Str(cs.Clear)), cs)
			c.Eval("mark/"+k, true)
			c.Count("marks", 1)
			if cs.RtK != k || !cs.RtM {
				c.ImplFail("marks", fmt.Sprintf("C02: IsMarkedForRemoval(MarkForRemoval(%q)) = (%q, %v), want (%q, true)", k, cs.RtK, cs.RtM, k), cs)
			}
			if cs.IsK != wantK || cs.IsM != wantM {
				c.ImplFail("marks", fmt.Sprintf("C02: IsMarkedForRemoval(%q) = (%q, %v), want (%q, %v)", k, cs.IsK, cs.IsM, wantK, wantM), cs)
			}
		}
		if typed {
			cs := TypedCase{Key: k}
			cs.MountK, cs.MountM = (&api.Mount{Destination: k}).IsMarkedForRemoval()
			cs.DevK, cs.DevM = (&api.LinuxDevice{Path: k}).IsMarkedForRemoval()
			cs.EnvK, cs.EnvM = (&api.KeyValue{Key: k}).IsMarkedForRemoval()
			th.Add(fmt.Sprintf("{| tk_key := %s; tk_mount := %s; tk_dev := %s; tk_env := %s |}",
				coqfmt.Str(k), sb(cs.MountK, cs.MountM), sb(cs.DevK, cs.DevM), sb(cs.EnvK, cs.EnvM)), cs)
			c.Eval("typed/"+k, true)
			c.Count("typed_marks", 1)
			if cs.MountK != wantK || cs.MountM != wantM || cs.DevK != wantK || cs.DevM != wantM || cs.EnvK != wantK || cs.EnvM != wantM {
				c.ImplFail("typed_marks", fmt.Sprintf("C13: the per-type IsMarkedForRemoval methods on key %q: mount (%q, %v) device (%q, %v) env (%q, %v), want (%q, %v)",
					k, cs.MountK, cs.MountM, cs.DevK, cs.DevM, cs.EnvK, cs.EnvM, wantK, wantM), cs)
			}
		}
	}
}

// corpusFiles lists corpus/builders/*.json next to the build directory (committed boundary cases,
// replayed before the generated ones).
func corpusFiles() []string {
	dir := filepath.Join(filepath.Dir(filepath.Dir(os.Args[0])), "corpus", "builders")
	if _, err := os.Stat(dir); err != nil {
		dir = "/verif/corpus/builders"
	}
	fs, _ := filepath.Glob(filepath.Join(dir, "*.json"))
	sort.Strings(fs)
	return fs
}

// checkOps validates a corpus case: known methods with the arguments they need.
func checkOps(ops, uops []Op) error {
	for _, o := range ops {
		_, isRes := resDefs[o.M]
		if _, ok := adjOnly[o.M]; !ok && !isRes {
			return fmt.Errorf("unknown ContainerAdjustment method %q", o.M)
		}
		if (o.M == "AddMount" && o.Mount == nil) || (o.M == "AddDevice" && o.Dev == nil) || (o.M == "AddHooks" && o.Hooks == nil) {
			return fmt.Errorf("%s without its argument", o.M)
		}
	}
	for _, o := range uops {
		_, isRes := resDefs[o.M]
		if _, ok := updOnly[o.M]; !ok && !isRes {
			return fmt.Errorf("unknown ContainerUpdate method %q", o.M)
		}
	}
	return nil
}
