(* Model of pkg/api/event.go: event masks, PrettyString, ParseEventMask.
   The two name tables, the enum and ValidEvents come from the regenerated
   Model/Consts.v. *)
From Coq Require Import String Ascii List Bool ZArith Lia.
From NRI Require Import Base.Strs Base.Assoc Model.Consts.
Import ListNotations.
Open Scope string_scope.
Open Scope Z_scope.

(* EventMask is an int32; the model covers masks in [0, 2^31) and events 1..31 *)
Definition bit_of (e : Z) : Z := Z.shiftl 1 (e - 1).
Definition is_set (m e : Z) : bool := negb (Z.land m (bit_of e) =? 0).
Definition set_bit (m e : Z) : Z := Z.lor m (bit_of e).
Definition clear_bit (m e : Z) : Z := Z.land m (Z.lnot (bit_of e)).

Definition name_of (e : Z) : string :=
  match zlookup e pretty_names with Some n => n | None => "" end.

(* for bit := Event_UNKNOWN + 1; bit <= Event_LAST; bit++ *)
Fixpoint pretty_loop (n : nat) (bit : Z) (mask : Z) (events sep : string) : string * string * Z :=
  match n with
  | O => (events, sep, mask)
  | S n' =>
      if is_set mask bit
      then pretty_loop n' (bit + 1) (clear_bit mask bit) (events ++ sep ++ name_of bit) ","
      else pretty_loop n' (bit + 1) mask events sep
  end.

Definition pretty (m : Z) : string :=
  let '(events, sep, rest) := pretty_loop (Z.to_nat event_last) 1 m "" "" in
  if rest =? 0 then events
  else events ++ sep ++ "unknown(0x" ++ hex (Z.to_N rest) ++ ")".

Definition set_matching (sub : string) (mask : Z) : Z :=
  fold_left (fun m nb => if contains sub (fst nb) then set_bit m (snd nb) else m) parse_bits mask.

Definition parse_name (mask : option Z) (name : string) : option Z :=
  match mask with
  | None => None
  | Some m =>
      if String.eqb name "all" then Some (Z.lor m valid_events)
      else if (String.eqb name "pod" || String.eqb name "podsandbox")%bool then Some (set_matching "pod" m)
      else if String.eqb name "container" then Some (set_matching "container" m)
      else match alookup (trim_space name) parse_bits with
           | Some b => Some (set_bit m b)
           | None => None
           end
  end.

Definition parse_event (mask : option Z) (event : string) : option Z :=
  fold_left parse_name (split_on "," (to_lower event)) mask.

(* ParseEventMask(events...) : None = error *)
Definition parse (events : list string) : option Z := fold_left parse_event events (Some 0).

(* --- executable predicate of C14's mask clause --- *)
Definition mask_roundtrips (m : Z) : bool :=
  match parse [pretty m] with Some m' => m' =? m | None => false end.

Definition masks_upto (n : Z) : list Z := map Z.of_nat (seq 1 (Z.to_nat n)).
