(* Executable reference predicates of C06, C07 and C19 — evaluated on what the
   implementation was observed to do (the holds_* functions of Run/RunDispatch.v) —
   and the concrete instance of the dispatch model used for the correspondence:
   requests are (request id, event number), a plugin's response is a contribution
   token ("" = nothing), the merged result is the list of tokens.  No proofs. *)
From Coq Require Import String Ascii List Bool ZArith NArith Arith.
From NRI Require Import Base.Strs Base.Assoc Model.Consts Model.Event Model.DispConsts Model.Dispatch.
Import ListNotations.
Open Scope string_scope.
Open Scope list_scope.

(* ---------- small executable helpers *)
Fixpoint leqb {A} (eqb : A -> A -> bool) (a b : list A) : bool :=
  match a, b with
  | [], [] => true
  | x :: r, y :: s => eqb x y && leqb eqb r s
  | _, _ => false
  end.

Definition nmem (x : N) (l : list N) : bool := existsb (N.eqb x) l.

Fixpoint nodupb (l : list N) : bool :=
  match l with [] => true | x :: r => negb (nmem x r) && nodupb r end.

Fixpoint insert_str (s : string) (l : list string) : list string :=
  match l with
  | [] => [s]
  | x :: r => if str_ltb s x then s :: l else x :: insert_str s r
  end.
Definition sort_strs (l : list string) : list string := fold_right insert_str [] l.

Definition opt_contains (m : option string) (e : option string) : bool :=
  match m, e with
  | None, None => true
  | Some a, Some b => contains a b
  | _, _ => false
  end.

Definition is_none {A} (o : option A) : bool := match o with None => true | Some _ => false end.

(* ---------- the token instance of the model *)
Definition tk_req := (N * Z)%type.
Definition tk_ev_of (r : tk_req) : Z := snd r.
Definition tk_init (_ : tk_req) : list string := [].
Definition tk_apply (acc : list string) (_ : plugin) (tok : string) : list string + string :=
  inl (if String.eqb tok "" then acc else acc ++ [tok]).
Definition tk_finish (_ : tk_req) (acc : list string) : list string := acc.

Definition tk_run_request := run_request tk_ev_of tk_init tk_apply tk_finish.
Definition tk_run := run tk_ev_of tk_init tk_apply tk_finish.

Definition event_no (name : string) : Z :=
  match alookup name event_enum with Some v => v | None => 0%Z end.

(* only CreateContainer, UpdateContainer and StopContainer return plugin contributions *)
Definition has_response (ev : Z) : bool :=
  ((ev =? event_no "Event_CREATE_CONTAINER") || (ev =? event_no "Event_UPDATE_CONTAINER") ||
   (ev =? event_no "Event_STOP_CONTAINER"))%Z.

(* the entry points that return a response value besides the error *)
Definition returns_value (ev : Z) : bool :=
  (has_response ev || (ev =? event_no "Event_UPDATE_POD_SANDBOX")%Z)%bool.

(* the subscription a Configure reply with mask [raw] yields: None = registration refused *)
Definition sub_of_raw (raw : Z) (ev : Z) : option bool :=
  match configure_events raw with Some m => Some (is_set m ev) | None => None end.

(* ================================================================== *)
(** * C06: histories of concurrent requests *)

(* a plugin of a history: connection id, index, name, the mask its Configure reply
   carried, and the position in the common order sigma from which on it is registered
   (ep_reg), which must lie in the window [ep_lo, ep_hi] the harness measured:
   ep_lo requests had been completed when its Start was called, ep_hi when every
   registration was known to be complete *)
(* ep_gone: the position in sigma from which on the plugin is disconnected (it stopped before that
   request was issued); a position >= length sigma means it stayed *)
Record ev_plugin := {
  ep_id : N; ep_idx : string; ep_name : string; ep_raw : Z;
  ep_reg : nat; ep_lo : nat; ep_hi : nat; ep_gone : nat
}.

(* registered and still connected when request k of sigma is processed *)
Definition present (p : ev_plugin) (k : nat) : bool := (Nat.leb (ep_reg p) k && Nat.ltb k (ep_gone p))%bool.

Fixpoint find_plugin (id : N) (l : list ev_plugin) : option ev_plugin :=
  match l with
  | [] => None
  | p :: r => if N.eqb (ep_id p) id then Some p else find_plugin id r
  end.

(* split the global log (plugin id, request id) into maximal runs of one request id *)
Fixpoint group_log (l : list (N * N)) : list (N * list N) :=
  match l with
  | [] => []
  | (pid, rid) :: r =>
      match group_log r with
      | (rid', pids) :: g => if N.eqb rid rid' then (rid, pid :: pids) :: g else (rid, [pid]) :: (rid', pids) :: g
      | [] => [(rid, [pid])]
      end
  end.

Fixpoint idx_monotone (pl : list ev_plugin) (pids : list N) : bool :=
  match pids with
  | a :: ((b :: _) as r) =>
      match find_plugin a pl, find_plugin b pl with
      | Some pa, Some pb => str_leb (ep_idx pa) (ep_idx pb) && idx_monotone pl r
      | _, _ => false
      end
  | _ => true
  end.

(* one block of the log against the request at position k of sigma *)
Definition block_ok (pl : list ev_plugin) (k : nat) (rq : tk_req) (blk : N * list N)
           (res : option string * list string) : bool :=
  let '(rid, pids) := blk in
  (N.eqb rid (fst rq) &&
   nodupb pids &&                                            (* each plugin once *)
   idx_monotone pl pids &&                                   (* lower index before higher *)
   forallb (fun pid =>                                       (* only registered, subscribed plugins *)
     match find_plugin pid pl with
     | Some p => match sub_of_raw (ep_raw p) (snd rq) with
                 | Some b => b && present p k
                 | None => false
                 end
     | None => false
     end) pids &&
   forallb (fun p =>                                         (* every registered, subscribed plugin *)
     match sub_of_raw (ep_raw p) (snd rq) with
     | Some true => if present p k then nmem (ep_id p) pids else true
     | _ => true
     end) pl &&
   (* the caller's result: no error, and exactly the contributions of the plugins called *)
   is_none (fst res) &&
   leqb String.eqb (snd res)
     (if has_response (snd rq)
      then sort_strs (flat_map (fun pid => match find_plugin pid pl with Some p => [ep_name p] | None => [] end) pids)
      else []))%bool.

Fixpoint blocks_ok (pl : list ev_plugin) (k : nat) (sigma : list tk_req) (g : list (N * list N))
         (rs : list (option string * list string)) : bool :=
  match sigma, g, rs with
  | [], [], [] => true
  | rq :: s, b :: g', r :: rs' => block_ok pl k rq b r && blocks_ok pl (S k) s g' rs'
  | _, _, _ => false
  end.

(* sigma: the common order (the observer's view); log: every handler invocation of every
   plugin in the global order in which they happened; results: what each caller got, in
   sigma's order *)
Definition history_ok (pl : list ev_plugin) (sigma : list tk_req) (log : list (N * N))
           (results : list (option string * list string)) : bool :=
  (nodupb (map fst sigma) &&
   nodupb (map ep_id pl) &&
   forallb (fun p => Nat.leb (ep_lo p) (ep_reg p) && Nat.leb (ep_reg p) (ep_hi p)) pl &&
   (* requests are processed one at a time, in one order: the log is the concatenation of
      one block per request, in sigma's order *)
   blocks_ok pl 0 sigma (group_log log) results)%bool.

(* ================================================================== *)
(** * C07: one fault *)

Inductive fault_kind :=
| FVeto (msg : string)                 (* the handler returns an error *)
| FTransport (reply_complete : bool)   (* cut / close; true: only after the plugin's reply had gone through completely *)
| FHang                                (* no answer within the request time-out *)
| FStall.                              (* the peer stops reading while a request larger than the socket buffers is written *)

(* the observation of one faulted request and of the request that follows it *)
Record fault_obs := {
  fo_err : option string;        (* error returned to the caller *)
  fo_nil : bool;                 (* the response value is nil (false for entry points that return only an error) *)
  fo_tokens : list string;       (* contributions in the response, sorted *)
  fo_handled : list N            (* ids of the plugins whose handler ran, in global order *)
}.

(* plugins: (id, idx, name) in invocation (index) order, all subscribed to everything.
   T, latency and slack in milliseconds. *)
Definition fault_ok (plugins : list (N * string * string)) (faulty : N) (ev : Z) (k : fault_kind)
           (T lat slack : N) (o o2 : fault_obs) (faulty_handled_after : bool) : bool :=
  let healthy := filter (fun p => negb (N.eqb (fst (fst p)) faulty)) plugins in
  let before_faulty :=
    (fix go (l : list (N * string * string)) :=
       match l with
       | [] => []
       | p :: r => if N.eqb (fst (fst p)) faulty then [] else fst (fst p) :: go r
       end) plugins in
  let names (l : list (N * string * string)) := if has_response ev then sort_strs (map snd l) else [] in
  let healthy_ids := map (fun p => fst (fst p)) healthy in
  let not_faulty (l : list N) := filter (fun i => negb (N.eqb i faulty)) l in
  match k with
  | FVeto msg =>
      (* the request fails with the handler's error, nothing is returned, no later plugin is asked *)
      match fo_err o with Some e => contains msg e | None => false end &&
      (fo_nil o || negb (returns_value ev)) &&
      leqb String.eqb (fo_tokens o) [] &&
      leqb N.eqb (not_faulty (fo_handled o)) before_faulty &&
      (* a veto does not drop the plugin: the follow-up request is served by all of them *)
      is_none (fo_err o2) &&
      leqb String.eqb (fo_tokens o2) (names plugins) &&
      leqb N.eqb (fo_handled o2) (map (fun p => fst (fst p)) plugins)
  | FTransport _ | FHang | FStall =>
      (* the request succeeds with the intact contributions of the others (and the faulty
         plugin's own only if its reply had gone through), in time; afterwards the plugin
         gets nothing and requests still work *)
      is_none (fo_err o) && negb (fo_nil o) &&
      (leqb String.eqb (fo_tokens o) (names healthy) ||
       match k with
       | FTransport true => leqb String.eqb (fo_tokens o) (names plugins)
       | _ => false
       end) &&
      leqb N.eqb (not_faulty (fo_handled o)) healthy_ids &&
      N.leb lat (N.of_nat (length plugins) * T + slack) &&
      is_none (fo_err o2) &&
      leqb String.eqb (fo_tokens o2) (names healthy) &&
      leqb N.eqb (fo_handled o2) healthy_ids &&
      negb faulty_handled_after
  end%bool.

(* ---------- C07: a plugin that fails while it is being synchronised (before any request) *)

(* what was observed after a plugin registered, was configured and then failed in Synchronize
   (error / no answer within the time-out / disconnect): a request issued inside
   BlockPluginSync()/Unblock(), then the registration of a further healthy plugin, then a second
   request.  Each either completed within the bound or was still blocked when the harness gave up. *)
Record regfail_obs := {
  rf_done1 : bool; rf_obs1 : fault_obs;        (* the blocked-sync request *)
  rf_late_registered : bool;                   (* the late plugin's registration completed in time *)
  rf_done2 : bool; rf_obs2 : fault_obs;        (* the request after it *)
  rf_failed_handled : bool                     (* the failed plugin's handler ever ran *)
}.

(* healthy: (id, idx, name) of the plugins registered before, in index order; late: the one registered after *)
Definition regfail_ok (healthy : list (N * string * string)) (late : N * string * string) (ev : Z) (o : regfail_obs) : bool :=
  let names (l : list (N * string * string)) := if has_response ev then sort_strs (map snd l) else [] in
  let idsof (l : list (N * string * string)) := map (fun p => fst (fst p)) l in
  let all := healthy ++ [late] in
  (rf_done1 o && is_none (fo_err (rf_obs1 o)) &&
   leqb String.eqb (fo_tokens (rf_obs1 o)) (names healthy) &&
   leqb N.eqb (fo_handled (rf_obs1 o)) (idsof healthy) &&
   rf_late_registered o &&
   rf_done2 o && is_none (fo_err (rf_obs2 o)) &&
   leqb String.eqb (fo_tokens (rf_obs2 o)) (names all) &&
   nodupb (fo_handled (rf_obs2 o)) &&
   Nat.eqb (length (fo_handled (rf_obs2 o))) (length all) &&
   forallb (fun i => nmem i (fo_handled (rf_obs2 o))) (idsof all) &&
   negb (rf_failed_handled o))%bool.

(* ================================================================== *)
(** * C19: unsolicited updates *)

Definition upd := (string * Z)%type.     (* container id, CPU shares *)
Definition upd_eqb (a b : upd) : bool := (String.eqb (fst a) (fst b) && (snd a =? snd b)%Z)%bool.

(* started: the stub was started; us: what the plugin passed to UpdateContainers;
   cb_failed/cb_err: what the runtime's call-back returned; seen: the argument of every
   call-back invocation caused by this call; ret_failed/ret_err: what UpdateContainers returned *)
Definition update_ok (started : bool) (us cb_failed : list upd) (cb_err : option string)
           (seen : list (list upd)) (ret_failed : list upd) (ret_err : option string) : bool :=
  if started then
    (leqb (leqb upd_eqb) seen [us] &&
     match cb_err with
     | None => is_none ret_err && leqb upd_eqb ret_failed cb_failed
     | Some e => match ret_err with Some r => contains e r | None => false end
     end)%bool
  else
    (leqb (leqb upd_eqb) seen [] && leqb upd_eqb ret_failed [] &&
     match ret_err with Some r => String.eqb r err_no_service | None => false end)%bool.

(* a recorded schedule: see Dispatch.no_overlap *)
Definition schedule_ok (l : list mark) : bool := no_overlap l 0 0.
