(* Case records of the C20 driver (harness/cmd/h_launch, driver "injectors") and the functions evaluated on every
   case.  The annotation values are generated as structured values rendered to JSON, so the harness knows what
   each value decodes to without calling the decoder: the case carries that as a table value -> payload
   (None = malformed), and the decoder of the model / the statement is the table look-up (the YAML library is
   trusted to decode the rendered JSON to the value it was rendered from). *)
From Coq Require Import String Ascii List Bool ZArith.
From NRI Require Import Base.Strs Base.Assoc Model.InjConsts Model.Injectors Spec.InjectorsSpec Run.Common.
Import ListNotations.
Open Scope string_scope.

Definition table_dec {P} (t : list (string * option (list P))) (s : string) : option (list P) :=
  match alookup s t with Some r => r | None => None end.

Definition optz_eqb := opt_eqb Z.eqb.
Definition strs_eqb := list_eqb String.eqb.

Definition nri_device_eqb (a b : nri_device) : bool :=
  (String.eqb (nd_path a) (nd_path b) && String.eqb (nd_type a) (nd_type b) &&
   Z.eqb (nd_major a) (nd_major b) && Z.eqb (nd_minor a) (nd_minor b) &&
   optz_eqb (nd_file_mode a) (nd_file_mode b) && optz_eqb (nd_uid a) (nd_uid b) && optz_eqb (nd_gid a) (nd_gid b))%bool.
Definition nri_mount_eqb (a b : nri_mount) : bool :=
  (String.eqb (nm_destination a) (nm_destination b) && String.eqb (nm_type a) (nm_type b) &&
   String.eqb (nm_source a) (nm_source b) && strs_eqb (nm_options a) (nm_options b))%bool.
Definition nri_rlimit_eqb (a b : nri_rlimit) : bool :=
  (String.eqb (rl_type a) (rl_type b) && Z.eqb (rl_hard a) (rl_hard b) && Z.eqb (rl_soft a) (rl_soft b))%bool.
Definition adjustment_eqb (a b : adjustment) : bool :=
  (list_eqb nri_device_eqb (adj_devices a) (adj_devices b) && strs_eqb (adj_cdi a) (adj_cdi b) &&
   list_eqb nri_mount_eqb (adj_mounts a) (adj_mounts b) && list_eqb nri_rlimit_eqb (adj_rlimits a) (adj_rlimits b))%bool.
Definition result_eqb := opt_eqb adjustment_eqb.

(* device-injector: one CreateContainer request through a real Adaptation with the real plugin binary *)
Record inj_case := {
  ic_ctr : string;                                        (* container name *)
  ic_ann : annotations;                                   (* pod annotations (sorted by key) *)
  ic_dev : list (string * option (list device));          (* what each value decodes to as a device list *)
  ic_cdi : list (string * option (list string));
  ic_mnt : list (string * option (list mount));
  ic_result : option adjustment;                          (* None = the request failed *)
  ic_rest_empty : bool                                    (* nothing else in the returned adjustment, no updates *)
}.

Definition corr_inj (c : inj_case) : bool :=
  (result_eqb (injector_create (table_dec (ic_dev c)) (table_dec (ic_cdi c)) (table_dec (ic_mnt c)) (ic_ctr c) (ic_ann c))
              (ic_result c) && ic_rest_empty c)%bool.

Definition holds_inj (c : inj_case) : bool :=
  (result_eqb (spec_injector (table_dec (ic_dev c)) (table_dec (ic_cdi c)) (table_dec (ic_mnt c)) (ic_ctr c) (ic_ann c))
              (ic_result c) && ic_rest_empty c)%bool.

(* ulimit-adjuster *)
Record ul_case := {
  uc_ctr : string;
  uc_ann : annotations;
  uc_ul : list (string * option (list ulimit));
  uc_result : option adjustment;
  uc_rest_empty : bool
}.

Definition corr_ul (c : ul_case) : bool :=
  (result_eqb (ulimit_create (table_dec (uc_ul c)) (uc_ctr c) (uc_ann c)) (uc_result c) && uc_rest_empty c)%bool.

Definition holds_ul (c : ul_case) : bool :=
  (result_eqb (spec_ulimit (table_dec (uc_ul c)) (uc_ctr c) (uc_ann c)) (uc_result c) && uc_rest_empty c)%bool.
