(* What C13 says about the OCI spec generator (Model/Generate.v), as executable definitions shared by the
   theorems (Proofs/GenRefine.v, Properties/C13.v) and by the run-time predicate holds_C13
   (Run/RunAdapt.v): the part of an adjustment the generator is documented to apply (gen_view), the
   class clearing it performs before (cleared_classes), and the boolean well-formedness of the inputs
   the refinement theorem assumes (wf_gen).  NO proofs here. *)
From Coq Require Import String Ascii List Bool ZArith Arith Permutation.
From NRI Require Import Base.Strs Base.Assoc Model.Types Model.Result Model.Generate Spec.Apply.
Import ListNotations.
Open Scope string_scope.
Open Scope list_scope.

(* the part of the reference result the generator is documented to apply: a memory limit of 0 is
   "no request" (W6), the swap limit follows the limit, only CPU / memory limit / pids / classes of the scalars *)
Definition gen_view (a : adjustment) : adjustment :=
  let sc := r_scal (a_res a) in
  let keep := filter (fun e => match fst e with
                               | CpuShares | CpuQuota | CpuPeriod | CpuRtRuntime | CpuRtPeriod | CpuCpus | CpuMems | Pids => true
                               | MemLimit => match snd e with VZ 0 => false | _ => true end
                               | BlockioClass | RdtClass => match snd e with VS "" => false | _ => true end
                               | _ => false end) sc in
  let swap := match flookup MemLimit keep with Some v => [(MemSwap, v)] | None => [] end in
  with_a_res a {| r_scal := keep ++ swap; r_hp := r_hp (a_res a); r_uni := r_uni (a_res a) |}.

Definition cleared_classes (a : adjustment) (c : container) : container :=
  let drop f sc := match flookup f (r_scal (a_res a)) with Some (VS "") => fremove f sc | _ => sc end in
  with_c_res c {| r_scal := drop RdtClass (drop BlockioClass (r_scal (c_res c))); r_hp := r_hp (c_res c); r_uni := r_uni (c_res c) |}.

(* ---------- well-formedness of the inputs (DESIGN.md 2.3) ---------- *)
Fixpoint nodupb (l : list string) : bool :=
  match l with [] => true | x :: r => negb (smem x r) && nodupb r end.
Fixpoint fnodupb (l : list sfield) : bool :=
  match l with [] => true | x :: r => negb (existsb (sfield_eqb x) r) && fnodupb r end.

(* a variable name that can be set: non-empty (AddProcessEnv ignores the empty name) and without '=' (W7) *)
Definition env_name_ok (n : string) : bool := negb (String.eqb n "") && Nat.eqb (count_char "="%char n) 0.
(* an existing environment entry: "key=value", or a bare "key" without '=' whose key is its whole text;
   the key is non-empty (W3) *)
Definition env_entry_ok (s : string) : bool := negb (String.eqb (ref_env_key s) "").
(* the scalars are a record of optional fields: each field at most once, the memory limit an integer *)
Definition scal_ok (sc : list (sfield * sval)) : bool :=
  fnodupb (map fst sc) && match flookup MemLimit sc with Some (VZ _) | None => true | Some _ => false end.

(* W2: no key is set twice within one keyed family; settable variable names; the scalar record *)
Definition wf_adj (a : adjustment) : bool :=
  nodupb (r_mods m_dest (a_mounts a)) &&
  nodupb (r_mods fst (a_env a)) && forallb env_name_ok (r_mods fst (a_env a)) &&
  nodupb (r_mods d_path (a_devices a)) &&
  scal_ok (r_scal (a_res a)).
(* W3: the spec being adjusted *)
Definition wf_cont (c : container) : bool :=
  forallb env_entry_ok (c_env c) && nodupb (map ref_env_key (c_env c)) &&
  nodupb (map m_dest (c_mounts c)) &&
  nodupb (map d_path (c_devices c)) &&
  nodupb (map fst (r_hp (c_res c))).
Definition wf_gen (s : spec) (a : adjustment) : bool := wf_adj a && wf_cont (sp_c s).

(* the environment AdjustEnv is to produce, as a LIST: the existing entries in their order — an entry
   the adjustment sets is replaced in place, one it removes (and does not set) is dropped, every other
   one, with or without '=', stays as it is — followed by the new variables in the order of the adjustment *)
Definition env_expected (es : list (string * string)) (env : list string) : list string :=
  flat_map (fun s => match kfind fst (ref_env_key s) (r_adds fst es) with
                     | Some e => [ref_env_oci e]
                     | None => if smem (ref_env_key s) (r_dels fst es) then [] else [s]
                     end) env
  ++ map ref_env_oci (filter (fun e => negb (smem (fst e) (map ref_env_key env))) (r_adds fst es)).
(* the entries no entry of the adjustment names *)
Definition env_unnamed (es : list (string * string)) (s : string) : bool :=
  negb (smem (ref_env_key s) (map (fun e => rawkey (fst e)) es)).

(* Go maps have distinct keys (the annotation and the unified map of the adjustment) *)
Definition wf_maps (a : adjustment) : bool :=
  nodupb (map fst (a_ann a)) && nodupb (map fst (r_uni (a_res a))).

(* the conjunct of holds_C13 about device cgroup rules: every device that is set has its allow rule *)
Definition dev_rules_ok (ds : list device) (rules : list devrule) : bool :=
  forallb (fun d => marked (d_path d) ||
                    existsb (fun r => String.eqb (dr_type r) (d_type d) && opt_eqb Z.eqb (dr_major r) (Some (d_major d)) &&
                                      opt_eqb Z.eqb (dr_minor r) (Some (d_minor d))) rules) ds.

(* the keys a list of the adjustment names: the key of a set, the raw key of a removal (frame theorem) *)
Definition named {E} (key : E -> string) (es : list E) : list string := map (fun e => rawkey (key e)) es.

(* ---------- "every internal iteration order" ---------- *)
(* a' is a with the iteration order of its two maps (annotations, unified) and the list order of its
   mounts, environment and device entries (sets and removals alike) permuted in any way *)
Record adj_perm (a a' : adjustment) : Prop := {
  ap_ann : Permutation (a_ann a) (a_ann a');
  ap_mounts : Permutation (a_mounts a) (a_mounts a');
  ap_env : Permutation (a_env a) (a_env a');
  ap_devices : Permutation (a_devices a) (a_devices a');
  ap_uni : Permutation (r_uni (a_res a)) (r_uni (a_res a'));
  ap_args : a_args a = a_args a';
  ap_hooks : a_hooks a = a_hooks a';
  ap_rlimits : a_rlimits a = a_rlimits a';
  ap_cdi : a_cdi a = a_cdi a';
  ap_scal : r_scal (a_res a) = r_scal (a_res a');
  ap_hp : r_hp (a_res a) = r_hp (a_res a');
  ap_cgroups : a_cgroups a = a_cgroups a';
  ap_oom : a_oom a = a_oom a'
}.
