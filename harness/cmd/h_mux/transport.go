package main

import (
	"errors"
	"io"
	"net"
	"os"
	"sync"
	"syscall"
)

var errCut = errors.New("harness: trunk cut")

// recConn is the trunk handed to a Mux: it records every byte that really went
// out (tee of the trunk), optionally fails after a byte budget (a trunk cut at an
// exact byte offset), and makes net.Pipe report a locally closed connection the
// way a socket does (net.ErrClosed instead of io.ErrClosedPipe).
type recConn struct {
	net.Conn
	mu     sync.Mutex
	log    []byte
	budget int // bytes that may still be written; <0 = unlimited
	broken bool
	keep   bool // keep the bytes (false: only count them)
	count  int
}

func newRec(c net.Conn, budget int) *recConn {
	r := &recConn{Conn: c, budget: budget, keep: true}
	if budget == 0 {
		// nothing may be written at all: the trunk is already down
		r.broken = true
		c.Close()
	}
	return r
}

// Write holds the lock across the inner Write: one trunk.Write call is atomic on a
// socket anyway (the fd write lock), so this adds no ordering the Mux does not
// already get, and the log is in wire order.
func (r *recConn) Write(p []byte) (int, error) {
	r.mu.Lock()
	defer r.mu.Unlock()
	if r.broken {
		return 0, errCut
	}
	if r.budget >= 0 && len(p) > r.budget {
		n := 0
		if r.budget > 0 {
			n, _ = r.Conn.Write(p[:r.budget])
		}
		r.record(p[:n])
		r.budget -= n
		r.broken = true
		r.Conn.Close()
		return n, errCut
	}
	n, err := r.Conn.Write(p)
	r.record(p[:n])
	if r.budget >= 0 {
		r.budget -= n
		if r.budget == 0 {
			r.broken = true
			r.Conn.Close()
		}
	}
	return n, err
}

func (r *recConn) record(p []byte) {
	r.count += len(p)
	if r.keep {
		r.log = append(r.log, p...)
	}
}

func (r *recConn) Read(p []byte) (int, error) {
	n, err := r.Conn.Read(p)
	if err == io.ErrClosedPipe {
		err = net.ErrClosed
	}
	return n, err
}

func (r *recConn) Log() []byte {
	r.mu.Lock()
	defer r.mu.Unlock()
	return append([]byte(nil), r.log...)
}

// connPair returns the two ends of a fresh transport.
func connPair(transport string) (net.Conn, net.Conn, error) {
	switch transport {
	case "pipe":
		a, b := net.Pipe()
		return a, b, nil
	case "unix":
		fds, err := syscall.Socketpair(syscall.AF_UNIX, syscall.SOCK_STREAM|syscall.SOCK_CLOEXEC, 0)
		if err != nil {
			return nil, nil, err
		}
		var cs [2]net.Conn
		for i := 0; i < 2; i++ {
			f := os.NewFile(uintptr(fds[i]), "socketpair")
			c, err := net.FileConn(f)
			f.Close()
			if err != nil {
				if cs[0] != nil {
					cs[0].Close()
				}
				if i == 0 {
					syscall.Close(fds[1])
				}
				return nil, nil, err
			}
			cs[i] = c
		}
		return cs[0], cs[1], nil
	}
	return nil, nil, errors.New("unknown transport " + transport)
}
