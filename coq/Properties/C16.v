(* C16 — starting, stopping and restarting the stub terminates and leaves it usable.
   This file contains only statements closed by [exact].

   Model/Stub.v part 2 is a labelled transition system with one state per point where Start, Stop,
   Wait, close() and connClosed() of pkg/stub/stub.go block or branch:
     ph        Idle | Dialing | MuxUp | Registering | AwaitConfigure (Start holds the stub lock in
               these four) | Configured | Closing (close() waits for the server loop)
     gen       number of ttrpc clients created so far; sconn = stub.conn (none / live / dead)
     pending   close notifications under way (connClosed of that client waits for the lock)
     fired     the plugin's close call-back has run for these clients; waiters = blocked Wait calls
   Actions: the plugin's calls (AStart, AStop, AWait), the delivery of a close notification
   (ADeliver g), and what the environment / a timer / the server loop does (EDialOk, EDialFail,
   ISetupOk, ISetupFail, ERegOk, ERegRefused, ETimeout, ECfgOk, ECfgErr, EConnLost, IServeDone).
   enabled_env s lists the events that can release a pending Start in state s: the dial returns;
   RegisterPlugin is answered, refused, the connection is lost or the registration time-out expires
   (always among them); Configure is handled — accepted, failed in the plugin's hook, or refused by the
   stub — or the connection is lost.  In AwaitLost (Configure ended without telling Start) NOTHING is
   enabled: a runtime end that keeps the connection open is not bound to do anything.
   ASSUMED about the environment: one of the enabled events eventually happens (a peer that keeps
   the connection open after registration but never sends Configure is outside the property's
   list of faults; the code has no time-out for it).  Boundedness in time is a run-time fact.

   Three switches stand for the three defects the property text names:
     failed_start_shares_session  (variant of the second) connClosed filters by a number advanced only when an
                             established session is closed: a failed Start's notification hits the next session
     cfg_chan_shared         cfgErrC is created once instead of by every Start: a result nobody consumed survives
     close_takes_srv_result  close() waits for the server loop on srvErrC, the channel Run() receives from
     cfg_ok_unsent / cfg_hookerr_unsent / cfg_reject_unsent   Configure returns without handing its result
                             to Start on that path (accepted / hook failed / mask refused): phase AwaitLost
     wait_cfg_unguarded      Start's wait for the configuration result is not released by a lost connection
     stale_close_unfiltered  connClosed closes whatever session is current
     dead_conn_reused        a failed Start leaves the closed connection in stub.conn
   pinned   = all three on  (the code as pinned; reproduced on the real code by driver stublife)
   fixed    = all three off (findings/C16-*.patch)
   faithful = read from the CURRENT source on every run (Model/StubConsts.v); the correspondence
              compares the real stub with the LTS under faithful, the property predicate of the
              harness (Run.RunStub.holds_life) compares it with the LTS under fixed.
   The full theorems below are stated for every switch setting that has the relevant defect off
   (hence for fixed); the _refuted theorems give the witness for pinned; the _partial ones hold
   for every setting. *)
From Coq Require Import List Bool Arith.
From NRI Require Import Model.Stub Spec.StubSpec Proofs.StubLifeProofs.
Import ListNotations.
Open Scope list_scope.

(* the invariant every theorem rests on holds in every reachable state, for every switch setting *)
Theorem C16_invariant : forall sw s, reachable sw s -> wf sw s.
Proof. exact reachable_wf. Qed.
Print Assumptions C16_invariant.

(* ------------------------------------------------------------------ Start returns *)

(* In every reachable state with a Start under way some releasing event is enabled, and EVERY
   enabled event — whatever the runtime end does: dial failure, refusal, loss of the connection in
   any phase, time-out, configuration error — brings the Start strictly closer to returning
   (rank <= 4: at most four events). *)
Theorem C16_start_returns : forall sw s,
  wait_cfg_unguarded sw = false -> results_sent sw -> reachable sw s -> start_pending s = true ->
  enabled_env sw s <> [] /\ forall a, In a (enabled_env sw s) -> rank (step sw s a) < rank s.
Proof. intros sw s G U R. exact (start_progress sw s G U (reachable_wf sw s R)). Qed.
Print Assumptions C16_start_returns.

(* ... and when it returns: Ok exactly when the plugin got configured (then the stub is started
   on a live connection and the session is recorded), otherwise an error and the stub is idle *)
Theorem C16_start_result : forall sw s a,
  start_pending s = true -> start_pending (step sw s a) = false ->
  let s' := step sw s a in
  (ph s' = Configured /\ last_start s' = Some ResOk /\ started s' = true /\ conn_live (sconn s') = true /\
   hd_error (established s') = Some (gen s')) \/
  (ph s' = Idle /\ last_start s' = Some ResErr /\ started s' = false).
Proof. exact start_result. Qed.
Print Assumptions C16_start_result.

(* a session's configuration result belongs to that session: with the channel through which Configure reports
   created anew by every Start, a pending Start can end configured only because the Configure of ITS OWN
   session was handled and accepted while it waited (never on a result left over from an earlier session) *)
Theorem C16_start_succeeds_on_own_configure : forall sw s a,
  cfg_chan_shared sw = false -> reachable sw s -> start_pending s = true -> ph (step sw s a) = Configured ->
  a = ECfgOk /\ ph s = AwaitConfigure /\ conn_live (sconn s) = true.
Proof. intros sw s a D R. exact (start_succeeds_on_own_configure sw s a D (reachable_wf sw s R)). Qed.
Print Assumptions C16_start_succeeds_on_own_configure.

(* FALSE for the variant [shared_cfg_chan] (the channel is created once, in New).  Witness: the connection is
   dropped while the plugin's slow Configure hook is still running: Start gives up with an error, the hook
   then posts its result; the next Start reports success right after registration, without any Configure *)
Theorem C16_stale_configuration_refuted :
  exists l, reachable shared_cfg_chan (run shared_cfg_chan init l) /\
    let s := run shared_cfg_chan init l in
    ph s = Idle /\ last_start s = Some ResErr /\ stale_cfg s = true /\
    let s' := run shared_cfg_chan s [AStart; EDialOk; ISetupOk; ERegOk] in
    ph s' = Configured /\ last_start s' = Some ResOk /\ started s' = true.
Proof. exact stale_configuration_refuted. Qed.
Print Assumptions C16_stale_configuration_refuted.

(* FALSE for the pinned code.  Witness: registration answered, connection dropped before Configure.
   Start is pending, no event is enabled, and after ANY further sequence of actions it is still
   pending, the lock is still held (Stop and IsStarted block too) and no close call-back has run. *)
Theorem C16_start_returns_refuted :
  exists l, reachable pinned (run pinned init l) /\
    let s := run pinned init l in
    start_pending s = true /\ enabled_env pinned s = [] /\
    forall l', start_pending (run pinned s l') = true /\ lock_free (run pinned s l') = false /\ fired (run pinned s l') = [].
Proof. exact start_returns_refuted. Qed.
Print Assumptions C16_start_returns_refuted.

(* FALSE as well for the variant [reject_unsent] (Configure sends its result explicitly and the path that
   refuses a mask with unhandled events returns without sending).  Witness: the plugin asks for an event it
   has no handler for and the runtime end keeps the connection open after the failed Configure call: Start is
   pending, the connection is alive, nothing is enabled, and after ANY sequence of actions that does not
   lose the connection it is still pending and the lock is still held. *)
Theorem C16_configure_result_unsent_refuted :
  exists l, reachable reject_unsent (run reject_unsent init l) /\
    let s := run reject_unsent init l in
    start_pending s = true /\ enabled_env reject_unsent s = [] /\ conn_live (sconn s) = true /\
    forall l', ~ In EConnLost l' ->
      start_pending (run reject_unsent s l') = true /\ lock_free (run reject_unsent s l') = false.
Proof. exact configure_result_unsent_refuted. Qed.
Print Assumptions C16_configure_result_unsent_refuted.

(* what holds for every switch setting: these are the ONLY two ways to get stuck *)
Theorem C16_start_returns_partial : forall sw s,
  reachable sw s -> start_pending s = true ->
  (enabled_env sw s = [] <-> (ph s = AwaitConfigure /\ conn_live (sconn s) = false) \/ ph s = AwaitLost) /\
  forall a, In a (enabled_env sw s) ->
    rank (step sw s a) < rank s \/ (a = EConnLost /\ ph s = AwaitConfigure /\ wait_cfg_unguarded sw = true) \/
    ph (step sw s a) = AwaitLost.
Proof. intros sw s R. exact (start_progress_partial sw s (reachable_wf sw s R)). Qed.
Print Assumptions C16_start_returns_partial.

(* ------------------------------------------------------------------ Wait returns *)

(* a Wait call is blocked only while a session is established or being closed (after a failed
   Start the stub is Idle: Wait returns at once) ... *)
Theorem C16_wait_blocks_only_in_session : forall sw s,
  reachable sw s -> waiters s <> [] -> ph s = Configured \/ ph s = Closing.
Proof. intros sw s R. exact (waiters_only_in_session sw s (reachable_wf sw s R)). Qed.
Print Assumptions C16_wait_blocks_only_in_session.

(* ... Stop releases every waiter and leaves the stub idle without a connection ... *)
Theorem C16_wait_returns_after_stop : forall sw s,
  ph s = Configured ->
  let s' := run sw s [AStop; IServeDone] in ph s' = Idle /\ waiters s' = [] /\ started s' = false /\ sconn s' = CNone.
Proof. exact wait_released_stop. Qed.
Print Assumptions C16_wait_returns_after_stop.

(* ... and so does a lost connection, once its notification has been handled; the close
   call-back of the session runs *)
Theorem C16_wait_returns_after_loss : forall sw s,
  ph s = Configured -> cli_open s = true ->
  let s' := run sw s [EConnLost; ADeliver (gen s); IServeDone] in
  ph s' = Idle /\ waiters s' = [] /\ started s' = false /\ sconn s' = CNone /\ fired s' = gen s :: fired s.
Proof. exact wait_released_loss. Qed.
Print Assumptions C16_wait_returns_after_loss.

(* ------------------------------------------------------------------ Run returns *)

(* Run = Start, then a receive of the server's result (action ARunWait; runners = the Run calls blocked in
   that receive).  A Run call is blocked only while its session is established or being closed ... *)
Theorem C16_run_blocks_only_in_session : forall sw s,
  close_takes_srv_result sw = false -> reachable sw s -> runners s <> [] -> ph s = Configured \/ ph s = Closing.
Proof. intros sw s D R. exact (runners_only_in_session sw s D (reachable_wf sw s R)). Qed.
Print Assumptions C16_run_blocks_only_in_session.

(* ... Stop (from another thread) returns, releases the blocked Run and every Wait, and leaves the lock free ... *)
Theorem C16_run_returns_after_stop : forall sw s,
  close_takes_srv_result sw = false -> reachable sw s -> ph s = Configured ->
  let s' := run sw s [AStop; IServeDone] in
  ph s' = Idle /\ runners s' = [] /\ waiters s' = [] /\ started s' = false /\ lock_free s' = true.
Proof. intros sw s D R. exact (run_released_stop sw s D (reachable_wf sw s R)). Qed.
Print Assumptions C16_run_returns_after_stop.

(* ... and so does a connection dropped by the runtime end *)
Theorem C16_run_returns_after_loss : forall sw s,
  close_takes_srv_result sw = false -> reachable sw s -> ph s = Configured -> cli_open s = true ->
  let s' := run sw s [EConnLost; ADeliver (gen s); IServeDone] in
  ph s' = Idle /\ runners s' = [] /\ waiters s' = [] /\ started s' = false.
Proof. intros sw s D R. exact (run_released_loss sw s D (reachable_wf sw s R)). Qed.
Print Assumptions C16_run_returns_after_loss.

(* FALSE for the variant [srv_result_shared] (close() waits for the server loop by receiving from srvErrC, the
   one-slot channel Run receives from).  Witness: Run on a healthy runtime, Stop from another thread.  Two
   receivers, one value: if the teardown gets it, Stop returns and the Run call stays blocked after ANY
   further sequence of actions; if Run gets it, Run returns and the teardown never ends: the lock is held
   after ANY further sequence of actions (IsStarted, Stop, Start block; no close call-back). *)
Theorem C16_run_or_stop_hangs_refuted :
  exists l, reachable srv_result_shared (run srv_result_shared init l) /\
    let s := run srv_result_shared init l in
    ph s = Closing /\ runners s = [1] /\
    (let s1 := step srv_result_shared s IServeDone in
     ph s1 = Idle /\ forall l', In 1 (runners (run srv_result_shared s1 l'))) /\
    (let s2 := step srv_result_shared s IRunTakes in
     runners s2 = [] /\ forall l', lock_free (run srv_result_shared s2 l') = false).
Proof. exact run_or_stop_hangs_refuted. Qed.
Print Assumptions C16_run_or_stop_hangs_refuted.

(* ------------------------------------------------------------------ the close notification fires once *)

(* for every client ever created (established session or not), in every reachable state and for
   every switch setting: its one close notification is in exactly one place — not yet emitted
   (the client is open), under way, being handled, or delivered to the plugin *)
Theorem C16_close_conservation : forall sw s g,
  reachable sw s -> tokens s g = b2n (Nat.leb 1 g && Nat.leb g (gen s)).
Proof. intros sw s g R. exact (wf_tokens sw s (reachable_wf sw s R) g). Qed.
Print Assumptions C16_close_conservation.

Theorem C16_close_at_most_once : forall sw s g, reachable sw s -> count_occ_nat g (fired s) <= 1.
Proof. intros sw s g R. exact (close_at_most_once sw s g (reachable_wf sw s R)). Qed.
Print Assumptions C16_close_at_most_once.

(* once the stub is idle and nothing is under way, every client's call-back has run exactly once *)
Theorem C16_close_once : forall sw s g,
  reachable sw s -> ph s = Idle -> pending s = [] -> 1 <= g <= gen s -> count_occ_nat g (fired s) = 1.
Proof. intros sw s g R. exact (close_exactly_once_when_settled sw s g (reachable_wf sw s R)). Qed.
Print Assumptions C16_close_once.

(* and an idle stub gets there: every notification under way is delivered *)
Theorem C16_close_delivered : forall sw s,
  ph s = Idle ->
  ph (settle sw s) = Idle /\ pending (settle sw s) = [] /\ fired (settle sw s) = rev (pending s) ++ fired s.
Proof. exact settle_idle. Qed.
Print Assumptions C16_close_delivered.

(* ------------------------------------------------------------------ restart *)

(* from EVERY reachable idle state — after a failed Start of any kind, a lost connection, a Stop —
   a Start against a healthy runtime ends configured, on a connection dialled for it *)
Theorem C16_restart_works : forall sw s,
  dead_conn_reused sw = false -> cfg_ok_unsent sw = false -> reachable sw s -> ph s = Idle ->
  let s' := run sw s healthy_start in
  ph s' = Configured /\ started s' = true /\ last_start s' = Some ResOk /\
  gen s' = S (gen s) /\ sconn s' = CLive (S (gen s)) /\ cli_open s' = true /\
  hd_error (established s') = Some (gen s') /\ pending s' = pending s /\ fired s' = fired s.
Proof. intros sw s D U R. exact (restart_works sw s D U (reachable_wf sw s R)). Qed.
Print Assumptions C16_restart_works.

(* FALSE for the pinned code.  Witness: registration refused; every later Start against a healthy
   runtime fails, any number of times (the dead connection is used again) *)
Theorem C16_restart_works_refuted :
  exists l, reachable pinned (run pinned init l) /\
    let s := run pinned init l in
    ph s = Idle /\ last_start s = Some ResErr /\
    forall n, 0 < n ->
      let s' := Nat.iter n (fun x => run_start pinned x BHealthy) s in
      ph s' = Idle /\ started s' = false /\ last_start s' = Some ResErr.
Proof. exact restart_works_refuted. Qed.
Print Assumptions C16_restart_works_refuted.

(* what holds for every switch setting: restart works whenever no connection was left behind
   (after a failed dial, a Stop, a lost established session) *)
Theorem C16_restart_works_partial : forall sw s,
  cfg_ok_unsent sw = false -> ph s = Idle -> sconn s = CNone ->
  let s' := run sw s healthy_start in
  ph s' = Configured /\ started s' = true /\ last_start s' = Some ResOk /\ sconn s' = CLive (S (gen s)).
Proof. exact restart_works_partial. Qed.
Print Assumptions C16_restart_works_partial.

(* ------------------------------------------------------------------ late notifications *)

(* delivering the notification of any other client to an established session changes nothing
   but the bookkeeping of notifications *)
Theorem C16_stale_notification_harmless : forall sw s g,
  stale_close_unfiltered sw = false -> failed_start_shares_session sw = false -> ph s = Configured -> g <> gen s ->
  same_session s (step sw s (ADeliver g)).
Proof. exact stale_harmless. Qed.
Print Assumptions C16_stale_notification_harmless.

(* for every timing: an established session survives the delivery of all notifications under
   way, in whatever number (fuel = how many the scheduler lets run) *)
Theorem C16_session_survives : forall sw fuel s,
  stale_close_unfiltered sw = false -> failed_start_shares_session sw = false ->
  reachable sw s -> ph s = Configured -> cli_open s = true ->
  same_session s (drain sw fuel s).
Proof. intros sw fuel s F F2 R. exact (session_survives sw fuel s F F2 (reachable_wf sw s R)). Qed.
Print Assumptions C16_session_survives.

(* FALSE for the pinned code.  Witness: Start, Stop, Start; the first session's notification
   (client 1) arrives when the second session (client 2) is up: the second session is closed,
   the stub ends idle and not started, two call-backs have run *)
Theorem C16_stale_notification_refuted :
  exists l g, reachable pinned (run pinned init l) /\
    let s := run pinned init l in
    ph s = Configured /\ started s = true /\ g <> gen s /\ memn g (pending s) = true /\
    ph (step pinned s (ADeliver g)) = Closing /\
    let s' := settle pinned s in ph s' = Idle /\ started s' = false /\ fired s' = [2; 1].
Proof. exact stale_notification_refuted. Qed.
Print Assumptions C16_stale_notification_refuted.

(* FALSE as well for the variant [shared_session] (connClosed filters by a number that is advanced only
   when an established session is closed): witness: registration refused, immediate healthy Start, then the
   failed attempt's notification (client 1) closes the new session (client 2) *)
Theorem C16_failed_start_notification_refuted :
  exists l g, reachable shared_session (run shared_session init l) /\
    let s := run shared_session init l in
    ph s = Configured /\ started s = true /\ g <> gen s /\ memn g (pending s) = true /\
    ph (step shared_session s (ADeliver g)) = Closing /\
    let s' := settle shared_session s in ph s' = Idle /\ started s' = false /\ fired s' = [2; 1].
Proof. exact failed_start_notification_refuted. Qed.
Print Assumptions C16_failed_start_notification_refuted.

(* what holds for every switch setting: a notification delivered while the stub is idle is harmless *)
Theorem C16_stale_notification_partial : forall sw s g,
  ph s = Idle -> same_session s (step sw s (ADeliver g)).
Proof. exact idle_delivery_harmless. Qed.
Print Assumptions C16_stale_notification_partial.

(* ------------------------------------------------------------------ non-vacuity *)

(* the switch settings the theorems are instantiated with *)
Example C16_ex_fixed :
  wait_cfg_unguarded fixed = false /\ stale_close_unfiltered fixed = false /\ dead_conn_reused fixed = false /\
  failed_start_shares_session fixed = false /\ results_sent fixed /\ close_takes_srv_result fixed = false /\
  cfg_chan_shared fixed = false.
Proof. repeat split. Qed.

(* a reachable state with a Start under way (hypotheses of C16_start_returns) *)
Example C16_ex_pending :
  let s := run fixed init [AStart; EDialOk; ISetupOk; ERegOk] in
  reachable fixed s /\ start_pending s = true /\ enabled_env fixed s = [ECfgOk; ECfgErr; ECfgRejected; EConnLost] /\
  ph (step fixed s EConnLost) = Idle /\ last_start (step fixed s EConnLost) = Some ResErr.
Proof. split; [eexists; reflexivity|]. vm_compute. repeat split. Qed.

(* reachable idle states after each kind of failure, and the restart from them *)
Example C16_ex_restart :
  forall b, In b [BUnreachable; BRefuse; BDropInReg; BSilentReg; BDropAfterReg; BCfgError; BCfgReject;
                  BCfgErrorDrop; BCfgRejectDrop; BDropInSlowCfg; BCfgThenRefuse; BDropAfterCfg] ->
  let s := settle fixed (run_start fixed init b) in
  ph s = Idle /\ ph (run fixed s healthy_start) = Configured.
Proof. intros b H. cbn in H. repeat destruct H as [<-|H]; try contradiction; vm_compute; split; reflexivity. Qed.

(* the three recorded defects at the level of operations, as the driver observes them:
   pinned predicts them, fixed predicts the behaviour the property demands *)
Example C16_ex_ops_pinned :
  run_ops pinned init [OStart BDropAfterReg] = [[{| o_class := KBlocked; o_started := None; o_closes := 0; o_waiting := 0; o_running := 0 |}]] /\
  run_ops pinned init [OStart BRefuse; OStart BHealthy] =
    [[{| o_class := KErr; o_started := Some false; o_closes := 1; o_waiting := 0; o_running := 0 |};
      {| o_class := KErr; o_started := Some false; o_closes := 2; o_waiting := 0; o_running := 0 |}]] /\
  In [{| o_class := KOk; o_started := Some true; o_closes := 0; o_waiting := 0; o_running := 0 |};
      {| o_class := KOk; o_started := Some false; o_closes := 2; o_waiting := 0; o_running := 0 |}]
     (run_ops pinned init [OStart BHealthy; OStopStart BHealthy]).
Proof. vm_compute. repeat split. left. reflexivity. Qed.

(* a failed Start immediately followed by a healthy one: whichever runs first, the new session stays up *)
Example C16_ex_failed_then_start :
  (forall f, In f [BRefuse; BDropInReg; BDropAfterReg; BCfgError] ->
   forall o, In o (run_ops fixed init [OStartStart f BHealthy]) ->
     o = [{| o_class := KOk; o_started := Some true; o_closes := 1; o_waiting := 0; o_running := 0 |}]) /\
  In [{| o_class := KOk; o_started := Some false; o_closes := 2; o_waiting := 0; o_running := 0 |}]
     (run_ops shared_session init [OStartStart BCfgError BHealthy]).
Proof.
  split.
  - intros f H. cbn in H. repeat destruct H as [<-|H]; try contradiction; vm_compute; intros o [<-|[<-|[]]]; reflexivity.
  - vm_compute. left. reflexivity.
Qed.

(* a refused subscription with the runtime end keeping the connection: an error under fixed, blocked in the variant *)
Example C16_ex_reject_kept_open :
  run_ops fixed init [OStart BCfgReject; OStart BHealthy] =
    [[{| o_class := KErr; o_started := Some false; o_closes := 1; o_waiting := 0; o_running := 0 |};
      {| o_class := KOk; o_started := Some true; o_closes := 1; o_waiting := 0; o_running := 0 |}]] /\
  run_ops reject_unsent init [OStart BCfgReject; OStart BHealthy] =
    [[{| o_class := KBlocked; o_started := None; o_closes := 0; o_waiting := 0; o_running := 0 |}]] /\
  run_ops reject_unsent init [OStart BCfgRejectDrop] = run_ops fixed init [OStart BCfgRejectDrop].
Proof. vm_compute. repeat split. Qed.

(* Run in a thread of its own, then Stop / a drop by the runtime end: Run is blocked while the session is up
   (o_running = 1) and has returned afterwards; in the variant one of the two hangs *)
Example C16_ex_run :
  run_ops fixed init [ORun BHealthy; OWait; OStop] =
    [[{| o_class := KOk; o_started := Some true; o_closes := 0; o_waiting := 0; o_running := 1 |};
      {| o_class := KReturned; o_started := Some true; o_closes := 0; o_waiting := 1; o_running := 1 |};
      {| o_class := KReturned; o_started := Some false; o_closes := 1; o_waiting := 0; o_running := 0 |}]] /\
  run_ops fixed init [ORun BHealthy; OLose; ORun BRefuse] =
    [[{| o_class := KOk; o_started := Some true; o_closes := 0; o_waiting := 0; o_running := 1 |};
      {| o_class := KReturned; o_started := Some false; o_closes := 1; o_waiting := 0; o_running := 0 |};
      {| o_class := KErr; o_started := Some false; o_closes := 2; o_waiting := 0; o_running := 0 |}]] /\
  In [{| o_class := KOk; o_started := Some true; o_closes := 0; o_waiting := 0; o_running := 1 |};
      {| o_class := KReturned; o_started := Some false; o_closes := 1; o_waiting := 0; o_running := 1 |};
      {| o_class := KOk; o_started := Some true; o_closes := 1; o_waiting := 0; o_running := 1 |}]
     (run_ops srv_result_shared init [ORun BHealthy; OStop; OStart BHealthy]) /\
  In [{| o_class := KOk; o_started := Some true; o_closes := 0; o_waiting := 0; o_running := 1 |};
      {| o_class := KBlocked; o_started := None; o_closes := 0; o_waiting := 0; o_running := 0 |}]
     (run_ops srv_result_shared init [ORun BHealthy; OStop; OStart BHealthy]).
Proof. vm_compute. repeat split; auto. Qed.

(* the driver's scenario for a configuration result that outlives its session *)
Example C16_ex_stale_cfg :
  run_ops fixed init [OStart BDropInSlowCfg; OStart BDropAfterReg] =
    [[{| o_class := KErr; o_started := Some false; o_closes := 1; o_waiting := 0; o_running := 0 |};
      {| o_class := KErr; o_started := Some false; o_closes := 2; o_waiting := 0; o_running := 0 |}]] /\
  run_ops shared_cfg_chan init [OStart BDropInSlowCfg; OStart BDropAfterReg] =
    [[{| o_class := KErr; o_started := Some false; o_closes := 1; o_waiting := 0; o_running := 0 |};
      {| o_class := KOk; o_started := Some false; o_closes := 2; o_waiting := 0; o_running := 0 |}]] /\
  run_ops shared_cfg_chan init [OStart BCfgThenRefuse; OStart BDropAfterReg] =
    [[{| o_class := KErr; o_started := Some false; o_closes := 1; o_waiting := 0; o_running := 0 |};
      {| o_class := KOk; o_started := Some false; o_closes := 2; o_waiting := 0; o_running := 0 |}]].
Proof. vm_compute. repeat split. Qed.

Example C16_ex_ops_fixed :
  run_ops fixed init [OStart BDropAfterReg] = [[{| o_class := KErr; o_started := Some false; o_closes := 1; o_waiting := 0; o_running := 0 |}]] /\
  run_ops fixed init [OStart BRefuse; OStart BHealthy] =
    [[{| o_class := KErr; o_started := Some false; o_closes := 1; o_waiting := 0; o_running := 0 |};
      {| o_class := KOk; o_started := Some true; o_closes := 1; o_waiting := 0; o_running := 0 |}]] /\
  (forall o, In o (run_ops fixed init [OStart BHealthy; OStopStart BHealthy]) ->
     o = [{| o_class := KOk; o_started := Some true; o_closes := 0; o_waiting := 0; o_running := 0 |};
          {| o_class := KOk; o_started := Some true; o_closes := 1; o_waiting := 0; o_running := 0 |}]).
Proof. vm_compute. repeat split. intros o [<-|[<-|[]]]; reflexivity. Qed.
