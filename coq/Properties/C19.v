(* C19 — Unsolicited updates reach the runtime once, unchanged, and never concurrently.
   This file contains only statements closed by [exact]; the model is Model/Dispatch.v. *)
From Coq Require Import String List Bool ZArith NArith.
From NRI Require Import Model.Consts Model.Event Model.DispConsts Model.Dispatch
  Spec.DispatchSpec Proofs.DispatchProofs.
Import ListNotations.
Open Scope string_scope.
Open Scope list_scope.

(* The runtime's call-back is run exactly once, on exactly the updates the plugin sent, and
   the plugin is sent the call-back's failed list, or — when the call-back fails — its error. *)
Theorem C19_relay_exact : forall (U : Type) (us : list U) (cb : callback U),
  relay_update us cb =
  (match cb us with (failed, None) => (failed, None) | (_, Some e) => ([], Some e) end, [us]).
Proof. exact (fun U => @relay_update_exact U). Qed.
Print Assumptions C19_relay_exact.

Theorem C19_started_stub_relays : forall (U : Type) (us : list U) (cb : callback U),
  stub_update true us cb = relay_update us cb.
Proof. exact (fun U => @stub_update_started U). Qed.
Print Assumptions C19_started_stub_relays.

(* The call Stub.UpdateContainers makes carries no deadline (read off the current source), so however
   long the call-back runs or waits for the adaptation mutex — behind runtime requests or other
   plugins' updates — the plugin gets exactly what the relay returns; under a deadline d (what a
   bounded context would do) a call-back lasting d or longer would lose its result. *)
Theorem C19_relay_independent_of_duration : forall (U : Type) (us : list U) (cb : callback U) (dur : N),
  stub_update_timed stub_update_deadline true us cb dur = relay_update us cb.
Proof. exact (fun U => @stub_update_any_duration U). Qed.
Print Assumptions C19_relay_independent_of_duration.

Theorem C19_a_deadline_would_lose_the_result : forall (U : Type) (us : list U) (cb : callback U) (d dur : N),
  (d <= dur)%N -> stub_update_timed (Some d) true us cb dur = (([], Some "context deadline exceeded"), [us]).
Proof. exact (fun U => @stub_update_deadline_loses_result U). Qed.
Print Assumptions C19_a_deadline_would_lose_the_result.

(* A stub that was not started answers with its no-service error and the call-back is not run. *)
Theorem C19_no_service : forall (U : Type) (us : list U) (cb : callback U),
  stub_update false us cb = (([], Some err_no_service), []).
Proof. exact (fun U => @stub_update_no_service U). Qed.
Print Assumptions C19_no_service.

(* The adaptation mutex, any number of runtime callers and of plugins sending updates, any
   interleaving: no reachable state has two actors inside the adaptation — a call-back never
   runs together with a request's processing or with another call-back. *)
Theorem C19_mutual_exclusion : forall s, mreach s ->
  forall a b wa wb, pcs s a = Running wa -> pcs s b = Running wb -> a = b.
Proof. exact mutual_exclusion. Qed.
Print Assumptions C19_mutual_exclusion.

(* Every step of a request's loop and every step of a call-back is taken by the mutex's holder. *)
Theorem C19_work_holds_the_mutex : forall s a s', mreach s -> mstep s (MWork a) s' -> holder s = Some a.
Proof. exact work_holds_mutex. Qed.
Print Assumptions C19_work_holds_the_mutex.

(* The executable overlap check evaluated on recorded schedules accepts every schedule the
   LTS can produce. *)
Theorem C19_lts_schedules_pass : forall l s', mrun minit l s' -> no_overlap (marks_of minit l) 0 0 = true.
Proof. exact lts_schedules_pass_init. Qed.
Print Assumptions C19_lts_schedules_pass.

(* updateContainers and the five plugin loops take the mutex first and release it last;
   updateContainers returns r.updateFn(ctx, req); Stub.UpdateContainers guards on a missing
   runtime connection — read off the current sources *)
Theorem C19_structure_of_the_code : structure_ok = true.
Proof. exact structure_holds. Qed.
Print Assumptions C19_structure_of_the_code.

(* ---------- non-vacuity *)
Example C19_relay_ok :
  relay_update [("c1", 10%Z); ("c2", 20%Z)] (fun us => (firstn 1 us, None)) =
  (([("c1", 10%Z)], None), [[("c1", 10%Z); ("c2", 20%Z)]]).
Proof. reflexivity. Qed.

Example C19_relay_error :
  relay_update [("c1", 10%Z)] (fun us => (us, Some "boom")) = (([], Some "boom"), [[("c1", 10%Z)]]).
Proof. reflexivity. Qed.

Example C19_slow_callback :
  stub_update_timed stub_update_deadline true [("c1", 10%Z)] (fun us => (us, None)) 900000 = (([("c1", 10%Z)], None), [[("c1", 10%Z)]]) /\
  stub_update_timed (Some 300%N) true [("c1", 10%Z)] (fun us => (us, None)) 900 = (([], Some "context deadline exceeded"), [[("c1", 10%Z)]]).
Proof. split; vm_compute; reflexivity. Qed.

Example C19_unstarted : fst (stub_update false [("c1", 10%Z)] (fun us => (us, None))) = ([], Some "stub: no service/connection").
Proof. reflexivity. Qed.

(* a reachable state with a call-back running while a runtime caller waits *)
Example C19_reachable :
  exists s, mreach s /\ pcs s 0%nat = Running WCallback /\ pcs s 1%nat = Waiting WRequest /\ holder s = Some 0%nat.
Proof.
  eexists. split.
  - eapply MR_step; [eapply MR_step; [eapply MR_step; [apply MR_init|]|]|].
    + apply (MS_enter minit 0%nat WCallback). reflexivity.
    + eapply (MS_enter _ 1%nat WRequest). reflexivity.
    + eapply (MS_acquire _ 0%nat WCallback); reflexivity.
  - repeat split.
Qed.

Example C19_overlap_is_detected :
  no_overlap [MBegin WCallback; MBegin WRequest; MEnd WRequest; MEnd WCallback] 0 0 = false /\
  no_overlap [MBegin WRequest; MEnd WRequest; MBegin WCallback; MEnd WCallback] 0 0 = true.
Proof. split; reflexivity. Qed.
