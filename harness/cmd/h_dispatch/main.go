package main

import (
	"bytes"
	"encoding/json"
	"io"
	"os"
	"os/exec"
	"path/filepath"
	"strings"

	"verif/harness/internal/hx"
)

// The drivers host the real Adaptation in-process.  A panic (or a Go runtime
// "fatal error") inside containerd/nri would take the driver down and be
// reported as a failure of the harness; C06/C07/C19 however say the runtime
// process does not crash.  So the binary runs itself as a child and, when the
// child dies with a goroutine trace whose crashing goroutine is inside an nri
// package, writes a stats.json that reports the crash as a failure of the
// implementation (with the trace as the replay).
func main() {
	if os.Getenv("VERIF_DISPATCH_CHILD") == "" {
		os.Exit(supervise())
	}
	hx.Main(map[string]func(*hx.Ctx) error{
		"events":  driveEvents,
		"faults":  driveFaults,
		"updates": driveUpdates,
	})
}

func supervise() int {
	cmd := exec.Command(os.Args[0], os.Args[1:]...)
	cmd.Env = append(os.Environ(), "VERIF_DISPATCH_CHILD=1")
	var errb bytes.Buffer
	cmd.Stdout = os.Stdout
	cmd.Stderr = io.MultiWriter(os.Stderr, &errb)
	err := cmd.Run()
	if err == nil {
		return 0
	}
	rc := 2
	if ee, ok := err.(*exec.ExitError); ok {
		rc = ee.ExitCode()
	}
	trace := errb.String()
	head, inNRI := crashHead(trace)
	if !inNRI {
		return rc
	}
	out, driver := "", ""
	for i, a := range os.Args {
		if (a == "-out" || a == "--out") && i+1 < len(os.Args) {
			out = os.Args[i+1]
		}
	}
	if n := len(os.Args); n > 0 {
		driver = os.Args[n-1]
	}
	if out == "" {
		return rc
	}
	if len(trace) > 6000 {
		trace = trace[:6000]
	}
	st := hx.Stats{
		Evaluations: 1, DistinctNontrivial: 1,
		Rule:    "the driver process hosting the real Adaptation crashed inside containerd/nri",
		Samples: []interface{}{}, Shards: []hx.ShardInfo{}, Distribution: map[string]int{"crash.inside_nri": 1},
		HarnessErrors: []string{},
		ImplFailures: []hx.ImplFailure{{Stream: driver,
			What: "the process hosting the Adaptation crashed inside containerd/nri: " + head,
			Case: map[string]interface{}{"driver": driver, "args": os.Args[1:], "trace": trace}}},
	}
	js, jerr := json.MarshalIndent(&st, "", " ")
	if jerr != nil || os.WriteFile(filepath.Join(out, "stats.json"), js, 0o644) != nil {
		return rc
	}
	return 0
}

// crashHead finds "panic: …" / "fatal error: …" in a Go crash dump and reports
// whether the first goroutine printed after it (the crashing one) has a frame
// of an nri package.
func crashHead(trace string) (string, bool) {
	i := strings.Index(trace, "\npanic: ")
	if j := strings.Index(trace, "\nfatal error: "); j >= 0 && (i < 0 || j < i) {
		i = j
	}
	if i < 0 {
		if strings.HasPrefix(trace, "panic: ") || strings.HasPrefix(trace, "fatal error: ") {
			i = -1
		} else {
			return "", false
		}
	}
	rest := trace[i+1:]
	head := rest
	if k := strings.Index(head, "\n"); k >= 0 {
		head = head[:k]
	}
	g := strings.Index(rest, "\ngoroutine ")
	if g < 0 {
		return head, false
	}
	first := rest[g+1:]
	if k := strings.Index(first, "\n\n"); k >= 0 {
		first = first[:k]
	}
	return head, strings.Contains(first, "github.com/containerd/nri/pkg/")
}
