(* Proofs about Model/Stub.v: C15 (subscription, rejection, dispatch) and C16 (life cycle). *)
From Coq Require Import String Ascii List Bool ZArith NArith Arith Lia Permutation.
From NRI Require Import Base.Strs Base.Assoc Model.Consts Model.Event Model.StubConsts Model.Stub.
Import ListNotations.
Open Scope string_scope.
Open Scope list_scope.

(* ====================================================================== *)
(* C15                                                                     *)
(* ====================================================================== *)

(* ---- bit lemmas: hold for every mask, no sweep ------------------------- *)

Lemma land_pow2 m k : (0 <= k)%Z -> Z.land m (2 ^ k) = if Z.testbit m k then (2 ^ k)%Z else 0%Z.
Proof.
  intros Hk. apply Z.bits_inj'. intros n Hn.
  rewrite Z.land_spec, Z.pow2_bits_eqb by exact Hk.
  destruct (Z.testbit m k) eqn:T.
  - rewrite Z.pow2_bits_eqb by exact Hk. destruct (Z.eqb_spec k n) as [->|Hne].
    + rewrite T. reflexivity.
    + apply andb_false_r.
  - rewrite Z.bits_0. destruct (Z.eqb_spec k n) as [->|Hne].
    + rewrite T. reflexivity.
    + apply andb_false_r.
Qed.

Lemma is_set_testbit m e : (1 <= e)%Z -> is_set m e = Z.testbit m (e - 1).
Proof.
  intros He. unfold is_set, bit_of. rewrite Z.shiftl_1_l, land_pow2 by lia.
  destruct (Z.testbit m (e - 1)); [|reflexivity].
  assert (0 < 2 ^ (e - 1))%Z by (apply Z.pow_pos_nonneg; lia).
  destruct (Z.eqb_spec (2 ^ (e - 1)) 0); [lia|reflexivity].
Qed.

Lemma is_set_zero e : is_set 0 e = false.
Proof. unfold is_set. rewrite Z.land_0_l. reflexivity. Qed.

(* no extra bits  <->  every set bit of m is set in ev *)
Lemma no_extra_subset m ev e :
  Z.land m (Z.lnot ev) = 0%Z -> (1 <= e)%Z -> is_set m e = true -> is_set ev e = true.
Proof.
  intros H0 He Hm. rewrite is_set_testbit in * by exact He.
  destruct (Z.testbit ev (e - 1)) eqn:T; [reflexivity|].
  assert (Z.testbit (Z.land m (Z.lnot ev)) (e - 1) = true) as X.
  { rewrite Z.land_spec, Z.lnot_spec by lia. rewrite Hm, T. reflexivity. }
  rewrite H0, Z.bits_0 in X. discriminate.
Qed.

Lemma extra_bit_nonzero m ev e :
  (1 <= e)%Z -> is_set m e = true -> is_set ev e = false -> Z.land m (Z.lnot ev) <> 0%Z.
Proof.
  intros He Hm Hev E. rewrite is_set_testbit in * by exact He.
  assert (Z.testbit (Z.land m (Z.lnot ev)) (e - 1) = true) as X.
  { rewrite Z.land_spec, Z.lnot_spec by lia. rewrite Hm, Hev. reflexivity. }
  rewrite E, Z.bits_0 in X. discriminate.
Qed.

(* ---- the code does clamp (regenerated facts about stub.go's Configure) -- *)
Lemma zero_default_on : configure_zero_default = true.
Proof. reflexivity. Qed.
Lemma rejects_extra_on : configure_rejects_extra = true.
Proof. reflexivity. Qed.

(* ---- the whole finite domain of plugin types, evaluated by the kernel's VM *)

Lemma in_plugins_upto n p : (p < n)%N -> In p (plugins_upto n).
Proof.
  intros H. unfold plugins_upto. apply in_map_iff. exists (N.to_nat p). split; [lia|].
  apply in_seq. lia.
Qed.

Lemma in_event_bits e : (1 <= e <= 31)%Z -> In e event_bits.
Proof.
  intros H. unfold event_bits. apply in_map_iff. exists (Z.to_nat e). split; [lia|].
  apply in_seq. lia.
Qed.

(* stated without the [let] of all_subscriptions_exact: the kernel's conversion on the let-form
   does not terminate in reasonable time at Qed of the lemmas that use it *)
Lemma all_plugins_subscription :
  forallb (subscription_exact_t handler_events) (plugins_upto num_plugins) = true.
Proof. vm_compute. reflexivity. Qed.

Lemma all_plugins_handlers : forallb handlers_exact (plugins_upto num_plugins) = true.
Proof. vm_compute. reflexivity. Qed.

Lemma forallb_in {A} (f : A -> bool) l : forallb f l = true -> forall x, In x l -> f x = true.
Proof. intros H. apply forallb_forall. exact H. Qed.

Lemma subscription_exact_p p : (p < num_plugins)%N -> subscription_exact_t handler_events p = true.
Proof. intros Hp. exact (forallb_in _ _ all_plugins_subscription p (in_plugins_upto _ _ Hp)). Qed.

Lemma handlers_exact_p p : (p < num_plugins)%N -> handlers_exact p = true.
Proof. intros Hp. exact (forallb_in _ _ all_plugins_handlers p (in_plugins_upto _ _ Hp)). Qed.

(* all thirteen events are distinct and valid (regenerated numbers) *)
Lemma proto_events_valid : forallb (fun h => (1 <=? proto_event h)%Z && (proto_event h <=? 13)%Z && is_set valid_events (proto_event h)) all_handlers = true.
Proof. vm_compute. reflexivity. Qed.

Lemma in_all_handlers h : In h all_handlers.
Proof. destruct h; simpl; tauto. Qed.

(* the stub's mask: exactly the events of the handlers the plugin implements *)
Lemma implemented_exact p e :
  (p < num_plugins)%N -> (1 <= e <= 31)%Z ->
  implemented p e = true <-> exists h, implements p h = true /\ proto_event h = e.
Proof.
  intros Hp He. pose proof (subscription_exact_p p Hp) as A. unfold subscription_exact_t in A.
  pose proof (forallb_in _ _ A e (in_event_bits _ He)) as A'. clear A. rename A' into A. cbv beta in A.
  apply eqb_prop in A. unfold implemented. rewrite A. rewrite existsb_exists. split.
  - intros [x [Hx Hh]]. unfold handler_events in Hx. apply in_map_iff in Hx. destruct Hx as [h [<- _]].
    cbn [fst snd] in Hh. apply andb_true_iff in Hh. destruct Hh as [Hi Hq]. apply Z.eqb_eq in Hq. eauto.
  - intros [h [Hi Hq]]. exists (h, proto_event h). split.
    + unfold handler_events. apply (in_map (fun h0 => (h0, proto_event h0))). apply in_all_handlers.
    + cbn [fst snd]. rewrite Hi, Hq, Z.eqb_refl. reflexivity.
Qed.

Lemma stub_handlers_exact p h :
  (p < num_plugins)%N ->
  alookup (method_of h) (stub_handlers p) = if implements p h then Some (method_of h) else None.
Proof.
  intros Hp. pose proof (handlers_exact_p p Hp) as A0. unfold handlers_exact in A0.
  pose proof (forallb_in _ _ A0 h (in_all_handlers h)) as A. clear A0. cbv beta in A.
  destruct (alookup (method_of h) (stub_handlers p)) as [m|].
  - apply andb_true_iff in A. destruct A as [Hi Hm]. apply String.eqb_eq in Hm. rewrite Hi, Hm. reflexivity.
  - apply negb_true_iff in A. rewrite A. reflexivity.
Qed.

(* ---- C15_subscription -------------------------------------------------- *)

Lemma configure_subscription p hook m :
  configure p hook = COk m ->
  (forall e, (1 <= e)%Z -> is_set m e = true -> implemented p e = true) /\
  match hook with
  | NoHook => m = stub_events p
  | HookFails => False
  | HookMask r => (r = 0%Z -> m = stub_events p) /\ (r <> 0%Z -> m = r)
  end.
Proof.
  unfold configure. rewrite zero_default_on, rejects_extra_on. cbn [andb].
  destruct hook as [| |r].
  - intros E. inversion E. subst m. split; [|reflexivity]. intros e _ H. exact H.
  - discriminate.
  - destruct (Z.eqb_spec r 0) as [->|Hr].
    + destruct (Z.eqb_spec (Z.land (stub_events p) (Z.lnot (stub_events p))) 0) as [E0|E0]; cbn [negb].
      * intros E. inversion E. subst m. split; [intros e _ H; exact H|]. split; [reflexivity|congruence].
      * discriminate.
    + destruct (Z.eqb_spec (Z.land r (Z.lnot (stub_events p))) 0) as [E0|E0]; cbn [negb].
      * intros E. inversion E. subst m. split.
        -- intros e He H. unfold implemented. eapply no_extra_subset; eauto.
        -- split; [congruence|reflexivity].
      * discriminate.
Qed.

(* ---- C15_reject_unhandled ---------------------------------------------- *)

Lemma configure_rejects p r e :
  (1 <= e)%Z -> is_set r e = true -> implemented p e = false -> configure p (HookMask r) = CErrUnhandled.
Proof.
  intros He Hr Hi. unfold configure. rewrite zero_default_on, rejects_extra_on. cbn [andb].
  destruct (Z.eqb_spec r 0) as [->|Hn]; [rewrite is_set_zero in Hr; discriminate|].
  pose proof (extra_bit_nonzero r (stub_events p) e He Hr Hi) as X.
  destruct (Z.eqb_spec (Z.land r (Z.lnot (stub_events p))) 0); [contradiction|reflexivity].
Qed.

(* a subscribed event always has a handler (composition with the runtime's is_set test, C06) *)
Lemma subscribed_has_handler p hook m e :
  (p < num_plugins)%N -> (1 <= e <= 31)%Z -> configure p hook = COk m -> is_set m e = true ->
  exists h, implements p h = true /\ proto_event h = e.
Proof.
  intros Hp He Hc Hs. apply configure_subscription in Hc. destruct Hc as [Hsub _].
  apply implemented_exact; [exact Hp|exact He|]. apply Hsub; [lia|exact Hs].
Qed.

(* ---- C15_dispatch_exact ------------------------------------------------ *)

Lemma dispatch_identity h : dispatch h = Some h.
Proof. destruct h; vm_compute; reflexivity. Qed.

(* the event bit set for a handler's interface is the handler's event, and only it *)
Lemma setup_bits_exact :
  forallb (fun h => match find (fun r => String.eqb (row_iface r) (iface_of h)) setup_table with
                    | Some r => match row_bits r with [e] => (e =? proto_event h)%Z | _ => false end
                                && String.eqb (row_field r) (method_of h) && String.eqb (row_method r) (method_of h)
                    | None => false
                    end) all_handlers = true.
Proof. vm_compute. reflexivity. Qed.

Definition deliver_with (hs : list (string * string)) (c : carrier) (m : message) (beh : string -> hresult)
  : list invocation * reply :=
  match c with
  | ByRPC name =>
      match find_rpc name with
      | None => ([], no_reply)
      | Some (_, fld, args, _, resp) =>
          match alookup fld hs with
          | None => ([], no_reply)
          | Some meth => ([(meth, map (field m) args)], relay_rpc resp (beh meth))
          end
      end
  | ByStateChange =>
      match zlookup (m_event m) statechange_table with
      | None => ([], no_reply)
      | Some calls =>
          let '(inv, err) := run_calls hs m beh calls [] "" in
          (inv, if String.eqb err "" then no_reply else RErr err)
      end
  end.

Lemma deliver_is_with p c m beh : deliver p c m beh = deliver_with (stub_handlers p) c m beh.
Proof. reflexivity. Qed.

Definition expected_with (b : bool) (h : handler) (m : message) (beh : string -> hresult)
  : list invocation * reply :=
  if b then
    let r := beh (method_of h) in
    ([(method_of h, map (field m) (proto_args h))],
     if String.eqb (r_error r) "" then
       ROk (if proto_returns_adjust h then r_adjust r else "") (if proto_returns_update h then r_update r else "")
     else RErr (r_error r))
  else ([], no_reply).

Lemma deliver_with_exact hs (b : bool) h fields beh :
  alookup (method_of h) hs = (if b then Some (method_of h) else None) ->
  deliver_with hs (carrier_of h) {| m_event := proto_event h; m_fields := fields |} beh
  = expected_with b h {| m_event := proto_event h; m_fields := fields |} beh.
Proof.
  intros H.
  destruct h; cbn in H |- *; rewrite H; destruct b; cbn; try reflexivity;
    match goal with |- context [String.eqb (r_error ?r) ""] => destruct (String.eqb (r_error r) "") end;
    reflexivity.
Qed.

Lemma deliver_exact p h fields beh :
  (p < num_plugins)%N ->
  deliver p (carrier_of h) {| m_event := proto_event h; m_fields := fields |} beh
  = expected_delivery p h {| m_event := proto_event h; m_fields := fields |} beh.
Proof.
  intros Hp. rewrite deliver_is_with.
  rewrite (deliver_with_exact (stub_handlers p) (implements p h) h fields beh (stub_handlers_exact p h Hp)).
  reflexivity.
Qed.

(* exactly once: one invocation when implemented, none otherwise *)
Lemma deliver_once p h fields beh :
  (p < num_plugins)%N ->
  length (fst (deliver p (carrier_of h) {| m_event := proto_event h; m_fields := fields |} beh))
  = if implements p h then 1 else 0.
Proof.
  intros Hp. rewrite deliver_exact by exact Hp. unfold expected_delivery.
  destruct (implements p h); reflexivity.
Qed.
