package main

import (
	"fmt"
	"reflect"
	"sort"
	"strings"

	"verif/harness/internal/nm"
)

// The property predicates once more, in Go, written from the method documentation and without the
// functions under test, so that a failing input is reported even when the Coq side does not compile.

func setOf(l []string) []string {
	m := map[string]bool{}
	for _, x := range l {
		m[x] = true
	}
	out := make([]string, 0, len(m))
	for x := range m {
		out = append(out, x)
	}
	sort.Strings(out)
	return out
}

// keyed: "-rest" releases rest, anything else claims itself
func keyed(kind, k string, rel, clm *[]string) {
	if strings.HasPrefix(k, "-") {
		*rel = append(*rel, kind+":"+k[1:])
	} else {
		*clm = append(*clm, kind+":"+k)
	}
}

// groupOfAdjust: the ledger group (releases, claims) of a message, as the runtime reads it.
func groupOfAdjust(a *nm.Adjust) (rel, clm []string) {
	for _, e := range a.Ann {
		keyed("ann", e.K, &rel, &clm)
	}
	for _, m := range a.Mounts {
		keyed("mount", m.Dest, &rel, &clm)
	}
	for _, e := range a.Env {
		keyed("env", e.K, &rel, &clm)
	}
	for _, d := range a.Devices {
		keyed("dev", d.Path, &rel, &clm)
	}
	if len(a.Args) > 0 {
		clm = append(clm, "args")
		if a.Args[0] == "" {
			rel = append(rel, "args")
		}
	}
	clm = append(clm, resClaims(a.Res)...)
	if a.Cgroups != "" {
		clm = append(clm, "cgroups")
	}
	if a.Oom != nil {
		clm = append(clm, "oom")
	}
	for _, l := range a.Rlimits {
		clm = append(clm, "rlimit:"+l.Type)
	}
	for _, n := range a.CDI {
		clm = append(clm, "cdi:"+n)
	}
	return setOf(rel), setOf(clm)
}

func resClaims(r *nm.Res) []string {
	var out []string
	if r == nil {
		return out
	}
	for _, v := range r.Scal {
		out = append(out, "scal:"+v.F)
	}
	for _, h := range r.HP {
		out = append(out, "hp:"+h.Size)
	}
	for _, e := range r.Uni {
		out = append(out, "uni:"+e.K)
	}
	return out
}

// resSpec: what the resource setters in ops must leave: scalar field -> value (last writer; a plain string
// field written with "" is unset), hugepage limits in order, unified key -> value.
func resSpec(ops []Op) (scal map[string]nm.SVal, hp []nm.HP, uni map[string]string, any bool) {
	scal, uni = map[string]nm.SVal{}, map[string]string{}
	for _, o := range ops {
		d, ok := resDefs[o.M]
		if !ok {
			continue
		}
		any = true
		switch d.kind {
		case 'H':
			hp = append(hp, nm.HP{Size: o.S1, Limit: o.U})
		case 'K':
			uni[o.S1] = o.S2
		case 'i':
			if nm.Kind[d.field] == 'u' { // SetLinuxCPUPeriod: an int64 stored in an unsigned field
				scal[d.field] = nm.SVal{F: d.field, U: uint64(o.I)}
			} else {
				scal[d.field] = nm.SVal{F: d.field, I: o.I}
			}
		case 'u':
			scal[d.field] = nm.SVal{F: d.field, U: o.U}
		case '0':
			scal[d.field] = nm.SVal{F: d.field, B: true}
		case 's':
			if (d.field == "CpuCpus" || d.field == "CpuMems") && o.S1 == "" {
				delete(scal, d.field)
			} else {
				scal[d.field] = nm.SVal{F: d.field, S: o.S1}
			}
		}
	}
	return
}

func resSpecClaims(ops []Op) []string {
	scal, hp, uni, _ := resSpec(ops)
	var out []string
	for f := range scal {
		out = append(out, "scal:"+f)
	}
	for _, h := range hp {
		out = append(out, "hp:"+h.Size)
	}
	for k := range uni {
		out = append(out, "uni:"+k)
	}
	return out
}

// groupOfOps: the releases and claims the method sequence is documented to produce.
func groupOfOps(ops []Op) (rel, clm []string) {
	args, cg, oom := "", false, false // args: "", "claim", "release+claim"
	for _, o := range ops {
		switch o.M {
		case "AddAnnotation":
			keyed("ann", o.S1, &rel, &clm)
		case "RemoveAnnotation":
			rel = append(rel, "ann:"+o.S1)
		case "AddMount":
			keyed("mount", o.Mount.Dest, &rel, &clm)
		case "RemoveMount":
			rel = append(rel, "mount:"+o.S1)
		case "AddEnv":
			keyed("env", o.S1, &rel, &clm)
		case "RemoveEnv":
			rel = append(rel, "env:"+o.S1)
		case "AddDevice":
			keyed("dev", o.Dev.Path, &rel, &clm)
		case "RemoveDevice":
			rel = append(rel, "dev:"+o.S1)
		case "SetArgs":
			switch {
			case len(o.L) == 0:
				args = ""
			case o.L[0] == "":
				args = "release+claim"
			default:
				args = "claim"
			}
		case "UpdateArgs":
			args = "release+claim"
		case "AddRlimit":
			clm = append(clm, "rlimit:"+o.S1)
		case "AddCDIDevice":
			clm = append(clm, "cdi:"+o.S1)
		case "SetLinuxCgroupsPath":
			cg = o.S1 != ""
		case "SetLinuxOomScoreAdj":
			oom = o.P != nil
		}
	}
	if args != "" {
		clm = append(clm, "args")
		if args == "release+claim" {
			rel = append(rel, "args")
		}
	}
	clm = append(clm, resSpecClaims(ops)...)
	if cg {
		clm = append(clm, "cgroups")
	}
	if oom {
		clm = append(clm, "oom")
	}
	return setOf(rel), setOf(clm)
}

func oracleC02(cs *BuildCase) string {
	r1, c1 := groupOfAdjust(cs.Adj)
	r2, c2 := groupOfOps(cs.Ops)
	if !reflect.DeepEqual(r1, r2) {
		return fmt.Sprintf("the built adjustment releases %v, the methods called release %v", r1, r2)
	}
	if !reflect.DeepEqual(c1, c2) {
		return fmt.Sprintf("the built adjustment claims %v, the methods called claim %v", c1, c2)
	}
	return ""
}

func sameSVal(a, b nm.SVal) bool { return a == b }

func oracleC05(cs *BuildCase) string {
	wantID, wantIgnore := cs.UID, false
	for _, o := range cs.UOps {
		switch o.M {
		case "SetContainerId":
			wantID = o.S1
		case "SetIgnoreFailure":
			wantIgnore = true
		}
	}
	if cs.Upd.ID != wantID {
		return fmt.Sprintf("container id %q, want %q", cs.Upd.ID, wantID)
	}
	if cs.Upd.Ignore != wantIgnore {
		return fmt.Sprintf("ignore-failure flag %v, want %v", cs.Upd.Ignore, wantIgnore)
	}
	scal, hp, uni, any := resSpec(cs.UOps)
	if !any {
		if cs.Upd.Res != nil {
			return "resources present although no resource setter was called"
		}
		return ""
	}
	if cs.Upd.Res == nil {
		return "resources missing although a resource setter was called"
	}
	if len(cs.Upd.Res.Scal) != len(scal) {
		return fmt.Sprintf("%d scalar fields set, want %d: %+v", len(cs.Upd.Res.Scal), len(scal), cs.Upd.Res.Scal)
	}
	for _, v := range cs.Upd.Res.Scal {
		if w, ok := scal[v.F]; !ok || !sameSVal(v, w) {
			return fmt.Sprintf("field %s holds %+v, want %+v (set: %v)", v.F, v, w, ok)
		}
	}
	if len(hp) != len(cs.Upd.Res.HP) {
		return fmt.Sprintf("hugepage limits %+v, want %+v", cs.Upd.Res.HP, hp)
	}
	for i := range hp {
		if hp[i] != cs.Upd.Res.HP[i] {
			return fmt.Sprintf("hugepage limits %+v, want %+v", cs.Upd.Res.HP, hp)
		}
	}
	if len(uni) != len(cs.Upd.Res.Uni) {
		return fmt.Sprintf("unified %+v, want %+v", cs.Upd.Res.Uni, uni)
	}
	for _, e := range cs.Upd.Res.Uni {
		if v, ok := uni[e.K]; !ok || v != e.V {
			return fmt.Sprintf("unified %+v, want %+v", cs.Upd.Res.Uni, uni)
		}
	}
	return ""
}

// ---------------------------------------------------------------- C13: single methods and remove/add pairs through the generator

func envLookup(env []string, k string) (string, bool) {
	for _, e := range env {
		if i := strings.IndexByte(e, '='); i >= 0 && e[:i] == k {
			return e[i+1:], true
		} else if i < 0 && e == k {
			return "", true
		}
	}
	return "", false
}

func annLookup(l []nm.KV, k string) (string, bool) {
	for _, e := range l {
		if e.K == k {
			return e.V, true
		}
	}
	return "", false
}

func scalLookup(r *nm.Res, f string) (nm.SVal, bool) {
	if r != nil {
		for _, v := range r.Scal {
			if v.F == f {
				return v, true
			}
		}
	}
	return nm.SVal{}, false
}

// expectOp: the documented effect of one method on the spec; plain keys only (a key that begins with '-'
// is a removal and an environment name must be settable — those inputs are judged by the Coq predicate).
func expectOp(o Op, before *nm.Container, out *SpecObs) string {
	c := out.C
	plain := func(k string) bool { return k != "" && !strings.HasPrefix(k, "-") && !strings.Contains(k, "=") }
	switch o.M {
	case "AddAnnotation":
		if plain(o.S1) {
			if v, ok := annLookup(c.Ann, o.S1); !ok || v != o.S2 {
				return fmt.Sprintf("AddAnnotation(%q, %q): the spec has %q (present %v)", o.S1, o.S2, v, ok)
			}
		}
	case "RemoveAnnotation":
		if _, ok := annLookup(c.Ann, o.S1); ok {
			return fmt.Sprintf("RemoveAnnotation(%q): still present", o.S1)
		}
	case "AddMount":
		if plain(o.Mount.Dest) {
			n := 0
			for _, m := range c.Mounts {
				if m.Dest == o.Mount.Dest {
					n++
					if !reflect.DeepEqual(nm.MountFromAPI(o.Mount.ToAPI()), nm.MountFromAPI(m.ToAPI())) {
						return fmt.Sprintf("AddMount(%+v): the spec has %+v", *o.Mount, m)
					}
				}
			}
			if n != 1 {
				return fmt.Sprintf("AddMount(%+v): %d mounts at that destination", *o.Mount, n)
			}
		}
	case "RemoveMount":
		for _, m := range c.Mounts {
			if m.Dest == o.S1 {
				return fmt.Sprintf("RemoveMount(%q): still present", o.S1)
			}
		}
	case "AddEnv":
		if plain(o.S1) {
			if v, ok := envLookup(c.Env, o.S1); !ok || v != o.S2 {
				return fmt.Sprintf("AddEnv(%q, %q): the spec has %q (present %v)", o.S1, o.S2, v, ok)
			}
		}
	case "RemoveEnv":
		if _, ok := envLookup(c.Env, o.S1); ok {
			return fmt.Sprintf("RemoveEnv(%q): still present", o.S1)
		}
	case "AddDevice":
		if plain(o.Dev.Path) {
			n := 0
			for _, d := range c.Devices {
				if d.Path == o.Dev.Path {
					n++
					if !reflect.DeepEqual(nm.DeviceFromAPI(o.Dev.ToAPI()), d) {
						return fmt.Sprintf("AddDevice(%+v): the spec has %+v", *o.Dev, d)
					}
				}
			}
			if n != 1 {
				return fmt.Sprintf("AddDevice(%+v): %d devices at that path", *o.Dev, n)
			}
		}
	case "RemoveDevice":
		for _, d := range c.Devices {
			if d.Path == o.S1 {
				return fmt.Sprintf("RemoveDevice(%q): still present", o.S1)
			}
		}
	case "SetArgs", "UpdateArgs":
		want := o.L
		if o.M == "SetArgs" && len(want) > 0 && want[0] == "" {
			want = want[1:]
		}
		if len(want) == 0 {
			want = before.Args
		}
		if !reflect.DeepEqual(append([]string{}, c.Args...), append([]string{}, want...)) {
			return fmt.Sprintf("%s(%q): the command line is %q, want %q", o.M, o.L, c.Args, want)
		}
	case "AddRlimit":
		if n := len(c.Rlimits); n != len(before.Rlimits)+1 || c.Rlimits[n-1] != (nm.Rlimit{Type: o.S1, Hard: o.U, Soft: o.U2}) {
			return fmt.Sprintf("AddRlimit(%q, %d, %d): rlimits %+v", o.S1, o.U, o.U2, c.Rlimits)
		}
	case "AddCDIDevice":
		if len(out.CDI) != 1 || out.CDI[0] != o.S1 {
			return fmt.Sprintf("AddCDIDevice(%q): injected %q", o.S1, out.CDI)
		}
	case "SetLinuxCgroupsPath":
		want := o.S1
		if want == "" {
			want = before.Cgroups
		}
		if c.Cgroups != want {
			return fmt.Sprintf("SetLinuxCgroupsPath(%q): cgroups path %q", o.S1, c.Cgroups)
		}
	case "SetLinuxOomScoreAdj":
		want := before.Oom
		if o.P != nil {
			want = o.P
		}
		if (want == nil) != (c.Oom == nil) || (want != nil && *want != *c.Oom) {
			return fmt.Sprintf("SetLinuxOomScoreAdj: OOM score %v, want %v", c.Oom, want)
		}
	case "AddLinuxHugepageLimit":
		var last *nm.HP
		for i := range c.Res.HP {
			if c.Res.HP[i].Size == o.S1 {
				last = &c.Res.HP[i]
			}
		}
		if last == nil || last.Limit != o.U {
			return fmt.Sprintf("AddLinuxHugepageLimit(%q, %d): hugepage limits %+v", o.S1, o.U, c.Res.HP)
		}
	case "AddLinuxUnified":
		if v, ok := annLookup(c.Res.Uni, o.S1); !ok || v != o.S2 {
			return fmt.Sprintf("AddLinuxUnified(%q, %q): unified %+v", o.S1, o.S2, c.Res.Uni)
		}
	default:
		d := resDefs[o.M]
		if d == nil {
			return ""
		}
		// the scalar fields the generator is documented to apply (C13): CPU, memory limit, pids, classes
		var want *nm.SVal
		switch d.field {
		case "CpuShares", "CpuRtPeriod":
			want = &nm.SVal{F: d.field, U: o.U}
		case "CpuQuota", "CpuRtRuntime", "Pids":
			want = &nm.SVal{F: d.field, I: o.I}
		case "CpuPeriod":
			want = &nm.SVal{F: d.field, U: uint64(o.I)}
		case "MemLimit":
			if o.I != 0 {
				want = &nm.SVal{F: d.field, I: o.I}
			}
		case "CpuCpus", "CpuMems", "BlockioClass", "RdtClass":
			if o.S1 != "" {
				want = &nm.SVal{F: d.field, S: o.S1}
			} else if d.field == "BlockioClass" || d.field == "RdtClass" {
				if v, ok := scalLookup(c.Res, d.field); ok {
					return fmt.Sprintf("%s(\"\"): the class is still %+v", o.M, v)
				}
			}
		}
		if want != nil {
			if v, ok := scalLookup(c.Res, d.field); !ok || v != *want {
				return fmt.Sprintf("%s: the spec has %+v (present %v), want %+v", o.M, v, ok, *want)
			}
			// no other scalar field may change (the swap limit follows the memory limit)
			for _, f := range nm.Fields {
				if f == d.field || (d.field == "MemLimit" && f == "MemSwap") {
					continue
				}
				b, okb := scalLookup(before.Res, f)
				a, oka := scalLookup(c.Res, f)
				if okb != oka || a != b {
					return fmt.Sprintf("%s: field %s changed from %+v (present %v) to %+v (present %v)", o.M, f, b, okb, a, oka)
				}
			}
		}
	}
	return ""
}

func oracleC13(cs *BuildCase) string {
	if cs.Gen == nil {
		return ""
	}
	switch len(cs.Ops) {
	case 1:
		return expectOp(cs.Ops[0], cs.Spec, cs.Gen)
	case 2:
		for i := 0; i < 2; i++ {
			add, other := cs.Ops[i], cs.Ops[1-i]
			if rem, ok := removeOf(add); ok && reflect.DeepEqual(rem, other) {
				if w := expectOp(add, cs.Spec, cs.Gen); w != "" {
					return "with " + other.M + " of the same key in the same adjustment: " + w
				}
			}
		}
	}
	return ""
}
