// h_register drives the real plugin registration path of pkg/adaptation:
//
//	synclock (C08)  R goroutines create containers inside BlockPluginSync while P real stubs
//	                register, some blocks released twice; the API-level log is replayed through the
//	                LTS of Model/SyncLock.v (every run in a re-executed copy of this binary)
//	register (C17)  scripted raw plugins (multiplex + ttrpc spoken directly) for every outcome
//	                class of the handshake, CheckPluginIndex on a string corpus, the socket
//	                directory mode under a sweep of umasks (helper subprocess), disabled listener
package main

import (
	"context"
	"fmt"
	"io"
	"os"
	"path/filepath"
	"strings"

	"github.com/sirupsen/logrus"

	"github.com/containerd/nri/pkg/adaptation"
	"github.com/containerd/nri/pkg/api"

	"verif/harness/internal/coqfmt"
	"verif/harness/internal/hx"
)

func main() {
	logrus.SetOutput(io.Discard)
	logrus.SetLevel(logrus.PanicLevel)
	// the umask is process-wide: the sweep runs in a re-executed copy of this binary
	if len(os.Args) > 1 && os.Args[1] == umaskHelperArg {
		os.Exit(umaskHelper(os.Args[2:]))
	}
	// a runtime that corrupts its sync lock dies with an unrecoverable fatal error: one process per run
	if len(os.Args) > 1 && os.Args[1] == syncLockHelperArg {
		os.Exit(syncLockHelper(os.Args[2:]))
	}
	hx.Main(map[string]func(*hx.Ctx) error{"synclock": driveSyncLock, "register": driveRegister})
}

func noUpdates(_ context.Context, _ []*api.ContainerUpdate) ([]*api.ContainerUpdate, error) {
	return nil, nil
}

// newAdaptation creates a real Adaptation whose socket lives at sock and whose plugin
// directories are empty directories inside dir.
func newAdaptation(dir, sock string, syncFn adaptation.SyncFn, extra ...adaptation.Option) (*adaptation.Adaptation, error) {
	plugins := filepath.Join(dir, "plugins")
	conf := filepath.Join(dir, "conf.d")
	for _, d := range []string{plugins, conf} {
		if err := os.MkdirAll(d, 0o755); err != nil {
			return nil, err
		}
	}
	opts := append([]adaptation.Option{
		adaptation.WithSocketPath(sock),
		adaptation.WithPluginPath(plugins),
		adaptation.WithPluginConfigPath(conf),
	}, extra...)
	return adaptation.New("verif", "1.0", syncFn, noUpdates, opts...)
}

// scratch returns a fresh short directory (unix socket paths are limited to ~100 bytes).
func scratch(tag string) (string, error) { return os.MkdirTemp("", "nrireg-"+tag+"-") }

// cstr renders any byte string as a Coq term: a literal when printable, (sb [bytes]) otherwise.
func cstr(s string) string {
	if coqfmt.Printable(s) {
		return coqfmt.Str(s)
	}
	bs := make([]string, len(s))
	for i := 0; i < len(s); i++ {
		bs[i] = coqfmt.Z(int64(s[i]))
	}
	return "(sb " + coqfmt.List(bs) + ")"
}

func cstrList(l []string) string {
	out := make([]string, len(l))
	for i, s := range l {
		out[i] = cstr(s)
	}
	return coqfmt.List(out)
}

func zList(l []int64) string {
	out := make([]string, len(l))
	for i, v := range l {
		out[i] = coqfmt.Z(v)
	}
	return coqfmt.List(out)
}

func quoteBytes(s string) string {
	if coqfmt.Printable(s) {
		return s
	}
	var b strings.Builder
	for i := 0; i < len(s); i++ {
		fmt.Fprintf(&b, "\\x%02x", s[i])
	}
	return b.String()
}
