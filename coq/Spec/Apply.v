(* Reference semantics of ONE container adjustment (pkg/api/adjustment.go's
   documentation): remove what is marked, then set what is given — a set wins
   over a removal of the same key; replace the command line after stripping
   the marker; append hooks, rlimits, CDI devices; overwrite the scalars that
   are present; upsert hugepage limits and unified keys.  Independent of
   Model/Result.v and Model/Generate.v.  Also: the observable projection
   (DESIGN.md I3) as boolean equalities. *)
From Coq Require Import String Ascii List Bool ZArith.
From NRI Require Import Base.Strs Base.Assoc Model.Types.
Import ListNotations.
Open Scope string_scope.
Open Scope list_scope.

Section Keyed.
Variables (E W : Type) (ekey : E -> string) (wkey : W -> string) (inj : E -> W).
Definition r_dels (es : list E) : list string :=
  map (fun e => rawkey (ekey e)) (filter (fun e => marked (ekey e)) es).
Definition r_adds (es : list E) : list E := filter (fun e => negb (marked (ekey e))) es.
Definition r_mods (es : list E) : list string := map ekey (r_adds es).
(* drop what is removed or replaced, then add what is set *)
Definition apply_keyed (c : list W) (es : list E) : list W :=
  filter (fun w => negb (smem (wkey w) (r_dels es)) && negb (smem (wkey w) (r_mods es))) c
  ++ map inj (r_adds es).
End Keyed.
Arguments r_dels {E}. Arguments r_adds {E}. Arguments r_mods {E}. Arguments apply_keyed {E W}.

Definition ref_env_key (s : string) : string := fst (cut "="%char s).
Definition ref_env_oci (e : string * string) : string := fst e ++ "=" ++ snd e.

Definition apply_ann (c ann : list (string * string)) : list (string * string) :=
  let removed := fold_left (fun m e => if marked (fst e) then aremove (rawkey (fst e)) m else m) ann c in
  fold_left (fun m e => if marked (fst e) then m else aset (fst e) (snd e) m) ann removed.

Definition apply_args (c args : list string) : list string :=
  match args with
  | [] => c
  | a0 :: rest => if String.eqb a0 "" then (match rest with [] => c | _ => rest end) else args
  end.

Definition apply_scal (c r : list (sfield * sval)) : list (sfield * sval) :=
  fold_left (fun m f => match flookup f r with Some v => fset f v m | None => m end) all_scalars c.

Definition apply_res (c r : resources) : resources :=
  {| r_scal := apply_scal (r_scal c) (r_scal r);
     r_hp := r_hp c ++ r_hp r;                       (* read as a map, last entry wins *)
     r_uni := fold_left (fun m e => aset (fst e) (snd e) m) (r_uni r) (r_uni c) |}.

Definition apply_adj (c : container) (a : adjustment) : container :=
  {| c_id := c_id c;
     c_ann := apply_ann (c_ann c) (a_ann a);
     c_mounts := apply_keyed m_dest m_dest (fun m => m) (c_mounts c) (a_mounts a);
     c_env := apply_keyed fst ref_env_key ref_env_oci (c_env c) (a_env a);
     c_args := apply_args (c_args c) (a_args a);
     c_hooks := hooks_append (c_hooks c) (a_hooks a);
     c_rlimits := c_rlimits c ++ a_rlimits a;
     c_devices := apply_keyed d_path d_path (fun d => d) (c_devices c) (a_devices a);
     c_res := apply_res (c_res c) (a_res a);
     c_cgroups := if String.eqb (a_cgroups a) "" then c_cgroups c else a_cgroups a;
     c_oom := match a_oom a with Some v => Some v | None => c_oom c end |}.

Definition apply_all (c : container) (adjs : list adjustment) : container := fold_left apply_adj adjs c.

(* ---------- observable projection as boolean equalities ---------- *)
Definition opt_eqb {A} (eqb : A -> A -> bool) (a b : option A) : bool :=
  match a, b with Some x, Some y => eqb x y | None, None => true | _, _ => false end.
Fixpoint list_eqb {A} (eqb : A -> A -> bool) (a b : list A) : bool :=
  match a, b with [] , [] => true | x :: r, y :: s => eqb x y && list_eqb eqb r s | _, _ => false end.

Definition mount_eqb (a b : mount) : bool :=
  String.eqb (m_dest a) (m_dest b) && String.eqb (m_type a) (m_type b) &&
  String.eqb (m_source a) (m_source b) && list_eqb String.eqb (m_opts a) (m_opts b).
Definition device_eqb (a b : device) : bool :=
  String.eqb (d_path a) (d_path b) && String.eqb (d_type a) (d_type b) && Z.eqb (d_major a) (d_major b) &&
  Z.eqb (d_minor a) (d_minor b) && opt_eqb Z.eqb (d_mode a) (d_mode b) && opt_eqb Z.eqb (d_uid a) (d_uid b) &&
  opt_eqb Z.eqb (d_gid a) (d_gid b).
Definition hook_eqb (a b : hook) : bool :=
  String.eqb (h_path a) (h_path b) && list_eqb String.eqb (h_args a) (h_args b) &&
  list_eqb String.eqb (h_env a) (h_env b) && opt_eqb Z.eqb (h_timeout a) (h_timeout b).
Definition hooks_eqb (a b : hooks) : bool :=
  list_eqb hook_eqb (hk_prestart a) (hk_prestart b) && list_eqb hook_eqb (hk_createruntime a) (hk_createruntime b) &&
  list_eqb hook_eqb (hk_createcontainer a) (hk_createcontainer b) && list_eqb hook_eqb (hk_startcontainer a) (hk_startcontainer b) &&
  list_eqb hook_eqb (hk_poststart a) (hk_poststart b) && list_eqb hook_eqb (hk_poststop a) (hk_poststop b).
Definition rlimit_eqb (a b : rlimit) : bool :=
  String.eqb (rl_type a) (rl_type b) && Z.eqb (rl_hard a) (rl_hard b) && Z.eqb (rl_soft a) (rl_soft b).

(* lists read as maps by a key: first entry of a key counts *)
Section KMap.
Variables (E : Type) (key : E -> string) (eqb : E -> E -> bool).
Fixpoint kfind (k : string) (l : list E) : option E :=
  match l with [] => None | e :: r => if String.eqb k (key e) then Some e else kfind k r end.
Definition ksub (a b : list E) : bool :=
  forallb (fun e => opt_eqb eqb (kfind (key e) a) (kfind (key e) b)) a.
Definition kmap_eqb (a b : list E) : bool := ksub a b && ksub b a.
End KMap.
Arguments kfind {E}. Arguments ksub {E}. Arguments kmap_eqb {E}.

Definition smap_eqb (a b : list (string * string)) : bool :=
  kmap_eqb fst (fun x y => String.eqb (snd x) (snd y)) a b.
(* environment as a map name -> value *)
Definition env_pairs (l : list string) : list (string * string) :=
  map (fun s => let '(k, v) := cut "="%char s in (k, match v with Some v => v | None => "" end)) l.
Definition env_eqb (a b : list string) : bool := smap_eqb (env_pairs a) (env_pairs b).
(* hugepage limits as a map, the last entry of a size wins *)
Definition hp_eqb (a b : list (string * Z)) : bool :=
  kmap_eqb fst (fun x y => Z.eqb (snd x) (snd y)) (rev a) (rev b).
Definition scal_eqb (a b : list (sfield * sval)) : bool :=
  forallb (fun f => opt_eqb sval_eqb (flookup f a) (flookup f b)) all_scalars.
Definition res_obs_eqb (a b : resources) : bool :=
  scal_eqb (r_scal a) (r_scal b) && hp_eqb (r_hp a) (r_hp b) && smap_eqb (r_uni a) (r_uni b).

(* observable equality of containers (I3) *)
Definition obs_eqb (a b : container) : bool :=
  smap_eqb (c_ann a) (c_ann b) &&
  kmap_eqb m_dest mount_eqb (c_mounts a) (c_mounts b) &&
  env_eqb (c_env a) (c_env b) &&
  list_eqb String.eqb (c_args a) (c_args b) &&
  hooks_eqb (c_hooks a) (c_hooks b) &&
  list_eqb rlimit_eqb (c_rlimits a) (c_rlimits b) &&
  kmap_eqb d_path device_eqb (c_devices a) (c_devices b) &&
  res_obs_eqb (c_res a) (c_res b) &&
  String.eqb (c_cgroups a) (c_cgroups b) &&
  opt_eqb Z.eqb (c_oom a) (c_oom b).
