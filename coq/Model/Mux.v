(* Executable model of pkg/net/multiplex/mux.go (and the listener wrapper of
   pkg/net/conn.go).  No proofs here; see Proofs/MuxProofs.v.

   Bytes are natural numbers (N); the headers the model produces are < 256 per
   byte (proved), payload bytes are carried verbatim, so nothing depends on their
   range.  Sizes and connection ids are N.  The constants (maximum frame payload,
   header length, default queue length, reserved id) come from the regenerated
   Model/MuxConsts.v.

   Layers:
     1. codec      be32/u32, frame_bytes, write_loop/enc_write (mux.write),
                   enc_write_sizes (size-level twin), trunk, parse_one/parse_all/dec
                   (mux.reader's framing), queue_of (per-connection FIFO)
     2. fail-stop  mux_st + step: one reader iteration, conn.Read (with a buffer of a
                   given length and capacity), conn.Write (optionally cut by a failing
                   trunk), mux.Close, conn.Close, mux.Open at any moment
     3. listener   connListener of pkg/net/conn.go *)
From Coq Require Import List Bool NArith Lia.
From NRI Require Import Model.MuxConsts.
Import ListNotations.
Open Scope N_scope.

Notation bytes := (list N) (only parsing).
Definition lenN {A} (l : list A) : N := N.of_nat (length l).

(* ------------------------------------------------------------------ codec *)

(* binary.BigEndian.PutUint32(b, uint32(v)): the conversion wraps modulo 2^32 *)
Definition be32 (v : N) : bytes :=
  [ (v / 16777216) mod 256; (v / 65536) mod 256; (v / 256) mod 256; v mod 256 ].
(* binary.BigEndian.Uint32 *)
Definition u32 (a b c d : N) : N := ((a * 256 + b) * 256 + c) * 256 + d.

(* one frame: connection id and payload *)
Notation frame := (N * list N)%type (only parsing).
Definition frame_bytes (f : frame) : bytes := be32 (fst f) ++ be32 (lenN (snd f)) ++ snd f.
Definition frame_size (f : frame) : N * N := (fst f, lenN (snd f)).
Definition frames_bytes (fs : list frame) : bytes := flat_map frame_bytes fs.

(* (data[:n], data[n:]) with n clipped to len(data) *)
Fixpoint splitN {A} (n : N) (l : list A) : list A * list A :=
  match l with
  | [] => ([], [])
  | x :: r => if n =? 0 then ([], l)
              else let (a, b) := splitN (N.pred n) r in (x :: a, b)
  end.

(* mux.write's loop:  for { if size > max { size = max }; write hdr; write data[:size];
                            data = data[size:]; if size > len(data) { size = len(data) };
                            if size == 0 { break } }
   [None] = out of fuel (excluded by write_loop_total for mp > 0). *)
Fixpoint write_loop (fuel : nat) (mp id : N) (data : bytes) (size : N) : option (list frame) :=
  match fuel with
  | O => None
  | S fuel' =>
      let size1 := if mp <? size then mp else size in
      let (chunk, data') := splitN size1 data in
      let size2 := if lenN data' <? size1 then lenN data' else size1 in
      if size2 =? 0 then Some [(id, chunk)]
      else match write_loop fuel' mp id data' size2 with
           | Some fs => Some ((id, chunk) :: fs)
           | None => None
           end
  end.

(* enough for ceil(n / mp) iterations (one iteration when n = 0) *)
Definition write_fuel (mp n : N) : nat := S (N.to_nat (n / mp)).

Definition enc_write_mp (mp id : N) (buf : bytes) : option (list frame) :=
  write_loop (write_fuel mp (lenN buf)) mp id buf (lenN buf).

(* total version; the out-of-fuel case is excluded by enc_write_total *)
Definition enc_frames_mp (mp id : N) (buf : bytes) : list frame :=
  match enc_write_mp mp id buf with Some fs => fs | None => [] end.

(* size-level twin of write_loop: the (id, size) of every frame for a buffer of
   [remaining] bytes, without materialising the buffer *)
Fixpoint sizes_loop (fuel : nat) (mp id remaining size : N) : option (list (N * N)) :=
  match fuel with
  | O => None
  | S fuel' =>
      let size1 := if mp <? size then mp else size in
      let taken := N.min size1 remaining in
      let remaining' := remaining - taken in
      let size2 := if remaining' <? size1 then remaining' else size1 in
      if size2 =? 0 then Some [(id, taken)]
      else match sizes_loop fuel' mp id remaining' size2 with
           | Some fs => Some ((id, taken) :: fs)
           | None => None
           end
  end.

Definition enc_write_sizes_mp (mp id n : N) : option (list (N * N)) :=
  sizes_loop (write_fuel mp n) mp id n n.

(* the instances for the code's constant *)
Definition enc_write := enc_write_mp max_payload_size.
Definition enc_frames := enc_frames_mp max_payload_size.
Definition enc_write_sizes := enc_write_sizes_mp max_payload_size.

(* one Write call on a logical connection: id and buffer; a serialisation of
   all the concurrent writers of one end = the list of writes in lock order *)
Notation write := (N * list N)%type (only parsing).
Definition trunk_frames_mp (mp : N) (ws : list write) : list frame :=
  flat_map (fun w => enc_frames_mp mp (fst w) (snd w)) ws.
Definition trunk_mp (mp : N) (ws : list write) : bytes := frames_bytes (trunk_frames_mp mp ws).
Definition trunk_frames := trunk_frames_mp max_payload_size.
Definition trunk := trunk_mp max_payload_size.

(* what io.ReadFull(hdr) ; io.ReadFull(buf) make of the bytes that are left when the
   stream ends after them *)
Inductive parse_res :=
| PFrame (f : frame) (rest : bytes)
| PEof            (* no byte left: io.EOF on the header *)
| PShortHeader    (* 1..7 bytes: io.ErrUnexpectedEOF *)
| PNoPayload      (* whole header, payload expected, no byte of it: io.ReadFull returns io.EOF *)
| PShortPayload.  (* payload cut: io.ErrUnexpectedEOF *)

Definition parse_one (rx : bytes) : parse_res :=
  match rx with
  | [] => PEof
  | a :: b :: c :: d :: e :: f :: g :: h :: rest =>
      let cid := u32 a b c d in
      let cnt := u32 e f g h in
      let (p, rest') := splitN cnt rest in
      if lenN p =? cnt then PFrame (cid, p) rest'
      else if lenN rest =? 0 then PNoPayload else PShortPayload
  | _ => PShortHeader
  end.

(* The length field of a header is an unsigned 32-bit number and [parse_one] treats it as such: the reader allocates
   a buffer of that many bytes — whatever the number, there is no upper bound in the code — and io.ReadFull waits for
   them; a length beyond what the trunk still carries ends as PNoPayload / PShortPayload when the trunk ends.  That the
   code holds the length in an unsigned (or wide enough) type on its way to make([]byte, …) is read from mux.go on
   every run (MuxConsts.length_unsigned); in a signed 32-bit variable a length of 2^31 or more is negative and make
   panics.  [alloc_len unsigned raw]: the size make is called with, None = panic. *)
Definition alloc_len (unsigned : bool) (raw : N) : option N :=
  if unsigned then Some raw else if raw <? 2147483648 then Some raw else None.

Inductive tail := TEof | TShortHeader | TNoPayload | TShortPayload.

(* all complete frames of a byte stream, and how it ends; None = out of fuel *)
Fixpoint parse_all (fuel : nat) (rx : bytes) : option (list frame * tail) :=
  match fuel with
  | O => None
  | S fuel' =>
      match parse_one rx with
      | PFrame f rest =>
          match parse_all fuel' rest with
          | Some (fs, t) => Some (f :: fs, t)
          | None => None
          end
      | PEof => Some ([], TEof)
      | PShortHeader => Some ([], TShortHeader)
      | PNoPayload => Some ([], TNoPayload)
      | PShortPayload => Some ([], TShortPayload)
      end
  end.

Definition parse_stream (rx : bytes) : option (list frame * tail) := parse_all (S (length rx)) rx.
Definition dec_frames (rx : bytes) : list frame :=
  match parse_stream rx with Some (fs, _) => fs | None => [] end.
Definition dec_tail (rx : bytes) : tail :=
  match parse_stream rx with Some (_, t) => t | None => TShortHeader end.

(* the per-connection FIFO: payloads of the frames carrying this id, in order *)
Definition queue_of (id : N) (fs : list frame) : list bytes :=
  map snd (filter (fun f => fst f =? id) fs).
Definition memN (x : N) (l : list N) : bool := existsb (N.eqb x) l.
(* frames for ids that are not open are dropped by the reader *)
Definition dec (opened : list N) (rx : bytes) (id : N) : list bytes :=
  if memN id opened then queue_of id (dec_frames rx) else [].

(* what was written to one id, frame by frame / as one byte sequence *)
Definition written_frames_mp (mp id : N) (ws : list write) : list bytes :=
  flat_map (fun w => if fst w =? id then map snd (enc_frames_mp mp id (snd w)) else []) ws.
Definition written_frames := written_frames_mp max_payload_size.
Definition written_bytes (id : N) (ws : list write) : bytes :=
  flat_map (fun w => if fst w =? id then snd w else []) ws.

Fixpoint is_prefixb (eqb : bytes -> bytes -> bool) (a b : list bytes) : bool :=
  match a, b with
  | [], _ => true
  | x :: r, y :: s => eqb x y && is_prefixb eqb r s
  | _ :: _, [] => false
  end.
Fixpoint bytes_eqb (a b : bytes) : bool :=
  match a, b with
  | [], [] => true
  | x :: r, y :: s => (x =? y) && bytes_eqb r s
  | _, _ => false
  end.
Definition frames_prefixb := is_prefixb bytes_eqb.

(* ------------------------------------------------------ fail-stop machine *)

Inductive errc := EEOF | EErr.     (* io.EOF | any other error *)

(* one logical connection as seen by its holder: queue = readC, closed = doneC closed,
   mapped = still in mux.conns (the reader delivers only to mapped connections).
   c_late is bookkeeping that is not in the code: the connection was created by an Open after
   the start.  Frames that arrived for its id before were dropped by design (DESIGN.md I5), so
   the data theorems (complete / prefix) speak about connections with c_late = false; the
   fail-stop theorems (latch, nothing blocks after close, idempotence) cover all of them. *)
(* c_gen counts the earlier connection objects of this id on this Mux (each closed by conn.Close and
   replaced by a later Open): c_gen > 0 means that stale handles of the id exist.  The model follows the
   CURRENT object of an id; of a stale handle it models the repeated Close (EvStaleClose), not Reads. *)
Record conn_st := mkConn { c_id : N; c_queue : list bytes; c_closed : bool; c_mapped : bool; c_late : bool; c_gen : N }.

(* one end of the trunk.  m_rx: the bytes that will still arrive from the peer before the
   trunk ends (a cut trunk = a prefix of the peer's stream); m_tx: the bytes written so far *)
Record mux_st := mkMux {
  m_rx : bytes; m_conns : list conn_st; m_err : option errc; m_closed : bool;
  m_reader_done : bool; m_qlen : N; m_tx : bytes; m_tx_broken : bool;
  m_blocked : bool }.   (* created WithBlockedRead and not unblocked yet: the reader is parked *)

Definition set_rx v s := mkMux v (m_conns s) (m_err s) (m_closed s) (m_reader_done s) (m_qlen s) (m_tx s) (m_tx_broken s) (m_blocked s).
Definition set_conns v s := mkMux (m_rx s) v (m_err s) (m_closed s) (m_reader_done s) (m_qlen s) (m_tx s) (m_tx_broken s) (m_blocked s).
Definition set_err v s := mkMux (m_rx s) (m_conns s) v (m_closed s) (m_reader_done s) (m_qlen s) (m_tx s) (m_tx_broken s) (m_blocked s).
Definition set_closed v s := mkMux (m_rx s) (m_conns s) (m_err s) v (m_reader_done s) (m_qlen s) (m_tx s) (m_tx_broken s) (m_blocked s).
Definition set_reader_done v s := mkMux (m_rx s) (m_conns s) (m_err s) (m_closed s) v (m_qlen s) (m_tx s) (m_tx_broken s) (m_blocked s).
Definition set_tx v b s := mkMux (m_rx s) (m_conns s) (m_err s) (m_closed s) (m_reader_done s) (m_qlen s) v b (m_blocked s).
Definition set_blocked v s := mkMux (m_rx s) (m_conns s) (m_err s) (m_closed s) (m_reader_done s) (m_qlen s) (m_tx s) (m_tx_broken s) v.

Definition init_mux (rx : bytes) (qlen : N) (opened : list N) : mux_st :=
  mkMux rx (map (fun id => mkConn id [] false true false 0) opened) None false false qlen [] false false.

(* the capacity of every connection's incoming queue for a Mux made WithReadQueueLength(configured): the
   configured length if the source sizes the channel with the qlen field, else the default constant
   (MuxConsts.queue_cap_is_configured, read from mux.go on every run) *)
Definition eff_qlen (configured : N) : N := if queue_cap_is_configured then configured else read_queue_len.
Definition init_mux_cfg (rx : bytes) (configured : N) (opened : list N) : mux_st :=
  init_mux rx (eff_qlen configured) opened.

Definition find_conn (id : N) (cs : list conn_st) : option conn_st :=
  find (fun c => c_id c =? id) cs.
Definition upd_conn (id : N) (f : conn_st -> conn_st) (cs : list conn_st) : list conn_st :=
  map (fun c => if c_id c =? id then f c else c) cs.
Definition c_push (p : bytes) (c : conn_st) := mkConn (c_id c) (c_queue c ++ [p]) (c_closed c) (c_mapped c) (c_late c) (c_gen c).
Definition c_set_queue (q : list bytes) (c : conn_st) := mkConn (c_id c) q (c_closed c) (c_mapped c) (c_late c) (c_gen c).
Definition c_close (c : conn_st) := mkConn (c_id c) (c_queue c) true (c_mapped c) (c_late c) (c_gen c).
Definition c_unmap (c : conn_st) := mkConn (c_id c) (c_queue c) true false (c_late c) (c_gen c).
(* delete(mux.conns, id) alone: the connection leaves the map and is NOT closed *)
Definition c_drop (c : conn_st) := mkConn (c_id c) (c_queue c) (c_closed c) false (c_late c) (c_gen c).
(* a fresh object for the id of c (re-Open after conn.Close) *)
Definition c_fresh (closed : bool) (c : conn_st) := mkConn (c_id c) [] closed true true (c_gen c + 1).

(* setError: errOnce, the first error wins *)
Definition latch (e : errc) (s : mux_st) : mux_st :=
  match m_err s with Some _ => s | None => set_err (Some e) s end.
(* mux.error(): returns the latched error, latching io.EOF when there is none *)
Definition mux_error (s : mux_st) : mux_st * errc :=
  match m_err s with Some e => (s, e) | None => (set_err (Some EEOF) s, EEOF) end.
(* mux.Close: closeOnce; closes every mapped connection, doneC and the trunk *)
Definition do_close (s : mux_st) : mux_st :=
  if m_closed s then s
  else set_closed true (set_conns (map (fun c => if c_mapped c then c_close c else c) (m_conns s)) s).
Definition fail_reader (e : errc) (s : mux_st) : mux_st := set_reader_done true (do_close (latch e s)).

(* one iteration of mux.reader's loop (trunk ends after m_rx) *)
Definition reader_step (s : mux_st) : mux_st :=
  if m_blocked s then s          (* parked until Unblock *)
  else if m_reader_done s then s
  else if m_closed s then set_reader_done true (latch EEOF s)
  else match parse_one (m_rx s) with
       | PFrame f rest =>
           let s1 := set_rx rest s in
           match find (fun c => (c_id c =? fst f) && c_mapped c) (m_conns s) with
           | None => s1                                       (* unknown id: frame dropped *)
           | Some c =>
               if lenN (c_queue c) <? m_qlen s
               then set_conns (upd_conn (fst f) (c_push (snd f)) (m_conns s)) s1
               else fail_reader EErr s1                        (* queue overflow *)
           end
       | PEof | PNoPayload => fail_reader EEOF s
       | PShortHeader | PShortPayload => fail_reader EErr s
       end.

(* the reader's io.ReadFull returns an error that is not an end-of-file (connection reset, …) *)
Definition reader_fail_step (s : mux_st) : mux_st :=
  if m_reader_done s then s
  else if m_closed s then set_reader_done true (latch EEOF s)
  else fail_reader EErr s.

(* the tail of conn.Read once a frame msg has been taken from the queue, for a caller's buffer of
   length blen and capacity bcap:
       if <len|cap>(buf) < len(msg) { return 0, ENOMEM };  copy(buf, msg);  return len(msg), nil
   copy moves min(len(buf), len(msg)) bytes.  Which of len/cap the guard uses is read from the source
   (MuxConsts.read_checks_len). *)
Inductive read_out :=
| ROData (n : N) (copied : bytes)   (* the returned count and what is in buf[:min(n, len(buf))] *)
| RONoMem.                          (* syscall.ENOMEM; the frame has been consumed all the same *)
Definition deliver_by (by_len : bool) (blen bcap : N) (msg : bytes) : read_out :=
  if (if by_len then blen else bcap) <? lenN msg then RONoMem
  else ROData (lenN msg) (fst (splitN blen msg)).
Definition deliver := deliver_by read_checks_len.

Inductive result :=
| RData (p : bytes)   (* Read returned one frame (buffer large enough) *)
| RBuf (p : bytes) (o : read_out)   (* Read with an explicit buffer took frame p from the queue; o is what the caller got *)
| RErr (e : errc)
| RBlock              (* the call would block now *)
| ROk
| RNoConn.            (* the id was never opened on this mux / there is no stale handle of it *)

(* conn.Read: select { <-doneC ; <-readC }.  When both are ready Go picks either;
   [pick] is that choice (true = the queued frame) *)
Definition read_step (id : N) (pick : bool) (s : mux_st) : mux_st * result :=
  match find_conn id (m_conns s) with
  | None => (s, RNoConn)
  | Some c =>
      match c_queue c with
      | p :: q =>
          if c_closed c && negb pick
          then let (s', e) := mux_error s in (s', RErr e)
          else (set_conns (upd_conn id (c_set_queue q) (m_conns s)) s, RData p)
      | [] =>
          if c_closed c then let (s', e) := mux_error s in (s', RErr e) else (s, RBlock)
      end
  end.

(* conn.Read(buf) with len(buf) = blen, cap(buf) = bcap: the same select; a frame that is taken goes
   through [deliver] *)
Definition read_buf_step (id : N) (pick : bool) (blen bcap : N) (s : mux_st) : mux_st * result :=
  let (s', r) := read_step id pick s in
  match r with
  | RData p => (s', RBuf p (deliver blen bcap p))
  | _ => (s', r)
  end.

(* mux.Open(id) at any moment: the reserved id is refused; an id that is in mux.conns yields the
   existing connection; otherwise a connection is created and — if the source does so
   (MuxConsts.open_closes_on_closed) — closed at once when the Mux is closed already.
   [closes] is that switch.  An id whose connection was closed by conn.Close is not in the map any more:
   Open makes a fresh object for it (empty queue; the old object becomes a stale handle). *)
Definition open_step (closes : bool) (id : N) (s : mux_st) : mux_st * result :=
  if id =? reserved_conn_id then (s, RErr EErr)
  else match find_conn id (m_conns s) with
       | Some c => if c_mapped c then (s, ROk)
                   else (set_conns (upd_conn id (c_fresh (closes && m_closed s)) (m_conns s)) s, ROk)
       | None => (set_conns (m_conns s ++ [mkConn id [] (closes && m_closed s) true true 0]) s, ROk)
       end.

(* Close called again on a stale handle of id (an object that conn.Close had closed before the id was
   opened again).  conn.Close:  if mux.conns[id] == c { delete(mux.conns, id) };  c.close()  — the stale
   object is closed already, the map holds the replacement: nothing happens.  Whether the source has that
   test is read from it (MuxConsts.close_checks_identity); [guarded] is the switch: without the test the
   REPLACEMENT leaves the map and stays open. *)
Definition stale_close_step (guarded : bool) (id : N) (s : mux_st) : mux_st * result :=
  match find_conn id (m_conns s) with
  | Some c => if 0 <? c_gen c
              then ((if guarded then s else set_conns (upd_conn id c_drop (m_conns s)) s), ROk)
              else (s, RNoConn)
  | None => (s, RNoConn)
  end.

(* mux.write on a trunk that accepts only k more bytes.  Its trunk.Write calls are header (8 bytes), payload,
   header, payload, …; the call that crosses the budget returns (n, error) with the n bytes that still went out.
       header  fails:  if n != 0 { setError; Close }
       payload fails:  if n != 0 || size != 0 { setError; Close }     (the header is on the trunk already)
   [pf] says whether the source has the second disjunct (MuxConsts.payload_failure_fatal_after_header, read from
   mux.go on every run); without it a payload write that wrote nothing left the Mux open.
   cut_fatal pf k fs: does the failure close the Mux?  (fs = the frames of the Write, lenN (frames_bytes fs) > k) *)
Fixpoint cut_fatal (pf : bool) (k : N) (fs : list frame) : bool :=
  match fs with
  | [] => false
  | f :: r =>
      if k <? 8 then negb (k =? 0)                                      (* the header call fails, n = k *)
      else let k' := k - 8 in
           if lenN (snd f) <=? k' then cut_fatal pf (k' - lenN (snd f)) r
           else negb (k' =? 0) || pf                                    (* the payload call fails, n = k' < size *)
  end.

(* conn.Write, optionally on a trunk that fails after [k] more bytes (cut = Some k) *)
Definition write_step_pf (pf : bool) (mp id : N) (buf : bytes) (cut : option N) (s : mux_st) : mux_st * result :=
  match find_conn id (m_conns s) with
  | None => (s, RNoConn)
  | Some c =>
      if c_closed c then (s, RErr EEOF)
      else if m_closed s || m_tx_broken s then (s, RErr EErr)
      else
        let fs := enc_frames_mp mp id buf in
        let bs := frames_bytes fs in
        match cut with
        | None => (set_tx (m_tx s ++ bs) false s, ROk)
        | Some k =>
            if lenN bs <=? k then (set_tx (m_tx s ++ bs) false s, ROk)
            else
              let s1 := set_tx (m_tx s ++ fst (splitN k bs)) true s in
              if cut_fatal pf k fs then (do_close (latch EErr s1), RErr EErr)
              else (s1, RErr EErr)
        end
  end.
Definition write_step := write_step_pf payload_failure_fatal_after_header.

(* the failure of the trunk was transient (an expired write deadline, the peer drains again): the trunk takes
   bytes again — unless the Mux has closed it *)
Definition trunk_up_step (s : mux_st) : mux_st :=
  if m_closed s then s else set_tx (m_tx s) false s.

(* mux.Unblock().  The reader goroutine of a Mux is started once, in the constructor (MuxConsts.reader_started_once,
   read from mux.go on every run: there is exactly one `go <m>.reader()`, in newMux); a Mux created WithBlockedRead
   has its reader parked until the first Unblock; every other Unblock — on a Mux that was never blocked, or a
   repeated one — does nothing.  [once] is that switch.  Without it an Unblock on an unblocked Mux starts a SECOND
   reader on the same trunk; the two split the byte stream between them.  The variant models one of the
   interleavings: the second reader takes the next 8 bytes (a header), the first goes on behind them. *)
Definition unblock_step (once : bool) (s : mux_st) : mux_st :=
  if m_blocked s then set_blocked false s
  else if once then s
  else set_rx (skipn 8 (m_rx s)) s.

(* The reader looks the connection up under the read lock, releases it and only then sends the frame into the
   connection's queue; a conn.Close may come in between.  The model makes lookup and send one step: that is sound
   only if a send into the queue of a connection that has been closed meanwhile cannot fail — i.e. if the queue's
   channel is never closed (MuxConsts.readq_never_closed, read from mux.go on every run: no close(<x>.readC)).
   [send_to closes_q c qlen]: what the send does to connection c as it is at the time of the send. *)
Inductive send_res := SendOk | SendFull | SendPanic.
Definition send_to (closes_q : bool) (c : conn_st) (qlen : N) : send_res :=
  if closes_q && negb (c_mapped c) then SendPanic          (* send on a closed channel *)
  else if lenN (c_queue c) <? qlen then SendOk else SendFull.

(* SetDeadline / SetReadDeadline / SetWriteDeadline on a logical connection.  In the code they are stubs that
   return nil: the Mux, its connections and the shared trunk are untouched (MuxConsts.deadlines_are_stubs, read
   from mux.go on every run; [stubs] is that switch).  The variant that forwards the deadline to the shared trunk
   is modelled by what an expired deadline does there: a read deadline makes the reader's trunk.Read fail with an
   error that is not an end-of-file, a write deadline makes the trunk refuse bytes. *)
Inductive dkind := DBoth | DRead | DWrite.
Definition deadline_step (stubs : bool) (id : N) (k : dkind) (s : mux_st) : mux_st * result :=
  match find_conn id (m_conns s) with
  | None => (s, RNoConn)
  | Some _ =>
      if stubs then (s, ROk)
      else match k with
           | DRead => (reader_fail_step s, ROk)
           | DWrite => (set_tx (m_tx s) true s, ROk)
           | DBoth => (set_tx (m_tx (reader_fail_step s)) true (reader_fail_step s), ROk)
           end
  end.

Definition conn_close_step (id : N) (s : mux_st) : mux_st :=
  set_conns (upd_conn id c_unmap (m_conns s)) s.

Inductive event :=
| EvReader
| EvRead (id : N) (pick : bool)
| EvReadB (id : N) (pick : bool) (blen bcap : N)   (* Read with a buffer of length blen, capacity bcap *)
| EvOpen (id : N)
| EvStaleClose (id : N)   (* Close on a stale handle of id, once more *)
| EvDeadline (id : N) (k : dkind)   (* Set[Read|Write]Deadline on the connection, with a deadline that expires *)
| EvUnblock                         (* mux.Unblock() *)
| EvWrite (id : N) (buf : bytes) (cut : option N)
| EvClose
| EvConnClose (id : N)
| EvTrunkDown      (* the peer closed the trunk: every later trunk.Write fails with n = 0 *)
| EvTrunkUp        (* a failing trunk works again (transient failure) *)
| EvTrunkFail.     (* the reader's trunk.Read fails with an error other than end-of-file *)

Definition step_mp (mp : N) (s : mux_st) (e : event) : mux_st * result :=
  match e with
  | EvReader => (reader_step s, ROk)
  | EvRead id pick => read_step id pick s
  | EvReadB id pick blen bcap => read_buf_step id pick blen bcap s
  | EvOpen id => open_step open_closes_on_closed id s
  | EvStaleClose id => stale_close_step close_checks_identity id s
  | EvDeadline id k => deadline_step deadlines_are_stubs id k s
  | EvUnblock => (unblock_step reader_started_once s, ROk)
  | EvWrite id buf cut => write_step mp id buf cut s
  | EvClose => (do_close s, ROk)
  | EvConnClose id => (conn_close_step id s, ROk)
  | EvTrunkDown => (set_tx (m_tx s) true s, ROk)
  | EvTrunkUp => (trunk_up_step s, ROk)
  | EvTrunkFail => (reader_fail_step s, ROk)
  end.

Fixpoint run_mp (mp : N) (s : mux_st) (evs : list event) : mux_st * list (event * result) :=
  match evs with
  | [] => (s, [])
  | e :: r =>
      let (s1, o) := step_mp mp s e in
      let (s2, tr) := run_mp mp s1 r in
      (s2, (e, o) :: tr)
  end.
Definition step := step_mp max_payload_size.
Definition run := run_mp max_payload_size.

(* the same machine with the switches read from the source given explicitly (for the refuted variants) *)
(* … and the switch of Unblock *)
Definition step_var5 (once : bool) (mp : N) (s : mux_st) (e : event) : mux_st * result :=
  match e with
  | EvUnblock => (unblock_step once s, ROk)
  | _ => step_mp mp s e
  end.
Fixpoint run_var5 (once : bool) (mp : N) (s : mux_st) (evs : list event) : mux_st * list (event * result) :=
  match evs with
  | [] => (s, [])
  | e :: r =>
      let (s1, o) := step_var5 once mp s e in
      let (s2, tr) := run_var5 once mp s1 r in
      (s2, (e, o) :: tr)
  end.

Definition step_var4 (closes guarded pfatal stubs : bool) (mp : N) (s : mux_st) (e : event) : mux_st * result :=
  match e with
  | EvOpen id => open_step closes id s
  | EvStaleClose id => stale_close_step guarded id s
  | EvWrite id buf cut => write_step_pf pfatal mp id buf cut s
  | EvDeadline id k => deadline_step stubs id k s
  | _ => step_mp mp s e
  end.
Fixpoint run_var4 (closes guarded pfatal stubs : bool) (mp : N) (s : mux_st) (evs : list event) : mux_st * list (event * result) :=
  match evs with
  | [] => (s, [])
  | e :: r =>
      let (s1, o) := step_var4 closes guarded pfatal stubs mp s e in
      let (s2, tr) := run_var4 closes guarded pfatal stubs mp s1 r in
      (s2, (e, o) :: tr)
  end.
Definition step_var (closes guarded pfatal : bool) (mp : N) (s : mux_st) (e : event) : mux_st * result :=
  match e with
  | EvOpen id => open_step closes id s
  | EvStaleClose id => stale_close_step guarded id s
  | EvWrite id buf cut => write_step_pf pfatal mp id buf cut s
  | _ => step_mp mp s e
  end.
Fixpoint run_var (closes guarded pfatal : bool) (mp : N) (s : mux_st) (evs : list event) : mux_st * list (event * result) :=
  match evs with
  | [] => (s, [])
  | e :: r =>
      let (s1, o) := step_var closes guarded pfatal mp s e in
      let (s2, tr) := run_var closes guarded pfatal mp s1 r in
      (s2, (e, o) :: tr)
  end.

(* the frames the Read calls of the holder of connection [id] took from its queue, in order.  A Read
   whose buffer is shorter than the frame takes the frame too and returns ENOMEM: that frame is lost to
   the holder by the code's documented design (DESIGN.md I5); [delivered] is what the holder really got *)
Definition received (id : N) (tr : list (event * result)) : list bytes :=
  flat_map (fun eo => match eo with
                      | (EvRead i _, RData p) => if i =? id then [p] else []
                      | (EvReadB i _ _ _, RBuf p _) => if i =? id then [p] else []
                      | _ => []
                      end) tr.
Definition delivered (id : N) (tr : list (event * result)) : bytes :=
  flat_map (fun eo => match eo with
                      | (EvRead i _, RData p) => if i =? id then p else []
                      | (EvReadB i _ _ _, RBuf _ (ROData _ c)) => if i =? id then c else []
                      | _ => []
                      end) tr.
(* the connection was opened after the start *)
Definition late_opened (id : N) (s : mux_st) : bool :=
  match find_conn id (m_conns s) with Some c => c_late c | None => false end.
Definition queue_in (id : N) (s : mux_st) : list bytes :=
  match find_conn id (m_conns s) with Some c => c_queue c | None => [] end.

(* --------------------------------------------------------------- listener *)

(* connListener: next = buffered channel holding the connection once; closed flag *)
Record lst := mkLst { l_pending : bool; l_closed : bool; l_conn_closed : bool }.
Definition init_lst : lst := mkLst true false false.
Inductive lev := LAccept | LClose.
Inductive lres := LConn | LEof | LBlock | LOk.
Definition lstep (l : lst) (e : lev) : lst * lres :=
  match e with
  | LAccept =>
      if l_pending l then (mkLst false (l_closed l) (l_conn_closed l), LConn)
      else if l_closed l then (l, LEof) else (l, LBlock)
  | LClose =>
      if l_closed l then (l, LOk) else (mkLst (l_pending l) true true, LOk)
  end.
Fixpoint lrun (l : lst) (evs : list lev) : lst * list lres :=
  match evs with
  | [] => (l, [])
  | e :: r => let (l1, o) := lstep l e in let (l2, os) := lrun l1 r in (l2, o :: os)
  end.
