package main

// Value pools, generators and Coq printers shared by the conv, copy/alias and
// optional drivers of C14.  Field orders of the mk* constructors are those of
// coq/Model/Convert.v.

import (
	"fmt"
	"math"
	"math/rand"
	"os"
	"reflect"
	"sort"

	rspec "github.com/opencontainers/runtime-spec/specs-go"

	"github.com/containerd/nri/pkg/api"

	"verif/harness/internal/coqfmt"
)

// ---------------------------------------------------------------- pools (boundary values first)

var (
	i64Pool = []int64{0, 1, -1, math.MaxInt32, 1 << 31, 1<<32 - 1, 1 << 32, math.MaxInt64, math.MinInt64, math.MinInt32, 4096}
	u64Pool = []uint64{0, 1, math.MaxInt32, 1 << 31, 1<<32 - 1, 1 << 32, 1<<63 - 1, 1 << 63, math.MaxUint64, 1024}
	u32Pool = []uint32{0, 1, math.MaxInt32, 1 << 31, math.MaxUint32, 1000}
	i32Pool = []int32{0, 1, -1, math.MaxInt32, math.MinInt32, 77}
	intPool = []int{0, 1, -1, math.MaxInt32, 1 << 31, 1<<32 - 1, math.MaxInt64, math.MinInt64, 30}
	fmPool  = []os.FileMode{0, 0o644, 0o777, os.ModeDevice | 0o660, os.ModeDevice | os.ModeCharDevice | 0o600, os.ModeDir | 0o755, math.MaxUint32}
	strPool = []string{"", "a", "0-3", "with space", "k=v", "=", "a=b=c", `q"uote`, "/dev/null", "rprivate", "2MB", "-x", "memory.max", "c",
		// paths that are not in filepath.Clean form, upper/lower case twins, option words with a meaning elsewhere
		"/dev//double", "/dev/snd/", "/dev/./dot", "/dev/snd/../zero", "//dev/lead", "Dev", "dev", "relabel", "rshared", " pad "}
)

const asciiSet = "abcdefghijklmnopqrstuvwxyzABCDEFGHIJKLMNOPQRSTUVWXYZ0123456789_-./=: ,"

func genStr(r *rand.Rand) string {
	if r.Intn(3) > 0 {
		return strPool[r.Intn(len(strPool))]
	}
	n := r.Intn(9)
	b := make([]byte, n)
	for i := range b {
		b[i] = asciiSet[r.Intn(len(asciiSet))]
	}
	return string(b)
}

func genI64(r *rand.Rand) int64 {
	if r.Intn(4) > 0 {
		return i64Pool[r.Intn(len(i64Pool))]
	}
	return int64(r.Uint64())
}
func genU64(r *rand.Rand) uint64 {
	if r.Intn(4) > 0 {
		return u64Pool[r.Intn(len(u64Pool))]
	}
	return r.Uint64()
}
func genU32(r *rand.Rand) uint32 {
	if r.Intn(4) > 0 {
		return u32Pool[r.Intn(len(u32Pool))]
	}
	return r.Uint32()
}
func genInt(r *rand.Rand) int {
	if r.Intn(4) > 0 {
		return intPool[r.Intn(len(intPool))]
	}
	return int(r.Uint64())
}
func genFM(r *rand.Rand) os.FileMode {
	if r.Intn(4) > 0 {
		return fmPool[r.Intn(len(fmPool))]
	}
	return os.FileMode(r.Uint32())
}

func randFrom(seed int64) *rand.Rand { return rand.New(rand.NewSource(seed)) }

func genStrs(r *rand.Rand, max int) []string {
	switch r.Intn(4) {
	case 0:
		return nil
	case 1:
		return []string{}
	}
	n := 1 + r.Intn(max)
	out := make([]string, n)
	for i := range out {
		out[i] = genStr(r)
	}
	return out
}

func genMap(r *rand.Rand) map[string]string {
	switch r.Intn(4) {
	case 0:
		return nil
	case 1:
		return map[string]string{}
	}
	m := map[string]string{}
	for n := 1 + r.Intn(4); n > 0; n-- {
		m[genStr(r)] = genStr(r)
	}
	return m
}

// fill sets every exported field reachable from v (a settable value) to a
// generated value: optional pointers unset / zero / value, sub-message pointers nil /
// empty / filled, slices nil / empty / filled.  full forces everything present
// and non-empty (used by the aliasing walk).
func fill(r *rand.Rand, v reflect.Value, full bool, depth int) {
	switch v.Kind() {
	case reflect.Ptr:
		if !full {
			switch r.Intn(3) {
			case 0: // nil: unset optional / absent sub-message
				return
			case 1: // set to zero / empty sub-message
				v.Set(reflect.New(v.Type().Elem()))
				return
			}
		}
		p := reflect.New(v.Type().Elem())
		fill(r, p.Elem(), full, depth+1)
		v.Set(p)
	case reflect.Struct:
		for i := 0; i < v.NumField(); i++ {
			if v.Type().Field(i).PkgPath != "" {
				continue
			}
			fill(r, v.Field(i), full, depth+1)
		}
	case reflect.Slice:
		k := r.Intn(4)
		if full {
			k = 3
		}
		switch k {
		case 0:
			return
		case 1:
			v.Set(reflect.MakeSlice(v.Type(), 0, 0))
			return
		}
		n := 1 + r.Intn(3)
		s := reflect.MakeSlice(v.Type(), n, n)
		for i := 0; i < n; i++ {
			e := s.Index(i)
			if e.Kind() == reflect.Ptr {
				p := reflect.New(e.Type().Elem())
				fill(r, p.Elem(), full, depth+1)
				e.Set(p)
			} else {
				fill(r, e, full, depth+1)
			}
		}
		v.Set(s)
	case reflect.Map:
		if v.Type().Key().Kind() != reflect.String || v.Type().Elem().Kind() != reflect.String {
			return // Rdma etc.: handled by the caller
		}
		m := genMap(r)
		if full {
			m = map[string]string{"k1": genStr(r), "k2": genStr(r), genStr(r) + "x": "v"}
		}
		if m != nil {
			v.Set(reflect.ValueOf(m))
		}
	case reflect.String:
		s := genStr(r)
		if full && s == "" {
			s = "s"
		}
		v.SetString(s)
	case reflect.Bool:
		v.SetBool(r.Intn(2) == 0)
	case reflect.Int64, reflect.Int:
		v.SetInt(genI64(r))
	case reflect.Int32:
		v.SetInt(int64(i32Pool[r.Intn(len(i32Pool))]))
	case reflect.Uint64:
		v.SetUint(genU64(r))
	case reflect.Uint32:
		if v.Type() == reflect.TypeOf(os.FileMode(0)) {
			v.SetUint(uint64(genFM(r)))
		} else {
			v.SetUint(uint64(genU32(r)))
		}
	case reflect.Uint16, reflect.Uint8:
		v.SetUint(uint64(r.Intn(200)))
	}
}

// isScalarPtr: a pointer that models an optional scalar (*int64, *OptionalInt64 ...)
func isScalarPtr(t reflect.Type) bool {
	if t.Kind() != reflect.Ptr {
		return false
	}
	e := t.Elem()
	switch e.Kind() {
	case reflect.Struct:
		switch e {
		case reflect.TypeOf(api.OptionalString{}), reflect.TypeOf(api.OptionalInt{}), reflect.TypeOf(api.OptionalInt32{}),
			reflect.TypeOf(api.OptionalUInt32{}), reflect.TypeOf(api.OptionalInt64{}), reflect.TypeOf(api.OptionalUInt64{}),
			reflect.TypeOf(api.OptionalBool{}), reflect.TypeOf(api.OptionalFileMode{}):
			return true
		}
		return false
	case reflect.Ptr, reflect.Slice, reflect.Map, reflect.Interface:
		return false
	}
	return true
}

// singles returns, for a struct type T given as new(T): for every exported
// field and every pool value of the field's type (zero first), a fresh *T in
// which exactly that field is set.  Fields of other kinds are skipped.
func singles(proto interface{}) []interface{} {
	t := reflect.TypeOf(proto).Elem()
	var out []interface{}
	for i := 0; i < t.NumField(); i++ {
		f := t.Field(i)
		if f.PkgPath != "" {
			continue
		}
		for j := 0; ; j++ {
			p := reflect.New(t)
			if !setPool(p.Elem().Field(i), j) {
				break
			}
			out = append(out, p.Interface())
		}
	}
	return out
}

func setPool(v reflect.Value, j int) bool {
	t := v.Type()
	if t.Kind() == reflect.Ptr && isScalarPtr(t) {
		p := reflect.New(t.Elem())
		tgt := p.Elem()
		if tgt.Kind() == reflect.Struct { // Optional wrapper: its Value field
			tgt = tgt.FieldByName("Value")
		}
		if t.Elem() == reflect.TypeOf(api.OptionalFileMode{}) {
			if j >= len(fmPool) {
				return false
			}
			tgt.SetUint(uint64(fmPool[j]))
		} else if !setPool(tgt, j) {
			return false
		}
		v.Set(p)
		return true
	}
	switch t.Kind() {
	case reflect.String:
		if j >= len(strPool) {
			return false
		}
		v.SetString(strPool[j])
	case reflect.Bool:
		if j >= 2 {
			return false
		}
		v.SetBool(j == 1)
	case reflect.Int64:
		if j >= len(i64Pool) {
			return false
		}
		v.SetInt(i64Pool[j])
	case reflect.Int:
		if j >= len(intPool) {
			return false
		}
		v.SetInt(int64(intPool[j]))
	case reflect.Int32:
		if j >= len(i32Pool) {
			return false
		}
		v.SetInt(int64(i32Pool[j]))
	case reflect.Uint64:
		if j >= len(u64Pool) {
			return false
		}
		v.SetUint(u64Pool[j])
	case reflect.Uint32:
		if t == reflect.TypeOf(os.FileMode(0)) {
			if j >= len(fmPool) {
				return false
			}
			v.SetUint(uint64(fmPool[j]))
		} else {
			if j >= len(u32Pool) {
				return false
			}
			v.SetUint(uint64(u32Pool[j]))
		}
	default:
		return false
	}
	return true
}

// exportedFields counts the exported fields of a struct type; the drivers
// compare it with the number of fields the Coq records were written for.
func exportedFields(x interface{}) int {
	t := reflect.TypeOf(x)
	n := 0
	for i := 0; i < t.NumField(); i++ {
		if t.Field(i).PkgPath == "" {
			n++
		}
	}
	return n
}

// ---------------------------------------------------------------- Coq printers: scalars

func some(s string) string { return "(Some " + s + ")" }

func pI64(p *int64) string {
	if p == nil {
		return "None"
	}
	return some(coqfmt.Z(*p))
}
func pU64(p *uint64) string {
	if p == nil {
		return "None"
	}
	return some(coqfmt.ZU(*p))
}
func pU32(p *uint32) string {
	if p == nil {
		return "None"
	}
	return some(coqfmt.ZU(uint64(*p)))
}
func pI32(p *int32) string {
	if p == nil {
		return "None"
	}
	return some(coqfmt.Z(int64(*p)))
}
func pInt(p *int) string {
	if p == nil {
		return "None"
	}
	return some(coqfmt.Z(int64(*p)))
}
func pFM(p *os.FileMode) string {
	if p == nil {
		return "None"
	}
	return some(coqfmt.ZU(uint64(*p)))
}
func pBool(p *bool) string { return coqfmt.OptBool(p) }
func pStr(p *string) string {
	if p == nil {
		return "None"
	}
	return some(coqfmt.Str(*p))
}

func oI64(o *api.OptionalInt64) string {
	if o == nil {
		return "None"
	}
	return some(coqfmt.Z(o.Value))
}
func oU64(o *api.OptionalUInt64) string {
	if o == nil {
		return "None"
	}
	return some(coqfmt.ZU(o.Value))
}
func oU32(o *api.OptionalUInt32) string {
	if o == nil {
		return "None"
	}
	return some(coqfmt.ZU(uint64(o.Value)))
}
func oI32(o *api.OptionalInt32) string {
	if o == nil {
		return "None"
	}
	return some(coqfmt.Z(int64(o.Value)))
}
func oInt(o *api.OptionalInt) string {
	if o == nil {
		return "None"
	}
	return some(coqfmt.Z(o.Value))
}
func oFM(o *api.OptionalFileMode) string {
	if o == nil {
		return "None"
	}
	return some(coqfmt.ZU(uint64(o.Value)))
}
func oBool(o *api.OptionalBool) string {
	if o == nil {
		return "None"
	}
	return some(coqfmt.Bool(o.Value))
}
func oStr(o *api.OptionalString) string {
	if o == nil {
		return "None"
	}
	return some(coqfmt.Str(o.Value))
}

func app(f string, args ...string) string {
	s := "(" + f
	for _, a := range args {
		s += " " + a
	}
	return s + ")"
}

// sorted association list of a map (nil and empty both print as [])
func cMap(m map[string]string) string { return coqfmt.StrMap(m, nil) }

func sortedKeys(m map[string]string) []string {
	ks := make([]string, 0, len(m))
	for k := range m {
		ks = append(ks, k)
	}
	sort.Strings(ks)
	return ks
}

// ---------------------------------------------------------------- Coq printers: NRI

func cMemory(m *api.LinuxMemory) string {
	if m == nil {
		return "None"
	}
	return some(app("mkMemory", oI64(m.Limit), oI64(m.Reservation), oI64(m.Swap), oI64(m.Kernel), oI64(m.KernelTcp),
		oU64(m.Swappiness), oBool(m.DisableOomKiller), oBool(m.UseHierarchy)))
}

func cCPU(c *api.LinuxCPU) string {
	if c == nil {
		return "None"
	}
	return some(app("mkCpu", oU64(c.Shares), oI64(c.Quota), oU64(c.Period), oI64(c.RealtimeRuntime), oU64(c.RealtimePeriod),
		coqfmt.Str(c.Cpus), coqfmt.Str(c.Mems)))
}

func cResources(r *api.LinuxResources) string {
	if r == nil {
		return "None"
	}
	var hp, dv []string
	for _, h := range r.HugepageLimits {
		hp = append(hp, app("mkHugepage", coqfmt.Str(h.PageSize), coqfmt.ZU(h.Limit)))
	}
	for _, d := range r.Devices {
		dv = append(dv, app("mkDevcg", coqfmt.Bool(d.Allow), coqfmt.Str(d.Type), oI64(d.Major), oI64(d.Minor), coqfmt.Str(d.Access)))
	}
	pids := "None"
	if r.Pids != nil {
		pids = some(coqfmt.Z(r.Pids.Limit))
	}
	return some(app("mkResources", cMemory(r.Memory), cCPU(r.Cpu), coqfmt.List(hp), oStr(r.BlockioClass), oStr(r.RdtClass),
		cMap(r.Unified), coqfmt.List(dv), pids))
}

func cMount(m *api.Mount) string {
	return app("mkMount", coqfmt.Str(m.Destination), coqfmt.Str(m.Type), coqfmt.Str(m.Source), coqfmt.StrList(m.Options))
}
func cMounts(l []*api.Mount) string {
	var out []string
	for _, m := range l {
		out = append(out, cMount(m))
	}
	return coqfmt.List(out)
}

func cDevice(d *api.LinuxDevice) string {
	return app("mkDevice", coqfmt.Str(d.Path), coqfmt.Str(d.Type), coqfmt.Z(d.Major), coqfmt.Z(d.Minor), oFM(d.FileMode), oU32(d.Uid), oU32(d.Gid))
}
func cDevices(l []*api.LinuxDevice) string {
	var out []string
	for _, d := range l {
		out = append(out, cDevice(d))
	}
	return coqfmt.List(out)
}

func cHookList(l []*api.Hook) string {
	var out []string
	for _, h := range l {
		out = append(out, app("mkHook", coqfmt.Str(h.Path), coqfmt.StrList(h.Args), coqfmt.StrList(h.Env), oInt(h.Timeout)))
	}
	return coqfmt.List(out)
}
func cHooks(h *api.Hooks) string {
	return app("mkHooks", cHookList(h.Prestart), cHookList(h.CreateRuntime), cHookList(h.CreateContainer),
		cHookList(h.StartContainer), cHookList(h.Poststart), cHookList(h.Poststop))
}
func cHooksOpt(h *api.Hooks) string {
	if h == nil {
		return "None"
	}
	return some(cHooks(h))
}

func cKVs(l []*api.KeyValue) string {
	var out []string
	for _, e := range l {
		out = append(out, app("mkKV", coqfmt.Str(e.Key), coqfmt.Str(e.Value)))
	}
	return coqfmt.List(out)
}

// ---------------------------------------------------------------- Coq printers: OCI

func cOMemory(m *rspec.LinuxMemory) string {
	if m == nil {
		return "None"
	}
	return some(app("mkOMemory", pI64(m.Limit), pI64(m.Reservation), pI64(m.Swap), pI64(m.Kernel), pI64(m.KernelTCP),
		pU64(m.Swappiness), pBool(m.DisableOOMKiller), pBool(m.UseHierarchy), pBool(m.CheckBeforeUpdate)))
}

func cOCPU(c *rspec.LinuxCPU) string {
	if c == nil {
		return "None"
	}
	return some(app("mkOCpu", pU64(c.Shares), pI64(c.Quota), pU64(c.Burst), pU64(c.Period), pI64(c.RealtimeRuntime),
		pU64(c.RealtimePeriod), coqfmt.Str(c.Cpus), coqfmt.Str(c.Mems), pI64(c.Idle)))
}

func cOResources(o *rspec.LinuxResources) string {
	if o == nil {
		return "None"
	}
	var hp, dv []string
	for _, h := range o.HugepageLimits {
		hp = append(hp, app("mkOHugepage", coqfmt.Str(h.Pagesize), coqfmt.ZU(h.Limit)))
	}
	for _, d := range o.Devices {
		dv = append(dv, app("mkODevcg", coqfmt.Bool(d.Allow), coqfmt.Str(d.Type), pI64(d.Major), pI64(d.Minor), coqfmt.Str(d.Access)))
	}
	pids := "None"
	if o.Pids != nil {
		pids = some(coqfmt.Z(o.Pids.Limit))
	}
	return some(app("mkOResources", coqfmt.List(dv), cOMemory(o.Memory), cOCPU(o.CPU), pids, coqfmt.Bool(o.BlockIO != nil),
		coqfmt.List(hp), coqfmt.Bool(o.Network != nil), coqfmt.Bool(len(o.Rdma) != 0), cMap(o.Unified)))
}

func cIDMaps(l []rspec.LinuxIDMapping) string {
	var out []string
	for _, m := range l {
		out = append(out, fmt.Sprintf("(%s, %s, %s)", coqfmt.ZU(uint64(m.ContainerID)), coqfmt.ZU(uint64(m.HostID)), coqfmt.ZU(uint64(m.Size))))
	}
	return coqfmt.List(out)
}
func cOMount(m rspec.Mount) string {
	return app("mkOMount", coqfmt.Str(m.Destination), coqfmt.Str(m.Type), coqfmt.Str(m.Source), coqfmt.StrList(m.Options),
		cIDMaps(m.UIDMappings), cIDMaps(m.GIDMappings))
}
func cOMounts(l []rspec.Mount) string {
	var out []string
	for _, m := range l {
		out = append(out, cOMount(m))
	}
	return coqfmt.List(out)
}

func cODevice(d rspec.LinuxDevice) string {
	return app("mkODevice", coqfmt.Str(d.Path), coqfmt.Str(d.Type), coqfmt.Z(d.Major), coqfmt.Z(d.Minor), pFM(d.FileMode), pU32(d.UID), pU32(d.GID))
}
func cODevices(l []rspec.LinuxDevice) string {
	var out []string
	for _, d := range l {
		out = append(out, cODevice(d))
	}
	return coqfmt.List(out)
}

func cOHookList(l []rspec.Hook) string {
	var out []string
	for _, h := range l {
		out = append(out, app("mkOHook", coqfmt.Str(h.Path), coqfmt.StrList(h.Args), coqfmt.StrList(h.Env), pInt(h.Timeout)))
	}
	return coqfmt.List(out)
}
func cOHooks(h *rspec.Hooks) string {
	return app("mkOHooks", cOHookList(h.Prestart), cOHookList(h.CreateRuntime), cOHookList(h.CreateContainer),
		cOHookList(h.StartContainer), cOHookList(h.Poststart), cOHookList(h.Poststop))
}
func cOHooksOpt(h *rspec.Hooks) string {
	if h == nil {
		return "None"
	}
	return some(cOHooks(h))
}

// ---------------------------------------------------------------- generators of whole values

func genNRIResources(r *rand.Rand) *api.LinuxResources {
	if r.Intn(25) == 0 {
		return nil
	}
	x := &api.LinuxResources{}
	fill(r, reflect.ValueOf(x).Elem(), false, 0)
	return x
}

func genOCIResources(r *rand.Rand) *rspec.LinuxResources {
	if r.Intn(25) == 0 {
		return nil
	}
	x := &rspec.LinuxResources{}
	fill(r, reflect.ValueOf(x).Elem(), false, 0)
	if r.Intn(4) == 0 {
		x.Rdma = map[string]rspec.LinuxRdma{"mlx5_0": {}}
	}
	return x
}

var mountOpts = []string{"ro", "rw", "rbind", "bind", "rprivate", "rshared", "rslave", "nosuid", "relabel", "", "size=64k", "private"}

func genOpts(r *rand.Rand) []string {
	switch r.Intn(5) {
	case 0:
		return nil
	case 1:
		return []string{}
	}
	n := 1 + r.Intn(5)
	out := make([]string, n)
	for i := range out {
		out[i] = mountOpts[r.Intn(len(mountOpts))]
	}
	return out
}

func genNRIMount(r *rand.Rand) *api.Mount {
	return &api.Mount{Destination: genStr(r), Type: genStr(r), Source: genStr(r), Options: genOpts(r)}
}

func genOCIMount(r *rand.Rand) rspec.Mount {
	m := rspec.Mount{Destination: genStr(r), Type: genStr(r), Source: genStr(r), Options: genOpts(r)}
	if r.Intn(3) == 0 {
		m.UIDMappings = []rspec.LinuxIDMapping{{ContainerID: genU32(r), HostID: genU32(r), Size: genU32(r)}}
	}
	if r.Intn(3) == 0 {
		m.GIDMappings = []rspec.LinuxIDMapping{{ContainerID: 0, HostID: 1000, Size: 1}, {ContainerID: 1, HostID: genU32(r), Size: math.MaxUint32}}
	}
	return m
}

func genNRIDevice(r *rand.Rand) *api.LinuxDevice {
	d := &api.LinuxDevice{}
	fill(r, reflect.ValueOf(d).Elem(), false, 0)
	return d
}
func genOCIDevice(r *rand.Rand) rspec.LinuxDevice {
	d := rspec.LinuxDevice{}
	fill(r, reflect.ValueOf(&d).Elem(), false, 0)
	return d
}

func genNRIHookList(r *rand.Rand) []*api.Hook {
	var out []*api.Hook
	for n := r.Intn(3); n > 0; n-- {
		h := &api.Hook{}
		fill(r, reflect.ValueOf(h).Elem(), false, 0)
		out = append(out, h)
	}
	return out
}
func genNRIHooks(r *rand.Rand) *api.Hooks {
	return &api.Hooks{Prestart: genNRIHookList(r), CreateRuntime: genNRIHookList(r), CreateContainer: genNRIHookList(r),
		StartContainer: genNRIHookList(r), Poststart: genNRIHookList(r), Poststop: genNRIHookList(r)}
}
func genOCIHookList(r *rand.Rand) []rspec.Hook {
	var out []rspec.Hook
	for n := r.Intn(3); n > 0; n-- {
		h := rspec.Hook{}
		fill(r, reflect.ValueOf(&h).Elem(), false, 0)
		out = append(out, h)
	}
	return out
}
func genOCIHooks(r *rand.Rand) *rspec.Hooks {
	if r.Intn(10) == 0 {
		return nil
	}
	return &rspec.Hooks{Prestart: genOCIHookList(r), CreateRuntime: genOCIHookList(r), CreateContainer: genOCIHookList(r),
		StartContainer: genOCIHookList(r), Poststart: genOCIHookList(r), Poststop: genOCIHookList(r)}
}

var envKeys = []string{"PATH", "HOME", "A", "x_1", "", "LD_PRELOAD", "K.dot", "with space"}
var envVals = []string{"", "v", "/bin:/usr/bin", "a=b", "=", "a=b=c", "==", " spaced ", `q"uote`, "-x"}

// wf: keys without '='; otherwise some keys contain '=' (outside the hypothesis
// of the round-trip theorem: only model/implementation agreement is checked)
func genKVs(r *rand.Rand, wf bool) []*api.KeyValue {
	switch r.Intn(6) {
	case 0:
		return nil
	case 1:
		return []*api.KeyValue{}
	}
	var out []*api.KeyValue
	for n := 1 + r.Intn(5); n > 0; n-- {
		k := envKeys[r.Intn(len(envKeys))]
		if !wf && r.Intn(2) == 0 {
			k = []string{"a=b", "=", "=x", "k="}[r.Intn(4)]
		}
		out = append(out, &api.KeyValue{Key: k, Value: envVals[r.Intn(len(envVals))]})
	}
	return out
}

func genEnvStrings(r *rand.Rand) []string {
	switch r.Intn(6) {
	case 0:
		return nil
	case 1:
		return []string{}
	}
	var out []string
	for n := 1 + r.Intn(5); n > 0; n-- {
		switch r.Intn(5) {
		case 0:
			out = append(out, envKeys[r.Intn(len(envKeys))]) // no '='
		case 1:
			out = append(out, genStr(r))
		default:
			out = append(out, envKeys[r.Intn(len(envKeys))]+"="+envVals[r.Intn(len(envVals))])
		}
	}
	return out
}
