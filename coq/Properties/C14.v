(* C14 — NRI/OCI conversions are lossless and copies share no state.
   This file contains only statements closed by [exact]. *)
From Coq Require Import String List ZArith.
From NRI Require Import Model.Consts Model.Event Proofs.EventProofs.
Import ListNotations.
Open Scope Z_scope.

(* parsing a printed event mask returns the same mask: every non-empty valid mask;
   valid_events is read from pkg/api/event.go on every run (8191 on the pinned tree) *)
Theorem C14_mask_roundtrip : forall m, 1 <= m <= valid_events -> parse [pretty m] = Some m.
Proof. exact mask_roundtrip. Qed.
Print Assumptions C14_mask_roundtrip.

Theorem C14_mask_print_injective : forall m1 m2,
  1 <= m1 <= valid_events -> 1 <= m2 <= valid_events -> pretty m1 = pretty m2 -> m1 = m2.
Proof. exact pretty_injective. Qed.
Print Assumptions C14_mask_print_injective.

(* non-vacuity: the domain is the one the property names *)
Example C14_mask_domain : valid_events = 8191 /\ parse [pretty 4097] = Some 4097.
Proof. split; reflexivity. Qed.
