package main

import (
	"fmt"
	"math/rand"
	"strings"

	"verif/harness/internal/coqfmt"
	"verif/harness/internal/hx"
)

const muxImports = "From NRI Require Import Model.Mux Run.Common Run.RunMux."

var idPool = []uint32{1, 2, 3, 7, 255, 256, 65536, 0x7fffffff, 0x80000000, 0xffffffff}

func pickIDs(r *rand.Rand, k int) []uint32 {
	perm := r.Perm(len(idPool))
	ids := make([]uint32, k)
	for i := range ids {
		ids[i] = idPool[perm[i]]
	}
	return ids
}

func smallSize(r *rand.Rand) int {
	switch x := r.Intn(100); {
	case x < 15:
		return 0
	case x < 25:
		return 1
	case x < 60:
		return 2 + r.Intn(15)
	case x < 90:
		return 17 + r.Intn(104)
	default:
		return 121 + r.Intn(480)
	}
}

// driveMux: C10.
func driveMux(c *hx.Ctx) error {
	maxp := maxPayload(c.Repo)
	var scns []scenario
	var streams []string
	var bufs []scenario
	for _, sc := range corpus(c, "C10") {
		if sc.B != nil {
			bufs = append(bufs, sc)
			continue
		}
		scns = append(scns, sc)
		if sc.X.ByteLevel {
			streams = append(streams, "mux_bytes")
		} else {
			streams = append(streams, "mux_sizes")
		}
	}

	// --- byte level: small payloads, everything compared inside Coq
	r := c.Rand("mux_bytes")
	nb := c.Pick(120, 700)
	for i := 0; i < nb; i++ {
		k := 1 + r.Intn(5)
		s := &xferScn{Transport: []string{"pipe", "unix"}[i%2], QLen: []int{1, 2, 3, 8, 256}[r.Intn(5)], IDs: pickIDs(r, k), ByteLevel: true}
		for side := 0; side < 2; side++ {
			nw := 1 + r.Intn(4)
			budget := 1500 + r.Intn(2500)
			for w := 0; w < nw; w++ {
				var prog []wr
				for j, m := 0, 1+r.Intn(8); j < m; j++ {
					sz := smallSize(r)
					if sz+8 > budget {
						sz = 0
					}
					budget -= sz + 8
					prog = append(prog, wr{ID: s.IDs[r.Intn(k)], Size: sz})
				}
				s.Progs[side] = append(s.Progs[side], prog)
			}
		}
		if i%3 == 0 {
			// Muxes that were never blocked, and Unblock calls before and during the transfer: no-ops
			s.Plain = [2]bool{i%2 == 0, i%6 == 0}
			s.Unblocks = [2]int{1 + i%3, 1 + (i/3)%3}
		}
		if i%4 == 1 || i%4 == 2 {
			// an expired deadline on one of the connections (both transports; the socket honours deadlines on
			// the trunk): the transfer on all of them must be what it is without it
			for side := 0; side < 2; side++ {
				if (i/4+side)%2 == 0 || i%4 == 1 {
					s.Deadlines[side] = append(s.Deadlines[side], dlop{ID: s.IDs[r.Intn(k)], Kind: (i / 4) % 3})
				}
			}
		}
		scns = append(scns, scenario{X: s})
		streams = append(streams, "mux_bytes")
	}

	// --- size level: payloads around the chunk boundaries, several MiB each
	r = c.Rand("mux_sizes")
	bounds := []int{0, 1, maxp - 1, maxp, maxp + 1, 2*maxp - 1, 2 * maxp, 2*maxp + 1, 3*maxp - 1, 3 * maxp}
	nbig := c.Pick(5, 30)
	for i := 0; i < nbig; i++ {
		k := 2 + r.Intn(3)
		s := &xferScn{Transport: []string{"pipe", "unix"}[i%2], QLen: []int{3, 4, 8, 256}[r.Intn(4)], IDs: pickIDs(r, k)}
		for side := 0; side < 2; side++ {
			// one writer with a boundary-size payload between small ones, others with small and medium traffic
			big := bounds[(2*i+side)%len(bounds)]
			if i >= len(bounds)/2 && r.Intn(2) == 0 {
				big = maxp/2 + r.Intn(5*maxp/2)
			}
			bigID := s.IDs[r.Intn(k)]
			s.Progs[side] = append(s.Progs[side], []wr{{s.IDs[0], smallSize(r)}, {bigID, big}, {s.IDs[0], smallSize(r)}})
			if big >= 1<<20 {
				// two writers that wait until the large payload is on its way and then compete for the
				// trunk with small Writes on another id (k >= 2) while the large Write is still in progress
				for g := 0; g < 2; g++ {
					var prog []wr
					for j, m := 0, 2+r.Intn(4); j < m; j++ {
						id := s.IDs[r.Intn(k)]
						for id == bigID {
							id = s.IDs[r.Intn(k)]
						}
						prog = append(prog, wr{ID: id, Size: 1 + smallSize(r)})
					}
					s.Gated[side] = append(s.Gated[side], len(s.Progs[side]))
					s.Progs[side] = append(s.Progs[side], prog)
				}
			}
			for w, nw := 0, 1+r.Intn(3); w < nw; w++ {
				var prog []wr
				for j, m := 0, 2+r.Intn(6); j < m; j++ {
					sz := smallSize(r)
					if r.Intn(3) == 0 {
						sz = 1024 + r.Intn(200000)
					}
					prog = append(prog, wr{ID: s.IDs[r.Intn(k)], Size: sz})
				}
				s.Progs[side] = append(s.Progs[side], prog)
			}
		}
		scns = append(scns, scenario{X: s})
		streams = append(streams, "mux_sizes")
	}
	// medium payloads, many writers
	nmed := c.Pick(24, 200)
	for i := 0; i < nmed; i++ {
		k := 1 + r.Intn(6)
		s := &xferScn{Transport: []string{"pipe", "unix"}[i%2], QLen: []int{1, 2, 5, 16, 256}[r.Intn(5)], IDs: pickIDs(r, k)}
		for side := 0; side < 2; side++ {
			for w, nw := 0, 1+r.Intn(6); w < nw; w++ {
				var prog []wr
				for j, m := 0, 1+r.Intn(12); j < m; j++ {
					sz := smallSize(r)
					if r.Intn(2) == 0 {
						sz = 600 + r.Intn(1<<uint(10+r.Intn(9)))
					}
					prog = append(prog, wr{ID: s.IDs[r.Intn(k)], Size: sz})
				}
				s.Progs[side] = append(s.Progs[side], prog)
			}
		}
		scns = append(scns, scenario{X: s})
		streams = append(streams, "mux_sizes")
	}

	// --- frames for ids nobody has open at the receiving end, back to back with frames for open ids, delivered
	// to a reader that starts late: it has to drop exactly the stray frames (never opened, or closed again)
	r = c.Rand("mux_stray")
	strayPool := []uint32{9, 4242, 70000, 0x7ffffffe}
	for i, n := 0, c.Pick(40, 300); i < n; i++ {
		k := 1 + r.Intn(3)
		s := &xferScn{Transport: "unix", QLen: 256, IDs: pickIDs(r, k), ByteLevel: true, Blocked: "written"}
		perm := r.Perm(len(strayPool))
		for side := 0; side < 2; side++ {
			never, closed := strayPool[perm[2*side]], strayPool[perm[2*side+1]]
			s.Gone[side] = []uint32{never, closed}
			s.GoneClosed[side] = []uint32{closed}
			frames, budget := 0, 9000
			for w, nw := 0, 1+r.Intn(3); w < nw; w++ {
				var prog []wr
				for j, m := 0, 2+r.Intn(7); j < m && frames < 30; j++ {
					sz := smallSize(r)
					if sz+8 > budget {
						sz = 0
					}
					budget -= sz + 8
					id := s.IDs[r.Intn(k)]
					if r.Intn(5) < 2 {
						id = s.Gone[side][r.Intn(2)]
					}
					if j == 0 && w == 0 {
						id = s.Gone[side][i%2] // a stray frame among the first on the trunk
					}
					prog = append(prog, wr{ID: id, Size: sz})
					frames++
				}
				s.Progs[side] = append(s.Progs[side], prog)
			}
		}
		scns = append(scns, scenario{X: s})
		streams = append(streams, "mux_stray")
	}
	// the same with a multi-frame payload for an id nobody has open, between frames for open ids
	for i, n := 0, c.Pick(2, 8); i < n; i++ {
		s := &xferScn{Transport: "unix", QLen: 256, IDs: pickIDs(r, 2), Blocked: "big"}
		for side := 0; side < 2; side++ {
			s.Gone[side] = []uint32{strayPool[side], strayPool[2+side]}
			s.GoneClosed[side] = []uint32{strayPool[2+side]}
			big := []int{maxp + 1, 2 * maxp, 2*maxp + 5, maxp/2 + r.Intn(2*maxp)}[(i+side)%4]
			s.Progs[side] = append(s.Progs[side], []wr{{s.IDs[0], 5}, {s.Gone[side][i%2], 3}, {s.IDs[1], 40},
				{s.Gone[side][(i+side)%2], big}, {s.IDs[0], 17}, {s.IDs[1], 0}, {s.IDs[0], 300}, {s.Gone[side][1], 9}, {s.IDs[1], 2}})
			s.Progs[side] = append(s.Progs[side], []wr{{s.IDs[1], 1 + smallSize(r)}, {s.IDs[0], 1 + smallSize(r)}})
			s.Gated[side] = []int{1}
		}
		scns = append(scns, scenario{X: s})
		streams = append(streams, "mux_stray")
	}

	// --- queue lengths above the default and a receiver that lags: the readers start when the writers are done,
	// the frames wait in the queues — more than the default length 256 of them, within the configured length —
	// and small configured lengths with a lag of exactly that many frames
	r = c.Rand("mux_lag")
	for i, n := 0, c.Pick(6, 40); i < n; i++ {
		q := []int{300, 1024, 257, 600}[i%4]
		s := &xferScn{Transport: []string{"pipe", "unix"}[i%2], QLen: q, IDs: pickIDs(r, 1+r.Intn(2)), LateReaders: true, ByteLevel: q <= 300}
		for side := 0; side < 2; side++ {
			for _, id := range s.IDs {
				// q-1 frames for the id (the end marker is the q-th), at least 257 of them, from 1-3 writers
				total := q - 1
				if i >= 4 && q > 258 {
					total = q - 1 - r.Intn(q-258)
				}
				nw := 1 + r.Intn(3)
				for w := 0; w < nw; w++ {
					cnt := total / nw
					if w == 0 {
						cnt += total % nw
					}
					var prog []wr
					for j := 0; j < cnt; j++ {
						prog = append(prog, wr{ID: id, Size: r.Intn(4)})
					}
					s.Progs[side] = append(s.Progs[side], prog)
				}
			}
		}
		scns = append(scns, scenario{X: s})
		streams = append(streams, "mux_lag")
	}
	for q := 1; q <= c.Pick(6, 12); q++ {
		s := &xferScn{Transport: []string{"pipe", "unix"}[q%2], QLen: q, IDs: pickIDs(r, 2), LateReaders: true, ByteLevel: true}
		for side := 0; side < 2; side++ {
			// exactly q frames wait unread on the first id (the end marker comes when the readers run), q-1 on the second
			var p0, p1 []wr
			for j := 0; j < q; j++ {
				p0 = append(p0, wr{ID: s.IDs[0], Size: smallSize(r)})
			}
			for j := 0; j < q-1; j++ {
				p1 = append(p1, wr{ID: s.IDs[1], Size: smallSize(r)})
			}
			s.Progs[side] = [][]wr{p0}
			if len(p1) > 0 {
				s.Progs[side] = append(s.Progs[side], p1)
			}
		}
		scns = append(scns, scenario{X: s})
		streams = append(streams, "mux_lag")
	}

	// byte-level and medium scenarios are cheap: run them in parallel children; the
	// multi-megabyte ones one after the other
	var small, big []int
	for i, sc := range scns {
		heavy := false
		for side := 0; side < 2; side++ {
			for _, p := range sc.X.Progs[side] {
				for _, w := range p {
					if w.Size > 1<<20 {
						heavy = true
					}
				}
			}
		}
		if heavy {
			big = append(big, i)
		} else {
			small = append(small, i)
		}
	}
	res := make([]scnResult, len(scns))
	for _, grp := range []struct {
		idx []int
		par int
		tag string
	}{{small, 4, "small"}, {big, 1, "big"}} {
		sub := make([]scenario, len(grp.idx))
		for j, i := range grp.idx {
			sub[j] = scns[i]
		}
		for j, rr := range runScenarios(c, grp.tag, sub, grp.par) {
			res[grp.idx[j]] = rr
		}
	}

	// --- the caller's buffer: len < frame <= cap, len = frame, len > frame, cap < frame
	for _, b := range genReadBuf(c) {
		bufs = append(bufs, scenario{B: b})
	}
	bufShard := c.NewShard("mux_readbuf", muxImports, "readbuf_case", "corr_readbuf", "holds_readbuf", 200)
	for i, rr := range runScenarios(c, "buf", bufs, 4) {
		emitReadBuf(c, i, bufs[i].B, rr, bufShard)
	}

	szShard := c.NewShard("mux_sizes", muxImports, "size_case", "corr_sizes", "holds_sizes", 400)
	byShard := c.NewShard("mux_bytes", muxImports, "bytes_case", "corr_bytes", "holds_bytes", 40)
	for i, sc := range scns {
		emitXfer(c, streams[i], i, sc.X, res[i], maxp, szShard, byShard)
	}
	skippedCheck(c)
	c.Stats.Rule = "mux_bytes: 1-5 connection ids (incl. 1, 2 and the highest uint32), 1-4 concurrent writer goroutines per side each issuing 1-8 Writes of 0..600 bytes to random ids, both directions at once, queue lengths 1,2,3,8,256 with readers that keep up (credit flow control), net.Pipe and unix socketpair alternating; the recorded trunk bytes, the serialisation found by parsing them and every Read result are compared byte for byte inside Coq. " +
		"In a third of the mux_bytes scenarios the Muxes get extra Unblock() calls just before and while the writers write, half of them on Muxes created without WithBlockedRead (never blocked): no-ops (C10_unblocks_change_nothing). " +
		"In half of the mux_bytes scenarios SetDeadline / SetReadDeadline / SetWriteDeadline with an expired deadline is called on one of the connections of one or both ends just before the writers start: a no-op for the Mux (C10_deadlines_change_nothing), the same comparison applies. " +
		"mux_sizes: the same with payloads at the chunk boundaries 0,1,max-1,max,max+1,2max-1,2max,2max+1,3max-1,3max and random sizes up to 3*max next to medium traffic; compared in Coq at the level of frame headers (size-level model), content on SHA-256 in the driver. " +
		"mux_readbuf: one connection, 1-7 frames of 0..600 bytes queued, then one Read per frame with a buffer whose length and capacity are chosen relative to the frame (len < frame <= cap, len = frame, len > frame, len <= cap < frame, len = frame-1 with cap = frame, random); the returned count, error class and buf[:min(n,len)] are compared in Coq with Model.Mux.read_buf_step and judged by holds_readbuf (n <= len(buf) and the whole frame, or ENOMEM and the frame does not fit); non-trivial when some buffer is shorter than its frame. " +
		"mux_stray: unix socketpair, both readers blocked (WithBlockedRead) until every writer has finished, so that the frames lie back to back in the socket buffer; the writers also write (40% of the Writes, one of the first frames always) to ids that nobody can read at the other end — one never opened there, one opened and closed with conn.Close before the start — small payloads (byte level) and multi-frame payloads (unblocked while the large payload is on its way); the open connections must get exactly their bytes (corr_bytes/holds_bytes on trunk and Reads: the model drops the stray frames and nothing else). " +
		"mux_lag: queue lengths 257, 300, 600, 1024 (above the default 256) and 1..6 (thorough 1..12) with readers that start only when the writers have finished: up to qlen-1 frames (at least 257 for the long queues; exactly qlen for the short ones) wait unread in a connection's queue — the receiver keeps up with the CONFIGURED length, nothing may be lost or reported as overflow. " +
		"A case is non-trivial when at least two Writes share the trunk. A trunk that does not parse into whole Writes, a Read or Write error, a missing byte or a time-out is a failing input."
	return nil
}

func sizeClass(n, maxp int) string {
	switch {
	case n == 0:
		return "0"
	case n <= 16:
		return "1-16"
	case n <= 600:
		return "17-600"
	case n < maxp-1:
		return "601..max-2"
	case n <= maxp+1:
		return "max-1..max+1"
	case n < 2*maxp-1:
		return "max+2..2max-2"
	case n <= 2*maxp+1:
		return "2max-1..2max+1"
	default:
		return ">2max+1"
	}
}

func emitXfer(c *hx.Ctx, stream string, idx int, s *xferScn, r scnResult, maxp int, szShard, byShard *hx.Shard) {
	raw := map[string]interface{}{"scenario": s, "index": idx}
	if r.Skip {
		c.Count("skipped_after_hanging_scenarios", 1)
		return
	}
	if r.Crash != "" {
		raw["crash"] = r.Crash
		c.ImplFail(stream, "the implementation panicked, dead-locked or hung during the transfer", raw)
		c.Eval(fmt.Sprint(stream, "/", idx), true)
		return
	}
	if r.X == nil {
		c.HarnessError("%s scenario %d: no result", stream, idx)
		return
	}
	o := r.X
	if len(o.Fails) > 0 {
		raw["fails"] = o.Fails
		harnessOnly := true
		for _, f := range o.Fails {
			if !strings.HasPrefix(f, "harness:") {
				harnessOnly = false
			}
		}
		if harnessOnly {
			c.HarnessError("%s scenario %d: %v", stream, idx, o.Fails)
			return
		}
		c.ImplFail(stream, "Read/Write error, lost data or time-out although the receiver kept up: "+o.Fails[0], raw)
	}
	c.Count("transport."+s.Transport, 1)
	if n := len(s.Deadlines[0]) + len(s.Deadlines[1]); n > 0 {
		c.Count("scenarios_with_an_expired_deadline_on_a_connection", 1)
		c.Count("deadline_calls."+s.Transport, n)
	}
	if s.Unblocks[0]+s.Unblocks[1] > 0 {
		c.Count("scenarios_with_extra_unblock_calls", 1)
		if s.Plain[0] || s.Plain[1] {
			c.Count("scenarios_with_unblock_on_a_never_blocked_mux", 1)
		}
	}
	if s.LateReaders {
		c.Count("late_reader_scenarios", 1)
		if s.QLen > 256 {
			c.Count("late_reader_scenarios.queue_above_default_length", 1)
		}
		if o.Early {
			c.HarnessError("%s scenario %d: the writers of a late-reader scenario ran out of credits", stream, idx)
		}
	}
	if s.Blocked != "" {
		c.Count("blocked_reader_scenarios."+s.Blocked, 1)
		if o.Early {
			c.Count("blocked_reader_scenarios.unblocked_by_timer", 1)
		}
	}
	c.Count(fmt.Sprint("qlen.", s.QLen), 1)
	c.Count(fmt.Sprint("ids.", len(s.IDs)), 1)
	for d := 0; d < 2; d++ {
		do := &o.Dir[d]
		rawd := map[string]interface{}{"scenario": s, "index": idx, "direction": d, "frames": do.Frames, "serial": do.Serial, "reads": do.Reads}
		if s.ByteLevel {
			rawd["trunk"] = do.TrunkHex
		}
		key := fmt.Sprint(stream, "/", idx, "/", d)
		if do.Regroup != "" {
			rawd["regroup"] = do.Regroup
			c.ImplFail(stream, "the recorded trunk does not parse into whole Writes (write lock or framing broken): "+do.Regroup, rawd)
			c.Eval(key, true)
			continue
		}
		nwrites := 0
		for _, p := range s.Progs[d] {
			nwrites += len(p)
		}
		c.Eval(key, nwrites >= 2)
		c.Count("writers."+fmt.Sprint(len(s.Progs[d])), 1)
		c.Count("frames", len(do.Frames))
		c.Count("trunk_bytes", do.Bytes)
		switches := 0
		gone := map[uint32]bool{}
		for _, id := range s.Gone[d] {
			gone[id] = true
		}
		for _, sw := range do.Serial {
			if gone[sw.ID] {
				c.Count("writes_to_ids_not_open_at_the_receiver", 1)
			}
		}
		for i, sw := range do.Serial {
			c.Count("write_size."+sizeClass(sw.Size, maxp), 1)
			if sw.Size > maxp {
				c.Count("multi_frame_writes", 1)
			}
			if i > 0 && (sw.Writer != do.Serial[i-1].Writer || sw.ID != do.Serial[i-1].ID) {
				switches++
			}
		}
		c.Count("writer_switches_on_trunk", switches)
		for _, ro := range do.Reads {
			if ro.Err == "" && ro.Hash != ro.Want {
				rawd["id"] = ro.ID
				c.ImplFail(stream, fmt.Sprintf("bytes read on id %d differ from the bytes written to it (SHA-256)", ro.ID), rawd)
			}
		}
		// size-level case
		var ws, fs, rs []string
		for _, sw := range do.Serial {
			ws = append(ws, coqfmt.Pair(coqfmt.N(uint64(sw.ID)), coqfmt.N(uint64(sw.Size))))
		}
		for _, f := range do.Frames {
			fs = append(fs, coqfmt.Pair(coqfmt.N(uint64(f.ID)), coqfmt.N(uint64(f.Size))))
		}
		for _, ro := range do.Reads {
			var l []string
			for _, n := range ro.Sizes {
				l = append(l, coqfmt.N(uint64(n)))
			}
			rs = append(rs, coqfmt.Pair(coqfmt.N(uint64(ro.ID)), coqfmt.List(l)))
		}
		szShard.Add(fmt.Sprintf("{| sz_writes := %s; sz_frames := %s; sz_reads := %s |}", coqfmt.List(ws), coqfmt.List(fs), coqfmt.List(rs)), rawd)
		if idx%97 == 0 && d == 0 {
			c.Sample(map[string]interface{}{"stream": stream, "ids": s.IDs, "qlen": s.QLen, "transport": s.Transport, "frames": do.Frames, "serial": do.Serial}, 6)
		}
		if !s.ByteLevel {
			continue
		}
		var opened, bws, brs []string
		for _, id := range s.IDs {
			opened = append(opened, coqfmt.N(uint64(id)))
		}
		for _, sw := range do.Serial {
			bws = append(bws, coqfmt.Pair(coqfmt.N(uint64(sw.ID)), coqfmt.Str(sw.Hex)))
		}
		for _, ro := range do.Reads {
			brs = append(brs, coqfmt.Pair(coqfmt.N(uint64(ro.ID)), coqfmt.StrList(ro.Hex)))
		}
		byShard.Add(fmt.Sprintf("{| bc_opened := %s; bc_writes := %s; bc_trunk := %s; bc_reads := %s |}",
			coqfmt.List(opened), coqfmt.List(bws), coqfmt.Str(do.TrunkHex), coqfmt.List(brs)), rawd)
		c.Count("byte_level_cases", 1)
	}
}
