(* C09 — what a correct synchronisation is: predicates on the outcome of the sender
   model and on observations (no proofs here; Proofs/SyncSplitProofs.v). *)
From Coq Require Import List ZArith Bool.
From NRI Require Import Model.SyncConsts Model.SyncSplit.
Import ListNotations.
Open Scope Z_scope.

Section Spec.
  Variables A B U PS : Type.
  Notation chunk := (chunk A B).

  Definition chunks_pods (s : list chunk) : list A := concat (map (fun c : chunk => fst (fst c)) s).
  Definition chunks_ctrs (s : list chunk) : list B := concat (map (fun c : chunk => snd (fst c)) s).
  Definition chunks_flags (s : list chunk) : list bool := map (fun c : chunk => snd c) s.

  (* every message but the last is flagged More, the last is not (and there is one) *)
  Fixpoint more_flags_ok (l : list bool) : bool :=
    match l with
    | [] => false
    | m :: r => match r with [] => negb m | _ => m && more_flags_ok r end
    end.

  Variable peer : PS -> list A -> list B -> bool -> PS * option (reply U).

  (* [sync_good pods ctrs st o]: the outcome [o] of synchronising the state (pods, ctrs)
     with a plugin end in state [st] is acceptable:
     - delivered: the messages that reached the plugin carry exactly the pods and the
       containers, each once, in order; all but the last are flagged More; the plugin end
       saw exactly these messages; the updates handed back are those of its last reply;
     - failed: what was sent is a prefix of the state (nothing twice, nothing out of
       order) and the plugin end saw exactly that;
     - a slice-bound panic or running out of fuel is never acceptable. *)
  Definition sync_good (pods : list A) (ctrs : list B) (st : PS) (o : outcome A B U PS) : Prop :=
    match o with
    | Delivered s u st' =>
        chunks_pods s = pods /\ chunks_ctrs s = ctrs /\ more_flags_ok (chunks_flags s) = true /\
        exists rps rp, peer_run peer st s = (st', rps) /\ last rps None = Some rp /\ r_update rp = u
    | Failed _ s st' =>
        (exists ps2 cs2, pods = chunks_pods s ++ ps2 /\ ctrs = chunks_ctrs s ++ cs2) /\
        fst (peer_run peer st s) = st'
    | Panic _ | OutOfFuel _ => False
    end.
End Spec.

Arguments chunks_pods {A B}. Arguments chunks_ctrs {A B}. Arguments chunks_flags {A B}.
Arguments sync_good {A B U PS}.

(* ---------- the receiver: a split request as the stub sees it ---------- *)
Section ReceiverSpec.
  Variables A B U : Type.
  (* the messages flagged More, carrying the given groups *)
  Definition more_msgs (groups : list (list A * list B)) : list (chunk A B) :=
    map (fun g => (fst g, snd g, true)) groups.
  (* the stub's answer to a message flagged More *)
  Definition more_reply : option (reply U) := Some {| r_more := true; r_update := [] |}.
  (* the stub's answer to the last message: whatever the handler says about the whole state *)
  Definition final_reply (h : list A -> list B -> option (list U)) (ps : list A) (cs : list B) : option (reply U) :=
    match h ps cs with
    | Some u => Some {| r_more := false; r_update := u |}
    | None => None
    end.
End ReceiverSpec.
Arguments more_msgs {A B}. Arguments more_reply {U}. Arguments final_reply {A B U}.

(* ---------- a variant of the sender that gives up after [cap] consecutive oversize retries ---------- *)
(* NOT the model of the code: the loop of Model/SyncSplit.v with a counter of consecutive XOversize answers
   (reset when a message gets through) and a clean failure when it exceeds [cap].  It exists to be refuted
   (C09_retry_cap_refuted): rescaling shrinks the NUMBER of objects per message, at best by a tenth per
   retry, so a message headed by a few large objects needs a number of retries that grows with the
   logarithm of the number of small objects behind them. *)
Section Capped.
  Variables A B U PS : Type.
  Variable xmit : list A -> list B -> bool -> xres.
  Variable peer : PS -> list A -> list B -> bool -> PS * option (reply U).
  Variable rc : Z -> Z -> Z -> Z -> option (Z * Z).
  Variable cap : nat.

  Fixpoint sync_loop_capped (fuel : nat) (ps : list A) (cs : list B) (pp cp : Z) (st : PS) (retries : nat) : outcome A B U PS :=
    match fuel with
    | O => OutOfFuel []
    | S fuel' =>
      if negb (slice_ok ps pp && slice_ok cs cp) then Panic [] else
      let mp := take pp ps in
      let mc := take cp cs in
      let more := (pp <? len ps) || (cp <? len cs) in
      match xmit mp mc more with
      | XOk =>
        let '(st', r) := peer st mp mc more in
        let c := (mp, mc, more) in
        match r with
        | None => Failed FPeerErr [c] st'
        | Some rp =>
          if negb more then Delivered [c] (r_update rp) st'
          else if negb (is_nil (r_update rp)) || negb (Bool.eqb (r_more rp) more)
          then Failed FPeerProto [c] st'
          else push c (sync_loop_capped fuel' (drop pp ps) (drop cp cs) (clamp pp (drop pp ps)) (clamp cp (drop cp cs)) st' 0)
        end
      | XOversize maxLen msgLen =>
        if (cap <? S retries)%nat then Failed FSplit [] st      (* "message oversized after cap retries" *)
        else match rc pp cp maxLen msgLen with
        | None => Failed FSplit [] st
        | Some (pp', cp') => sync_loop_capped fuel' ps cs (clamp pp' ps) (clamp cp' cs) st (S retries)
        end
      | XOther => Failed FSplit [] st
      end
    end.

  Definition synchronize_capped (fuel : nat) (pods : list A) (ctrs : list B) (st : PS) : outcome A B U PS :=
    sync_loop_capped fuel pods ctrs (len pods) (len ctrs) st 0.
End Capped.
Arguments sync_loop_capped {A B U PS}. Arguments synchronize_capped {A B U PS}.

(* ---------- the same registration outcome, the plugin ends' own states aside ---------- *)
Definition same_outcome {A B U PS1 PS2} (o1 : outcome A B U PS1) (o2 : outcome A B U PS2) : Prop :=
  match o1, o2 with
  | Delivered s1 u1 _, Delivered s2 u2 _ => s1 = s2 /\ u1 = u2
  | Failed w1 s1 _, Failed w2 s2 _ => w1 = w2 /\ s1 = s2
  | Panic s1, Panic s2 => s1 = s2
  | OutOfFuel s1, OutOfFuel s2 => s1 = s2
  | _, _ => False
  end.
(* the plugin end's state an outcome ends with *)
Definition final_state {A B U PS} (o : outcome A B U PS) : option PS :=
  match o with Delivered _ _ st | Failed _ _ st => Some st | _ => None end.

(* ---------- one request per registration ---------- *)
(* nothing follows a message not flagged More: the request is complete with it, whatever the plugin
   answers to it *)
Fixpoint no_resend (flags : list bool) : bool :=
  match flags with
  | [] => true
  | m :: r => if m then no_resend r else is_nil r
  end.

(* a handler's error: a gRPC status with its code (8 = ResourceExhausted, 13 = Internal, 14 = Unavailable,
   ...) or any other Go error *)
Inductive herror := HStatus (code : Z) | HPlain.
(* the stub hands the handler's error to the runtime; the model of the runtime (like plugin.synchronize)
   does not distinguish the kinds *)
Definition forget_error {A B U} (he : list A -> list B -> list U + herror) : list A -> list B -> option (list U) :=
  fun ps cs => match he ps cs with inl u => Some u | inr _ => None end.

(* ---------- the receiver over several connections of one stub value ---------- *)
Section SessionSpec.
  Variables A B : Type.
  (* how a connection's synchronisation ends: with the message not flagged More, or with
     the loss of the connection before that message (the runtime gave up: a later chunk
     could not be sent, a time-out, a restart of either side) *)
  Inductive session_end :=
  | SFinal (lp : list A) (lc : list B)
  | SClosed.
  (* a connection: the groups sent flagged More, and how it ended *)
  Definition session := (list (list A * list B) * session_end)%type.

  Definition session_msgs (s : session) : list (chunk A B) :=
    more_msgs (fst s) ++ match snd s with SFinal lp lc => [(lp, lc, false)] | SClosed => [] end.

  (* what the plugin's handler is owed for a connection: nothing if it was lost before the
     last message, otherwise one invocation with the objects of THIS connection, in order *)
  Definition session_delivery (s : session) : list (list A * list B) :=
    match snd s with
    | SFinal lp lc => [(concat (map fst (fst s)) ++ lp, concat (map snd (fst s)) ++ lc)]
    | SClosed => []
    end.
End SessionSpec.
Arguments SFinal {A B}. Arguments SClosed {A B}.
Arguments session_msgs {A B}. Arguments session_delivery {A B}.

(* l = pre ++ m ++ post : m is a group of consecutive elements of l *)
Definition infix {X} (m l : list X) : Prop := exists pre post, l = pre ++ m ++ post.

(* ---------- hypotheses about the environment of the sender ---------- *)
(* an oversized-message error reports a rejected length above a positive maximum *)
Definition honest {A B} (xmit : list A -> list B -> bool -> xres) : Prop :=
  forall mp mc more mx ml, xmit mp mc more = XOversize mx ml -> 0 < mx < ml.

(* the only transport error is the oversized-message error (time-outs are outside the model) *)
Definition only_oversize {A B} (xmit : list A -> list B -> bool -> xres) : Prop :=
  forall mp mc more, xmit mp mc more <> XOther.

(* the plugin end handles split requests (answers More with More and no updates) and does not fail *)
Definition handles_split {A B U PS} (peer : PS -> list A -> list B -> bool -> PS * option (reply U)) : Prop :=
  forall st mp mc,
    (exists st', peer st mp mc true = (st', Some {| r_more := true; r_update := [] |})) /\
    (exists st' rp, peer st mp mc false = (st', Some rp)).

(* interpretation I4 (DESIGN 2.4): every group of at most M objects - consecutive pods and
   consecutive containers of the state - fits into one message, flagged More or not *)
Definition every_min_chunk_fits {A B} (xmit : list A -> list B -> bool -> xres) (M : Z)
    (pods : list A) (ctrs : list B) : Prop :=
  forall mp mc more, infix mp pods -> infix mc ctrs -> len mp + len mc <= M -> xmit mp mc more = XOk.

(* what the generic theorems ask of a recalculation function, for counts up to K *)
Definition rc_decreases (rc : Z -> Z -> Z -> Z -> option (Z * Z)) (K : Z) : Prop :=
  forall pp cp mx ml pp' cp',
    0 <= pp <= K -> 0 <= cp <= K -> 0 < mx < ml -> rc pp cp mx ml = Some (pp', cp') ->
    0 <= pp' /\ 0 <= cp' /\ pp' + cp' < pp + cp.
Definition rc_keeps_nonzero (rc : Z -> Z -> Z -> Z -> option (Z * Z)) : Prop :=
  forall pp cp mx ml pp' cp',
    0 <= pp -> 0 <= cp -> rc pp cp mx ml = Some (pp', cp') -> (pp' = 0 -> pp = 0) /\ (cp' = 0 -> cp = 0).
Definition rc_gives_up_at_min (rc : Z -> Z -> Z -> Z -> option (Z * Z)) (M : Z) : Prop :=
  forall pp cp mx ml, 0 < mx < ml -> rc pp cp mx ml = None -> pp + cp <= M.

(* ---------- interpretation I4 for the size-based transport, as a boolean ---------- *)
(* heaviest window of at most a consecutive weights *)
Fixpoint max_window (a : nat) (ws : list Z) : Z :=
  match ws with
  | [] => 0
  | _ :: r => Z.max (sumZ (firstn a ws)) (max_window a r)
  end.

(* all (a, b) with a + b <= m *)
Definition shapes (m : Z) : list (nat * nat) :=
  flat_map (fun a => map (fun b => (a, b)) (seq 0 (S (Z.to_nat m) - a))) (seq 0 (S (Z.to_nat m))).

(* every group of a consecutive pods and b consecutive containers with
   a + b <= minObjsPerMsg fits into one message, with or without the More flag *)
Definition min_chunks_fit (hdr more_cost L : Z) (wp wc : list Z) : bool :=
  (0 <=? more_cost) &&
  forallb (fun ab => msg_len hdr (max_window (fst ab) wp + max_window (snd ab) wc + more_cost) <=? L)
          (shapes min_objs_per_msg).
