(* C10 — multiplexed connections deliver each stream complete, in order and isolated.
   This file contains only statements closed by [exact], their assumptions, and examples.
   Model: Model/Mux.v (mirrors pkg/net/multiplex/mux.go); constants: Model/MuxConsts.v,
   regenerated from mux.go / ttrpc.go on every run.  Proofs: Proofs/MuxProofs.v.

   A serialisation [ws] is the list of (connection id, buffer) Write calls of one end in the
   order in which they took the trunk write lock: "any interleaving of concurrent writers"
   is "any list ws".  [trunk ws] is the byte stream they put on the trunk; [dec opened rx id]
   is the sequence of frames the reader queues for connection id out of the byte stream rx. *)
From Coq Require Import List Bool NArith.
From NRI Require Import Model.MuxConsts Model.Mux Spec.MuxSpec Proofs.MuxProofs.
Import ListNotations.
Open Scope N_scope.

(* the 32-bit big-endian header fields decode to what was encoded, for every uint32 *)
Theorem C10_be32_roundtrip : forall v, v < 4294967296 ->
  match be32 v with [a; b; c; d] => u32 a b c d = v | _ => False end.
Proof. exact be32_roundtrip. Qed.
Print Assumptions C10_be32_roundtrip.

Theorem C10_header_bytes : forall v, Forall (fun b => b < 256) (be32 v).
Proof. exact be32_range. Qed.
Print Assumptions C10_header_bytes.

(* the model's header is headerLen bytes long (constant read from mux.go) *)
Theorem C10_header_length : forall a b, header_len = lenN (be32 a ++ be32 b).
Proof. exact header_len_ok. Qed.
Print Assumptions C10_header_length.

(* mux.write terminates for every buffer and cuts it into frames that concatenate to the buffer,
   all carry the connection id, none exceeds the maximum payload, all but the last are full,
   and an empty frame is produced only for an empty buffer (which is exactly one empty frame) *)
Theorem C10_write_chunks : forall id buf,
  enc_write id buf = Some (enc_frames id buf) /\ chunked max_payload_size id buf (enc_frames id buf).
Proof. exact enc_write_ok. Qed.
Print Assumptions C10_write_chunks.

Theorem C10_write_chunks_any_max : forall mp id buf, 0 < mp ->
  enc_write_mp mp id buf = Some (enc_frames_mp mp id buf) /\ chunked mp id buf (enc_frames_mp mp id buf).
Proof. exact enc_write_total. Qed.
Print Assumptions C10_write_chunks_any_max.

(* the size-level model used for multi-megabyte correspondence cases is the frame-size
   projection of the byte-level model, for every buffer and every maximum *)
Theorem C10_sizes_model : forall mp id buf,
  enc_write_sizes_mp mp id (lenN buf) = option_map (map frame_size) (enc_write_mp mp id buf).
Proof. exact enc_write_sizes_eq. Qed.
Print Assumptions C10_sizes_model.

(* the reader's framing inverts the writer's, whatever follows on the trunk *)
Theorem C10_frame_parse : forall f rest, wf_frame f -> parse_one (frame_bytes f ++ rest) = PFrame f rest.
Proof. exact parse_one_frame. Qed.
Print Assumptions C10_frame_parse.

(* complete, in order, unmodified: for every serialisation of the writers (any number of ids,
   any sizes including 0 and multi-frame), the bytes queued for an open id are the bytes written to it *)
Theorem C10_roundtrip : forall opened ws id,
  wf_writes ws = true -> memN id opened = true ->
  concat (dec opened (trunk ws) id) = written_bytes id ws.
Proof. exact (fun opened ws id => roundtrip_bytes max_payload_size opened ws id max_payload_ok). Qed.
Print Assumptions C10_roundtrip.

(* … and the frame boundaries are those of the individual Write calls *)
Theorem C10_roundtrip_frames : forall opened ws id,
  wf_writes ws = true -> memN id opened = true ->
  dec opened (trunk ws) id = written_frames id ws.
Proof. exact (fun opened ws id => roundtrip_frames max_payload_size opened ws id max_payload_ok). Qed.
Print Assumptions C10_roundtrip_frames.

Theorem C10_roundtrip_any_max : forall mp opened ws id,
  wf_mp mp = true -> wf_writes ws = true -> memN id opened = true ->
  dec opened (trunk_mp mp ws) id = written_frames_mp mp id ws /\
  concat (dec opened (trunk_mp mp ws) id) = written_bytes id ws.
Proof. exact (fun mp opened ws id H1 H2 H3 =>
  conj (roundtrip_frames mp opened ws id H1 H2 H3) (roundtrip_bytes mp opened ws id H1 H2 H3)). Qed.
Print Assumptions C10_roundtrip_any_max.

(* never mixed: what id receives depends only on the writes made to id *)
Theorem C10_isolation : forall opened ws ws' id,
  wf_writes ws = true -> wf_writes ws' = true ->
  filter (fun w => fst w =? id) ws = filter (fun w => fst w =? id) ws' ->
  dec opened (trunk ws) id = dec opened (trunk ws') id.
Proof. exact (fun opened ws ws' id => isolation max_payload_size opened ws ws' id max_payload_ok). Qed.
Print Assumptions C10_isolation.

(* the same on the state machine with the bounded queues, for every schedule of the reader
   goroutine, Reads (with any buffers), local Writes, Closes and Opens: if no error has been latched (in
   particular no queue overflowed: the receiver kept up), the whole trunk has been consumed and the
   connection is still open and was not opened after the start (a connection opened later has missed
   what arrived before, by design), then the frames its Reads took plus what is still queued are exactly
   the frames written *)
Theorem C10_complete_when_keeping_up : forall ws qlen opened evs id s tr,
  wf_writes ws = true -> nodupN opened = true ->
  run (init_mux (trunk ws) qlen opened) evs = (s, tr) ->
  m_err s = None -> m_rx s = [] -> conn_open id s = true -> late_opened id s = false ->
  received id tr ++ queue_in id s = written_frames id ws.
Proof. exact (fun ws qlen opened evs id s tr =>
  complete_when_keeping_up max_payload_size ws qlen opened evs id s tr max_payload_ok). Qed.
Print Assumptions C10_complete_when_keeping_up.

(* WithReadQueueLength: the capacity of every incoming queue is the configured length, whatever it is (where the
   channel's capacity comes from is read from mux.go on every run: MuxConsts.queue_cap_is_configured), so the
   theorem above, which holds for every qlen, speaks about the configured length — above the default too *)
Theorem C10_queue_length_is_configured : forall rx q opened, init_mux_cfg rx q opened = init_mux rx q opened.
Proof. exact queue_length_is_configured. Qed.
Print Assumptions C10_queue_length_is_configured.

(* ---- deadlines on a logical connection.  conn.SetDeadline / SetReadDeadline / SetWriteDeadline are stubs that
   return nil (whether they are is read from mux.go on every run: MuxConsts.deadlines_are_stubs): a deadline armed
   on one connection touches neither the Mux nor the trunk all connections share ---- *)
Theorem C10_deadline_is_noop : forall id k s, fst (step s (EvDeadline id k)) = s.
Proof. exact (deadline_is_noop max_payload_size). Qed.
Print Assumptions C10_deadline_is_noop.

(* for every schedule with deadline operations anywhere, on any connections, of any kind: the final state and,
   call for call, the results of all other calls are those of the schedule without them; in particular what every
   connection has received and still has queued is the same *)
Theorem C10_deadlines_change_nothing : forall evs s,
  fst (run s evs) = fst (run s (filter not_deadline evs)) /\
  filter (fun eo => not_deadline (fst eo)) (snd (run s evs)) = snd (run s (filter not_deadline evs)).
Proof. exact (deadlines_change_nothing max_payload_size). Qed.
Print Assumptions C10_deadlines_change_nothing.

Theorem C10_deadlines_delivery_unaffected : forall evs s id,
  received id (snd (run s evs)) = received id (snd (run s (filter not_deadline evs))) /\
  queue_in id (fst (run s evs)) = queue_in id (fst (run s (filter not_deadline evs))).
Proof. exact (deadlines_delivery_unaffected max_payload_size). Qed.
Print Assumptions C10_deadlines_delivery_unaffected.

(* the variant that forwards the deadline to the shared trunk does not have the property: a read deadline armed on
   connection 1 expires, the reader fails, the Mux closes, the frame written to connection 2 is never delivered *)
Theorem C10_deadline_forwarded_refuted :
  let evs := [EvDeadline 1 DRead; EvReader; EvRead 2 true] in
  let '(s, tr) := run_var4 true true true false max_payload_size (init_mux (trunk [(2, [7; 8])]) 4 [1; 2]) evs in
  m_closed s = true /\ map snd tr = [ROk; ROk; RErr EErr] /\
  let '(s', tr') := run (init_mux (trunk [(2, [7; 8])]) 4 [1; 2]) evs in
  m_closed s' = false /\ map snd tr' = [ROk; ROk; RData [7; 8]].
Proof. exact deadline_forwarded_refuted. Qed.
Print Assumptions C10_deadline_forwarded_refuted.

(* ---- Unblock.  The reader goroutine of a Mux is started in one place, once (MuxConsts.reader_started_once, read from
   mux.go on every run); a Mux created WithBlockedRead parks it until the first Unblock (m_blocked); every other
   Unblock — on a Mux that was never blocked, or a repeated one — does nothing ---- *)
Theorem C10_unblock_noop_when_unblocked : forall s, m_blocked s = false -> fst (step s EvUnblock) = s.
Proof. exact (unblock_noop_when_unblocked max_payload_size). Qed.
Print Assumptions C10_unblock_noop_when_unblocked.

Theorem C10_unblock_idempotent : forall s, fst (step (fst (step s EvUnblock)) EvUnblock) = fst (step s EvUnblock).
Proof. exact (unblock_idempotent max_payload_size). Qed.
Print Assumptions C10_unblock_idempotent.

(* on a Mux whose reader runs, any number of Unblock calls anywhere in any schedule: the same final state and, call for
   call, the same results of all other calls; hence the same delivery on every connection *)
Theorem C10_unblocks_change_nothing : forall evs s, m_blocked s = false ->
  fst (run s evs) = fst (run s (filter not_unblock evs)) /\
  filter (fun eo => not_unblock (fst eo)) (snd (run s evs)) = snd (run s (filter not_unblock evs)).
Proof. exact (unblocks_change_nothing max_payload_size). Qed.
Print Assumptions C10_unblocks_change_nothing.

Theorem C10_unblocks_delivery_unaffected : forall evs s id, m_blocked s = false ->
  received id (snd (run s evs)) = received id (snd (run s (filter not_unblock evs))) /\
  queue_in id (fst (run s evs)) = queue_in id (fst (run s (filter not_unblock evs))).
Proof. exact (unblocks_delivery_unaffected max_payload_size). Qed.
Print Assumptions C10_unblocks_delivery_unaffected.

(* the variant in which Unblock can start a second reader on the same trunk does not have the property *)
Theorem C10_unblock_second_reader_refuted :
  let evs := [EvUnblock; EvReader; EvRead 1 true] in
  let '(s, tr) := run_var5 false max_payload_size (init_mux (trunk [(1, [7; 8; 9])]) 4 [1]) evs in
  map snd tr = [ROk; ROk; RErr EErr] /\
  let '(s', tr') := run (init_mux (trunk [(1, [7; 8; 9])]) 4 [1]) evs in
  map snd tr' = [ROk; ROk; RData [7; 8; 9]].
Proof. exact unblock_second_reader_refuted. Qed.
Print Assumptions C10_unblock_second_reader_refuted.

(* a blocked Mux: nothing is delivered until the first Unblock, everything after it; a second Unblock changes nothing *)
Example C10_example_blocked :
  reader_started_once = true /\
  let evs := [EvReader; EvRead 1 true; EvUnblock; EvReader; EvUnblock; EvRead 1 true] in
  let '(s, tr) := run (set_blocked true (init_mux (trunk [(1, [7; 8; 9])]) 4 [1])) evs in
  map snd tr = [ROk; RBlock; ROk; ROk; ROk; RData [7; 8; 9]] /\ m_blocked s = false.
Proof. vm_compute. repeat split. Qed.

(* ---- the caller's buffer (conn.Read's guard, copy and count; which of len/cap the guard tests is read
   from mux.go on every run: MuxConsts.read_checks_len) ---- *)

(* for every buffer length and capacity and every frame: Read returns the whole frame and a count within
   the buffer's LENGTH, or ENOMEM exactly when the frame is longer than the buffer *)
Theorem C10_read_within_buffer : forall blen bcap msg,
  match deliver blen bcap msg with
  | ROData n c => n = lenN msg /\ c = msg /\ n <= blen
  | RONoMem => blen < lenN msg
  end.
Proof. exact read_within_buffer. Qed.
Print Assumptions C10_read_within_buffer.

(* the same about the Read step of the state machine: it moves the state as a Read with a large buffer
   does (the frame is consumed also when ENOMEM is returned — the code's documented design) *)
Theorem C10_read_step_with_buffer : forall id pick blen bcap s,
  fst (read_buf_step id pick blen bcap s) = fst (read_step id pick s) /\
  match snd (read_buf_step id pick blen bcap s) with
  | RBuf p (ROData n c) => snd (read_step id pick s) = RData p /\ n = lenN p /\ c = p /\ n <= blen
  | RBuf p RONoMem => snd (read_step id pick s) = RData p /\ blen < lenN p
  | r => snd (read_step id pick s) = r
  end.
Proof. exact read_buf_step_spec. Qed.
Print Assumptions C10_read_step_with_buffer.

(* for every schedule: if no Read was handed a buffer shorter than the frame it took, the bytes the holder
   got are, in order and unmodified, the frames its Reads took from the queue *)
Theorem C10_delivered_is_received : forall id evs s s' tr,
  run s evs = (s', tr) -> no_enomem tr = true -> delivered id tr = concat (received id tr).
Proof. exact (delivered_is_received max_payload_size). Qed.
Print Assumptions C10_delivered_is_received.

(* the variant that guards on the CAPACITY (the code before eed8d17) does not have the property: buffer of
   length 1 and capacity 3, frame of 2 bytes: count 2 > 1, one byte lost *)
Theorem C10_read_guard_on_capacity_refuted :
  exists blen bcap msg, blen <= bcap /\
    match deliver_by false blen bcap msg with
    | ROData n c => blen < n /\ c <> msg
    | RONoMem => False
    end.
Proof. exact read_guard_on_capacity_refuted. Qed.
Print Assumptions C10_read_guard_on_capacity_refuted.

(* ---- non-vacuity ---- *)
Example C10_constants : wf_mp max_payload_size = true /\ max_payload_size = 4194314 /\ header_len = 8.
Proof. repeat split. Qed.

(* three ids (the highest uint32 among them), an empty write, multi-frame writes (maximum 4) *)
Definition ex_ws : list write :=
  [(1, [1;2;3;4;5;6;7;8;9;10]); (4294967295, []); (2, [20;21;22;23]); (1, []); (1, [11]); (2, [24;25;26;27;28])].
Example C10_example_hyps : wf_mp 4 = true /\ wf_writes ex_ws = true /\ memN 1 [1;2;4294967295] = true.
Proof. repeat split. Qed.
Example C10_example_frames :
  dec [1;2;4294967295] (trunk_mp 4 ex_ws) 1 = [[1;2;3;4];[5;6;7;8];[9;10];[];[11]] /\
  dec [1;2;4294967295] (trunk_mp 4 ex_ws) 2 = [[20;21;22;23];[24;25;26;27];[28]] /\
  dec [1;2;4294967295] (trunk_mp 4 ex_ws) 4294967295 = [[]] /\
  enc_write_sizes_mp 4 1 10 = Some [(1,4);(1,4);(1,2)] /\ enc_write_sizes_mp 4 7 0 = Some [(7,0)] /\
  enc_write_sizes 1 (3 * max_payload_size) = Some [(1,4194314);(1,4194314);(1,4194314)] /\
  enc_write_sizes 1 (max_payload_size + 1) = Some [(1,4194314);(1,1)].
Proof. vm_compute. repeat split. Qed.
(* queue length 1, reader and Reads alternating: keeps up, everything arrives *)
Example C10_example_schedule :
  let evs := [EvReader; EvRead 1 true; EvReader; EvRead 1 true; EvReader; EvRead 1 true; EvReader;
              EvReader; EvReader; EvRead 1 true; EvRead 2 true; EvReader; EvRead 1 true; EvReader;
              EvRead 2 true; EvReader] in
  let '(s, tr) := run_mp 4 (init_mux (trunk_mp 4 ex_ws) 1 [1;2]) evs in
  m_err s = None /\ m_rx s = [] /\ conn_open 2 s = true /\ late_opened 2 s = false /\
  received 2 tr ++ queue_in 2 s = [[20;21;22;23];[24;25;26;27];[28]].
Proof. vm_compute. repeat split. Qed.
(* a queue longer than the default: 260 one-byte frames queued with nobody reading and qlen 300 — no error,
   all are there; the same with the default length 256 overflows at the 257th *)
Example C10_example_qlen_above_default :
  read_queue_len = 256 /\
  let ws := map (fun k => (1, [N.of_nat k])) (seq 0 260) in
  let evs := map (fun _ => EvReader) (seq 0 260) in
  let '(s, _) := run (init_mux_cfg (trunk ws) 300 [1]) evs in
  let '(s', _) := run (init_mux_cfg (trunk ws) read_queue_len [1]) evs in
  m_err s = None /\ m_rx s = [] /\ lenN (queue_in 1 s) = 260 /\ queue_in 1 s = written_frames 1 ws /\
  m_err s' = Some EErr /\ lenN (queue_in 1 s') = 256.
Proof. vm_compute. repeat split. Qed.
(* buffers: len < frame <= cap (ENOMEM, the frame is gone), len = frame, len > frame; read_checks_len as generated *)
Example C10_example_buffers :
  read_checks_len = true /\
  let evs := [EvReader; EvReader; EvReader; EvReadB 1 true 2 8; EvReadB 1 true 4 4; EvReadB 1 true 9 16] in
  let '(s, tr) := run_mp 4 (init_mux (trunk_mp 4 [(1, [1;2;3;4;5;6;7;8;9;10])]) 8 [1]) evs in
  map snd tr = [ROk; ROk; ROk; RBuf [1;2;3;4] RONoMem; RBuf [5;6;7;8] (ROData 4 [5;6;7;8]); RBuf [9;10] (ROData 2 [9;10])] /\
  delivered 1 tr = [5;6;7;8;9;10] /\ no_enomem tr = false.
Proof. vm_compute. repeat split. Qed.
