(* C08 — a registering plugin learns of each container exactly once; sync blocks hold it.
   Only statements closed by [exact]; the model is Model/SyncLock.v (an interleaving LTS of
   acceptPluginConnections / BlockPluginSync / CreateContainer with any number of plugins and
   runtime goroutines), the proofs are in Proofs/SyncLockProofs.v.
   ASSUMED, not proved: the semantics of sync.RWMutex and sync.Mutex (the enabling conditions
   restated by C08_lock_enabling) and that each modelled step is atomic.  Real schedules are
   only sampled by the harness (driver "synclock"), whose logs are replayed through this LTS.
   [reachable s] is "some list of actions leads from the initial state to s"; the actions include
   AGReleaseAgain (Unblock called again on a block that was already released), so every statement
   below is about all interleavings WITH repeated releases; the last group of theorems says so
   explicitly. *)
From Coq Require Import String List Bool Arith.
From NRI Require Import Base.Strs Base.Assoc Model.SyncLock Spec.SyncLockSpec Proofs.SyncLockProofs.
Import ListNotations.
Open Scope string_scope.
Open Scope list_scope.

(* the RW lock in every reachable state: the reader count is the number of goroutines inside a
   block; the writer flag is set exactly while some plugin is between requestPluginSync and
   finishedPluginSync; at most one plugin is; a writer excludes readers and vice versa *)
Theorem C08_lock_invariant : forall s, reachable s ->
  readers s = length (gors s) /\
  (writer s = true <-> exists p, in_exclusive s p) /\
  (forall p q, in_exclusive s p -> in_exclusive s q -> p = q) /\
  (writer s = true -> readers s = 0 /\ forall g, ~ in_block s g) /\
  (forall g, in_block s g -> writer s = false /\ 0 < readers s).
Proof. exact lock_invariant. Qed.
Print Assumptions C08_lock_invariant.

(* the assumed sync.RWMutex semantics, as the enabling conditions of the two acquire steps *)
Theorem C08_lock_enabling : forall s s',
  (forall p, step s (APAcquire p) = Some s' -> readers s = 0 /\ writer s = false /\ writer s' = true) /\
  (forall g, step s (AGAcquire g) = Some s' -> writer s = false /\ readers s' = S (readers s)).
Proof. exact lock_enabling. Qed.
Print Assumptions C08_lock_enabling.

(* for ALL interleavings: a registered plugin and a stored container: in the snapshot xor announced
   by a creation request, and never announced twice *)
Theorem C08_exactly_once : forall s p c, reachable s -> In p (active s) -> In c (store s) ->
  ((In c (snapshot_of s p) /\ ~ In (p, c) (recv s)) \/ (~ In c (snapshot_of s p) /\ In (p, c) (recv s)))
  /\ count_occ pair_dec (recv s) (p, c) <= 1.
Proof. exact exactly_once. Qed.
Print Assumptions C08_exactly_once.

(* the same, as the executable predicate that is also evaluated on the implementation's observations *)
Theorem C08_exactly_once_observable : forall s, reachable s -> exactly_once_b (obs_of_state s) = true.
Proof. exact exactly_once_obs. Qed.
Print Assumptions C08_exactly_once_observable.

(* nobody but a registered plugin is ever handed a creation request (an instance that received one is
   still registered, or was and has been closed since) *)
Theorem C08_only_registered_receive : forall s p c, reachable s -> In (p, c) (recv s) ->
  (In p (active s) \/ exists ids, alookup p (plugs s) = Some (PClosed ids)) /\ In c (used s).
Proof. exact recv_only_registered. Qed.
Print Assumptions C08_only_registered_receive.

(* while any sync block is held no plugin is inside the exclusive section, and none of the steps
   that take the section, synchronise a plugin or activate it is enabled *)
Theorem C08_blocked_while_held : forall s, reachable s -> 0 < readers s ->
  (forall p, ~ in_exclusive s p) /\
  (forall p, step s (APAcquire p) = None /\ step s (APSnapshot p) = None /\ step s (APActivate p) = None).
Proof. exact blocked_while_held. Qed.
Print Assumptions C08_blocked_while_held.

(* once the last block is released a pending registration can proceed: its acquire step is enabled,
   or another registration holds the section and that one's next step is enabled *)
Theorem C08_release_enables : forall s p, reachable s -> readers s = 0 -> alookup p (plugs s) = Some PWaitW ->
  (exists s', step s (APAcquire p) = Some s') \/
  (exists q a s', q <> p /\ in_exclusive s q /\ In a [APSnapshot q; APActivate q; APRelease q] /\ step s a = Some s').
Proof. exact release_enables. Qed.
Print Assumptions C08_release_enables.

(* ... and having the section it completes without waiting for anybody, with the store as its snapshot *)
Theorem C08_registration_completes : forall s p, reachable s -> readers s = 0 -> writer s = false ->
  alookup p (plugs s) = Some PWaitW ->
  exists s', steps s [APAcquire p; APSnapshot p; APActivate p; APRelease p] = Some s' /\
             In p (active s') /\ alookup p (plugs s') = Some (PDone (store s)) /\
             writer s' = false /\ store s' = store s.
Proof. exact registration_completes. Qed.
Print Assumptions C08_registration_completes.

(* a log accepted by the replay is a run of the LTS, so everything above applies to its end state *)
Theorem C08_accepted_log_is_a_run : forall tr, accepts tr = true ->
  exists s, replay tr = inl s /\ reachable s /\ exactly_once_b (obs_of_state s) = true.
Proof. exact accepts_exactly_once. Qed.
Print Assumptions C08_accepted_log_is_a_run.

(* ---- failing registrations: the runtime's SyncFn returns an error (the plugin's Synchronize handler fails,
   times out, or its connection is lost during synchronisation) ---- *)

(* the failure step is enabled wherever the registration stands inside the exclusive section (before or after
   the runtime read its store); it gives the section up, the plugin is not active; afterwards any goroutine can
   take a block and every waiting registration can run to completion *)
Theorem C08_failed_registration_frees_section : forall s p, reachable s ->
  (alookup p (plugs s) = Some PHoldW \/ exists ids, alookup p (plugs s) = Some (PSnapshot ids)) ->
  exists s', step s (APFail p) = Some s' /\ reachable s' /\ writer s' = false /\ readers s' = 0 /\
    alookup p (plugs s') = Some PFailed /\ ~ In p (active s') /\ active s' = active s /\ store s' = store s /\
    (forall g, exists s'', step s' (AGAcquire g) = Some s'') /\
    (forall q, alookup q (plugs s') = Some PWaitW ->
       exists s'', steps s' [APAcquire q; APSnapshot q; APActivate q; APRelease q] = Some s'' /\ In q (active s'')).
Proof. exact failed_registration_frees_section. Qed.
Print Assumptions C08_failed_registration_frees_section.

(* a failed registration is final: never in the section again, never active, never handed a request *)
Theorem C08_failed_never_served : forall s p, reachable s -> alookup p (plugs s) = Some PFailed ->
  ~ in_exclusive s p /\ ~ In p (active s) /\ (forall c, ~ In (p, c) (recv s)) /\
  (forall a, a <> APArrive p -> In a [APAcquire p; APSnapshot p; APFail p; APActivate p; APRelease p; APClose p; APAbandon p] -> step s a = None).
Proof. exact failed_never_served. Qed.
Print Assumptions C08_failed_never_served.

(* whoever holds the exclusive section can always finish by itself: no reachable state has a stuck writer *)
Theorem C08_section_always_released : forall s q, reachable s -> in_exclusive s q ->
  exists l s', incl l [APSnapshot q; APActivate q; APRelease q] /\ steps s l = Some s' /\
               writer s' = false /\ In q (active s').
Proof. exact section_always_released. Qed.
Print Assumptions C08_section_always_released.

(* for ALL interleavings containing any number of failing registrations: failed plugins hold nothing and are
   served nothing; the writer flag still means "somebody is inside the section"; exactly-once; and
   release-enables / registration-completes hold as before *)
Theorem C08_failing_registrations_harmless : forall l s, steps init l = Some s ->
  (forall p, alookup p (plugs s) = Some PFailed ->
     ~ in_exclusive s p /\ ~ In p (active s) /\ forall c, ~ In (p, c) (recv s)) /\
  (writer s = true <-> exists p, in_exclusive s p) /\
  exactly_once_b (obs_of_state s) = true /\
  (readers s = 0 -> forall p, alookup p (plugs s) = Some PWaitW ->
     (exists s', step s (APAcquire p) = Some s') \/
     (exists q a s', q <> p /\ in_exclusive s q /\ In a [APSnapshot q; APActivate q; APRelease q] /\ step s a = Some s')) /\
  (readers s = 0 -> writer s = false -> forall p, alookup p (plugs s) = Some PWaitW ->
     exists s', steps s [APAcquire p; APSnapshot p; APActivate p; APRelease p] = Some s' /\ In p (active s')).
Proof. exact failing_registrations_harmless. Qed.
Print Assumptions C08_failing_registrations_harmless.

(* a log the replay accepts ends with every block released and every plugin instance that connected either
   registered, failed or closed: no registration is left pending *)
Theorem C08_accepted_log_leaves_nothing_pending : forall tr, accepts tr = true ->
  exists s, replay tr = inl s /\ readers s = 0 /\ writer s = false /\
    forall p pc, alookup p (plugs s) = Some pc ->
      In p (active s) \/ pc = PFailed \/ exists ids, pc = PClosed ids.
Proof. exact accepted_all_settled. Qed.
Print Assumptions C08_accepted_log_leaves_nothing_pending.

(* ---- each registration delivers at most one snapshot: in EVERY run of the LTS the snapshot step of a plugin
   instance occurs at most once (a registration whose synchronisation failed is not synchronised a second time;
   nor is a registered one), and what it is sent has no duplicates.  The executable predicate exactly_once_b
   demands the same of the implementation: po_snapshot is EVERYTHING an instance was sent in Synchronize
   requests, and must be duplicate-free ---- *)
Theorem C08_one_snapshot_per_registration : forall l s p, steps init l = Some s ->
  count_occ action_eq_dec l (APSnapshot p) <= 1.
Proof. exact one_snapshot_per_registration. Qed.
Print Assumptions C08_one_snapshot_per_registration.

Theorem C08_snapshot_without_duplicates : forall s p, reachable s -> NoDup (snapshot_of s p) /\ NoDup (store s).
Proof. exact snapshot_without_duplicates. Qed.
Print Assumptions C08_snapshot_without_duplicates.

(* a runtime that, after a failed synchronisation, synchronises the same instance again is rejected by the replay,
   and an instance that was sent container "c1" in two snapshots fails the predicate *)
Example C08_rejects_second_snapshot :
  accepts [ LBlockAcq "g"; LCreateRet "g" "c1"; LStore "g" "c1"; LBlockRel "g";
            LSyncEnter "p" ["c1"]; LSyncRecv "p" ["c1"]; LSyncRet "p" false;
            LSyncEnter "p" ["c1"]; LSyncRecv "p" ["c1"]; LSyncRet "p" true ] = false.
Proof. vm_compute. reflexivity. Qed.
Example C08_two_snapshots_not_exactly_once :
  exactly_once_b {| ob_store := ["c1"];
                    ob_plugins := [ {| po_name := "p"; po_registered := true; po_snapshot := ["c1"; "c1"]; po_creates := [] |} ] |} = false
  /\ exactly_once_b {| ob_store := ["c1"];
                    ob_plugins := [ {| po_name := "p"; po_registered := true; po_snapshot := ["c1"]; po_creates := [] |} ] |} = true.
Proof. split; vm_compute; reflexivity. Qed.

(* ---- a pending registration does not age.  The model has no clock and no deadline: the time a registration
   waits for the exclusive section is the number of steps the others take meanwhile.  For EVERY list of steps
   (of any length, of any kind) that does not contain the waiting plugin's own acquire (or its being given up): it is still waiting, and
   once no block is held and nobody is in the section its registration runs to completion — it is active, and its
   snapshot is the store of that moment ---- *)
Theorem C08_pending_registration_does_not_age : forall s l s' p, reachable s ->
  alookup p (plugs s) = Some PWaitW -> steps s l = Some s' -> ~ In (APAcquire p) l -> ~ In (APAbandon p) l ->
  alookup p (plugs s') = Some PWaitW /\
  (readers s' = 0 -> writer s' = false ->
     exists s'', steps s' [APAcquire p; APSnapshot p; APActivate p; APRelease p] = Some s'' /\
                 In p (active s'') /\ alookup p (plugs s'') = Some (PDone (store s')) /\
                 writer s'' = false /\ store s'' = store s').
Proof. exact pending_registration_ageless. Qed.
Print Assumptions C08_pending_registration_does_not_age.

(* non-vacuity: a plugin waits while a block is held through three creations by two goroutines *)
Example C08_example_long_pending : exists s s', reachable s /\ alookup "p" (plugs s) = Some PWaitW /\
  steps s [AGAcquire "h"; AGBegin "g" "c1"; AGEnd "g"; AGStore "g"; AGRelease "g";
           AGBegin "h" "c2"; AGEnd "h"; AGStore "h"; AGAcquire "g"; AGBegin "g" "c3"; AGEnd "g"; AGStore "g"; AGRelease "g";
           AGRelease "h"] = Some s' /\ readers s = 1 /\ readers s' = 0 /\ writer s' = false /\ store s' = ["c3"; "c2"; "c1"].
Proof.
  destruct (steps init [AGAcquire "g"; APArrive "p"]) as [s|] eqn:E; [|vm_compute in E; discriminate].
  exists s. assert (R : reachable s) by (eexists; exact E). vm_compute in E. inversion E; subst s.
  eexists. split; [exact R|]. split; [reflexivity|]. split; [vm_compute; reflexivity|]. vm_compute. auto.
Qed.

(* ---- block acquisition has no time bound: from the moment a registration is inside the exclusive section, for
   EVERY list of steps of any length that contains neither its failure nor its release, it is still inside, the
   writer flag is set, no block is held and no block can be acquired — there is no number of steps (no "time-out")
   after which a block would be granted while the synchronisation is still going on ---- *)
Theorem C08_no_block_granted_during_synchronisation : forall l s s' q, reachable s -> in_exclusive s q ->
  steps s l = Some s' -> ~ In (APFail q) l -> ~ In (APRelease q) l ->
  in_exclusive s' q /\ writer s' = true /\ readers s' = 0 /\ (forall g, step s' (AGAcquire g) = None).
Proof. exact no_block_during_section. Qed.
Print Assumptions C08_no_block_granted_during_synchronisation.

Example C08_example_slow_synchronisation : exists s s', reachable s /\ in_exclusive s "p" /\
  steps s [APArrive "q"; APSnapshot "p"; APArrive "r"; APActivate "p"] = Some s' /\ step s' (AGAcquire "g") = None.
Proof.
  destruct (steps init [APArrive "p"; APAcquire "p"]) as [s|] eqn:E; [|vm_compute in E; discriminate].
  exists s. assert (R : reachable s) by (eexists; exact E). vm_compute in E. inversion E; subst s.
  eexists. split; [exact R|]. split; [exists PHoldW; vm_compute; auto|]. split; vm_compute; reflexivity.
Qed.
(* a block logged as acquired between the entry and the return of SyncFn is rejected by the replay *)
Example C08_rejects_block_during_synchronisation :
  accepts [ LSyncEnter "p" []; LSyncRecv "p" []; LBlockAcq "g"; LCreateRet "g" "c"; LStore "g" "c"; LBlockRel "g"; LSyncRet "p" true ] = false.
Proof. vm_compute. reflexivity. Qed.

(* ---- an abandoned waiter: a plugin goes away while its registration waits behind sync blocks.  Giving the
   registration up changes nothing but the waiter's own program counter — readers, writer, mutex, everybody
   else are as if it had never asked —, blocks are granted as before, and once the last block is released every
   other waiting registration runs to completion.  The code's own way (keep waiting, take the section, fail at
   once, give it up) ends in exactly the same state ---- *)
Theorem C08_abandoned_waiter_leaves_no_trace : forall s p s', reachable s -> step s (APAbandon p) = Some s' ->
  reachable s' /\ alookup p (plugs s) = Some PWaitW /\ alookup p (plugs s') = Some PFailed /\
  readers s' = readers s /\ writer s' = writer s /\ mutex s' = mutex s /\ gors s' = gors s /\
  store s' = store s /\ active s' = active s /\ recv s' = recv s /\
  (forall q, q <> p -> alookup q (plugs s') = alookup q (plugs s)) /\
  (forall g s1, step s (AGAcquire g) = Some s1 -> exists s1', step s' (AGAcquire g) = Some s1') /\
  (readers s' = 0 -> writer s' = false -> forall q, alookup q (plugs s') = Some PWaitW ->
     exists s'', steps s' [APAcquire q; APSnapshot q; APActivate q; APRelease q] = Some s'' /\ In q (active s'')).
Proof. exact abandoned_waiter_leaves_no_trace. Qed.
Print Assumptions C08_abandoned_waiter_leaves_no_trace.

Theorem C08_abandon_equals_acquire_then_fail : forall s p, reachable s -> alookup p (plugs s) = Some PWaitW ->
  readers s = 0 -> writer s = false ->
  exists s1 s2, steps s [APAcquire p; APFail p] = Some s1 /\ step s (APAbandon p) = Some s2 /\ s1 = s2.
Proof. exact abandon_equals_acquire_then_fail. Qed.
Print Assumptions C08_abandon_equals_acquire_then_fail.

(* non-vacuity: A waits behind a block and is given up, B waits too; the log of the real runtime (A's turn comes after
   the release and fails at once, anonymous because its handler never ran) is accepted; a runtime in which nothing
   can be synchronised after the release leaves B pending: not accepted as a finished run *)
Example C08_example_abandoned : exists s s', reachable s /\ readers s = 1 /\ step s (APAbandon "A") = Some s' /\
  alookup "B" (plugs s') = Some PWaitW /\ readers s' = 1.
Proof.
  destruct (steps init [AGAcquire "g"; APArrive "A"; APArrive "B"]) as [s|] eqn:E; [|vm_compute in E; discriminate].
  exists s. assert (R : reachable s) by (eexists; exact E). vm_compute in E. inversion E; subst s.
  eexists. split; [exact R|]. vm_compute. auto.
Qed.
Example C08_accepts_abandoned_then_good :
  accepts [ LBlockAcq "g"; LCreateRet "g" "c1"; LStore "g" "c1"; LBlockRel "g";
            LSyncEnter "?0" ["c1"]; LSyncRet "?0" false;
            LSyncEnter "B" ["c1"]; LSyncRecv "B" ["c1"]; LSyncRet "B" true ] = true.
Proof. vm_compute. reflexivity. Qed.

(* ---- closed instances and re-registration under the same name.  Plugin ids are INSTANCES; name_of p is the
   name the code knows the instance by; [listed s] = r.plugins = the live instances and the closed ones that
   no clean-up has dropped yet ---- *)

Theorem C08_closed_instance_listed_not_live : forall s z, reachable s -> In z (zombies s) ->
  (exists ids, alookup z (plugs s) = Some (PClosed ids)) /\ ~ In z (active s) /\ In z (listed s).
Proof. exact closed_instance_listed_not_live. Qed.
Print Assumptions C08_closed_instance_listed_not_live.

(* a fresh instance is activated while a closed one is still listed, WHATEVER their names (no hypothesis about
   name_of: in particular name_of p = name_of z, the plugin that disconnected and registered again with no
   request in between): the clean-up at the activation drops the closed instance and keeps the fresh one *)
Theorem C08_reregistration_keeps_fresh_instance : forall s p z ids, reachable s -> In z (zombies s) ->
  alookup p (plugs s) = Some (PSnapshot ids) ->
  exists s', step s (APActivate p) = Some s' /\ reachable s' /\
             In p (active s') /\ In p (listed s') /\ ~ In z (listed s') /\ zombies s' = [] /\ z <> p.
Proof. exact reregistration_keeps_fresh_instance. Qed.
Print Assumptions C08_reregistration_keeps_fresh_instance.

(* ---- repeated releases: "Unblock ... Safe to call multiple times" ---- *)

(* a repeated Unblock is possible exactly when its goroutine is outside a block (it then references only
   released blocks), and does nothing at all: not to the reader count, not to anybody else's block *)
Theorem C08_repeated_release_is_noop : forall s g s', step s (AGReleaseAgain g) = Some s' -> s' = s /\ ~ in_block s g.
Proof. exact release_again_noop. Qed.
Print Assumptions C08_repeated_release_is_noop.

(* for ALL interleavings that include any number of repeated releases: the run ends in exactly the state of
   the run with the repeated releases left out; the RW-lock count is right; exactly-once holds (as the
   executable predicate and as the statement about snapshot and creation requests); and while a block is held
   no plugin is in the exclusive section and none can take it, be synchronised or be activated *)
Theorem C08_repeated_release_harmless : forall l s, steps init l = Some s ->
  steps init (without_repeats l) = Some s /\
  readers s = length (gors s) /\
  exactly_once_b (obs_of_state s) = true /\
  (forall p c, In p (active s) -> In c (store s) ->
     ((In c (snapshot_of s p) /\ ~ In (p, c) (recv s)) \/ (~ In c (snapshot_of s p) /\ In (p, c) (recv s)))
     /\ count_occ pair_dec (recv s) (p, c) <= 1) /\
  (0 < readers s ->
     (forall p, ~ in_exclusive s p) /\
     (forall p, step s (APAcquire p) = None /\ step s (APSnapshot p) = None /\ step s (APActivate p) = None)).
Proof. exact repeated_release_harmless. Qed.
Print Assumptions C08_repeated_release_harmless.

(* a repeated release can be put anywhere its goroutine is outside a block without changing where the run ends *)
Theorem C08_repeated_release_anywhere : forall l1 l2 s1 s g,
  steps init l1 = Some s1 -> ~ in_block s1 g -> steps s1 l2 = Some s ->
  steps init (l1 ++ AGReleaseAgain g :: l2) = Some s.
Proof. exact repeated_release_insert. Qed.
Print Assumptions C08_repeated_release_anywhere.

(* the situation the harness sets up: g releases again while h still holds a block; h's block stays held and
   every registration stays out *)
Theorem C08_repeated_release_keeps_others_blocked : forall s g h s', reachable s -> in_block s h ->
  step s (AGReleaseAgain g) = Some s' ->
  g <> h /\ in_block s' h /\ readers s' = readers s /\ 0 < readers s' /\
  (forall p, ~ in_exclusive s' p) /\
  (forall p, step s' (APAcquire p) = None /\ step s' (APSnapshot p) = None /\ step s' (APActivate p) = None).
Proof. exact release_again_keeps_blocked. Qed.
Print Assumptions C08_repeated_release_keeps_others_blocked.

(* non-vacuity: two blocks held, a plugin waiting, the first block released twice while the second is between
   relaying its creation and its bookkeeping (the harness's probe) *)
Definition ex_repeat : list action :=
  [AGAcquire "ga"; AGAcquire "gb"; APArrive "p"; AGBegin "gb" "cb"; AGEnd "gb";
   AGBegin "ga" "ca"; AGEnd "ga"; AGStore "ga"; AGRelease "ga"; AGReleaseAgain "ga"].

Example C08_example_repeat : exists s, steps init ex_repeat = Some s /\ reachable s /\
  in_block s "gb" /\ ~ in_block s "ga" /\ readers s = 1 /\ alookup "p" (plugs s) = Some PWaitW /\
  step s (AGReleaseAgain "ga") = Some s /\ step s (APAcquire "p") = None /\
  without_repeats ex_repeat <> ex_repeat.
Proof.
  destruct (steps init ex_repeat) as [s|] eqn:E; [|vm_compute in E; discriminate].
  exists s. split; [reflexivity|]. split; [exists ex_repeat; exact E|].
  vm_compute in E. inversion E; subst s. vm_compute.
  repeat split; try reflexivity.
  - eexists; reflexivity.
  - intros [gc H]; discriminate.
  - intros H; discriminate.
Qed.

Definition ex_probe_log (sync_early : bool) : list lev :=
  [ LBlockAcq "ga"; LBlockAcq "gb"; LCreateRet "gb" "cb"; LCreateRet "ga" "ca"; LStore "ga" "ca";
    LBlockRel "ga"; LBlockRelAgain "ga" ] ++
  (if sync_early
   then [ LSyncEnter "p" ["ca"]; LSyncRecv "p" ["ca"]; LSyncRet "p" true; LStore "gb" "cb"; LBlockRel "gb" ]
   else [ LStore "gb" "cb"; LBlockRel "gb"; LSyncEnter "p" ["ca"; "cb"]; LSyncRecv "p" ["cb"; "ca"]; LSyncRet "p" true ]).

(* the log of a correct runtime is accepted; the log of a runtime whose second Unblock releases the OTHER
   block (the plugin is synchronised while "gb" still holds its block, and never learns of "cb") is rejected,
   and so is a second release logged while the goroutine is inside a block *)
Example C08_accepts_repeated_release : accepts (ex_probe_log false) = true.
Proof. vm_compute. reflexivity. Qed.
Example C08_rejects_sync_after_stolen_release : accepts (ex_probe_log true) = false.
Proof. vm_compute. reflexivity. Qed.
Example C08_rejects_release_again_inside_block :
  accepts [LBlockAcq "g"; LBlockRelAgain "g"; LCreateRet "g" "c"; LStore "g" "c"; LBlockRel "g"] = false.
Proof. vm_compute. reflexivity. Qed.

(* non-vacuity of the failing-registration and re-registration theorems, and discrimination of the replay *)
Definition ex_fail_log (released : bool) : list lev :=
  [ LBlockAcq "g"; LCreateRet "g" "c1"; LStore "g" "c1"; LBlockRel "g";
    LSyncEnter "bad" ["c1"]; LSyncRecv "bad" ["c1"]; LSyncRet "bad" false ] ++
  (if released
   then [ LSyncEnter "p" ["c1"]; LSyncRecv "p" ["c1"]; LSyncRet "p" true;
          LBlockAcq "g"; LRecv "g" "p" "c2"; LCreateRet "g" "c2"; LStore "g" "c2"; LBlockRel "g" ]
   else []).

Example C08_accepts_failed_then_good : accepts (ex_fail_log true) = true.
Proof. vm_compute. reflexivity. Qed.

Example C08_example_failed : exists s, replay (ex_fail_log true) = inl s /\ reachable s /\
  alookup "bad" (plugs s) = Some PFailed /\ In "p" (active s) /\ ~ In "bad" (active s) /\ In ("p", "c2") (recv s).
Proof.
  destruct (C08_accepted_log_is_a_run _ C08_accepts_failed_then_good) as [s [E [R _]]].
  exists s. split; [exact E|]. split; [exact R|]. vm_compute in E. inversion E; subst s. vm_compute.
  repeat split; auto. intros H; repeat (destruct H as [H|H]; try discriminate); auto.
Qed.

Example C08_example_fail_hypothesis : exists s, reachable s /\ alookup "bad" (plugs s) = Some (PSnapshot ["c1"]) /\
  alookup "p" (plugs s) = Some PWaitW.
Proof.
  destruct (steps init [AGAcquire "g"; AGBegin "g" "c1"; AGEnd "g"; AGStore "g"; AGRelease "g"; APArrive "p"; APArrive "bad";
                        APAcquire "bad"; APSnapshot "bad"]) as [s|] eqn:E; [|vm_compute in E; discriminate].
  exists s. split; [eexists; exact E|]. vm_compute in E. inversion E; subst s. vm_compute. auto.
Qed.

(* the plugin "05-a" registers, disconnects, registers again (instance "05-a#2") with no request in between,
   then a container is created: delivered to the fresh instance only *)
Definition ex_rereg_log (delivered : bool) : list lev :=
  [ LSyncEnter "05-a" []; LSyncRecv "05-a" []; LSyncRet "05-a" true;
    LBlockAcq "g"; LRecv "g" "05-a" "c1"; LCreateRet "g" "c1"; LStore "g" "c1"; LBlockRel "g";
    LClose "05-a";
    LSyncEnter "05-a#2" ["c1"]; LSyncRecv "05-a#2" ["c1"]; LSyncRet "05-a#2" true;
    LBlockAcq "g" ] ++ (if delivered then [ LRecv "g" "05-a#2" "c2" ] else []) ++
  [ LCreateRet "g" "c2"; LStore "g" "c2"; LBlockRel "g" ].

Example C08_accepts_reregistration : accepts (ex_rereg_log true) = true.
Proof. vm_compute. reflexivity. Qed.
(* a runtime that synchronises the fresh instance but never hands it the later creation is rejected *)
Example C08_rejects_reregistered_not_served : accepts (ex_rereg_log false) = false.
Proof. vm_compute. reflexivity. Qed.

Example C08_example_reregistration : exists s, reachable s /\ In "05-a" (zombies s) /\
  alookup "05-a#2" (plugs s) = Some (PSnapshot ["c1"]) /\ name_of "05-a#2" = name_of "05-a".
Proof.
  destruct (steps init [APArrive "05-a"; APAcquire "05-a"; APSnapshot "05-a"; APActivate "05-a"; APRelease "05-a";
                        AGAcquire "g"; AGBegin "g" "c1"; AGDeliver "g" "05-a"; AGEnd "g"; AGStore "g"; AGRelease "g";
                        APClose "05-a"; APArrive "05-a#2"; APAcquire "05-a#2"; APSnapshot "05-a#2"]) as [s|] eqn:E;
    [|vm_compute in E; discriminate].
  exists s. split; [eexists; exact E|]. vm_compute in E. inversion E; subst s. vm_compute. auto.
Qed.

(* NOT the code: a clean-up keyed by NAME would drop the fresh instance together with the closed one *)
Example C08_cleanup_by_name_drops_fresh_instance :
  drop_closed_by_name ["05-a"] ["05-a"; "05-a#2"; "07-b"] = ["07-b"].
Proof. vm_compute. reflexivity. Qed.

(* ---- non-vacuity: two goroutines create containers while two plugins register ---- *)
Definition ex_log : list lev :=
  [ LBlockAcq "g1"; LCreateRet "g1" "c1"; LStore "g1" "c1"; LBlockRel "g1";
    LSyncEnter "p1" ["c1"]; LSyncRecv "p1" ["c1"]; LSyncRet "p1" true;
    LBlockAcq "g1"; LBlockAcq "g2";
    LRecv "g2" "p1" "c3"; LCreateRet "g2" "c3";
    LRecv "g1" "p1" "c2"; LCreateRet "g1" "c2"; LStore "g1" "c2"; LBlockRel "g1";
    LStore "g2" "c3"; LBlockRel "g2";
    LSyncEnter "p2" ["c3"; "c2"; "c1"]; LSyncRet "p2" false;
    LSyncEnter "p3" ["c1"; "c2"; "c3"]; LSyncRecv "p3" ["c3"; "c1"; "c2"]; LSyncRet "p3" true;
    LBlockAcq "g2"; LRecv "g2" "p3" "c4"; LRecv "g2" "p1" "c4"; LCreateRet "g2" "c4"; LStore "g2" "c4"; LBlockRel "g2" ].

Example C08_example_accepted : accepts ex_log = true.
Proof. vm_compute. reflexivity. Qed.

Example C08_example_state : exists s, replay ex_log = inl s /\ reachable s /\
  In "p1" (active s) /\ In "p3" (active s) /\ ~ In "p2" (active s) /\
  In "c1" (store s) /\ In "c1" (snapshot_of s "p1") /\ ~ In ("p1", "c1") (recv s) /\
  In "c2" (store s) /\ ~ In "c2" (snapshot_of s "p1") /\ In ("p1", "c2") (recv s) /\
  In "c4" (store s) /\ In ("p3", "c4") (recv s).
Proof.
  destruct (C08_accepted_log_is_a_run ex_log C08_example_accepted) as [s [E [R _]]].
  exists s. split; [exact E|]. split; [exact R|].
  vm_compute in E. inversion E; subst s. vm_compute.
  repeat split; auto; intros H; repeat (destruct H as [H|H]; try discriminate); auto.
Qed.

(* hypotheses of C08_blocked_while_held and C08_release_enables are satisfiable: a block is held, a plugin waits *)
Example C08_example_blocked : exists s, reachable s /\ 0 < readers s /\ alookup "p" (plugs s) = Some PWaitW.
Proof.
  destruct (steps init [AGAcquire "g"; APArrive "p"]) as [s|] eqn:E; [|vm_compute in E; discriminate].
  exists s. split; [exists [AGAcquire "g"; APArrive "p"]; exact E|]. vm_compute in E. inversion E; subst s. vm_compute. auto.
Qed.
Example C08_example_waiting : exists s, reachable s /\ readers s = 0 /\ writer s = false /\ alookup "p" (plugs s) = Some PWaitW.
Proof.
  destruct (steps init [AGAcquire "g"; AGBegin "g" "c"; AGEnd "g"; AGStore "g"; APArrive "p"; AGRelease "g"]) as [s|] eqn:E;
    [|vm_compute in E; discriminate].
  exists s. split; [eexists; exact E|]. vm_compute in E. inversion E; subst s. vm_compute. auto.
Qed.

(* the replay is discriminating: a snapshot taken while a block is held, a registered plugin that is not
   shown a creation, a creation shown to a plugin that has its container in the snapshot, and an
   activation before the block is released are all rejected *)
Example C08_rejects_sync_inside_block :
  accepts [LBlockAcq "g"; LSyncEnter "p" []; LSyncRet "p" true; LCreateRet "g" "c"; LStore "g" "c"; LBlockRel "g"] = false.
Proof. vm_compute. reflexivity. Qed.
Example C08_rejects_missed_container :
  accepts [LSyncEnter "p" []; LSyncRet "p" true; LBlockAcq "g"; LCreateRet "g" "c"; LStore "g" "c"; LBlockRel "g"] = false.
Proof. vm_compute. reflexivity. Qed.
Example C08_rejects_stale_snapshot :
  accepts [LBlockAcq "g"; LCreateRet "g" "c"; LStore "g" "c"; LBlockRel "g"; LSyncEnter "p" []; LSyncRet "p" true] = false.
Proof. vm_compute. reflexivity. Qed.
Example C08_rejects_delivery_to_unregistered :
  accepts [LBlockAcq "g"; LRecv "g" "p" "c"; LCreateRet "g" "c"; LStore "g" "c"; LBlockRel "g"] = false.
Proof. vm_compute. reflexivity. Qed.
