(* Refinement of the model of pkg/adaptation/result.go (Model/Result.v) to the abstract
   ownership ledger (Spec/AbsLedger.v): for EVERY request and EVERY chain of plugin
   responses the model fails with a conflict exactly when the abstract ledger reports one
   (C01, C02), and on success the model's ledger holds exactly the abstract ledger's keys.
   The only hypothesis is the representation invariant of Go maps: the annotation map of
   one adjustment has distinct keys. *)
From Coq Require Import String Ascii List Bool ZArith Arith Lia.
From NRI Require Import Base.Lists Base.Strs Base.Assoc Model.Types Model.Result Spec.AbsLedger
  Proofs.LedgerProofs.
Import ListNotations.
Open Scope string_scope.
Open Scope list_scope.

(* ------------------------------------------------------------------ *)
(* ledgers as sets                                                     *)
(* ------------------------------------------------------------------ *)
Definition leq (a b : list lkey) : Prop := forall x, lmem x a = lmem x b.

Lemma leq_refl a : leq a a. Proof. intros x; reflexivity. Qed.
Lemma leq_sym a b : leq a b -> leq b a. Proof. intros H x; symmetry; apply H. Qed.
Lemma leq_trans a b c : leq a b -> leq b c -> leq a c.
Proof. intros H1 H2 x. rewrite H1. apply H2. Qed.

Lemma lmem_cons k x o : lmem k (x :: o) = lkey_eqb k x || lmem k o.
Proof. reflexivity. Qed.

Lemma lkey_eqb_refl k : lkey_eqb k k = true.
Proof. destruct (lkey_eqb_spec k k); [reflexivity|contradiction]. Qed.

Lemma lkey_eqb_sym a b : lkey_eqb a b = lkey_eqb b a.
Proof. destruct (lkey_eqb_spec a b), (lkey_eqb_spec b a); congruence. Qed.

Lemma leq_cons k a b : leq a b -> leq (k :: a) (k :: b).
Proof. intros H x. rewrite !lmem_cons, H. reflexivity. Qed.

Lemma leq_lremove k a b : leq a b -> leq (lremove k a) (lremove k b).
Proof. intros H x. rewrite !lmem_lremove, H. reflexivity. Qed.

Definition releases (rs : list lkey) (o : list lkey) : list lkey := fold_left (fun o k => lremove k o) rs o.

Lemma releases_app a b o : releases (a ++ b) o = releases b (releases a o).
Proof. unfold releases. apply fold_left_app. Qed.

Lemma lmem_releases x rs o : lmem x (releases rs o) = lmem x o && negb (lmem x rs).
Proof.
  unfold releases. revert o. induction rs as [|r rs IH]; intros o; cbn [fold_left].
  - cbn. rewrite andb_true_r. reflexivity.
  - rewrite IH, lmem_lremove, lmem_cons, (lkey_eqb_sym x r).
    destruct (lmem x o), (lkey_eqb r x), (lmem x rs); reflexivity.
Qed.

Lemma leq_releases rs a b : leq a b -> leq (releases rs a) (releases rs b).
Proof. intros H x. rewrite !lmem_releases, H. reflexivity. Qed.

Lemma lmem_In x l : lmem x l = true <-> In x l.
Proof. apply Model.Types.lmem_In. Qed.

Lemma lmem_false_notin x l : lmem x l = false <-> ~ In x l.
Proof.
  split.
  - intros H Hi. apply lmem_In in Hi. congruence.
  - intros H. destruct (lmem x l) eqn:E; [|reflexivity]. apply lmem_In in E. contradiction.
Qed.

Lemma lmem_app x a b : lmem x (a ++ b) = lmem x a || lmem x b.
Proof. unfold lmem. apply existsb_app. Qed.

(* ------------------------------------------------------------------ *)
(* abs_claims: characterisation, congruence, composition               *)
(* ------------------------------------------------------------------ *)
Lemma abs_claims_app a b o :
  abs_claims (a ++ b) o =
  match abs_claims a o with (true, o1) => abs_claims b o1 | (false, o1) => (false, o1) end.
Proof.
  revert o. induction a as [|k r IH]; intros o; cbn [app abs_claims]; [reflexivity|].
  destruct (lmem k o); [reflexivity|]. apply IH.
Qed.

Lemma abs_claims_leq ks a b :
  leq a b -> fst (abs_claims ks a) = fst (abs_claims ks b) /\ leq (snd (abs_claims ks a)) (snd (abs_claims ks b)).
Proof.
  revert a b. induction ks as [|k r IH]; intros a b H; cbn [abs_claims].
  - split; [reflexivity|exact H].
  - rewrite <- (H k). destruct (lmem k a); [split; [reflexivity|exact H]|].
    apply IH. apply leq_cons. exact H.
Qed.

(* the ledger after a successful group of claims *)
Lemma abs_claims_ok_mem ks o o' :
  abs_claims ks o = (true, o') -> forall x, lmem x o' = lmem x o || lmem x ks.
Proof.
  revert o. induction ks as [|k r IH]; intros o H x; cbn [abs_claims] in H.
  - inversion H; subst. cbn. rewrite orb_false_r. reflexivity.
  - destruct (lmem k o) eqn:Hk; [discriminate|]. rewrite (IH _ H x), !lmem_cons.
    destruct (lkey_eqb x k), (lmem x o), (lmem x r); reflexivity.
Qed.

(* success = the claims are pairwise distinct and none is held *)
Lemma abs_claims_true_iff ks o :
  fst (abs_claims ks o) = true <-> NoDup ks /\ forall k, In k ks -> lmem k o = false.
Proof.
  revert o. induction ks as [|k r IH]; intros o; cbn [abs_claims].
  - split; [intros _; split; [constructor|intros k []]|reflexivity].
  - destruct (lmem k o) eqn:Hk; cbn [fst].
    + split; [discriminate|]. intros [_ Hf]. rewrite (Hf k (or_introl eq_refl)) in Hk. discriminate.
    + rewrite IH. split.
      * intros [Hnd Hf]. split.
        -- constructor; [|exact Hnd]. intros Hin. specialize (Hf k Hin). rewrite lmem_cons, lkey_eqb_refl in Hf. discriminate.
        -- intros x [<-|Hx]; [exact Hk|]. specialize (Hf x Hx). rewrite lmem_cons in Hf. apply orb_false_iff in Hf. tauto.
      * intros [Hnd Hf]. inversion Hnd as [|? ? Hnk Hr]; subst. split; [exact Hr|].
        intros x Hx. rewrite lmem_cons, (Hf x (or_intror Hx)), orb_false_r.
        destruct (lkey_eqb_spec x k) as [->|_]; [contradiction|reflexivity].
Qed.

(* releasing keys that a group does not claim commutes with the group's claims *)
Lemma abs_claims_releases_commute ks rs o :
  (forall k, In k rs -> ~ In k ks) ->
  fst (abs_claims ks (releases rs o)) = fst (abs_claims ks o) /\
  (fst (abs_claims ks o) = true -> leq (snd (abs_claims ks (releases rs o))) (releases rs (snd (abs_claims ks o)))).
Proof.
  intros Hd.
  assert (Hfst : fst (abs_claims ks (releases rs o)) = fst (abs_claims ks o)).
  { destruct (fst (abs_claims ks o)) eqn:E.
    - apply abs_claims_true_iff in E. destruct E as [Hnd Hf]. apply abs_claims_true_iff. split; [exact Hnd|].
      intros k Hk. rewrite lmem_releases, (Hf k Hk). reflexivity.
    - destruct (fst (abs_claims ks (releases rs o))) eqn:E2; [|reflexivity].
      apply abs_claims_true_iff in E2. destruct E2 as [Hnd Hf].
      assert (fst (abs_claims ks o) = true); [|congruence].
      apply abs_claims_true_iff. split; [exact Hnd|]. intros k Hk. specialize (Hf k Hk).
      rewrite lmem_releases in Hf. apply andb_false_iff in Hf. destruct Hf as [Hf|Hf]; [exact Hf|].
      apply negb_false_iff, lmem_In in Hf. exfalso. apply (Hd k Hf Hk). }
  split; [exact Hfst|]. intros Hok x.
  destruct (abs_claims ks o) as [b1 o1] eqn:E1. destruct (abs_claims ks (releases rs o)) as [b2 o2] eqn:E2.
  cbn [fst snd] in *. subst b1 b2.
  rewrite (abs_claims_ok_mem _ _ _ E2 x), !lmem_releases, (abs_claims_ok_mem _ _ _ E1 x).
  destruct (lmem x rs) eqn:Hr; cbn [negb]; [|rewrite !andb_true_r; reflexivity].
  rewrite !andb_false_r. cbn [orb]. apply lmem_In in Hr. apply lmem_false_notin. apply Hd. exact Hr.
Qed.

(* one group as the abstract ledger processes it *)
Definition abs_step (rs cs : list lkey) (o : list lkey) : bool * list lkey := abs_claims cs (releases rs o).

Lemma abs_step_leq rs cs a b :
  leq a b -> fst (abs_step rs cs a) = fst (abs_step rs cs b) /\ leq (snd (abs_step rs cs a)) (snd (abs_step rs cs b)).
Proof. intros H. apply abs_claims_leq. apply leq_releases. exact H. Qed.

(* the kinds of one adjustment processed one after the other (as result.go does) *)
Fixpoint seq_run (kinds : list (list lkey * list lkey)) (o : list lkey) : bool * list lkey :=
  match kinds with
  | [] => (true, o)
  | (rs, cs) :: rest =>
      match abs_step rs cs o with
      | (true, o1) => seq_run rest o1
      | (false, o1) => (false, o1)
      end
  end.

Fixpoint independent (kinds : list (list lkey * list lkey)) : Prop :=
  match kinds with
  | [] => True
  | (_, cs) :: rest => (forall k, In k (concat (map fst rest)) -> ~ In k cs) /\ independent rest
  end.

Lemma seq_run_leq kinds a b :
  leq a b -> fst (seq_run kinds a) = fst (seq_run kinds b) /\
             (fst (seq_run kinds a) = true -> leq (snd (seq_run kinds a)) (snd (seq_run kinds b))).
Proof.
  revert a b. induction kinds as [|[rs cs] rest IH]; intros a b H; cbn [seq_run].
  - split; [reflexivity|intros _; exact H].
  - destruct (abs_step_leq rs cs a b H) as [Hf Hl].
    destruct (abs_step rs cs a) as [[|] a1], (abs_step rs cs b) as [[|] b1]; cbn [fst snd] in *; try discriminate.
    + apply IH. exact Hl.
    + split; [reflexivity|discriminate].
Qed.

(* all releases first, then all claims (the abstract ledger) = kind by kind (the code),
   when a later kind never releases what an earlier kind claims *)
Lemma seq_run_is_abs_step kinds o :
  independent kinds ->
  fst (seq_run kinds o) = fst (abs_step (concat (map fst kinds)) (concat (map snd kinds)) o) /\
  (fst (seq_run kinds o) = true ->
   leq (snd (seq_run kinds o)) (snd (abs_step (concat (map fst kinds)) (concat (map snd kinds)) o))).
Proof.
  revert o. induction kinds as [|[rs cs] rest IH]; intros o Hind; cbn [seq_run map concat fst snd].
  - unfold abs_step. cbn. split; [reflexivity|intros _; apply leq_refl].
  - destruct Hind as [Hd Hrest]. unfold abs_step in *. rewrite releases_app, abs_claims_app.
    set (R := concat (map fst rest)) in *. set (C := concat (map snd rest)) in *.
    destruct (abs_claims_releases_commute cs R (releases rs o) Hd) as [Hf Hl].
    destruct (abs_claims cs (releases rs o)) as [b1 o1] eqn:E1.
    destruct (abs_claims cs (releases R (releases rs o))) as [b2 o2] eqn:E2.
    cbn [fst snd] in Hf, Hl. subst b2. destruct b1.
    + specialize (Hl eq_refl). destruct (IH o1 Hrest) as [IHf IHl].
      destruct (abs_claims_leq C o2 (releases R o1) Hl) as [Hcf Hcl].
      split.
      * rewrite IHf. symmetry. exact Hcf.
      * intros Hok. eapply leq_trans; [apply IHl; exact Hok|]. apply leq_sym. exact Hcl.
    + cbn [fst]. split; [reflexivity|discriminate].
Qed.

(* claim / claim_all of the model are abs_claims *)
Lemma claim_all_abs ks o :
  match claim_all ks o with
  | Ok o' => abs_claims ks o = (true, o')
  | Err _ => fst (abs_claims ks o) = false
  end.
Proof.
  revert o. induction ks as [|k r IH]; intros o; cbn [claim_all abs_claims]; [reflexivity|].
  unfold claim. destruct (lmem k o); [reflexivity|]. apply IH.
Qed.

(* ------------------------------------------------------------------ *)
(* frame: what a successful kind does not name, it does not touch      *)
(* ------------------------------------------------------------------ *)
Lemma abs_step_mem rs cs o o' :
  abs_step rs cs o = (true, o') -> forall x, lmem x o' = (lmem x o && negb (lmem x rs)) || lmem x cs.
Proof.
  unfold abs_step. intros H x. rewrite (abs_claims_ok_mem _ _ _ H x), lmem_releases. reflexivity.
Qed.

Lemma step_frame rs cs o oa o' :
  leq o oa -> fst (abs_step rs cs oa) = true -> leq o' (snd (abs_step rs cs oa)) ->
  forall x, ~ In x rs -> ~ In x cs -> lmem x o' = lmem x o.
Proof.
  intros Hl Hok Hl' x Hr Hc. rewrite Hl', Hl.
  destruct (abs_step rs cs oa) as [b o2] eqn:E. cbn [fst snd] in *. subst b.
  rewrite (abs_step_mem _ _ _ _ E x).
  apply lmem_false_notin in Hr. apply lmem_false_notin in Hc. rewrite Hr, Hc, andb_true_r, orb_false_r. reflexivity.
Qed.

(* ------------------------------------------------------------------ *)
(* the keyed families: adjustMounts / adjustEnv / adjustDevices          *)
(* ------------------------------------------------------------------ *)
Lemma marked_keys_map {E} (ekey : E -> string) es : marked_keys (map ekey es) = k_dels ekey es.
Proof.
  unfold marked_keys, k_dels. induction es as [|e r IH]; cbn [map filter]; [reflexivity|].
  destruct (marked (ekey e)); cbn [map]; rewrite IH; reflexivity.
Qed.

Lemma plain_keys_map {E} (ekey : E -> string) es : plain_keys (map ekey es) = k_mods ekey es.
Proof.
  unfold plain_keys, k_mods, k_adds. induction es as [|e r IH]; cbn [map filter]; [reflexivity|].
  destruct (marked (ekey e)); cbn [negb map]; rewrite IH; reflexivity.
Qed.

Section KeyedLedger.
Variables (E W : Type) (ekey : E -> string) (wkey : W -> string) (inj : E -> W) (mk : string -> item).
Hypothesis mk_inj : forall a b, mk a = mk b -> a = b.

(* held in the ledger => the reply carries a set for it (so that a removal finds it) *)
Definition OI (id : string) (reply : list E) (o : ledger) : Prop :=
  forall k, lmem (id, mk k) o = true -> In k (k_mods ekey reply).

Let K (id : string) (l : list string) : list lkey := map (fun k => (id, mk k)) l.

Lemma lmem_K id k l : lmem (id, mk k) (K id l) = smem k l.
Proof.
  unfold K. induction l as [|x r IH]; cbn [map]; [reflexivity|].
  rewrite lmem_cons, smem_cons, IH. f_equal.
  destruct (lkey_eqb_spec (id, mk k) (id, mk x)) as [H|H]; destruct (String.eqb_spec k x) as [H2|H2]; try reflexivity.
  - inversion H as [H1]. apply mk_inj in H1. contradiction.
  - subst. contradiction.
Qed.

Lemma lmem_K_other id x l : (forall k, x <> (id, mk k)) -> lmem x (K id l) = false.
Proof.
  intros H. apply lmem_false_notin. unfold K. intros Hi. apply in_map_iff in Hi. destruct Hi as [k [Hk _]].
  apply (H k). symmetry. exact Hk.
Qed.

Lemma k_mods_in_keys (reply : list E) k : In k (k_mods ekey reply) -> In k (map ekey reply).
Proof.
  unfold k_mods, k_adds. intros H. apply in_map_iff in H. destruct H as [e [<- He]].
  apply filter_In in He. apply in_map. tauto.
Qed.

(* clearing the entries found in the reply = releasing the keys, as far as held keys go *)
Lemma k_clear_is_release id d reply o :
  OI id reply o -> leq (k_clear ekey mk id d reply o) (releases (K id d) o).
Proof.
  intros Hoi x. rewrite lmem_releases.
  unfold k_clear. revert o Hoi. induction reply as [|e r IH] using rev_ind; intros o Hoi.
  - cbn [fold_left]. destruct (lmem x o) eqn:Hx; [|reflexivity]. cbn [andb].
    (* nothing is held for this family: x cannot be among the released keys *)
    destruct (lmem x (K id d)) eqn:Hk; [|reflexivity]. exfalso.
    apply lmem_In in Hk. unfold K in Hk. apply in_map_iff in Hk. destruct Hk as [k [<- _]].
    apply Hoi in Hx. cbn in Hx. exact Hx.
  - (* general case: use the closed form of k_clear *)
    clear IH.
    assert (Hc : forall l oo, lmem x (fold_left (fun o0 e0 => if smem (ekey e0) d then lremove (id, mk (ekey e0)) o0 else o0) l oo)
                 = lmem x oo && negb (existsb (fun e0 => smem (ekey e0) d && lkey_eqb (id, mk (ekey e0)) x) l)).
    { induction l as [|e0 l0 IHl]; intros oo; cbn [fold_left existsb]; [rewrite andb_true_r; reflexivity|].
      rewrite IHl. destruct (smem (ekey e0) d); cbn [andb orb]; [|reflexivity].
      rewrite lmem_lremove. destruct (lkey_eqb (id, mk (ekey e0)) x), (lmem x oo); reflexivity. }
    rewrite Hc. destruct (lmem x o) eqn:Hx; [|reflexivity]. cbn [andb]. f_equal.
    destruct (lmem x (K id d)) eqn:Hk.
    + apply lmem_In in Hk. unfold K in Hk. apply in_map_iff in Hk. destruct Hk as [k [<- Hkd]].
      pose proof (k_mods_in_keys _ _ (Hoi k Hx)) as Hin. apply in_map_iff in Hin. destruct Hin as [e0 [He0 Hin]].
      apply existsb_exists. exists e0. split; [exact Hin|]. rewrite He0, lkey_eqb_refl, andb_true_r.
      apply smem_In. exact Hkd.
    + destruct (existsb _ (r ++ [e])) eqn:Hex; [|reflexivity]. exfalso.
      apply existsb_exists in Hex. destruct Hex as [e0 [_ He0]]. apply andb_true_iff in He0. destruct He0 as [Hd He].
      destruct (lkey_eqb_spec (id, mk (ekey e0)) x) as [<-|]; [|discriminate].
      rewrite lmem_K in Hk. congruence.
Qed.

Lemma kstep_ledger id es reply view o oa :
  OI id reply o -> leq o oa ->
  match kstep ekey wkey inj mk id es reply view o with
  | Err _ => fst (abs_step (K id (k_dels ekey es)) (K id (k_mods ekey es)) oa) = false
  | Ok (reply', _, o') =>
      fst (abs_step (K id (k_dels ekey es)) (K id (k_mods ekey es)) oa) = true /\
      leq o' (snd (abs_step (K id (k_dels ekey es)) (K id (k_mods ekey es)) oa)) /\
      OI id reply' o'
  end.
Proof.
  intros Hoi Hl. destruct es as [|e0 es0].
  - cbn. split; [reflexivity|]. split; [exact Hl|exact Hoi].
  - remember (e0 :: es0) as es eqn:Ees.
    assert (Hks : kstep ekey wkey inj mk id es reply view o =
                  match claim_all (K id (k_mods ekey es)) (k_clear ekey mk id (k_dels ekey es) reply o) with
                  | Err e => Err e
                  | Ok o2 => Ok (filter (fun e => negb (smem (ekey e) (k_dels ekey es))) reply ++ k_adds ekey es ++ k_lone ekey es,
                                 filter (fun w => negb (smem (wkey w) (k_dels ekey es)) && negb (smem (wkey w) (k_mods ekey es))) view ++ map inj (k_adds ekey es), o2)
                  end) by (subst es; reflexivity).
    rewrite Hks. clear Hks Ees e0 es0.
    set (d := k_dels ekey es). set (m := k_mods ekey es).
    pose proof (k_clear_is_release id d reply o Hoi) as Hcl.
    assert (Hl2 : leq (k_clear ekey mk id d reply o) (releases (K id d) oa)).
    { eapply leq_trans; [exact Hcl|]. apply leq_releases. exact Hl. }
    destruct (abs_claims_leq (K id m) _ _ Hl2) as [Hf Hs].
    pose proof (claim_all_abs (K id m) (k_clear ekey mk id d reply o)) as Hca.
    unfold abs_step. destruct (claim_all (K id m) _) as [o2|e].
    + rewrite Hca in Hf, Hs. cbn [fst snd] in Hf, Hs. split; [symmetry; exact Hf|]. split; [exact Hs|].
      (* the invariant for the new reply *)
      intros k Hk. rewrite (abs_claims_ok_mem _ _ _ Hca (id, mk k)), Hcl, lmem_releases, !lmem_K in Hk.
      unfold k_mods. rewrite !(fun a b => eq_refl : k_adds ekey (a ++ b) = filter _ (a ++ b)).
      unfold k_adds. rewrite !filter_app, !map_app, !in_app_iff.
      apply orb_true_iff in Hk. destruct Hk as [Hk|Hk].
      * apply andb_true_iff in Hk. destruct Hk as [Hh Hnd]. left.
        apply Hoi in Hh. unfold k_mods, k_adds in Hh. apply in_map_iff in Hh. destruct Hh as [e [He Hin]].
        apply in_map_iff. exists e. split; [exact He|]. apply filter_In in Hin. destruct Hin as [Hin Hm].
        apply filter_In. split; [|exact Hm]. apply filter_In. split; [exact Hin|]. rewrite He. exact Hnd.
      * right. left. apply smem_In in Hk. unfold m, k_mods, k_adds in Hk.
        apply in_map_iff in Hk. destruct Hk as [e [He Hin]]. apply in_map_iff. exists e. split; [exact He|].
        apply filter_In in Hin. apply filter_In. split; [apply filter_In; tauto|tauto].
    + rewrite <- Hf. exact Hca.
Qed.
End KeyedLedger.

Arguments OI {E}.
Arguments kstep_ledger {E W}.

(* ------------------------------------------------------------------ *)
(* annotations (map typed): adjustAnnotations                           *)
(* ------------------------------------------------------------------ *)
Definition KA (id : string) (l : list string) : list lkey := map (fun k => (id, IAnn k)) l.

Lemma IAnn_inj a b : IAnn a = IAnn b -> a = b. Proof. congruence. Qed.

Lemma lmem_KA id k l : lmem (id, IAnn k) (KA id l) = smem k l.
Proof. apply (lmem_K IAnn IAnn_inj). Qed.

(* the ledger part of the loop over the annotations that are set *)
Fixpoint ann_sets_ledger (id : string) (D ks : list string) (o : ledger) : res ledger :=
  match ks with
  | [] => Ok o
  | k :: r =>
      let o1 := if smem k D then lremove (id, IAnn k) o else o in
      match claim (id, IAnn k) o1 with Err e => Err e | Ok o2 => ann_sets_ledger id D r o2 end
  end.

Lemma ann_apply_sets_ledger id D sets view reply o :
  match ann_apply_sets id D sets view reply o with
  | Err e => ann_sets_ledger id D (map fst sets) o = Err e
  | Ok (_, _, o') => ann_sets_ledger id D (map fst sets) o = Ok o'
  end.
Proof.
  revert view reply o. induction sets as [|[k v] r IH]; intros view reply o; cbn [ann_apply_sets ann_sets_ledger map fst].
  - reflexivity.
  - destruct (smem k D); cbn [claim].
    + unfold claim. destruct (lmem (id, IAnn k) (lremove (id, IAnn k) o)); [reflexivity|]. apply IH.
    + unfold claim. destruct (lmem (id, IAnn k) o); [reflexivity|]. apply IH.
Qed.

Lemma ann_apply_lone_ledger id lone view reply o :
  snd (ann_apply_lone id lone view reply o) = releases (KA id lone) o.
Proof.
  revert view reply o. induction lone as [|k r IH]; intros view reply o; cbn [ann_apply_lone KA map]; [reflexivity|].
  rewrite IH. reflexivity.
Qed.

(* pending releases: marked for removal, not yet reached by the loop *)
Definition pend (id : string) (D P : list string) (x : lkey) : bool := lmem x (KA id D) && negb (lmem x (KA id P)).

Lemma lmem_KA_other id x l : (forall k, x <> (id, IAnn k)) -> lmem x (KA id l) = false.
Proof.
  intros H. apply lmem_false_notin. unfold KA. intros Hi. apply in_map_iff in Hi. destruct Hi as [k [Hk _]].
  apply (H k). symmetry. exact Hk.
Qed.

Lemma ann_sets_abs id D ks : forall P o u,
  NoDup ks -> (forall k, In k ks -> ~ In k P) ->
  (forall x, lmem x u = lmem x o && negb (pend id D P x)) ->
  match ann_sets_ledger id D ks o with
  | Err _ => fst (abs_claims (KA id ks) u) = false
  | Ok o' => exists u', abs_claims (KA id ks) u = (true, u') /\
                        forall x, lmem x u' = lmem x o' && negb (pend id D (rev ks ++ P) x)
  end.
Proof.
  induction ks as [|k r IH]; intros P o u Hnd Hfresh Hrel; cbn [ann_sets_ledger KA map abs_claims].
  - exists u. split; [reflexivity|exact Hrel].
  - inversion Hnd as [|? ? Hk Hr]; subst.
    assert (HkP : smem k P = false) by (apply smem_false_notin; apply Hfresh; left; reflexivity).
    assert (Hheld : lmem (id, IAnn k) u = lmem (id, IAnn k) (if smem k D then lremove (id, IAnn k) o else o)).
    { rewrite Hrel. unfold pend. rewrite !lmem_KA, HkP. cbn [negb]. rewrite andb_true_r.
      destruct (smem k D); cbn [negb].
      - rewrite andb_false_r, lmem_lremove, lkey_eqb_refl. cbn. rewrite andb_false_r. reflexivity.
      - rewrite andb_true_r. reflexivity. }
    unfold claim. rewrite <- Hheld. destruct (lmem (id, IAnn k) u) eqn:Hu; [reflexivity|].
    specialize (IH (k :: P) ((id, IAnn k) :: (if smem k D then lremove (id, IAnn k) o else o)) ((id, IAnn k) :: u) Hr).
    fold (KA id r) in *.
    assert (Hfresh' : forall k0, In k0 r -> ~ In k0 (k :: P)).
    { intros k0 Hk0 [<-|Hin]; [contradiction|]. apply (Hfresh k0 (or_intror Hk0) Hin). }
    assert (Hrel' : forall x, lmem x ((id, IAnn k) :: u) =
                              lmem x ((id, IAnn k) :: (if smem k D then lremove (id, IAnn k) o else o)) && negb (pend id D (k :: P) x)).
    { intros x. rewrite !lmem_cons, Hrel. unfold pend. cbn [KA map]. rewrite lmem_cons.
      destruct (lkey_eqb_spec x (id, IAnn k)) as [->|Hne]; cbn [orb].
      - rewrite andb_false_r. reflexivity.
      - cbn [negb]. fold (KA id P). f_equal.
        destruct (smem k D); [|reflexivity]. rewrite lmem_lremove.
        destruct (lkey_eqb_spec (id, IAnn k) x) as [E|_]; [symmetry in E; contradiction|]. rewrite andb_true_r. reflexivity. }
    specialize (IH Hfresh' Hrel').
    destruct (ann_sets_ledger id D r _) as [o'|e]; [|exact IH].
    destruct IH as [u' [Hu' Hm]]. exists u'. split; [exact Hu'|].
    intros x. rewrite Hm. cbn [rev]. rewrite <- app_assoc. reflexivity.
Qed.

Lemma ann_keys_split (ann : list (string * string)) :
  map fst (ann_sets ann) = plain_keys (map fst ann) /\ ann_dels ann = marked_keys (map fst ann).
Proof.
  unfold ann_sets, ann_dels, plain_keys, marked_keys. split.
  - induction ann as [|e r IH]; cbn [map filter]; [reflexivity|]. destruct (marked (fst e)); cbn [negb map]; rewrite IH; reflexivity.
  - induction ann as [|e r IH]; cbn [map filter]; [reflexivity|]. destruct (marked (fst e)); cbn [map]; rewrite IH; reflexivity.
Qed.

Lemma NoDup_filter {A} (p : A -> bool) l : NoDup l -> NoDup (filter p l).
Proof.
  induction l as [|x r IH]; intros H; cbn [filter]; [constructor|]. inversion H as [|? ? Hx Hr]; subst.
  destruct (p x); [constructor; [intros Hi; apply filter_In in Hi; tauto|apply IH; exact Hr]|apply IH; exact Hr].
Qed.

Lemma adjust_annotations_ledger id ann view reply o oa :
  NoDup (map fst ann) -> leq o oa ->
  match adjust_annotations id ann view reply o with
  | Err _ => fst (abs_step (KA id (marked_keys (map fst ann))) (KA id (plain_keys (map fst ann))) oa) = false
  | Ok (_, _, o') =>
      fst (abs_step (KA id (marked_keys (map fst ann))) (KA id (plain_keys (map fst ann))) oa) = true /\
      leq o' (snd (abs_step (KA id (marked_keys (map fst ann))) (KA id (plain_keys (map fst ann))) oa))
  end.
Proof.
  intros Hnd Hl. unfold adjust_annotations. destruct (ann_keys_split ann) as [Hs Hd].
  pose proof (ann_apply_sets_ledger id (ann_dels ann) (ann_sets ann) view reply o) as Hled.
  set (D := ann_dels ann) in *. set (ks := map fst (ann_sets ann)) in *.
  rewrite <- Hs, <- Hd. fold D ks.
  assert (Hndk : NoDup ks) by (rewrite Hs; apply NoDup_filter; exact Hnd).
  assert (Hrel : forall x, lmem x (releases (KA id D) oa) = lmem x o && negb (pend id D [] x)).
  { intros x. rewrite lmem_releases, Hl. unfold pend. cbn [KA map lmem existsb negb]. rewrite andb_true_r. reflexivity. }
  pose proof (ann_sets_abs id D ks [] o (releases (KA id D) oa) Hndk (fun _ _ H => H) Hrel) as Habs.
  unfold abs_step.
  destruct (ann_apply_sets id D (ann_sets ann) view reply o) as [[[view1 reply1] o1]|e].
  - rewrite Hled in Habs. destruct Habs as [u' [Hu' Hm]]. rewrite Hu'. cbn [fst snd].
    destruct (ann_apply_lone id _ view1 reply1 o1) as [[v2 r2] o2] eqn:El.
    split; [reflexivity|].
    pose proof (ann_apply_lone_ledger id (filter (fun k => negb (smem k ks)) D) view1 reply1 o1) as Hlone.
    rewrite El in Hlone. cbn [snd] in Hlone. subst o2. fold ks.
    intros x. rewrite lmem_releases, Hm. f_equal. f_equal. rewrite app_nil_r.
    unfold pend.
    destruct (lmem x (KA id (filter (fun k => negb (smem k ks)) D))) eqn:E.
    + apply lmem_In in E. unfold KA in E. apply in_map_iff in E. destruct E as [k [<- Hk]].
      apply filter_In in Hk. destruct Hk as [HkD Hkn]. fold (KA id D) (KA id (rev ks)).
      rewrite !lmem_KA. apply smem_In in HkD. rewrite HkD. cbn [andb].
      apply negb_true_iff in Hkn. apply smem_false_notin in Hkn.
      assert (smem k (rev ks) = false) as ->; [|reflexivity].
      apply smem_false_notin. intros Hi. apply Hkn. apply in_rev. exact Hi.
    + symmetry. apply andb_false_iff.
      destruct (lmem x (KA id D)) eqn:ED; [right|left; reflexivity].
      apply lmem_In in ED. unfold KA in ED. apply in_map_iff in ED. destruct ED as [k [<- HkD]].
      apply negb_false_iff. fold (KA id (rev ks)). rewrite lmem_KA.
      apply lmem_false_notin in E. apply smem_In. apply in_rev. rewrite rev_involutive.
      destruct (smem k ks) eqn:Es; [apply smem_In; exact Es|]. exfalso. apply E.
      unfold KA. apply (in_map (fun k0 => (id, IAnn k0))). apply filter_In. split; [exact HkD|]. rewrite Es. reflexivity.
  - rewrite Hled in Habs. exact Habs.
Qed.

(* ------------------------------------------------------------------ *)
(* resources: adjustResources / updateResources claim what res_claims lists, in that order *)
(* ------------------------------------------------------------------ *)
Definition has_scalar (src : list (sfield * sval)) (f : sfield) : bool :=
  match flookup f src with Some _ => true | None => false end.

Lemma claim_scalars_abs id fs src dst o :
  match claim_scalars id fs src dst o with
  | (Ok _, o') => abs_claims (map (fun f => (id, IScal f)) (filter (has_scalar src) fs)) o = (true, o')
  | (Err _, o') => abs_claims (map (fun f => (id, IScal f)) (filter (has_scalar src) fs)) o = (false, o')
  end.
Proof.
  revert dst o. induction fs as [|f r IH]; intros dst o; cbn [claim_scalars filter map abs_claims]; [reflexivity|].
  assert (Hh : has_scalar src f = match flookup f src with Some _ => true | None => false end) by reflexivity.
  rewrite Hh. clear Hh. destruct (flookup f src) as [v|]; [|apply IH].
  cbn [map abs_claims]. unfold claim. destruct (lmem (id, IScal f) o); [reflexivity|]. apply IH.
Qed.

Lemma claim_hp_abs id hp dst o :
  match claim_hp id hp dst o with
  | (Ok _, o') => abs_claims (map (fun e => (id, IHp (fst e))) hp) o = (true, o')
  | (Err _, o') => abs_claims (map (fun e => (id, IHp (fst e))) hp) o = (false, o')
  end.
Proof.
  revert dst o. induction hp as [|[s l] r IH]; intros dst o; cbn [claim_hp map abs_claims fst]; [reflexivity|].
  unfold claim. destruct (lmem (id, IHp s) o); [reflexivity|]. apply IH.
Qed.

Lemma claim_unified_abs id uni dst o :
  match claim_unified id uni dst o with
  | (Ok _, o') => abs_claims (map (fun e => (id, IUni (fst e))) uni) o = (true, o')
  | (Err _, o') => abs_claims (map (fun e => (id, IUni (fst e))) uni) o = (false, o')
  end.
Proof.
  revert dst o. induction uni as [|[k v] r IH]; intros dst o; cbn [claim_unified map abs_claims fst]; [reflexivity|].
  unfold claim. destruct (lmem (id, IUni k) o); [reflexivity|]. apply IH.
Qed.

Lemma res_claims_eq id r :
  res_claims id r =
  map (fun f => (id, IScal f)) (filter (has_scalar (r_scal r)) scalars_a)
  ++ map (fun e => (id, IHp (fst e))) (r_hp r)
  ++ map (fun e => (id, IUni (fst e))) (r_uni r)
  ++ map (fun f => (id, IScal f)) (filter (has_scalar (r_scal r)) scalars_b).
Proof. reflexivity. Qed.

Lemma merge_resources_abs id r dst o :
  match merge_resources id r dst o with
  | (Ok _, o') => abs_claims (res_claims id r) o = (true, o')
  | (Err _, o') => abs_claims (res_claims id r) o = (false, o')
  end.
Proof.
  rewrite res_claims_eq. unfold merge_resources. rewrite abs_claims_app.
  pose proof (claim_scalars_abs id scalars_a (r_scal r) (r_scal dst) o) as H1.
  destruct (claim_scalars id scalars_a (r_scal r) (r_scal dst) o) as [[sc1|e] o1]; rewrite H1; [|reflexivity].
  rewrite abs_claims_app.
  pose proof (claim_hp_abs id (r_hp r) (r_hp dst) o1) as H2.
  destruct (claim_hp id (r_hp r) (r_hp dst) o1) as [[hp1|e] o2]; rewrite H2; [|reflexivity].
  rewrite abs_claims_app.
  pose proof (claim_unified_abs id (r_uni r) (r_uni dst) o2) as H3.
  destruct (claim_unified id (r_uni r) (r_uni dst) o2) as [[un1|e] o3]; rewrite H3; [|reflexivity].
  pose proof (claim_scalars_abs id scalars_b (r_scal r) sc1 o3) as H4.
  destruct (claim_scalars id scalars_b (r_scal r) sc1 o3) as [[sc2|e] o4]; rewrite H4; reflexivity.
Qed.

(* the verdict and the ledger do not depend on where the values are written *)
Lemma merge_resources_dst id r dst1 dst2 o :
  snd (merge_resources id r dst1 o) = snd (merge_resources id r dst2 o) /\
  (match fst (merge_resources id r dst1 o) with Ok _ => true | Err _ => false end =
   match fst (merge_resources id r dst2 o) with Ok _ => true | Err _ => false end).
Proof.
  pose proof (merge_resources_abs id r dst1 o) as H1. pose proof (merge_resources_abs id r dst2 o) as H2.
  destruct (merge_resources id r dst1 o) as [[x1|e1] o1], (merge_resources id r dst2 o) as [[x2|e2] o2];
    cbn [fst snd]; rewrite H1 in H2; inversion H2; subst; split; reflexivity.
Qed.

(* ------------------------------------------------------------------ *)
(* one adjustment: result.adjust kind by kind                          *)
(* ------------------------------------------------------------------ *)
Lemma IMount_inj a b : IMount a = IMount b -> a = b. Proof. congruence. Qed.
Lemma IEnv_inj a b : IEnv a = IEnv b -> a = b. Proof. congruence. Qed.
Lemma IDev_inj a b : IDev a = IDev b -> a = b. Proof. congruence. Qed.

Definition P3 (x : cra) : Prop :=
  let '(c, a, o) := x in
  OI m_dest IMount (c_id c) (a_mounts a) o /\
  OI env_entry_key IEnv (c_id c) (a_env a) o /\
  OI d_path IDev (c_id c) (a_devices a) o.

Definition kind_ok (F : cra -> res cra) (rel cl : string -> list lkey) : Prop :=
  forall c a o oa, P3 (c, a, o) -> leq o oa ->
    match F (c, a, o) with
    | Err _ => fst (abs_step (rel (c_id c)) (cl (c_id c)) oa) = false
    | Ok (c', a', o') =>
        fst (abs_step (rel (c_id c)) (cl (c_id c)) oa) = true /\
        leq o' (snd (abs_step (rel (c_id c)) (cl (c_id c)) oa)) /\
        c_id c' = c_id c /\ P3 (c', a', o')
    end.

Lemma P3_frame c a o c' a' o' :
  c_id c' = c_id c -> a_mounts a' = a_mounts a -> a_env a' = a_env a -> a_devices a' = a_devices a ->
  (forall k, lmem (c_id c, IMount k) o' = lmem (c_id c, IMount k) o) ->
  (forall k, lmem (c_id c, IEnv k) o' = lmem (c_id c, IEnv k) o) ->
  (forall k, lmem (c_id c, IDev k) o' = lmem (c_id c, IDev k) o) ->
  P3 (c, a, o) -> P3 (c', a', o').
Proof.
  intros Hid Hm He Hd Fm Fe Fd [P1 [P2 P3']]. unfold P3, OI. rewrite Hid, Hm, He, Hd.
  split; [|split]; intros k Hk.
  - apply P1. rewrite <- Fm. exact Hk.
  - apply P2. rewrite <- Fe. exact Hk.
  - apply P3'. rewrite <- Fd. exact Hk.
Qed.

(* membership in the key lists of a kind is decided by the item constructor *)
Ltac notin_kind :=
  let H := fresh "H" in
  intros H;
  repeat (apply in_app_or in H; destruct H as [H|H]);
  try (apply in_map_iff in H; destruct H as [? [H _]]; discriminate H);
  try (cbn in H; repeat match type of H with
                        | _ \/ _ => destruct H as [H|H]
                        | False => contradiction
                        | _ = _ => discriminate H
                        | In _ (if ?b then _ else _) => destruct b
                        | In _ (match ?b with _ => _ end) => destruct b
                        | In _ [] => destruct H
                        | In _ (_ :: _) => destruct H as [H|H]
                        end).

(* a kind that only claims keys outside the three list families and leaves their replies alone *)
Lemma kind_ok_simple (F : cra -> res cra) (cl : string -> list lkey) :
  (forall c a o,
     match F (c, a, o) with
     | Err _ => fst (abs_claims (cl (c_id c)) o) = false
     | Ok (c', a', o') => abs_claims (cl (c_id c)) o = (true, o') /\ c_id c' = c_id c /\
                          a_mounts a' = a_mounts a /\ a_env a' = a_env a /\ a_devices a' = a_devices a
     end) ->
  (forall id k, ~ In (id, IMount k) (cl id)) -> (forall id k, ~ In (id, IEnv k) (cl id)) -> (forall id k, ~ In (id, IDev k) (cl id)) ->
  kind_ok F (fun _ => []) cl.
Proof.
  intros HF Nm Ne Nd c a o oa HP Hl. specialize (HF c a o).
  unfold abs_step. cbn [releases fold_left].
  destruct (abs_claims_leq (cl (c_id c)) o oa Hl) as [Hf Hs].
  destruct (F (c, a, o)) as [[[c' a'] o']|e].
  - destruct HF as [Hc [Hid [Hm [He Hd]]]]. rewrite Hc in Hf, Hs. cbn [fst snd] in Hf, Hs.
    split; [symmetry; exact Hf|]. split; [exact Hs|]. split; [exact Hid|].
    assert (Hfr : forall x, ~ In x (cl (c_id c)) -> lmem x o' = lmem x o).
    { intros x Hx. rewrite (abs_claims_ok_mem _ _ _ Hc x). apply lmem_false_notin in Hx. rewrite Hx, orb_false_r. reflexivity. }
    apply (P3_frame c a o c' a' o' Hid Hm He Hd); [| | |exact HP]; intros k; apply Hfr; [apply Nm|apply Ne|apply Nd].
  - rewrite <- Hf. exact HF.
Qed.

Definition rel_ann (p : adjustment) (id : string) : list lkey := KA id (marked_keys (map fst (a_ann p))).
Definition cl_ann (p : adjustment) (id : string) : list lkey := KA id (plain_keys (map fst (a_ann p))).
Definition rel_mounts (p : adjustment) (id : string) : list lkey := map (fun k => (id, IMount k)) (marked_keys (map m_dest (a_mounts p))).
Definition cl_mounts (p : adjustment) (id : string) : list lkey := map (fun k => (id, IMount k)) (plain_keys (map m_dest (a_mounts p))).
Definition rel_env (p : adjustment) (id : string) : list lkey := map (fun k => (id, IEnv k)) (marked_keys (map fst (a_env p))).
Definition cl_env (p : adjustment) (id : string) : list lkey := map (fun k => (id, IEnv k)) (plain_keys (map fst (a_env p))).
Definition rel_args (p : adjustment) (id : string) : list lkey :=
  if match a_args p with a0 :: _ => String.eqb a0 "" | [] => false end then [(id, IArgs)] else [].
Definition cl_args (p : adjustment) (id : string) : list lkey := match a_args p with [] => [] | _ => [(id, IArgs)] end.
Definition rel_devs (p : adjustment) (id : string) : list lkey := map (fun k => (id, IDev k)) (marked_keys (map d_path (a_devices p))).
Definition cl_devs (p : adjustment) (id : string) : list lkey := map (fun k => (id, IDev k)) (plain_keys (map d_path (a_devices p))).
Definition cl_res (p : adjustment) (id : string) : list lkey := res_claims id (a_res p).
Definition cl_cgroups (p : adjustment) (id : string) : list lkey := if String.eqb (a_cgroups p) "" then [] else [(id, ICgroups)].
Definition cl_oom (p : adjustment) (id : string) : list lkey := match a_oom p with Some _ => [(id, IOom)] | None => [] end.
Definition cl_rlimits (p : adjustment) (id : string) : list lkey := map (fun l => (id, IRlimit (rl_type l))) (a_rlimits p).
Definition cl_cdi (p : adjustment) (id : string) : list lkey := map (fun n => (id, ICdi n)) (a_cdi p).

Lemma kind_annotations p : NoDup (map fst (a_ann p)) -> kind_ok (adj_annotations (a_ann p)) (rel_ann p) (cl_ann p).
Proof.
  intros Hnd c a o oa HP Hl. unfold adj_annotations, rel_ann, cl_ann.
  destruct (a_ann p) as [|e0 r] eqn:Ea.
  - cbn. split; [reflexivity|]. split; [exact Hl|]. split; [reflexivity|exact HP].
  - rewrite <- Ea in *. clear Ea e0 r.
    pose proof (adjust_annotations_ledger (c_id c) (a_ann p) (c_ann c) (a_ann a) o oa Hnd Hl) as H.
    destruct (adjust_annotations (c_id c) (a_ann p) (c_ann c) (a_ann a) o) as [[[v r'] o']|e]; [|exact H].
    destruct H as [Hok Hle]. split; [exact Hok|]. split; [exact Hle|]. split; [reflexivity|].
    apply (P3_frame c a o (with_c_ann c v) (with_a_ann a r') o'); try reflexivity; [| | |exact HP];
      intros k; apply (step_frame _ _ o oa o' Hl Hok Hle); unfold KA; notin_kind.
Qed.

Lemma kind_mounts p : kind_ok (adj_mounts (a_mounts p)) (rel_mounts p) (cl_mounts p).
Proof.
  intros c a o oa [P1 [P2 P3']] Hl. unfold adj_mounts, rel_mounts, cl_mounts. rewrite marked_keys_map, plain_keys_map.
  pose proof (kstep_ledger m_dest m_dest (fun m => m) IMount IMount_inj (c_id c) (a_mounts p) (a_mounts a) (c_mounts c) o oa P1 Hl) as H.
  destruct (kstep m_dest m_dest (fun m => m) IMount (c_id c) (a_mounts p) (a_mounts a) (c_mounts c) o) as [[[r v] o']|e]; [|exact H].
  destruct H as [Hok [Hle Hoi]]. split; [exact Hok|]. split; [exact Hle|]. split; [reflexivity|].
  split; [exact Hoi|]. split.
  - intros k Hk. apply P2. erewrite <- (step_frame _ _ o oa o' Hl Hok Hle); [exact Hk| |]; notin_kind.
  - intros k Hk. apply P3'. erewrite <- (step_frame _ _ o oa o' Hl Hok Hle); [exact Hk| |]; notin_kind.
Qed.

Lemma kind_env p : kind_ok (adj_env (a_env p)) (rel_env p) (cl_env p).
Proof.
  intros c a o oa [P1 [P2 P3']] Hl. unfold adj_env, rel_env, cl_env.
  change (map fst (a_env p)) with (map env_entry_key (a_env p)). rewrite marked_keys_map, plain_keys_map.
  pose proof (kstep_ledger env_entry_key env_key env_to_oci IEnv IEnv_inj (c_id c) (a_env p) (a_env a) (c_env c) o oa P2 Hl) as H.
  destruct (kstep env_entry_key env_key env_to_oci IEnv (c_id c) (a_env p) (a_env a) (c_env c) o) as [[[r v] o']|e]; [|exact H].
  destruct H as [Hok [Hle Hoi]]. split; [exact Hok|]. split; [exact Hle|]. split; [reflexivity|].
  split; [|split; [exact Hoi|]].
  - intros k Hk. apply P1. erewrite <- (step_frame _ _ o oa o' Hl Hok Hle); [exact Hk| |]; notin_kind.
  - intros k Hk. apply P3'. erewrite <- (step_frame _ _ o oa o' Hl Hok Hle); [exact Hk| |]; notin_kind.
Qed.

Lemma kind_devices p : kind_ok (adj_devices (a_devices p)) (rel_devs p) (cl_devs p).
Proof.
  intros c a o oa [P1 [P2 P3']] Hl. unfold adj_devices, rel_devs, cl_devs. rewrite marked_keys_map, plain_keys_map.
  pose proof (kstep_ledger d_path d_path (fun d => d) IDev IDev_inj (c_id c) (a_devices p) (a_devices a) (c_devices c) o oa P3' Hl) as H.
  destruct (kstep d_path d_path (fun d => d) IDev (c_id c) (a_devices p) (a_devices a) (c_devices c) o) as [[[r v] o']|e]; [|exact H].
  destruct H as [Hok [Hle Hoi]]. split; [exact Hok|]. split; [exact Hle|]. split; [reflexivity|].
  split; [|split; [|exact Hoi]].
  - intros k Hk. apply P1. erewrite <- (step_frame _ _ o oa o' Hl Hok Hle); [exact Hk| |]; notin_kind.
  - intros k Hk. apply P2. erewrite <- (step_frame _ _ o oa o' Hl Hok Hle); [exact Hk| |]; notin_kind.
Qed.

Lemma lkey_eqb_diff i j x y : item_eqb x y = false -> lkey_eqb (i, x) (j, y) = false.
Proof. intros H. unfold lkey_eqb. cbn [fst snd]. rewrite H. apply andb_false_r. Qed.

Lemma kind_args p : kind_ok (adj_args (a_args p)) (rel_args p) (cl_args p).
Proof.
  intros c a o oa HP Hl. unfold adj_args, rel_args, cl_args, abs_step.
  destruct (a_args p) as [|a0 rest].
  - cbn. split; [reflexivity|]. split; [exact Hl|]. split; [reflexivity|exact HP].
  - assert (Hl1 : leq (if String.eqb a0 "" then lremove (c_id c, IArgs) o else o)
                      (releases (if String.eqb a0 "" then [(c_id c, IArgs)] else []) oa)).
    { destruct (String.eqb a0 ""); cbn [releases fold_left]; [apply leq_lremove|]; exact Hl. }
    destruct (String.eqb a0 "") eqn:Ea; cbn [abs_claims]; rewrite <- (Hl1 (c_id c, IArgs)); unfold claim;
      match goal with |- context [lmem ?k ?oo] => destruct (lmem k oo) eqn:Hh end; try reflexivity;
      (split; [reflexivity|]; split; [apply leq_cons; exact Hl1|]; split; [reflexivity|]);
      (eapply P3_frame; [reflexivity|reflexivity|reflexivity|reflexivity| | | |exact HP]; intros k;
       rewrite lmem_cons, ?lmem_lremove, !lkey_eqb_diff by reflexivity; cbn [orb negb]; rewrite ?andb_true_r; reflexivity).
Qed.

Lemma kind_hooks p : kind_ok (adj_hooks (a_hooks p)) (fun _ => []) (fun _ => []).
Proof.
  apply kind_ok_simple; [|intros ? ? []|intros ? ? []|intros ? ? []].
  intros c a o. cbn. repeat split; reflexivity.
Qed.

Lemma kind_resources p : kind_ok (adj_resources (a_res p)) (fun _ => []) (cl_res p).
Proof.
  apply kind_ok_simple; [|unfold cl_res, res_claims; intros id k; notin_kind ..].
  intros c a o. unfold adj_resources, cl_res.
  pose proof (merge_resources_abs (c_id c) (a_res p) (c_res c) o) as H1.
  destruct (merge_resources_dst (c_id c) (a_res p) (c_res c) (a_res a) o) as [Hs Hv].
  destruct (merge_resources (c_id c) (a_res p) (c_res c) o) as [[cres|e] o1];
    destruct (merge_resources (c_id c) (a_res p) (a_res a) o) as [[ares|e2] o2]; cbn [fst snd] in *; try discriminate.
  - split; [exact H1|]. repeat split; reflexivity.
  - rewrite H1. reflexivity.
Qed.

Lemma kind_cgroups p : kind_ok (adj_cgroups (a_cgroups p)) (fun _ => []) (cl_cgroups p).
Proof.
  apply kind_ok_simple; [|unfold cl_cgroups; intros id k; notin_kind ..].
  intros c a o. unfold adj_cgroups, cl_cgroups. destruct (String.eqb (a_cgroups p) ""); cbn [abs_claims].
  - repeat split; reflexivity.
  - unfold claim. destruct (lmem (c_id c, ICgroups) o); [reflexivity|]. repeat split; reflexivity.
Qed.

Lemma kind_oom p : kind_ok (adj_oom (a_oom p)) (fun _ => []) (cl_oom p).
Proof.
  apply kind_ok_simple; [|unfold cl_oom; intros id k; notin_kind ..].
  intros c a o. unfold adj_oom, cl_oom. destruct (a_oom p); cbn [abs_claims].
  - unfold claim. destruct (lmem (c_id c, IOom) o); [reflexivity|]. repeat split; reflexivity.
  - repeat split; reflexivity.
Qed.

Lemma kind_rlimits p : kind_ok (adj_rlimits (a_rlimits p)) (fun _ => []) (cl_rlimits p).
Proof.
  apply kind_ok_simple; [|unfold cl_rlimits; intros id k; notin_kind ..].
  unfold cl_rlimits. induction (a_rlimits p) as [|l r IH]; intros c a o; cbn [adj_rlimits map abs_claims].
  - repeat split; reflexivity.
  - unfold claim. destruct (lmem (c_id c, IRlimit (rl_type l)) o); [reflexivity|].
    specialize (IH (with_c_rlimits c (c_rlimits c ++ [l])) (with_a_rlimits a (a_rlimits a ++ [l])) ((c_id c, IRlimit (rl_type l)) :: o)).
    cbn [c_id with_c_rlimits] in IH.
    destruct (adj_rlimits r _) as [[[c' a'] o']|e]; [|exact IH]. exact IH.
Qed.

Lemma kind_cdi p : kind_ok (adj_cdi (a_cdi p)) (fun _ => []) (cl_cdi p).
Proof.
  apply kind_ok_simple; [|unfold cl_cdi; intros id k; notin_kind ..].
  unfold cl_cdi. induction (a_cdi p) as [|d r IH]; intros c a o; cbn [adj_cdi map abs_claims].
  - repeat split; reflexivity.
  - unfold claim. destruct (lmem (c_id c, ICdi d) o); [reflexivity|].
    specialize (IH c (with_a_cdi a (a_cdi a ++ [d])) ((c_id c, ICdi d) :: o)).
    destruct (adj_cdi r _) as [[[c' a'] o']|e]; [|exact IH]. exact IH.
Qed.

(* ------------------------------------------------------------------ *)
(* composition                                                         *)
(* ------------------------------------------------------------------ *)
Fixpoint run_kinds (Fs : list (cra -> res cra)) (x : cra) : res cra :=
  match Fs with [] => Ok x | F :: r => bind (F x) (run_kinds r) end.

Lemma bind_ext {A B} (x : res A) (f g : A -> res B) : (forall a, f a = g a) -> bind x f = bind x g.
Proof. intros H. destruct x; cbn; [apply H|reflexivity]. Qed.
Lemma bind_ok_r {A} (x : res A) : bind x Ok = x.
Proof. destruct x; reflexivity. Qed.

Definition adjust_fns (p : adjustment) : list (cra -> res cra) :=
  [adj_annotations (a_ann p); adj_mounts (a_mounts p); adj_env (a_env p); adj_args (a_args p); adj_hooks (a_hooks p);
   adj_devices (a_devices p); adj_resources (a_res p); adj_cgroups (a_cgroups p); adj_oom (a_oom p);
   adj_rlimits (a_rlimits p); adj_cdi (a_cdi p)].

Lemma adjust_eq p x : adjust p x = run_kinds (adjust_fns p) x.
Proof.
  unfold adjust, adjust_fns. cbn [run_kinds].
  repeat (apply bind_ext; intros ?). rewrite bind_ok_r. reflexivity.
Qed.

Definition adjust_kinds (p : adjustment) (id : string) : list (list lkey * list lkey) :=
  [(rel_ann p id, cl_ann p id); (rel_mounts p id, cl_mounts p id); (rel_env p id, cl_env p id);
   (rel_args p id, cl_args p id); ([], []); (rel_devs p id, cl_devs p id); ([], cl_res p id);
   ([], cl_cgroups p id); ([], cl_oom p id); ([], cl_rlimits p id); ([], cl_cdi p id)].

Lemma run_kinds_seq (Fs : list (cra -> res cra)) (ks : list ((string -> list lkey) * (string -> list lkey))) :
  Forall2 (fun F k => kind_ok F (fst k) (snd k)) Fs ks ->
  forall c a o oa, P3 (c, a, o) -> leq o oa ->
    match run_kinds Fs (c, a, o) with
    | Err _ => fst (seq_run (map (fun k => (fst k (c_id c), snd k (c_id c))) ks) oa) = false
    | Ok (c', a', o') =>
        fst (seq_run (map (fun k => (fst k (c_id c), snd k (c_id c))) ks) oa) = true /\
        leq o' (snd (seq_run (map (fun k => (fst k (c_id c), snd k (c_id c))) ks) oa)) /\
        c_id c' = c_id c /\ P3 (c', a', o')
    end.
Proof.
  induction 1 as [|F k Fs ks HF HFs IH]; intros c a o oa HP Hl; cbn [run_kinds map seq_run].
  - split; [reflexivity|]. split; [exact Hl|]. split; [reflexivity|exact HP].
  - specialize (HF c a o oa HP Hl). destruct (F (c, a, o)) as [[[c1 a1] o1]|e]; cbn [bind].
    + destruct HF as [Hok [Hle [Hid HP1]]].
      destruct (abs_step (fst k (c_id c)) (snd k (c_id c)) oa) as [b o2]. cbn [fst snd] in Hok, Hle. subst b.
      specialize (IH c1 a1 o1 o2 HP1 Hle). rewrite Hid in IH.
      destruct (run_kinds Fs (c1, a1, o1)) as [[[c' a'] o']|e']; [|exact IH].
      destruct IH as [H1 [H2 [H3 H4]]]. split; [exact H1|]. split; [exact H2|]. split; [congruence|exact H4].
    + destruct (abs_step (fst k (c_id c)) (snd k (c_id c)) oa) as [b o2]. cbn [fst] in HF. subst b. reflexivity.
Qed.

Lemma adjust_kinds_independent p id : independent (adjust_kinds p id).
Proof.
  unfold adjust_kinds. cbn [independent map fst snd concat app].
  unfold rel_ann, cl_ann, rel_mounts, cl_mounts, rel_env, cl_env, rel_args, cl_args, rel_devs, cl_devs, cl_res,
    cl_cgroups, cl_oom, cl_rlimits, cl_cdi, KA, res_claims.
  repeat split; intros k Hk; rewrite ?app_nil_r in Hk;
    repeat (apply in_app_or in Hk; destruct Hk as [Hk|Hk]);
    try (destruct Hk; fail);
    try (apply in_map_iff in Hk; destruct Hk as [? [<- _]]; notin_kind);
    try (destruct (match a_args p with [] => false | a0 :: _ => (a0 =? "")%string end); [|destruct Hk];
         destruct Hk as [<-|[]]; notin_kind).
Qed.

Lemma adjust_kinds_group p id :
  concat (map fst (adjust_kinds p id)) = g_releases (adjust_group id p) /\
  concat (map snd (adjust_kinds p id)) = g_claims (adjust_group id p).
Proof.
  unfold adjust_kinds, adjust_group. cbn [map fst snd concat g_releases g_claims app].
  unfold rel_ann, cl_ann, rel_mounts, cl_mounts, rel_env, cl_env, rel_args, cl_args, rel_devs, cl_devs, cl_res,
    cl_cgroups, cl_oom, cl_rlimits, cl_cdi, KA.
  rewrite !app_nil_r. split; reflexivity.
Qed.

(* result.adjust against the abstract group of the adjustment *)
Theorem adjust_ledger p c a o oa :
  NoDup (map fst (a_ann p)) -> P3 (c, a, o) -> leq o oa ->
  match adjust p (c, a, o) with
  | Err _ => fst (abs_step (g_releases (adjust_group (c_id c) p)) (g_claims (adjust_group (c_id c) p)) oa) = false
  | Ok (c', a', o') =>
      fst (abs_step (g_releases (adjust_group (c_id c) p)) (g_claims (adjust_group (c_id c) p)) oa) = true /\
      leq o' (snd (abs_step (g_releases (adjust_group (c_id c) p)) (g_claims (adjust_group (c_id c) p)) oa)) /\
      c_id c' = c_id c /\ P3 (c', a', o')
  end.
Proof.
  intros Hnd HP Hl. rewrite adjust_eq.
  assert (HF : Forall2 (fun F k => kind_ok F (fst k) (snd k)) (adjust_fns p)
                 [(rel_ann p, cl_ann p); (rel_mounts p, cl_mounts p); (rel_env p, cl_env p); (rel_args p, cl_args p);
                  ((fun _ => []), (fun _ => [])); (rel_devs p, cl_devs p); ((fun _ => []), cl_res p);
                  ((fun _ => []), cl_cgroups p); ((fun _ => []), cl_oom p); ((fun _ => []), cl_rlimits p);
                  ((fun _ => []), cl_cdi p)]).
  { unfold adjust_fns.
    apply Forall2_cons; [apply kind_annotations; exact Hnd|].
    apply Forall2_cons; [apply kind_mounts|].
    apply Forall2_cons; [apply kind_env|].
    apply Forall2_cons; [apply kind_args|].
    apply Forall2_cons; [apply kind_hooks|].
    apply Forall2_cons; [apply kind_devices|].
    apply Forall2_cons; [apply kind_resources|].
    apply Forall2_cons; [apply kind_cgroups|].
    apply Forall2_cons; [apply kind_oom|].
    apply Forall2_cons; [apply kind_rlimits|].
    apply Forall2_cons; [apply kind_cdi|].
    apply Forall2_nil. }
  pose proof (run_kinds_seq _ _ HF c a o oa HP Hl) as H. cbn [map fst snd] in H.
  change (seq_run _ oa) with (seq_run (adjust_kinds p (c_id c)) oa) in H.
  destruct (seq_run_is_abs_step (adjust_kinds p (c_id c)) oa (adjust_kinds_independent p (c_id c))) as [Hf Hs].
  destruct (adjust_kinds_group p (c_id c)) as [Er Ec]. rewrite Er, Ec in Hf, Hs.
  destruct (run_kinds (adjust_fns p) (c, a, o)) as [[[c' a'] o']|e].
  - destruct H as [H1 [H2 [H3 H4]]]. split; [rewrite <- Hf; exact H1|]. split; [|split; [exact H3|exact H4]].
    eapply leq_trans; [exact H2|]. apply Hs. exact H1.
  - rewrite <- Hf. exact H.
Qed.

(* ------------------------------------------------------------------ *)
(* updates and whole requests                                          *)
(* ------------------------------------------------------------------ *)
Lemma abs_claims_frame ks o : forall x, ~ In x ks -> lmem x (snd (abs_claims ks o)) = lmem x o.
Proof.
  revert o. induction ks as [|k r IH]; intros o x Hx; cbn [abs_claims]; [reflexivity|].
  destruct (lmem k o); [reflexivity|]. rewrite IH by (intros Hi; apply Hx; right; exact Hi).
  rewrite lmem_cons. destruct (lkey_eqb_spec x k) as [->|_]; [exfalso; apply Hx; left; reflexivity|reflexivity].
Qed.

Definition is_conflict (e : err) : Prop := match e with EConflict _ => True | ESelfUpdate _ => False end.

Lemma claim_scalars_err id fs src dst o e o' : claim_scalars id fs src dst o = (Err e, o') -> is_conflict e.
Proof.
  revert dst o. induction fs as [|f r IH]; intros dst o; cbn [claim_scalars]; [discriminate|].
  destruct (flookup f src); [|apply IH]. unfold claim. destruct (lmem _ o); [intros H; inversion H; exact I|apply IH].
Qed.
Lemma claim_hp_err id hp dst o e o' : claim_hp id hp dst o = (Err e, o') -> is_conflict e.
Proof.
  revert dst o. induction hp as [|[s l] r IH]; intros dst o; cbn [claim_hp]; [discriminate|].
  unfold claim. destruct (lmem _ o); [intros H; inversion H; exact I|apply IH].
Qed.
Lemma claim_unified_err id uni dst o e o' : claim_unified id uni dst o = (Err e, o') -> is_conflict e.
Proof.
  revert dst o. induction uni as [|[k v] r IH]; intros dst o; cbn [claim_unified]; [discriminate|].
  unfold claim. destruct (lmem _ o); [intros H; inversion H; exact I|apply IH].
Qed.
Lemma merge_resources_err id r dst o e o' : merge_resources id r dst o = (Err e, o') -> is_conflict e.
Proof.
  unfold merge_resources.
  destruct (claim_scalars id scalars_a (r_scal r) (r_scal dst) o) as [[sc1|e1] o1] eqn:E1.
  2:{ intros H; inversion H; subst. eapply claim_scalars_err; exact E1. }
  destruct (claim_hp id (r_hp r) (r_hp dst) o1) as [[hp1|e2] o2] eqn:E2.
  2:{ intros H; inversion H; subst. eapply claim_hp_err; exact E2. }
  destruct (claim_unified id (r_uni r) (r_uni dst) o2) as [[un1|e3] o3] eqn:E3.
  2:{ intros H; inversion H; subst. eapply claim_unified_err; exact E3. }
  destruct (claim_scalars id scalars_b (r_scal r) sc1 o3) as [[sc2|e4] o4] eqn:E4; [discriminate|].
  intros H; inversion H; subst. eapply claim_scalars_err; exact E4.
Qed.

(* the invariant of the plugin loop: the model's ledger is the abstract one, and for a creation request
   the ledger holds a list-family key only if the reply sets it *)
Definition SInv (cr : option string) (s : st) (oa : list lkey) : Prop :=
  leq (s_own s) oa /\
  match s_create s with
  | Some c => cr = Some (c_id c) /\ P3 (c, s_adjust s, s_own s)
  | None => cr = None
  end.

Definition targets_self (cr : option string) (us : list update) : bool :=
  match cr with Some id => existsb (fun u => String.eqb (u_id u) id) us | None => false end.

Lemma res_claims_not_list id r x :
  (exists i k, x = (i, IMount k) \/ x = (i, IEnv k) \/ x = (i, IDev k)) -> ~ In x (res_claims id r).
Proof.
  intros [i [k Hx]]. unfold res_claims. destruct Hx as [->|[->| ->]]; notin_kind.
Qed.

Lemma P3_ledger c a o o' :
  (forall x, (exists i k, x = (i, IMount k) \/ x = (i, IEnv k) \/ x = (i, IDev k)) -> lmem x o' = lmem x o) ->
  P3 (c, a, o) -> P3 (c, a, o').
Proof.
  intros H. apply P3_frame; try reflexivity; intros k; apply H; exists (c_id c), k; tauto.
Qed.

Lemma update_one_ledger cr u s oa :
  SInv cr s oa ->
  match update_one u s with
  | Err (ESelfUpdate _) => targets_self cr [u] = true
  | Err (EConflict _) =>
      targets_self cr [u] = false /\ g_ignorable (update_group u) = false /\
      fst (abs_claims (g_claims (update_group u)) oa) = false
  | Ok s' =>
      targets_self cr [u] = false /\
      (fst (abs_claims (g_claims (update_group u)) oa) = true \/ g_ignorable (update_group u) = true) /\
      SInv cr s' (snd (abs_claims (g_claims (update_group u)) oa))
  end.
Proof.
  intros [Hl Hc]. unfold update_one, targets_self. cbn [existsb update_group g_claims g_ignorable].
  destruct (s_create s) as [c|] eqn:Ec.
  - destruct Hc as [-> HP]. rewrite (String.eqb_sym (u_id u)). rewrite orb_false_r.
    destruct (String.eqb (c_id c) (u_id u)) eqn:Eself; [reflexivity|].
    destruct (u_res u) as [r|].
    + set (base := if match s_update s with Some (oid, _) => (oid =? u_id u)%string | None => false end
                   then match s_update s with Some (_, rr) => rr | None => res_empty end
                   else au_res _).
      pose proof (merge_resources_abs (u_id u) r base (s_own s)) as Hm.
      destruct (abs_claims_leq (res_claims (u_id u) r) (s_own s) oa Hl) as [Hf Hs].
      destruct (merge_resources (u_id u) r base (s_own s)) as [[r'|e] o'] eqn:Emr.
      * rewrite Hm in Hf, Hs. cbn [fst snd] in Hf, Hs. split; [reflexivity|]. split; [left; symmetry; exact Hf|].
        split; [exact Hs|]. cbn [s_create s_adjust s_own]. rewrite ?Ec. split; [reflexivity|].
        apply (P3_ledger c (s_adjust s) (s_own s) o'); [|exact HP].
        intros x Hx. rewrite (abs_claims_ok_mem _ _ _ Hm x).
        pose proof (res_claims_not_list (u_id u) r x Hx) as Hn. apply lmem_false_notin in Hn. rewrite Hn, orb_false_r. reflexivity.
      * rewrite Hm in Hf, Hs. cbn [fst snd] in Hf, Hs. destruct (u_ignore u).
        -- split; [reflexivity|]. split; [right; reflexivity|]. split; [exact Hs|]. cbn [s_create s_adjust s_own]. rewrite ?Ec.
           split; [reflexivity|]. apply (P3_ledger c (s_adjust s) (s_own s) o'); [|exact HP].
           intros x Hx. pose proof (abs_claims_frame (res_claims (u_id u) r) (s_own s) x (res_claims_not_list _ _ x Hx)) as Hfr.
           rewrite Hm in Hfr. exact Hfr.
        -- pose proof (merge_resources_err _ _ _ _ _ _ Emr) as Hce. destruct e; [|contradiction].
           split; [reflexivity|]. split; [reflexivity|symmetry; exact Hf].
    + cbn [abs_claims fst snd]. split; [reflexivity|]. split; [left; reflexivity|]. split; [exact Hl|].
      cbn [s_create s_adjust s_own]. rewrite ?Ec. split; [reflexivity|exact HP].
  - subst cr.
    destruct (u_res u) as [r|].
    + set (base := if match s_update s with Some (oid, _) => (oid =? u_id u)%string | None => false end
                   then match s_update s with Some (_, rr) => rr | None => res_empty end
                   else au_res _).
      pose proof (merge_resources_abs (u_id u) r base (s_own s)) as Hm.
      destruct (abs_claims_leq (res_claims (u_id u) r) (s_own s) oa Hl) as [Hf Hs].
      destruct (merge_resources (u_id u) r base (s_own s)) as [[r'|e] o'] eqn:Emr.
      * rewrite Hm in Hf, Hs. cbn [fst snd] in Hf, Hs. split; [reflexivity|]. split; [left; symmetry; exact Hf|].
        split; [exact Hs|]. cbn [s_create]. rewrite ?Ec. reflexivity.
      * rewrite Hm in Hf, Hs. cbn [fst snd] in Hf, Hs. destruct (u_ignore u).
        -- split; [reflexivity|]. split; [right; reflexivity|]. split; [exact Hs|]. cbn [s_create]. rewrite ?Ec. reflexivity.
        -- pose proof (merge_resources_err _ _ _ _ _ _ Emr) as Hce. destruct e; [|contradiction].
           split; [reflexivity|]. split; [reflexivity|symmetry; exact Hf].
    + cbn [abs_claims fst snd]. split; [reflexivity|]. split; [left; reflexivity|]. split; [exact Hl|].
      cbn [s_create]. rewrite ?Ec. reflexivity.
Qed.

Lemma targets_self_cons cr u us : targets_self cr (u :: us) = targets_self cr [u] || targets_self cr us.
Proof. unfold targets_self. destruct cr; cbn [existsb]; [rewrite orb_false_r|]; reflexivity. Qed.

Lemma update_all_ledger cr us : forall s oa d,
  SInv cr s oa ->
  match update_all us s with
  | Ok s' => targets_self cr us = false /\
             exists oa' d', abs_run (map update_group us) oa d = Some (oa', d') /\ SInv cr s' oa'
  | Err _ => abs_run (map update_group us) oa d = None \/ targets_self cr us = true
  end.
Proof.
  induction us as [|u r IH]; intros s oa d HI; cbn [update_all map abs_run].
  - split; [destruct cr; reflexivity|]. exists oa, d. split; [reflexivity|exact HI].
  - pose proof (update_one_ledger cr u s oa HI) as H1. rewrite targets_self_cons.
    cbn [update_group g_releases g_claims g_ignorable fold_left] in *.
    destruct (update_one u s) as [s1|e]; cbn [bind].
    + destruct H1 as [Hself [Hv HI1]]. rewrite Hself. cbn [orb].
      destruct (abs_claims _ oa) as [b o2]. cbn [fst snd] in Hv, HI1.
      assert (Hrun : forall dd, (if b then abs_run (map update_group r) o2 (d ++ [false])
                                 else if u_ignore u then abs_run (map update_group r) o2 (d ++ [true]) else None)
                                = abs_run (map update_group r) o2 (d ++ [dd]) -> True) by (intros; exact I).
      clear Hrun.
      destruct b.
      * specialize (IH s1 o2 (d ++ [false]) HI1). destruct (update_all r s1) as [s'|e']; exact IH.
      * destruct Hv as [Hv|Hv]; [discriminate|]. rewrite Hv.
        specialize (IH s1 o2 (d ++ [true]) HI1). destruct (update_all r s1) as [s'|e']; exact IH.
    + destruct e as [k|id].
      * destruct H1 as [Hself [Hign Hf]]. left. destruct (abs_claims _ oa) as [b o2]. cbn [fst] in Hf. subst b.
        rewrite Hign. reflexivity.
      * right. rewrite H1. reflexivity.
Qed.

(* the annotation map of an adjustment has distinct keys (it is a Go map) *)
Definition wf_rp (rp : response) : Prop :=
  match rp_adjust rp with Some p => NoDup (map fst (a_ann p)) | None => True end.

Lemma apply_response_ledger cr rp s oa d :
  wf_rp rp -> SInv cr s oa ->
  match apply_response rp s with
  | Ok s' => targets_self cr (rp_updates rp) = false /\
             exists oa' d', abs_run (groups_of cr rp) oa d = Some (oa', d') /\ SInv cr s' oa'
  | Err _ => abs_run (groups_of cr rp) oa d = None \/ targets_self cr (rp_updates rp) = true
  end.
Proof.
  intros Hwf HI. unfold apply_response, groups_of. destruct HI as [Hl Hc].
  destruct (s_create s) as [c|] eqn:Ec.
  - destruct Hc as [-> HP]. destruct (rp_adjust rp) as [p|] eqn:Ep.
    + unfold wf_rp in Hwf. rewrite Ep in Hwf.
      pose proof (adjust_ledger p c (s_adjust s) (s_own s) oa Hwf HP Hl) as Ha.
      rewrite abs_run_app. cbn [abs_run adjust_group g_ignorable].
      change (fold_left (fun o k => lremove k o) ?rs oa) with (releases rs oa).
      fold (abs_step (g_releases (adjust_group (c_id c) p)) (g_claims (adjust_group (c_id c) p)) oa).
      destruct (adjust p (c, s_adjust s, s_own s)) as [[[c' a'] o']|e]; cbn [bind].
      * destruct Ha as [Hok [Hle [Hid HP']]].
        destruct (abs_step _ _ oa) as [b o2]. cbn [fst snd] in Hok, Hle. subst b.
        apply (update_all_ledger (Some (c_id c)) (rp_updates rp)).
        split; [exact Hle|]. cbn [s_create s_adjust s_own]. rewrite Hid. split; [reflexivity|exact HP'].
      * left. destruct (abs_step _ _ oa) as [b o2]. cbn [fst] in Ha. subst b. reflexivity.
    + cbn [bind app]. apply (update_all_ledger (Some (c_id c)) (rp_updates rp)). split; [exact Hl|]. rewrite Ec. split; [reflexivity|exact HP].
  - subst cr. cbn [bind app]. apply (update_all_ledger None (rp_updates rp)). split; [exact Hl|]. rewrite Ec. reflexivity.
Qed.

Lemma self_update_cons cr rp rps :
  self_update cr (rp :: rps) = targets_self cr (rp_updates rp) || self_update cr rps.
Proof. unfold self_update, targets_self. destruct cr; reflexivity. Qed.

Lemma run_plugins_ledger cr rps : forall s oa d views,
  Forall wf_rp rps -> SInv cr s oa ->
  match snd (run_plugins rps s views) with
  | Ok s' => self_update cr rps = false /\
             exists oa' d', abs_run (all_groups cr rps) oa d = Some (oa', d') /\ SInv cr s' oa'
  | Err _ => abs_run (all_groups cr rps) oa d = None \/ self_update cr rps = true
  end.
Proof.
  induction rps as [|rp r IH]; intros s oa d views Hwf HI; cbn [run_plugins snd].
  - split; [destruct cr; reflexivity|]. exists oa, d. split; [reflexivity|exact HI].
  - inversion Hwf as [|? ? Hw Hr]; subst.
    pose proof (apply_response_ledger cr rp s oa d Hw HI) as H1.
    unfold all_groups. cbn [map concat]. fold (all_groups cr r). rewrite abs_run_app, self_update_cons.
    destruct (apply_response rp s) as [s1|e]; cbn [snd].
    + destruct H1 as [Hself [oa1 [d1 [Hrun HI1]]]]. rewrite Hrun, Hself. cbn [orb].
      apply (IH s1 oa1 d1 (views ++ [view_of s]) Hr HI1).
    + destruct H1 as [H1|H1]; [left; rewrite H1; reflexivity|right; rewrite H1; reflexivity].
Qed.

Definition req_created (rq : request) : option string := match rq with RCreate c => Some (c_id c) | _ => None end.

Lemma SInv_init rq : SInv (req_created rq) (init_state rq) [].
Proof.
  destruct rq as [c|id r|id]; (split; [cbn; apply leq_refl|]); cbn; [|reflexivity|reflexivity].
  split; [reflexivity|]. repeat split; intros k Hk; discriminate Hk.
Qed.

(* ------------------------------------------------------------------ *)
(* the refinement theorem                                              *)
(* ------------------------------------------------------------------ *)
Theorem run_request_refines_ledger rq rps :
  Forall wf_rp rps ->
  match snd (run_request rq rps) with
  | Ok s => abs_conflict (req_created rq) rps = false /\ self_update (req_created rq) rps = false /\
            exists oa d, abs_run (all_groups (req_created rq) rps) [] [] = Some (oa, d) /\ leq (s_own s) oa
  | Err _ => abs_conflict (req_created rq) rps = true \/ self_update (req_created rq) rps = true
  end.
Proof.
  intros Hwf. unfold run_request, abs_conflict.
  pose proof (run_plugins_ledger (req_created rq) rps (init_state rq) [] [] [] Hwf (SInv_init rq)) as H.
  destruct (snd (run_plugins rps (init_state rq) [])) as [s|e].
  - destruct H as [Hself [oa [d [Hrun [Hl _]]]]]. rewrite Hrun. split; [reflexivity|]. split; [exact Hself|].
    exists oa, d. split; [reflexivity|exact Hl].
  - destruct H as [H|H]; [left; rewrite H; reflexivity|right; exact H].
Qed.

(* C01 on the model: an abstract conflict always fails the request *)
Theorem conflict_fails rq rps :
  Forall wf_rp rps -> abs_conflict (req_created rq) rps = true -> exists e, snd (run_request rq rps) = Err e.
Proof.
  intros Hwf Hc. pose proof (run_request_refines_ledger rq rps Hwf) as H.
  destruct (snd (run_request rq rps)) as [s|e]; [|eexists; reflexivity].
  destruct H as [H _]. congruence.
Qed.

(* C02 on the model: without an abstract conflict (and without an update of the container being
   created) the request succeeds *)
Theorem no_conflict_succeeds rq rps :
  Forall wf_rp rps -> abs_conflict (req_created rq) rps = false -> self_update (req_created rq) rps = false ->
  exists s, snd (run_request rq rps) = Ok s.
Proof.
  intros Hwf Hc Hs. pose proof (run_request_refines_ledger rq rps Hwf) as H.
  destruct (snd (run_request rq rps)) as [s|e]; [eexists; reflexivity|].
  destruct H as [H|H]; congruence.
Qed.

(* the verdict of a request depends on the responses and on WHICH container is created only:
   not on the original container's content nor on the runtime's requested resources *)
Theorem verdict_ignores_request_content rq rq' rps :
  Forall wf_rp rps -> req_created rq = req_created rq' ->
  ((exists s, snd (run_request rq rps) = Ok s) <-> (exists s', snd (run_request rq' rps) = Ok s')).
Proof.
  intros Hwf Hcr.
  assert (Hgen : forall a b, req_created a = req_created b ->
                 (exists s, snd (run_request a rps) = Ok s) -> exists s', snd (run_request b rps) = Ok s').
  { intros a b Hab [s Hs]. pose proof (run_request_refines_ledger a rps Hwf) as Ha. rewrite Hs in Ha.
    destruct Ha as [Hc [Hself _]]. rewrite Hab in Hc, Hself. apply no_conflict_succeeds; assumption. }
  split; apply Hgen; [exact Hcr|symmetry; exact Hcr].
Qed.

(* a colliding pair of non-ignorable claims with no release in between fails the REQUEST *)
Theorem colliding_pair_fails_request rq rps k pre1 g1 pre g2 post :
  Forall wf_rp rps ->
  all_groups (req_created rq) rps = pre1 ++ g1 :: pre ++ g2 :: post ->
  g_ignorable g1 = false -> g_ignorable g2 = false ->
  In k (g_claims g1) -> In k (g_claims g2) ->
  (forall g, In g (pre ++ [g2]) -> ~ In k (g_releases g)) ->
  exists e, snd (run_request rq rps) = Err e.
Proof.
  intros Hwf Hg Hi1 Hi2 Hc1 Hc2 Hrel. apply conflict_fails; [exact Hwf|].
  unfold abs_conflict. rewrite Hg. rewrite (abs_collision_conflicts k pre1 g1 pre g2 post [] [] Hi1 Hi2 Hc1 Hc2 Hrel). reflexivity.
Qed.

(* disjoint writers never fail the request *)
Theorem disjoint_writers_succeed rq rps :
  Forall wf_rp rps ->
  NoDup (concat (map g_claims (all_groups (req_created rq) rps))) ->
  self_update (req_created rq) rps = false ->
  exists s, snd (run_request rq rps) = Ok s.
Proof.
  intros Hwf Hnd Hself. apply no_conflict_succeeds; [exact Hwf| |exact Hself].
  unfold abs_conflict.
  destruct (abs_disjoint_no_conflict (all_groups (req_created rq) rps) [] [] Hnd (fun _ _ => eq_refl)) as [r Hr].
  rewrite Hr. reflexivity.
Qed.

(* a response that marks for removal every item it sets (remove-then-set) cannot conflict with anything
   before it *)
Lemma abs_remove_then_set pre g o d o' d' :
  abs_run pre o d = Some (o', d') -> NoDup (g_claims g) ->
  (forall k, In k (g_claims g) -> In k (g_releases g)) ->
  exists r, abs_run (pre ++ [g]) o d = Some r.
Proof.
  intros Hpre Hnd Hrel. rewrite abs_run_app, Hpre. cbn [abs_run].
  change (fold_left (fun o k => lremove k o) (g_releases g) o') with (releases (g_releases g) o').
  assert (Hok : fst (abs_claims (g_claims g) (releases (g_releases g) o')) = true).
  { apply abs_claims_true_iff. split; [exact Hnd|]. intros k Hk. rewrite lmem_releases.
    apply Hrel, lmem_In in Hk. rewrite Hk. apply andb_false_r. }
  destruct (abs_claims _ _) as [b o2]. cbn [fst] in Hok. subst b. eexists; reflexivity.
Qed.

(* a lone removal releases the claim for every later plugin: after a response that only removes, a
   response setting items that were just removed (or that it removes itself) does not conflict *)
Lemma abs_lone_removal_releases pre g g' o d o' d' :
  abs_run pre o d = Some (o', d') -> g_claims g = [] -> NoDup (g_claims g') ->
  (forall k, In k (g_claims g') -> In k (g_releases g) \/ In k (g_releases g')) ->
  exists r, abs_run (pre ++ [g; g']) o d = Some r.
Proof.
  intros Hpre Hnil Hnd Hrel. rewrite abs_run_app, Hpre. cbn [abs_run]. rewrite Hnil. cbn [abs_claims].
  change (fold_left (fun o k => lremove k o) ?rs ?oo) with (releases rs oo).
  assert (Hok : fst (abs_claims (g_claims g') (releases (g_releases g') (releases (g_releases g) o'))) = true).
  { apply abs_claims_true_iff. split; [exact Hnd|]. intros k Hk. rewrite !lmem_releases.
    destruct (Hrel k Hk) as [H|H]; apply lmem_In in H; rewrite H; cbn [negb]; rewrite ?andb_false_r; reflexivity. }
  destruct (abs_claims _ _) as [b o2]. cbn [fst] in Hok. subst b. eexists; reflexivity.
Qed.
