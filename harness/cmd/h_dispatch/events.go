package main

import (
	"encoding/json"
	"errors"
	"fmt"
	"math/rand"
	"os"
	"path/filepath"
	"sort"
	"strconv"
	"strings"
	"sync"
	"sync/atomic"
	"time"

	"github.com/containerd/nri/pkg/adaptation"
	"github.com/containerd/nri/pkg/api"

	"verif/harness/internal/coqfmt"
	"verif/harness/internal/hx"
)

// ---------------------------------------------------------------- C06: events
//
// One case = one history on a fresh Adaptation: an all-events observer at index
// "00" registered first; K plugins with random (also equal) indices and masks
// registering in random order and timing while a first batch of requests is
// already running; then G goroutines firing the thirteen entry points
// concurrently.  Every handler invocation of every plugin draws a number from
// one global counter, which gives the global log.

type evPlugin struct {
	ID   int    `json:"id"`
	Idx  string `json:"idx"`
	Name string `json:"name"`
	Raw  int32  `json:"raw"`
	Kind string `json:"kind"` // stub | raw
	Reg  int    `json:"reg"`
	Lo   int    `json:"lo"`
	Hi   int    `json:"hi"`
	Gone int    `json:"gone"` // position of the common order from which on the plugin is disconnected (>= length: stayed)
	Note string `json:"note,omitempty"`
}

type evResult struct {
	Err    string   `json:"err,omitempty"`
	Tokens []string `json:"tokens"`
}

type evCase struct {
	Stream  string     `json:"stream"`
	Hist    int        `json:"history"`
	Plugins []evPlugin `json:"plugins"`
	Sigma   [][2]int   `json:"sigma"` // request id, event
	Log     [][2]int   `json:"log"`   // plugin id, request id
	Results []evResult `json:"results"`
	G       int        `json:"goroutines"`
	Foreign []int      `json:"foreign,omitempty"`
}

func ridOf(pod, ctr string) int {
	s := pod
	if ctr != "" {
		s = ctr
	}
	n, err := strconv.Atoi(strings.TrimLeft(s[1:], "0"))
	if err != nil {
		return 0
	}
	return n
}

func mkRequest(rid int, ev api.Event) request {
	rq := request{Ev: ev, Pod: fmt.Sprintf("p%06d", rid)}
	if !isPodEvent(ev) {
		rq.Ctr = fmt.Sprintf("c%06d", rid)
	}
	return rq
}

type histPlan struct {
	plugins []evPlugin
	phase1  []api.Event // fired while the plugins register
	phase2  []api.Event
	stop    []int       // positions in plugins of the plugins that stop after phase 2 …
	restart []int       // … those of them that come back as a NEW instance with the same index and name (a restarted plugin) …
	phase3  []api.Event // … and the requests fired after that (no other registration follows)
	g       int
	sleep   time.Duration // every plugin's handler (not the observer's) takes this long
}

// errStalled: the real Adaptation stopped answering; the history is a failing case, not a harness failure.
type errStalled struct {
	what string
	info map[string]interface{}
}

func (e *errStalled) Error() string { return e.what }

func runHistory(c *hx.Ctx, r *rand.Rand, stream string, hid int, plan histPlan) (*evCase, error) {
	e, err := newEnv(c.Out)
	if err != nil {
		return nil, err
	}
	obs := newPlug(e, "00", "obs", api.ValidEvents)
	var plugs []*plug
	defer func() {
		// never wait for a wedged adaptation: stop everything in the background, bounded
		var sg sync.WaitGroup
		for _, p := range append([]*plug{obs}, plugs...) {
			if p == nil {
				continue
			}
			sg.Add(1)
			go func(p *plug) {
				defer sg.Done()
				p.stop()
			}(p)
		}
		groupWithin(&sg, 3*time.Second)
		e.closeWithin(5 * time.Second)
	}()
	if err := obs.startStub(e.sock); err != nil {
		return nil, fmt.Errorf("observer: %w", err)
	}
	if err := e.waitSynced(10*time.Second, obs); err != nil {
		return nil, err
	}

	var (
		mu       sync.Mutex
		results  = map[int]reqResult{}
		wg       sync.WaitGroup
		progress atomic.Int64
		issued   atomic.Int64
	)
	// waitAll waits for the requests in flight; a stall = no request returned for wedgeWait
	waitAll := func(phase string) error {
		done := make(chan struct{})
		go func() {
			wg.Wait()
			close(done)
		}()
		if waitProgress(done, &progress, wedgeWait) {
			return nil
		}
		return &errStalled{
			what: fmt.Sprintf("%s: for %v no request returned (%d of %d issued requests had returned): the runtime is deadlocked", phase, wedgeWait, progress.Load(), issued.Load()),
			info: map[string]interface{}{"stream": stream, "history": hid, "phase": phase, "plugins": plan.plugins, "goroutines": plan.g, "requests_returned": progress.Load(), "requests_issued": issued.Load()}}
	}
	fireAll := func(evs []api.Event, base, g int) {
		ch := make(chan int, len(evs))
		for i := range evs {
			ch <- i
		}
		close(ch)
		for k := 0; k < g; k++ {
			wg.Add(1)
			go func() {
				defer wg.Done()
				for i := range ch {
					rid := base + i
					issued.Add(1)
					res := e.fire(mkRequest(rid, evs[i]))
					progress.Add(1)
					mu.Lock()
					results[rid] = res
					mu.Unlock()
				}
			}()
		}
	}

	plugs = make([]*plug, len(plan.plugins))
	delays := make([]time.Duration, len(plan.plugins))
	for i := range plan.plugins {
		delays[i] = time.Duration(r.Intn(3000)) * time.Microsecond
	}
	// phase 1: registrations in random order and timing, concurrent with requests
	fireAll(plan.phase1, 1, plan.g)
	var rg sync.WaitGroup
	startErr := make([]error, len(plan.plugins))
	for i := range plan.plugins {
		sp := &plan.plugins[i]
		p := newPlug(e, sp.Idx, sp.Name, api.EventMask(sp.Raw))
		if plan.sleep > 0 {
			d := plan.sleep
			p.setDecide(func(request) action { return action{Sleep: d} })
		}
		plugs[i] = p
		rg.Add(1)
		go func(i int, p *plug, sp *evPlugin) {
			defer rg.Done()
			time.Sleep(delays[i])
			sp.Lo = obs.count()
			if sp.Kind == "raw" {
				startErr[i] = p.startRaw(e.sock)
			} else {
				startErr[i] = p.startStub(e.sock)
			}
		}(i, p, sp)
	}
	if !groupWithin(&rg, 60*time.Second) {
		return nil, &errStalled{what: "plugin registrations had not finished after 60 s: the runtime is blocked",
			info: map[string]interface{}{"stream": stream, "history": hid, "plugins": plan.plugins}}
	}
	if err := waitAll("requests issued while plugins register"); err != nil {
		return nil, err
	}
	// every registration attempt ends in a Synchronize call or in the runtime closing the connection
	for i, p := range plugs {
		if startErr[i] != nil {
			plan.plugins[i].Note = "start: " + startErr[i].Error()
			continue
		}
		select {
		case <-p.synced:
		case <-p.closed:
			plan.plugins[i].Note = "connection closed by the runtime during registration"
		case <-time.After(10 * time.Second):
			return nil, fmt.Errorf("history %d: plugin %s neither synchronized nor refused", hid, p.name)
		}
	}
	if !e.barrierWithin(wedgeWait) {
		return nil, &errStalled{what: "the plugin synchronisation lock could not be taken for 20 s after all registrations were done",
			info: map[string]interface{}{"stream": stream, "history": hid, "plugins": plan.plugins}}
	}
	hi := obs.count()
	if hi != len(plan.phase1) {
		return nil, fmt.Errorf("history %d: observer saw %d of %d phase-1 requests", hid, hi, len(plan.phase1))
	}
	// phase 2
	fireAll(plan.phase2, 1+len(plan.phase1), plan.g)
	if err := waitAll("concurrent requests"); err != nil {
		return nil, err
	}
	// phase 3: some plugins stop (orderly for stubs, abruptly for raw sessions); further requests, no registration
	gonePos := obs.count()
	for _, i := range plan.stop {
		plugs[i].stop()
		if startErr[i] != nil {
			continue
		}
		select {
		case <-plugs[i].closed:
		case <-time.After(10 * time.Second):
			return nil, fmt.Errorf("history %d: stopped plugin %s never saw its connection close", hid, plugs[i].name)
		}
	}
	// restarted plugins: a new connection registers under the index and name of the instance that just went away;
	// no request is processed in between, so nothing has pruned the old instance yet
	late := map[int]bool{}
	for _, i := range plan.restart {
		time.Sleep(30 * time.Millisecond) // let the runtime notice that the old connection is gone
		sp := plan.plugins[i]
		sp.ID = len(plan.plugins) + 1
		sp.Kind, sp.Note = "stub", "restarted instance of plugin "+fmt.Sprint(plan.plugins[i].ID)
		p := newPlug(e, sp.Idx, sp.Name, api.EventMask(sp.Raw))
		plan.plugins = append(plan.plugins, sp)
		plugs = append(plugs, p)
		startErr = append(startErr, nil)
		late[len(plugs)-1] = true
		started := make(chan error, 1)
		go func() { started <- p.startStub(e.sock) }()
		select {
		case err := <-started:
			if err != nil {
				return nil, fmt.Errorf("history %d: restarted plugin %s: %w", hid, p.name, err)
			}
		case <-time.After(30 * time.Second):
			return nil, &errStalled{what: "a restarted plugin's registration had not finished after 30 s",
				info: map[string]interface{}{"stream": stream, "history": hid, "plugins": plan.plugins}}
		}
		select {
		case <-p.synced:
		case <-time.After(10 * time.Second):
			return nil, fmt.Errorf("history %d: restarted plugin %s was not synchronized", hid, p.name)
		}
	}
	if len(plan.restart) > 0 && !e.barrierWithin(wedgeWait) {
		return nil, &errStalled{what: "the plugin synchronisation lock could not be taken for 20 s after a plugin restarted",
			info: map[string]interface{}{"stream": stream, "history": hid, "plugins": plan.plugins}}
	}
	if len(plan.phase3) > 0 {
		fireAll(plan.phase3, 1+len(plan.phase1)+len(plan.phase2), plan.g)
		if err := waitAll("requests after a plugin stopped"); err != nil {
			return nil, err
		}
	}

	// ---- collect
	type entry struct {
		seq      int64
		pid, rid int
	}
	var all []entry
	pos := map[int]int{} // request id -> position in sigma
	cs := &evCase{Stream: stream, Hist: hid, G: plan.g}
	for k, inv := range obs.invocations() {
		rid := ridOf(inv.Pod, inv.Ctr)
		cs.Sigma = append(cs.Sigma, [2]int{rid, int(inv.Ev)})
		pos[rid] = k
		all = append(all, entry{inv.Seq, 0, rid})
	}
	total := len(plan.phase1) + len(plan.phase2) + len(plan.phase3)
	stopped := map[int]bool{}
	for _, i := range plan.stop {
		stopped[i] = true
	}
	if len(cs.Sigma) != total {
		return nil, fmt.Errorf("history %d: observer saw %d of %d requests", hid, len(cs.Sigma), total)
	}
	cs.Plugins = append(cs.Plugins, evPlugin{ID: 0, Idx: "00", Name: "obs", Raw: int32(api.ValidEvents), Kind: "stub", Reg: 0, Lo: 0, Hi: 0, Gone: total})
	for i, p := range plugs {
		sp := plan.plugins[i]
		sp.Hi = hi
		sp.Gone = total
		if stopped[i] {
			sp.Gone = gonePos
		}
		if late[i] {
			sp.Lo, sp.Hi = gonePos, gonePos
		}
		first := total
		for _, inv := range p.invocations() {
			rid := ridOf(inv.Pod, inv.Ctr)
			all = append(all, entry{inv.Seq, sp.ID, rid})
			if k, ok := pos[rid]; ok && k < first {
				first = k
			}
		}
		sp.Reg = first
		if sp.Reg > sp.Hi {
			sp.Reg = sp.Hi
		}
		cs.Plugins = append(cs.Plugins, sp)
	}
	sort.Slice(all, func(i, j int) bool { return all[i].seq < all[j].seq })
	for _, en := range all {
		cs.Log = append(cs.Log, [2]int{en.pid, en.rid})
	}
	for _, s := range cs.Sigma {
		res := results[s[0]]
		cs.Results = append(cs.Results, evResult{Err: res.Err, Tokens: append([]string{}, res.Tokens...)})
		if res.Foreign {
			cs.Foreign = append(cs.Foreign, s[0])
		}
	}
	return cs, nil
}

// ---- Go-side oracle (the same predicate as Spec.DispatchSpec.history_ok)

func subOf(raw int32, ev int) (bool, bool) {
	m := api.EventMask(raw)
	if m == 0 {
		m = api.ValidEvents
	} else if m&^api.ValidEvents != 0 {
		return false, false
	}
	return m&(1<<(ev-1)) != 0, true
}

func hasResponse(ev int) bool {
	return ev == int(api.Event_CREATE_CONTAINER) || ev == int(api.Event_UPDATE_CONTAINER) || ev == int(api.Event_STOP_CONTAINER)
}

func historyOracle(cs *evCase) string {
	byID := map[int]*evPlugin{}
	for i := range cs.Plugins {
		p := &cs.Plugins[i]
		byID[p.ID] = p
		if p.Reg < p.Lo || p.Reg > p.Hi {
			return fmt.Sprintf("plugin %s-%s received request #%d of the common order although its Start was called after %d requests had completed (window [%d,%d])", p.Idx, p.Name, p.Reg, p.Lo, p.Lo, p.Hi)
		}
	}
	if len(cs.Foreign) > 0 {
		return fmt.Sprintf("the response to request %d carries ids of another request", cs.Foreign[0])
	}
	// group the log
	type block struct {
		rid  int
		pids []int
	}
	var blocks []block
	for _, en := range cs.Log {
		if n := len(blocks); n > 0 && blocks[n-1].rid == en[1] {
			blocks[n-1].pids = append(blocks[n-1].pids, en[0])
		} else {
			blocks = append(blocks, block{en[1], []int{en[0]}})
		}
	}
	if len(blocks) != len(cs.Sigma) {
		return fmt.Sprintf("handler invocations of different requests interleave: %d maximal runs for %d requests", len(blocks), len(cs.Sigma))
	}
	for k, b := range blocks {
		rid, ev := cs.Sigma[k][0], cs.Sigma[k][1]
		if b.rid != rid {
			return fmt.Sprintf("position %d: plugins saw request %d where the observer saw %d", k, b.rid, rid)
		}
		seen := map[int]bool{}
		var names []string
		for i, pid := range b.pids {
			p := byID[pid]
			if p == nil {
				return fmt.Sprintf("unknown plugin id %d", pid)
			}
			if seen[pid] {
				return fmt.Sprintf("request %d: plugin %s-%s invoked twice", rid, p.Idx, p.Name)
			}
			seen[pid] = true
			if sub, ok := subOf(p.Raw, ev); !ok || !sub {
				return fmt.Sprintf("request %d (event %d): plugin %s-%s (mask %#x) is not subscribed but was invoked", rid, ev, p.Idx, p.Name, uint32(p.Raw))
			}
			if p.Reg > k {
				return fmt.Sprintf("request %d: plugin %s-%s invoked before its registration point", rid, p.Idx, p.Name)
			}
			if k >= p.Gone {
				return fmt.Sprintf("request %d: plugin %s-%s invoked after it had stopped", rid, p.Idx, p.Name)
			}
			if i > 0 && byID[b.pids[i-1]].Idx > p.Idx {
				return fmt.Sprintf("request %d: plugin %s invoked before %s", rid, byID[b.pids[i-1]].Idx+"-"+byID[b.pids[i-1]].Name, p.Idx+"-"+p.Name)
			}
			names = append(names, p.Name)
		}
		for i := range cs.Plugins {
			p := &cs.Plugins[i]
			if sub, ok := subOf(p.Raw, ev); ok && sub && p.Reg <= k && k < p.Gone && !seen[p.ID] {
				return fmt.Sprintf("request %d (event %d): subscribed plugin %s-%s (mask %#x, registered from position %d) was not invoked", rid, ev, p.Idx, p.Name, uint32(p.Raw), p.Reg)
			}
		}
		res := cs.Results[k]
		if res.Err != "" {
			return fmt.Sprintf("request %d failed: %s", rid, res.Err)
		}
		var want []string
		if hasResponse(ev) {
			want = names
			sort.Strings(want)
		}
		if strings.Join(want, ",") != strings.Join(res.Tokens, ",") {
			return fmt.Sprintf("request %d: response carries contributions %v, plugins invoked contribute %v", rid, res.Tokens, want)
		}
	}
	return ""
}

// ---- Coq term

func evCaseTerm(cs *evCase) string {
	var ps, sg, lg, rs []string
	for _, p := range cs.Plugins {
		ps = append(ps, fmt.Sprintf("{| ep_id := %s; ep_idx := %s; ep_name := %s; ep_raw := %s; ep_reg := %s; ep_lo := %s; ep_hi := %s; ep_gone := %s |}",
			coqfmt.N(uint64(p.ID)), coqfmt.Str(p.Idx), coqfmt.Str(p.Name), coqfmt.Z(int64(p.Raw)),
			coqfmt.Nat(p.Reg), coqfmt.Nat(p.Lo), coqfmt.Nat(p.Hi), coqfmt.Nat(p.Gone)))
	}
	for _, s := range cs.Sigma {
		sg = append(sg, coqfmt.Pair(coqfmt.N(uint64(s[0])), coqfmt.Z(int64(s[1]))))
	}
	for _, l := range cs.Log {
		lg = append(lg, coqfmt.Pair(coqfmt.N(uint64(l[0])), coqfmt.N(uint64(l[1]))))
	}
	for _, r := range cs.Results {
		e := "None"
		if r.Err != "" {
			e = "(Some " + coqfmt.Str(asciiOnly(r.Err)) + ")"
		}
		rs = append(rs, coqfmt.Pair(e, coqfmt.StrList(r.Tokens)))
	}
	return fmt.Sprintf("{| ec_plugins := %s; ec_sigma := %s; ec_log := %s; ec_results := %s |}",
		coqfmt.List(ps), coqfmt.List(sg), coqfmt.List(lg), coqfmt.List(rs))
}

func asciiOnly(s string) string {
	b := []byte(s)
	for i, c := range b {
		if c < 32 || c > 126 {
			b[i] = '?'
		}
	}
	if len(b) > 300 {
		b = b[:300]
	}
	return string(b)
}

// ---- generators

var tieIdx = []string{"00", "05", "10", "10", "10", "50", "50", "99"}

func randIdx(r *rand.Rand) string {
	if r.Intn(3) > 0 {
		return tieIdx[r.Intn(len(tieIdx))]
	}
	return fmt.Sprintf("%02d", r.Intn(100))
}

// masks a stub-based plugin can ask for (non-empty, within ValidEvents)
func randMask(r *rand.Rand) int32 {
	switch r.Intn(6) {
	case 0:
		return int32(api.ValidEvents)
	case 1:
		return 1 << uint(r.Intn(13))
	case 2:
		return int32(api.ValidEvents) &^ (1 << uint(r.Intn(13)))
	default:
		return int32(1 + r.Intn(int(api.ValidEvents)))
	}
}

func randEvents(r *rand.Rand, n int) []api.Event {
	evs := make([]api.Event, n)
	for i := range evs {
		evs[i] = allEvents[r.Intn(len(allEvents))]
	}
	return evs
}

func driveEvents(c *hx.Ctx) error {
	quiet()
	adaptation.SetPluginRequestTimeout(10 * time.Second)
	adaptation.SetPluginRegistrationTimeout(10 * time.Second)
	imports := "From NRI Require Import Model.Dispatch Spec.DispatchSpec Run.Common Run.RunDispatch."
	// a history in which the runtime stopped answering is a failing case; the driver then ends (its
	// goroutines blocked in the dead adaptation are abandoned)
	stalled := func(err error) bool {
		var st *errStalled
		if errors.As(err, &st) {
			c.ImplFail(fmt.Sprint(st.info["stream"]), st.what, st.info)
			c.Eval("stalled-history", true)
			return true
		}
		return false
	}
	emit := func(sh *hx.Shard, cs *evCase) {
		sh.Add(evCaseTerm(cs), cs)
		if why := historyOracle(cs); why != "" {
			c.ImplFail(cs.Stream, why, cs)
		}
	}

	// --- stream "corpus": committed boundary histories
	cr := c.Rand("events/corpus")
	cshard := c.NewShard("corpus", imports, "ev_case", "corr_events", "holds_events", 40)
	for _, f := range corpusFiles("C06") {
		var l []struct {
			What    string `json:"what"`
			Plugins []struct {
				Idx  string `json:"idx"`
				Raw  int32  `json:"raw"`
				Kind string `json:"kind"`
			} `json:"plugins"`
			Phase1 []int `json:"phase1"`
			Phase2 []int `json:"phase2"`
			G      int   `json:"goroutines"`
		}
		raw, err := os.ReadFile(f)
		if err == nil {
			err = json.Unmarshal(raw, &l)
		}
		if err != nil {
			c.HarnessError("corpus %s: %v", f, err)
			continue
		}
		for h, k := range l {
			plan := histPlan{g: k.G}
			if plan.g < 1 {
				plan.g = 1
			}
			for i, p := range k.Plugins {
				kind := p.Kind
				if kind != "raw" {
					kind = "stub"
				}
				plan.plugins = append(plan.plugins, evPlugin{ID: i + 1, Idx: p.Idx, Name: fmt.Sprintf("K%d", i+1), Raw: p.Raw, Kind: kind})
			}
			toEv := func(l []int) []api.Event {
				var o []api.Event
				for _, e := range l {
					if e >= 1 && e <= 13 {
						o = append(o, api.Event(e))
					}
				}
				return o
			}
			plan.phase1, plan.phase2 = toEv(k.Phase1), toEv(k.Phase2)
			cs, err := runHistory(c, cr, "corpus", h, plan)
			if err != nil {
				if stalled(err) {
					return nil
				}
				return err
			}
			emit(cshard, cs)
			c.Eval(fmt.Sprintf("corpus/%s/%d", filepath.Base(f), h), true)
			c.Count("events.corpus", 1)
		}
	}

	// --- stream "histories": random histories
	r := c.Rand("events/histories")
	sh := c.NewShard("histories", imports, "ev_case", "corr_events", "holds_events", 40)
	n := c.Pick(400, 1500)
	ties, concurrent, midreg, leavers := 0, 0, 0, 0
	for h := 0; h < n; h++ {
		k := 2 + r.Intn(7)
		plan := histPlan{g: 1 + r.Intn(6)}
		used := map[string]int{}
		for i := 0; i < k; i++ {
			sp := evPlugin{ID: i + 1, Idx: randIdx(r), Name: fmt.Sprintf("P%d", i+1), Raw: randMask(r), Kind: "stub"}
			if r.Intn(4) == 0 {
				sp.Kind = "raw"
				if r.Intn(3) == 0 {
					sp.Raw = 0 // the empty mask on the wire: everything
				}
			}
			used[sp.Idx]++
			plan.plugins = append(plan.plugins, sp)
		}
		for _, v := range used {
			if v > 1 {
				ties++
				break
			}
		}
		plan.phase1 = randEvents(r, r.Intn(25))
		plan.phase2 = randEvents(r, 30+r.Intn(30))
		if k >= 3 && r.Intn(3) == 0 {
			// one or two plugins stop after two thirds of phase 2; nobody registers afterwards
			cut := len(plan.phase2) * 2 / 3
			plan.phase2, plan.phase3 = plan.phase2[:cut], plan.phase2[cut:]
			plan.stop = r.Perm(k)[:1+r.Intn(2)]
			leavers++
		}
		cs, err := runHistory(c, r, "histories", h, plan)
		if err != nil {
			if stalled(err) {
				return nil
			}
			return err
		}
		emit(sh, cs)
		nontrivial := false
		for _, p := range cs.Plugins[1:] {
			if p.Reg > 0 && p.Reg < p.Hi {
				midreg++
				nontrivial = true
			}
		}
		if plan.g > 1 {
			concurrent++
		}
		c.Eval(fmt.Sprintf("hist/%d/%d", c.Seed, h), nontrivial || plan.g > 1)
		c.Count("events.histories", 1)
		c.Count("events.requests", len(cs.Sigma))
		c.Count("events.invocations", len(cs.Log))
		if h < 2 {
			c.Sample(map[string]interface{}{"history": h, "plugins": cs.Plugins, "requests": len(cs.Sigma), "invocations": len(cs.Log), "goroutines": plan.g}, 6)
		}
	}
	c.Count("events.histories.with_a_plugin_stopping", leavers)
	c.Count("events.histories.with_equal_indices", ties)
	c.Count("events.histories.concurrent_callers", concurrent)
	c.Count("events.plugins.registered_amid_requests", midreg)
	if ties == 0 || concurrent == 0 {
		c.HarnessError("events: generator produced no history with equal indices (%d) or concurrent callers (%d)", ties, concurrent)
	}

	// --- stream "leave": 4-6 all-events plugins with distinct indices; one of them — any position, the
	// lowest index included — stops mid-history; the remaining ones must still be asked in index order
	rl := c.Rand("events/leave")
	ls := c.NewShard("leave", imports, "ev_case", "corr_events", "holds_events", 60)
	for h := 0; h < c.Pick(24, 150); h++ {
		k := 4 + rl.Intn(3)
		plan := histPlan{g: 1 + rl.Intn(4)}
		for i, ix := range rl.Perm(100)[:k] {
			kind := "stub"
			if rl.Intn(4) == 0 {
				kind = "raw"
			}
			plan.plugins = append(plan.plugins, evPlugin{ID: i + 1, Idx: fmt.Sprintf("%02d", ix), Name: fmt.Sprintf("L%d", i+1), Raw: int32(api.ValidEvents), Kind: kind})
		}
		// which plugin leaves: cycle through the ranks (0 = lowest index) so that every rank occurs
		rank := h % k
		order := make([]int, k)
		for i := range order {
			order[i] = i
		}
		sort.Slice(order, func(a, b int) bool { return plan.plugins[order[a]].Idx < plan.plugins[order[b]].Idx })
		plan.stop = []int{order[rank]}
		plan.phase2 = randEvents(rl, 8+rl.Intn(8))
		plan.phase3 = randEvents(rl, 12+rl.Intn(10))
		cs, err := runHistory(c, rl, "leave", h, plan)
		if err != nil {
			if stalled(err) {
				return nil
			}
			return err
		}
		emit(ls, cs)
		c.Eval(fmt.Sprintf("leave/%d/%d", c.Seed, h), true)
		c.Count(fmt.Sprintf("events.leave.rank_%d_of_%d", rank, k), 1)
	}

	// --- stream "restart": a plugin goes away and a new instance with the same index and name registers before any
	// request has pruned the old one; or two live instances share index and name and one of them closes.  Every
	// live subscribed instance must get each event exactly once.
	rr := c.Rand("events/restart")
	rsh := c.NewShard("restart", imports, "ev_case", "corr_events", "holds_events", 40)
	noContribution := []api.Event{api.Event_RUN_POD_SANDBOX, api.Event_STOP_POD_SANDBOX, api.Event_REMOVE_POD_SANDBOX,
		api.Event_POST_CREATE_CONTAINER, api.Event_START_CONTAINER, api.Event_POST_START_CONTAINER,
		api.Event_POST_UPDATE_CONTAINER, api.Event_REMOVE_CONTAINER, api.Event_POST_UPDATE_POD_SANDBOX, api.Event_UPDATE_POD_SANDBOX}
	pickNC := func(n int) []api.Event {
		var o []api.Event
		for i := 0; i < n; i++ {
			o = append(o, noContribution[rr.Intn(len(noContribution))])
		}
		return o
	}
	for h := 0; h < c.Pick(12, 60); h++ {
		k := 3 + rr.Intn(3)
		plan := histPlan{g: 1 + rr.Intn(3)}
		for i, ix := range rr.Perm(99)[:k] {
			plan.plugins = append(plan.plugins, evPlugin{ID: i + 1, Idx: fmt.Sprintf("%02d", ix+1), Name: fmt.Sprintf("R%d", i+1), Raw: int32(api.ValidEvents), Kind: "stub"})
		}
		who := rr.Intn(k)
		if h%2 == 0 {
			// restart
			plan.stop, plan.restart = []int{who}, []int{who}
			plan.phase2 = randEvents(rr, 4+rr.Intn(6))
			plan.phase3 = randEvents(rr, 8+rr.Intn(8))
			c.Count("events.restart.restarted", 1)
		} else {
			// twins: a second live instance under the same index and name (only events without contributions: the two
			// would otherwise collide in the merged result), then one of the two closes
			twin := plan.plugins[who]
			twin.ID = k + 1
			plan.plugins = append(plan.plugins, twin)
			plan.stop = []int{[]int{who, k}[rr.Intn(2)]}
			plan.phase2 = pickNC(4 + rr.Intn(6))
			plan.phase3 = pickNC(8 + rr.Intn(8))
			c.Count("events.restart.twins", 1)
		}
		cs, err := runHistory(c, rr, "restart", h, plan)
		if err != nil {
			if stalled(err) {
				return nil
			}
			return err
		}
		emit(rsh, cs)
		c.Eval(fmt.Sprintf("restart/%d/%d", c.Seed, h), true)
	}

	// --- stream "budget": the request time-out bounds each CALL, not the whole request: with a short
	// time-out T, three or four all-events plugins whose handlers each take 0.42 T (together more than T)
	// must each be asked once, in index order, for every event, and still be there for the next one
	{
		const budgetT = 600 * time.Millisecond
		adaptation.SetPluginRequestTimeout(budgetT)
		rb := c.Rand("events/budget")
		bs := c.NewShard("budget", imports, "ev_case", "corr_events", "holds_events", 20)
		stateChange := []api.Event{api.Event_RUN_POD_SANDBOX, api.Event_STOP_POD_SANDBOX, api.Event_REMOVE_POD_SANDBOX,
			api.Event_POST_CREATE_CONTAINER, api.Event_START_CONTAINER, api.Event_POST_START_CONTAINER,
			api.Event_POST_UPDATE_CONTAINER, api.Event_REMOVE_CONTAINER, api.Event_POST_UPDATE_POD_SANDBOX}
		for h := 0; h < c.Pick(2, 8); h++ {
			mk := func() histPlan {
				k := 3 + h%2
				plan := histPlan{g: 1, sleep: budgetT * 42 / 100}
				for i, ix := range rb.Perm(99)[:k] {
					plan.plugins = append(plan.plugins, evPlugin{ID: i + 1, Idx: fmt.Sprintf("%02d", ix+1), Name: fmt.Sprintf("B%d", i+1), Raw: int32(api.ValidEvents), Kind: "stub"})
				}
				// two state-change events, then one of the four request types
				plan.phase2 = []api.Event{stateChange[rb.Intn(len(stateChange))], stateChange[rb.Intn(len(stateChange))],
					[]api.Event{api.Event_CREATE_CONTAINER, api.Event_UPDATE_CONTAINER, api.Event_STOP_CONTAINER, api.Event_UPDATE_POD_SANDBOX}[rb.Intn(4)]}
				return plan
			}
			var cs *evCase
			for try := 0; try < 3; try++ {
				// a handler that takes 0.42 T is judged against the clock: a failing history is re-run (same shape) before it is reported
				var err error
				cs, err = runHistory(c, rb, "budget", h, mk())
				if err != nil {
					adaptation.SetPluginRequestTimeout(10 * time.Second)
					if stalled(err) {
						return nil
					}
					return err
				}
				if historyOracle(cs) == "" {
					break
				}
			}
			emit(bs, cs)
			c.Eval(fmt.Sprintf("budget/%d/%d", c.Seed, h), true)
			c.Count("events.budget.histories", 1)
		}
		adaptation.SetPluginRequestTimeout(10 * time.Second)
	}

	// --- stream "sweep": masks x the thirteen events; every mask 1..ValidEvents in the
	// thorough tier, a seeded sample in the quick tier; eight masks per history
	rs := c.Rand("events/sweep")
	sw := c.NewShard("sweep", imports, "ev_case", "corr_events", "holds_events", 60)
	valid := int(api.ValidEvents)
	var masks []int32
	if c.Quick() {
		for _, m := range rs.Perm(valid)[:256] {
			masks = append(masks, int32(m+1))
		}
	} else {
		for m := 1; m <= valid; m++ {
			masks = append(masks, int32(m))
		}
	}
	for h := 0; len(masks) > 0; h++ {
		k := 8
		if k > len(masks) {
			k = len(masks)
		}
		plan := histPlan{g: 1 + rs.Intn(4)}
		for i := 0; i < k; i++ {
			plan.plugins = append(plan.plugins, evPlugin{ID: i + 1, Idx: randIdx(rs), Name: fmt.Sprintf("M%d", masks[i]), Raw: masks[i], Kind: "stub"})
		}
		masks = masks[k:]
		for _, i := range rs.Perm(len(allEvents)) {
			plan.phase2 = append(plan.phase2, allEvents[i])
		}
		cs, err := runHistory(c, rs, "sweep", h, plan)
		if err != nil {
			if stalled(err) {
				return nil
			}
			return err
		}
		emit(sw, cs)
		for _, p := range plan.plugins {
			c.Eval(fmt.Sprintf("sweep/mask/%d", p.Raw), true)
		}
		c.Count("events.sweep.mask_event_pairs", k*len(allEvents))
	}

	// --- stream "wire-masks": masks only a hand-made session can send — the empty mask
	// (= everything), bits outside ValidEvents (refused), the sign bit
	rw := c.Rand("events/wire")
	ws := c.NewShard("wiremasks", imports, "ev_case", "corr_events", "holds_events", 60)
	odd := []int32{0, 1 << 13, 1<<13 | 5, 1 << 20, 1 << 30, -1, -8192, int32(api.ValidEvents), 1 << 12, 1<<14 | int32(api.ValidEvents), -2147483648}
	for h := 0; h < c.Pick(6, 40); h++ {
		plan := histPlan{g: 1 + rw.Intn(3)}
		for i, m := range odd {
			plan.plugins = append(plan.plugins, evPlugin{ID: i + 1, Idx: randIdx(rw), Name: fmt.Sprintf("W%d", i), Raw: m, Kind: "raw"})
		}
		rw.Shuffle(len(plan.plugins), func(i, j int) { plan.plugins[i], plan.plugins[j] = plan.plugins[j], plan.plugins[i] })
		plan.phase1 = randEvents(rw, rw.Intn(6))
		for _, i := range rw.Perm(len(allEvents)) {
			plan.phase2 = append(plan.phase2, allEvents[i])
		}
		cs, err := runHistory(c, rw, "wiremasks", h, plan)
		if err != nil {
			if stalled(err) {
				return nil
			}
			return err
		}
		emit(ws, cs)
		refused := 0
		for _, p := range cs.Plugins {
			if _, ok := subOf(p.Raw, 1); !ok {
				refused++
			}
		}
		c.Count("events.wire.refused_masks", refused)
		c.Eval(fmt.Sprintf("wire/%d/%d", c.Seed, h), true)
	}
	c.Stats.Exhaustive = !c.Quick()
	c.Stats.Rule = "histories: a fresh Adaptation per history, an all-events observer at index 00, 2-8 plugins (real stub or hand-made mux+ttrpc session) with random and equal indices and random masks registering in random order/timing while 0-24 requests run, then 30-59 requests over the thirteen entry points from 1-6 concurrent goroutines; non-trivial = concurrent callers or a plugin registered amid requests; in a third of the histories one or two plugins stop after two thirds of the requests. leave: 4-6 all-events plugins with distinct indices, the plugin of each index rank in turn stops mid-history, 12-21 further requests without any registration. restart: 3-5 all-events plugins; either one stops and a new instance registers under the same index and name before any request has pruned the old one, or two live instances share index and name and one of them closes; 8-15 further requests; budget: request time-out 600 ms, 3-4 all-events plugins whose handlers each take 0.42 x the time-out (together more than the time-out), two state-change events and one request; sweep: eight masks per history x all thirteen events (thorough: every mask 1..ValidEvents, exhaustive; quick: 256 sampled masks). wiremasks: masks only a raw session can send (0 = everything, bits outside ValidEvents, sign bit)."
	return nil
}
