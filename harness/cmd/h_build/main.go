package main

import (
	"fmt"
	"reflect"

	"github.com/containerd/nri/pkg/api"
)

func main() {
	for _, v := range []interface{}{&api.ContainerAdjustment{}, &api.ContainerUpdate{}} {
		t := reflect.TypeOf(v)
		fmt.Println(t)
		for i := 0; i < t.NumMethod(); i++ {
			fmt.Println("  ", t.Method(i).Name, t.Method(i).Type)
		}
	}
}
