package main

import (
	"context"
	"encoding/json"
	"fmt"
	"math"
	"math/rand"
	"net"
	"os"
	"os/exec"
	"path/filepath"
	"sort"
	"strings"
	"sync"
	"sync/atomic"
	"syscall"
	"time"

	"github.com/containerd/nri/pkg/adaptation"
	"github.com/containerd/nri/pkg/api"

	"verif/harness/internal/coqfmt"
	"verif/harness/internal/hx"
)

const regImports = "From NRI Require Import Model.Register Spec.RegisterSpec Run.Common Run.RunRegister."

// ---------------------------------------------------------------- Go twins of the Coq predicates

func indexSpec(s string) bool { // one of "00".."99"
	return len(s) == 2 && s[0] >= '0' && s[0] <= '9' && s[1] >= '0' && s[1] <= '9'
}

func maskOK(m int32) bool {
	v := int32(api.ValidEvents)
	return m == 0 || (m > 0 && m <= v && m&v == m)
}

func classify(sc script) string {
	switch sc.Reg {
	case "never", "late":
		return "reg-timeout"
	case "close":
		return "closed"
	case "at":
		// the deadline of the register phase is the registration time-out; the request time-out plays no role
		if sc.AtMs >= sc.RegT {
			return "reg-timeout"
		}
	}
	switch {
	case sc.Name == "":
		return "bad-name"
	case !indexSpec(sc.Idx):
		return "bad-index"
	}
	switch sc.Cfg {
	case "silent":
		return "req-timeout"
	case "error", "close":
		return "cfg-error"
	}
	switch {
	case !maskOK(sc.Mask):
		return "bad-mask"
	case sc.Sync != "ok":
		return "sync-failed"
	}
	return "good"
}

func expectedObs(sc script, fired []int64) rawObs {
	cl := classify(sc)
	o := rawObs{Events: []int64{}}
	switch cl {
	case "reg-timeout", "closed", "bad-name", "bad-index":
		return o
	}
	o.RegOK, o.Configured = true, true
	if cl == "sync-failed" || cl == "good" {
		o.Syncs = 1
	}
	if cl == "good" {
		m := sc.Mask
		if m == 0 {
			m = int32(api.ValidEvents)
		}
		for _, e := range fired {
			if m&(1<<(uint(e)-1)) != 0 {
				o.Events = append(o.Events, e)
			}
		}
	}
	return o
}

// regDet: whether the plugin's RegisterPlugin call returns nil is determined only when the runtime refuses
// it in the handler or keeps the plugin; when the runtime drops the connection right after registration the
// answer races with the close (nil or "ttrpc: closed") and is not compared.
func sameObs(a, b rawObs, regDet bool) bool {
	if (regDet && a.RegOK != b.RegOK) || a.Configured != b.Configured || a.Syncs != b.Syncs || len(a.Events) != len(b.Events) {
		return false
	}
	for i := range a.Events {
		if a.Events[i] != b.Events[i] {
			return false
		}
	}
	return true
}

// ---------------------------------------------------------------- corpora

var idxBoundary = []string{"", "0", "9", "5", "00", "99", "05", "50", "10", "000", "123", "0 ", " 0", " 1", "1 ", "-1", "+1",
	"0a", "a0", "aa", "0x", "1e", "٠١", "٠", "１２", "１", "০১", "/0", ":0", "0/", "0:", "9:", "/9", "1.", ".1", "  ",
	"\t1", "1\n", "0\x00", "\x000", "1\x7f", "99 ", "099", "-01", "1-", "--", "ab", "AZ", "0O", "O0", "l1", "१२",
	// two digits followed by something: a separator the runtime uses itself (index-name), other separators, more digits
	"05-x", "10-", "00-00", "99-a-b", "42--", "05-", "05-05", "12-34-56", "00-logger", "05_x", "05.x", "05 x", "05/x", "05:x",
	"05+x", "05,x", "05;x", "05=x", "05#2", "0500", "05x", "05-\x00", "1234567890", "05--05", "-05-x", "5-05", "05\t-x"}

var nameCorpus = []string{"", "a", "logger", "x-y", " ", "-", "00", "名前", "a\tb", "plugin.with.dots", "05-nested", strings.Repeat("n", 200), "\x01", "ümlaut"}

func maskBoundary() []int32 {
	v := int32(api.ValidEvents)
	return []int32{0, 1, 2, v, v + 1, v - 1, v >> 1, 4097, 1 << 12, 1 << 13, 1 << 14, v | 1<<13, 1 << 30, math.MaxInt32,
		-1, -2, math.MinInt32, math.MinInt32 + 1, -v, -v - 1, -8192, math.MinInt32 | 1, v | math.MinInt32, 1 << 20, 3, 8190}
}

func validUTF8Idx() []string {
	var out []string
	for _, s := range idxBoundary {
		if strings.ToValidUTF8(s, "") == s {
			out = append(out, s)
		}
	}
	return out
}

// ---------------------------------------------------------------- CheckPluginIndex, directly

func driveIndex(c *hx.Ctx) {
	sh := c.NewShard("index", regImports, "idx_case", "corr_idx", "holds_idx", 1000)
	seen := map[string]bool{}
	add := func(s string) {
		if seen[s] {
			return
		}
		seen[s] = true
		ok := api.CheckPluginIndex(s) == nil
		cs := map[string]interface{}{"index": quoteBytes(s), "ok": ok}
		sh.Add(fmt.Sprintf("{| ix_str := %s; ix_ok := %s |}", cstr(s), coqfmt.Bool(ok)), cs)
		c.Eval("index/"+s, true)
		if ok {
			c.Count("index.accepted", 1)
		} else {
			c.Count("index.rejected", 1)
		}
		if ok != indexSpec(s) {
			c.ImplFail("index", "CheckPluginIndex accepts exactly the strings 00..99", cs)
		}
	}
	for _, s := range idxBoundary {
		add(s)
	}
	for i := 0; i < 100; i++ {
		add(fmt.Sprintf("%02d", i))
	}
	alpha := []byte{'/', '0', '5', '9', ':', ' ', 'a', '-', 0, 0xd9, 0xa0, 0xff, '1', 'Z'}
	for _, a := range alpha {
		for _, b := range alpha {
			add(string([]byte{a, b}))
		}
	}
	r := c.Rand("index")
	for i := 0; i < c.Pick(1500, 20000); i++ {
		n := r.Intn(5)
		if r.Intn(3) > 0 {
			n = 2
		}
		b := make([]byte, n)
		for j := range b {
			switch r.Intn(4) {
			case 0:
				b[j] = byte(r.Intn(256))
			case 1:
				b[j] = alpha[r.Intn(len(alpha))]
			default:
				b[j] = byte('0' + r.Intn(10))
			}
		}
		add(string(b))
	}
}

// ---------------------------------------------------------------- scripted handshakes

type regConn struct {
	Script     script `json:"script"`
	Obs        rawObs `json:"obs"`
	Class      string `json:"class"`
	Unfinished bool   `json:"unfinished,omitempty"` // its registration step never ended; the driver closed the connection
}

type regCase struct {
	Conns  []regConn `json:"conns"`
	Fired  []int64   `json:"fired"`
	Errors []string  `json:"errors,omitempty"` // judged: what the runtime failed to do for the driver itself
	Notes  []string  `json:"notes,omitempty"`  // not judged
	Stalls int       `json:"stalls"`
	Stuck  bool      `json:"stuck,omitempty"` // the runtime stopped serving connections or requests in this case
}

// the order in which fireAll issues the thirteen requests
var firedOrder = []int64{1, 12, 13, 4, 5, 6, 7, 8, 9, 10, 11, 2, 3}

// Bounds of the handshake driver.  A whole case (up to ~20 connections, no stall) settles in a few
// tens of milliseconds; settleBound is what the driver waits for any single step before it RECORDS
// that the step did not happen (an observation judged by the oracle, never a harness error).  Once
// the runtime is known to be stuck in a case the remaining waits of that case are cut to stuckBound,
// and after maxStuckCases such cases the rest of the stream is skipped (the verdict is settled).
const (
	settleBound   = 20 * time.Second
	stuckBound    = 2 * time.Second
	fireBound     = 60 * time.Second
	stopBound     = 20 * time.Second
	maxStuckCases = 3
)

var stuckCases int32 // cases in which the runtime got stuck, over the whole driver run

// stopBounded stops the Adaptation; when Stop itself does not return the instance is abandoned (its
// goroutines leak until the driver exits) and the driver goes on with fresh instances.
func stopBounded(a *adaptation.Adaptation) bool {
	done := make(chan struct{})
	go func() { a.Stop(); close(done) }()
	select {
	case <-done:
		return true
	case <-time.After(stopBound):
		return false
	}
}

func fireAll(a *adaptation.Adaptation) ([]int64, []string) {
	ctx, cancel := context.WithTimeout(context.Background(), 120*time.Second)
	defer cancel()
	pod := &api.PodSandbox{Id: "pod0", Name: "pod0", Namespace: "default"}
	ctr := &api.Container{Id: "ctr0", PodSandboxId: "pod0", Name: "ctr0"}
	evt := func() *api.StateChangeEvent { return &api.StateChangeEvent{Pod: pod, Container: ctr} }
	var errs []string
	chk := func(what string, err error) {
		if err != nil {
			errs = append(errs, what+": "+err.Error())
		}
	}
	chk("RunPodSandbox", a.RunPodSandbox(ctx, evt()))
	_, err := a.UpdatePodSandbox(ctx, &api.UpdatePodSandboxRequest{Pod: pod, OverheadLinuxResources: &api.LinuxResources{}, LinuxResources: &api.LinuxResources{}})
	chk("UpdatePodSandbox", err)
	chk("PostUpdatePodSandbox", a.PostUpdatePodSandbox(ctx, evt()))
	_, err = a.CreateContainer(ctx, &api.CreateContainerRequest{Pod: pod, Container: ctr})
	chk("CreateContainer", err)
	chk("PostCreateContainer", a.PostCreateContainer(ctx, evt()))
	chk("StartContainer", a.StartContainer(ctx, evt()))
	chk("PostStartContainer", a.PostStartContainer(ctx, evt()))
	_, err = a.UpdateContainer(ctx, &api.UpdateContainerRequest{Pod: pod, Container: ctr, LinuxResources: &api.LinuxResources{}})
	chk("UpdateContainer", err)
	chk("PostUpdateContainer", a.PostUpdateContainer(ctx, evt()))
	_, err = a.StopContainer(ctx, &api.StopContainerRequest{Pod: pod, Container: ctr})
	chk("StopContainer", err)
	chk("RemoveContainer", a.RemoveContainer(ctx, evt()))
	chk("StopPodSandbox", a.StopPodSandbox(ctx, evt()))
	chk("RemovePodSandbox", a.RemovePodSandbox(ctx, evt()))
	return firedOrder, errs
}

// runRegCase connects the scripted peers in order to one fresh Adaptation (the accept loop handles
// them sequentially in that order), then a sentinel; once the sentinel is synchronised every earlier
// connection has been dealt with; then all thirteen events are fired once.
//
// Everything the runtime may fail to do is an OBSERVATION: a sentinel that is never synchronised, a
// sync block that cannot be taken, requests that do not return, a peer whose registration step never
// ends (it is then closed by the driver and recorded as what it saw: not registered, never
// configured, never synchronised, no events).  The oracle judges the observations.  Only failures of
// the machinery (scratch directory, socket, dial) are returned as errors.
func runRegCase(scripts []script, stallBudget time.Duration) (*regCase, error) {
	dir, err := scratch("rg")
	if err != nil {
		return nil, err
	}
	defer os.RemoveAll(dir)
	sock := filepath.Join(dir, "nri.sock")
	syncFn := func(ctx context.Context, cb adaptation.SyncCB) error {
		_, err := cb(ctx, []*api.PodSandbox{{Id: "pod0", Name: "pod0"}}, []*api.Container{{Id: "old0", PodSandboxId: "pod0", Name: "old0"}})
		return err
	}
	a, err := newAdaptation(dir, sock, syncFn)
	if err != nil {
		return nil, err
	}
	if err := a.Start(); err != nil {
		return nil, err
	}
	cs := &regCase{Fired: firedOrder}
	defer func() {
		if !stopBounded(a) {
			cs.Notes = append(cs.Notes, fmt.Sprintf("Adaptation.Stop did not return within %v; instance abandoned", stopBound))
		}
	}()

	release := make(chan struct{})
	all := append(append([]script{}, scripts...), script{Reg: "now", Name: "sentinel", Idx: "99", Cfg: "reply", Mask: 0, Sync: "ok"})
	peers := make([]*rawPlugin, 0, len(all))
	defer func() {
		for _, p := range peers {
			p.shutdown()
		}
	}()
	for i, sc := range all {
		p, err := dialRaw(sock, sc, release)
		if err != nil {
			return nil, fmt.Errorf("dial %d: %w", i, err)
		}
		peers = append(peers, p)
		go p.run()
	}
	sentinel := peers[len(peers)-1]
	deadline := time.Now().Add(stallBudget + settleBound)
	for sentinel.snapshot().Syncs == 0 && time.Now().Before(deadline) {
		time.Sleep(time.Millisecond)
	}
	bound := func() time.Duration {
		if cs.Stuck {
			return stuckBound
		}
		return settleBound
	}
	markStuck := func() { // counted at once, so that cases that have not started yet are skipped
		if !cs.Stuck {
			cs.Stuck = true
			atomic.AddInt32(&stuckCases, 1)
		}
	}
	if sentinel.snapshot().Syncs == 0 {
		markStuck()
		cs.Notes = append(cs.Notes, fmt.Sprintf("the last connection was not synchronized within %v", stallBudget+settleBound))
	}
	// the last activation is complete once a sync block can be taken
	barrier := make(chan struct{})
	go func() { a.BlockPluginSync().Unblock(); close(barrier) }()
	select {
	case <-barrier:
	case <-time.After(bound()):
		cs.Errors = append(cs.Errors, fmt.Sprintf("BlockPluginSync did not return within %v after the last connection", bound()))
		markStuck()
	}
	type fireRes struct{ errs []string }
	fch := make(chan fireRes, 1)
	go func() { _, errs := fireAll(a); fch <- fireRes{errs} }()
	select {
	case r := <-fch:
		cs.Errors = append(cs.Errors, r.errs...)
	case <-time.After(fireBound):
		cs.Errors = append(cs.Errors, fmt.Sprintf("the thirteen requests did not return within %v", fireBound))
		markStuck()
	}
	close(release)
	// every peer's registration step is over by now (late ones were released); one that is still inside
	// it is not being served by the runtime: close it and record what it saw
	waitPeers := func(idx []int, d time.Duration) []int {
		ctx, cancel := context.WithTimeout(context.Background(), d)
		defer cancel()
		var left []int
		for _, i := range idx {
			select {
			case <-peers[i].done:
			case <-ctx.Done():
				left = append(left, i)
			}
		}
		return left
	}
	idx := make([]int, len(peers))
	for i := range idx {
		idx[i] = i
	}
	unfinished := map[int]bool{}
	if left := waitPeers(idx, bound()); len(left) > 0 {
		markStuck()
		for _, i := range left {
			unfinished[i] = true
			peers[i].shutdown()
		}
		for _, i := range waitPeers(left, settleBound) {
			cs.Notes = append(cs.Notes, fmt.Sprintf("peer %d still inside RegisterPlugin after its connection was closed", i))
		}
	}
	for i, p := range peers {
		cs.Conns = append(cs.Conns, regConn{Script: p.sc, Obs: p.snapshot(), Class: classify(p.sc), Unfinished: unfinished[i]})
	}
	return cs, nil
}

func (sc script) coq() string {
	var reg, cfg, syn string
	switch sc.Reg {
	case "never":
		reg = "RegNever"
	case "late":
		reg = fmt.Sprintf("RegLate %s %s", cstr(sc.Name), cstr(sc.Idx))
	case "close":
		reg = "RegClose"
	case "at":
		reg = fmt.Sprintf("(reg_at %d %d %d %s %s)", sc.RegT, sc.ReqT, sc.AtMs, cstr(sc.Name), cstr(sc.Idx))
	default:
		reg = fmt.Sprintf("RegNow %s %s", cstr(sc.Name), cstr(sc.Idx))
	}
	switch sc.Cfg {
	case "silent":
		cfg = "CfgSilent"
	case "error":
		cfg = "CfgError"
	case "close":
		cfg = "CfgClose"
	default:
		cfg = "CfgReply " + coqfmt.Z(int64(sc.Mask))
	}
	switch sc.Sync {
	case "error":
		syn = "SyncError"
	case "silent":
		syn = "SyncSilent"
	default:
		syn = "SyncOk"
	}
	return fmt.Sprintf("{| c_reg := %s; c_cfg := %s; c_sync := %s |}", reg, cfg, syn)
}

func (o rawObs) coq() string {
	return fmt.Sprintf("{| ro_reg_ok := %s; ro_configured := %s; ro_syncs := %s; ro_events := %s |}",
		coqfmt.Bool(o.RegOK), coqfmt.Bool(o.Configured), coqfmt.Z(int64(o.Syncs)), zList(o.Events))
}

func (cs *regCase) coq() string {
	var cos []string
	for _, rc := range cs.Conns {
		cos = append(cos, coqfmt.Pair(rc.Script.coq(), rc.Obs.coq()))
	}
	return fmt.Sprintf("{| rc_conns := %s; rc_fired := %s |}", coqfmt.List(cos), zList(cs.Fired))
}

// oracle: the Go twin of corr_reg/holds_reg (the observation equals what the property allows)
func (cs *regCase) mismatches() []string {
	var bad []string
	for i, rc := range cs.Conns {
		cl := classify(rc.Script)
		regDet := cl == "good" || cl == "reg-timeout" || cl == "closed" || cl == "bad-name" || cl == "bad-index"
		if !sameObs(rc.Obs, expectedObs(rc.Script, cs.Fired), regDet) {
			bad = append(bad, fmt.Sprintf("connection %d (%s): observed %+v, expected %+v", i, rc.Class, rc.Obs, expectedObs(rc.Script, cs.Fired)))
		}
	}
	return append(bad, cs.Errors...)
}

type scriptGen struct {
	r     *rand.Rand
	idx   []string
	masks []int32
	n     int
}

func (g *scriptGen) goodName() string { g.n++; return fmt.Sprintf("p%d", g.n) }
func (g *scriptGen) goodIdx() string  { return fmt.Sprintf("%02d", g.r.Intn(100)) }
func (g *scriptGen) goodMask() int32 {
	if g.r.Intn(4) == 0 {
		return 0
	}
	return int32(g.r.Intn(int(api.ValidEvents))) + 1
}
func (g *scriptGen) badMask() int32 {
	for {
		var m int32
		if g.r.Intn(2) == 0 {
			m = g.masks[g.r.Intn(len(g.masks))]
		} else {
			m = int32(g.r.Uint32())
		}
		if !maskOK(m) {
			return m
		}
	}
}
func (g *scriptGen) badIdx() string {
	for {
		var s string
		if g.r.Intn(3) > 0 {
			s = g.idx[g.r.Intn(len(g.idx))]
		} else if g.r.Intn(2) == 0 {
			s = fmt.Sprint(g.r.Intn(2000) - 500)
		} else { // two digits, a separator, anything
			seps := []string{"-", "--", "_", ".", " ", "/", ":", "-0", "0"}
			tails := []string{"", "x", "logger", "5", "05", "a-b", "-"}
			s = fmt.Sprintf("%02d%s%s", g.r.Intn(100), seps[g.r.Intn(len(seps))], tails[g.r.Intn(len(tails))])
		}
		if !indexSpec(s) {
			return s
		}
	}
}

// class: one of the outcome classes of the model
func (g *scriptGen) make(class string) script {
	sc := script{Reg: "now", Name: g.goodName(), Idx: g.goodIdx(), Cfg: "reply", Mask: g.goodMask(), Sync: "ok"}
	switch class {
	case "good":
		if g.r.Intn(3) == 0 { // boundary masks that are valid, odd but legal names
			ok := []int32{0, 1, int32(api.ValidEvents), int32(api.ValidEvents) - 1, 4097, 1 << 12, 8190}
			sc.Mask = ok[g.r.Intn(len(ok))]
			sc.Name = nameCorpus[1+g.r.Intn(len(nameCorpus)-1)]
		}
	case "bad-name":
		sc.Name = ""
		if g.r.Intn(2) == 0 {
			sc.Idx = g.badIdx() // the name is checked first
		}
	case "bad-index":
		sc.Idx = g.badIdx()
	case "bad-mask":
		sc.Mask = g.badMask()
	case "cfg-error":
		sc.Cfg = "error"
	case "cfg-close":
		sc.Cfg = "close"
	case "closed":
		sc.Reg = "close"
	case "sync-error":
		sc.Sync = "error"
	case "reg-never":
		sc.Reg = "never"
	case "reg-late":
		sc.Reg = "late"
	case "cfg-silent":
		sc.Cfg = "silent"
	case "sync-silent":
		sc.Sync = "silent"
	default:
		panic(class)
	}
	return sc
}

var fastClasses = []string{"good", "good", "bad-name", "bad-index", "bad-index", "bad-mask", "bad-mask", "bad-mask", "cfg-error", "cfg-close", "closed", "sync-error"}
var stallClasses = []string{"reg-never", "reg-late", "cfg-silent", "sync-silent"}

func emitRegCase(c *hx.Ctx, sh *hx.Shard, stream string, cs *regCase) {
	sh.Add(cs.coq(), cs)
	bad, good := 0, 0
	for _, rc := range cs.Conns {
		c.Count("register.class."+rc.Class, 1)
		if rc.Class == "good" {
			good++
		} else {
			bad++
		}
		if rc.Script.Reg == "now" && rc.Script.Cfg == "reply" {
			switch m := rc.Script.Mask; {
			case m < 0:
				c.Count("register.mask.negative", 1)
			case m == 0:
				c.Count("register.mask.zero", 1)
			case maskOK(m):
				c.Count("register.mask.valid", 1)
			default:
				c.Count("register.mask.extra_bits", 1)
			}
		}
	}
	c.Count("register.connections", len(cs.Conns))
	var key []string
	for _, rc := range cs.Conns {
		key = append(key, rc.Script.coq())
	}
	c.Eval(stream+"/"+strings.Join(key, ","), bad > 0 && good > 1)
	if mm := cs.mismatches(); len(mm) > 0 {
		c.ImplFail(stream, strings.Join(mm, "; "), cs)
	}
}

func driveHandshakes(c *hx.Ctx) error {
	g := &scriptGen{r: c.Rand("register"), idx: validUTF8Idx(), masks: maskBoundary()}

	// --- phase 1: no stalls; generous time-outs that never fire
	adaptation.SetPluginRegistrationTimeout(60 * time.Second)
	adaptation.SetPluginRequestTimeout(60 * time.Second)
	sh := c.NewShard("register", regImports, "reg_case", "corr_reg", "holds_reg", 40)
	var cases [][]script
	// boundary sweeps: every boundary index, every boundary mask, every corpus name, each behind bad ones
	var sweep []script
	for _, s := range g.idx {
		sc := g.make("good")
		sc.Idx = s
		sweep = append(sweep, sc)
	}
	for _, m := range g.masks {
		sc := g.make("good")
		sc.Mask = m
		sweep = append(sweep, sc)
	}
	for _, n := range nameCorpus {
		sc := g.make("good")
		sc.Name = n
		sweep = append(sweep, sc)
	}
	for len(sweep) > 0 {
		n := 16
		if n > len(sweep) {
			n = len(sweep)
		}
		cases = append(cases, append([]script{g.make("bad-mask")}, sweep[:n]...))
		sweep = sweep[n:]
	}
	for i := 0; i < c.Pick(60, 900); i++ {
		k := 4 + g.r.Intn(16)
		var cs []script
		nbad := 1 + g.r.Intn(k-1) // any number of bad ones ahead of a good one
		for j := 0; j < nbad; j++ {
			cl := fastClasses[2+g.r.Intn(len(fastClasses)-2)]
			cs = append(cs, g.make(cl))
		}
		cs = append(cs, g.make("good"))
		for len(cs) < k {
			cs = append(cs, g.make(fastClasses[g.r.Intn(len(fastClasses))]))
		}
		cases = append(cases, cs)
	}
	results := make([]*regCase, len(cases))
	errs := make([]error, len(cases))
	var wg sync.WaitGroup
	sem := make(chan struct{}, 8)
	for i := range cases {
		wg.Add(1)
		go func(i int) {
			defer wg.Done()
			sem <- struct{}{}
			defer func() { <-sem }()
			if atomic.LoadInt32(&stuckCases) >= maxStuckCases {
				return // the runtime stops serving connections: the verdict is settled, do not wait out the rest
			}
			results[i], errs[i] = runRegCase(cases[i], 0)
		}(i)
	}
	wg.Wait()
	for i, cs := range results {
		if errs[i] != nil {
			return fmt.Errorf("register case %d: %w", i, errs[i])
		}
		if cs == nil {
			c.Count("register.cases_skipped_after_stuck_runtime", 1)
			continue
		}
		emitRegCase(c, sh, "register", cs)
		if i == 0 || i == len(results)-1 {
			c.Sample(map[string]interface{}{"stream": "register", "connections": len(cs.Conns), "first": cs.Conns[0], "last_but_sentinel": cs.Conns[len(cs.Conns)-2]}, 8)
		}
	}

	if n := atomic.LoadInt32(&stuckCases); n > 0 {
		// with a runtime that already stopped serving connections without any stall the stall stream
		// would only wait out its bounds
		c.Count("register.stuck_cases", int(n))
		c.Count("stall.skipped_after_stuck_runtime", 1)
		return nil
	}

	// --- phase 2: peers that stall the handshake; short time-outs
	const tmo = 400 * time.Millisecond
	adaptation.SetPluginRegistrationTimeout(tmo)
	adaptation.SetPluginRequestTimeout(tmo)
	st := c.NewShard("stall", regImports, "reg_case", "corr_reg", "holds_reg", 40)
	var scases [][]script
	for _, cl := range stallClasses { // each stall class alone in front of a good one, then mixtures
		scases = append(scases, []script{g.make(cl), g.make("good")})
	}
	for i := 0; i < c.Pick(8, 60); i++ {
		var cs []script
		ns := 1 + g.r.Intn(3)
		for j := 0; j < ns; j++ {
			cs = append(cs, g.make(stallClasses[g.r.Intn(len(stallClasses))]))
			if g.r.Intn(2) == 0 {
				cs = append(cs, g.make(fastClasses[2+g.r.Intn(len(fastClasses)-2)]))
			}
		}
		g.r.Shuffle(len(cs), func(a, b int) { cs[a], cs[b] = cs[b], cs[a] })
		cs = append(cs, g.make("good"))
		scases = append(scases, cs)
	}
	if err := runClockCases(c, st, "stall", scases, func(cs []script) (time.Duration, int) {
		n := 0
		for _, sc := range cs {
			if cl := classify(sc); cl == "reg-timeout" || cl == "req-timeout" || sc.Sync == "silent" {
				n++
			}
		}
		return time.Duration(n) * tmo, n
	}); err != nil {
		return err
	}
	if atomic.LoadInt32(&stuckCases) > 0 {
		return nil
	}

	// --- phase 3: the two time-outs configured far apart, and a peer that registers between them.  The
	// deadline of the register phase is the REGISTRATION time-out: (A) registration 1.3 s (above one second:
	// a deadline re-armed by some periodic event would never fire), request 8 s, a peer registering after 3 s is
	// refused and a good plugin queued behind a silent one is served once the 1.3 s have passed; (B) registration 4 s, request 500 ms, a peer registering after
	// 1.5 s is served.  The delayed peer is the first connection of its case (the runtime's clock for a
	// connection starts when the sequential accept loop reaches it).
	dl := c.NewShard("deadline", regImports, "reg_case", "corr_reg", "holds_reg", 40)
	for _, cfg := range []struct{ regT, reqT, at int }{{1300, 8000, 3000}, {4000, 500, 1500}} {
		adaptation.SetPluginRegistrationTimeout(time.Duration(cfg.regT) * time.Millisecond)
		adaptation.SetPluginRequestTimeout(time.Duration(cfg.reqT) * time.Millisecond)
		at := func(ms int) script {
			sc := g.make("good")
			sc.Reg, sc.AtMs, sc.RegT, sc.ReqT = "at", ms, cfg.regT, cfg.reqT
			return sc
		}
		dcases := [][]script{
			{at(cfg.at), g.make("good")},
			{at(cfg.at), g.make("bad-mask"), g.make("good")},
		}
		if cfg.regT < cfg.reqT { // a silent peer costs the longer of the two time-outs: only where that one is short
			dcases = append(dcases, []script{g.make("reg-never"), g.make("good")})
		} else {
			dcases = append(dcases, []script{g.make("cfg-silent"), g.make("good")})
		}
		for n := 0; n < c.Pick(0, 6); n++ {
			dcases = append(dcases, []script{at(cfg.at - 300 + g.r.Intn(600)), g.make("good")})
		}
		if err := runClockCases(c, dl, "deadline", dcases, func(cs []script) (time.Duration, int) {
			return time.Duration(cs[0].AtMs+cfg.regT+cfg.reqT) * time.Millisecond, 1 // generous: it only extends the wait for the sentinel
		}); err != nil {
			return err
		}
		c.Count(fmt.Sprintf("deadline.cases_reg%d_req%d", cfg.regT, cfg.reqT), len(dcases))
	}
	adaptation.SetPluginRegistrationTimeout(60 * time.Second)
	adaptation.SetPluginRequestTimeout(60 * time.Second)
	return nil
}

// runClockCases runs cases whose outcome depends on the clock (up to 6 at a time), re-runs a case that
// disagrees with the oracle alone, up to three times, and emits the last result.
func runClockCases(c *hx.Ctx, sh *hx.Shard, stream string, scases [][]script, budgetOf func([]script) (time.Duration, int)) error {
	sres := make([]*regCase, len(scases))
	serr := make([]error, len(scases))
	run := func(i int) {
		if atomic.LoadInt32(&stuckCases) >= maxStuckCases {
			return
		}
		budget, n := budgetOf(scases[i])
		sres[i], serr[i] = runRegCase(scases[i], budget)
		if sres[i] != nil {
			sres[i].Stalls = n
		}
	}
	var wg sync.WaitGroup
	sem := make(chan struct{}, 6)
	for i := range scases {
		wg.Add(1)
		go func(i int) {
			defer wg.Done()
			sem <- struct{}{}
			defer func() { <-sem }()
			run(i)
		}(i)
	}
	wg.Wait()
	for i := range scases {
		// timing discipline: a disagreement in a case whose outcome depends on the clock is re-run
		// alone, up to three times, before it is reported
		for try := 0; try < 3 && serr[i] == nil && sres[i] != nil && len(sres[i].mismatches()) > 0 &&
			atomic.LoadInt32(&stuckCases) < maxStuckCases; try++ {
			c.Count(stream+".reruns", 1)
			run(i)
		}
		if serr[i] != nil {
			return fmt.Errorf("%s case %d: %w", stream, i, serr[i])
		}
		if sres[i] == nil {
			c.Count(stream+".cases_skipped_after_stuck_runtime", 1)
			continue
		}
		emitRegCase(c, sh, stream, sres[i])
		c.Count(stream+".stalling_connections", sres[i].Stalls)
		if i == 0 {
			c.Sample(map[string]interface{}{"stream": stream, "case": sres[i]}, 8)
		}
	}
	return nil
}

// ---------------------------------------------------------------- socket directory, optional listener

const umaskHelperArg = "-umask-helper"

var sockProbeN int // alternates the order of the disable and socket-path options

type sockCase struct {
	DontListen bool    `json:"dont_listen"`
	Umask      int64   `json:"umask"`
	Started    bool    `json:"started"`
	StartErr   string  `json:"start_err,omitempty"`
	Modes      []int64 `json:"modes"`
	Socket     bool    `json:"socket"`
	Connect    bool    `json:"connect"`
}

func (s sockCase) coq() string {
	return fmt.Sprintf("{| sk_dont_listen := %s; sk_umask := %s; sk_started := %s; sk_modes := %s; sk_socket := %s; sk_connect := %s |}",
		coqfmt.Bool(s.DontListen), coqfmt.Z(s.Umask), coqfmt.Bool(s.Started), zList(s.Modes), coqfmt.Bool(s.Socket), coqfmt.Bool(s.Connect))
}

// sockProbe starts a real Adaptation whose socket is three not yet existing directories below dir and
// reports what appeared in the file system. setMask is called around Start only.
func sockProbe(dir string, dontListen bool, umask int, setMask func(int) int) sockCase {
	cs := sockCase{DontListen: dontListen, Umask: int64(umask), Modes: []int64{}}
	levels := []string{filepath.Join(dir, "s"), filepath.Join(dir, "s", "a"), filepath.Join(dir, "s", "a", "b")}
	sock := filepath.Join(levels[2], "nri.sock")
	var opts []adaptation.Option
	if dontListen {
		// options are applied in order: disabling must hold whether it is given before or after the socket path
		sockProbeN++
		if sockProbeN%2 == 0 {
			opts = append(opts, adaptation.WithDisabledExternalConnections(), adaptation.WithSocketPath(sock))
		} else {
			opts = append(opts, adaptation.WithDisabledExternalConnections())
		}
	}
	syncFn := func(ctx context.Context, cb adaptation.SyncCB) error { _, err := cb(ctx, nil, nil); return err }
	a, err := newAdaptation(dir, sock, syncFn, opts...)
	if err != nil {
		cs.StartErr = "new: " + err.Error()
		return cs
	}
	old := setMask(umask)
	err = a.Start()
	setMask(old)
	cs.Started = err == nil
	if err != nil {
		cs.StartErr = err.Error()
	}
	for _, l := range levels {
		if fi, err := os.Lstat(l); err == nil {
			cs.Modes = append(cs.Modes, int64(fi.Mode().Perm()))
		}
	}
	if fi, err := os.Lstat(sock); err == nil && fi.Mode()&os.ModeSocket != 0 {
		cs.Socket = true
	}
	if conn, err := net.DialTimeout("unix", sock, 5*time.Second); err == nil {
		cs.Connect = true
		conn.Close()
	}
	a.Stop()
	return cs
}

// umaskHelper runs in a re-executed copy of the harness binary: OUT BASE UMASK...
func umaskHelper(args []string) int {
	if len(args) < 2 {
		return 2
	}
	syscall.Umask(0o022)
	var out []sockCase
	for _, s := range args[2:] {
		var u int
		fmt.Sscanf(s, "%o", &u)
		dir := filepath.Join(args[1], fmt.Sprintf("u%03o", u))
		if err := os.MkdirAll(dir, 0o755); err != nil {
			fmt.Fprintln(os.Stderr, err)
			return 2
		}
		out = append(out, sockProbe(dir, false, u, syscall.Umask))
	}
	js, _ := json.Marshal(out)
	if err := os.WriteFile(args[0], js, 0o644); err != nil {
		fmt.Fprintln(os.Stderr, err)
		return 2
	}
	return 0
}

func driveSocket(c *hx.Ctx) error {
	sh := c.NewShard("socket", regImports, "sock_case", "corr_sock", "holds_sock", 600)
	var masks []int
	if c.Quick() {
		set := map[int]bool{}
		for _, u := range []int{0, 0o022, 0o002, 0o027, 0o077, 0o007, 0o070, 0o700, 0o100, 0o200, 0o400, 0o177, 0o277, 0o477, 0o777, 0o111, 0o222, 0o444, 0o555, 0o666, 0o001, 0o010} {
			set[u] = true
		}
		r := c.Rand("umask")
		for len(set) < 40 {
			set[r.Intn(512)] = true
		}
		for u := range set {
			masks = append(masks, u)
		}
		sort.Ints(masks)
	} else {
		for u := 0; u < 512; u++ {
			masks = append(masks, u)
		}
	}
	base, err := scratch("um")
	if err != nil {
		return err
	}
	defer os.RemoveAll(base)
	exe, err := os.Executable()
	if err != nil {
		return err
	}
	outFile := filepath.Join(c.Out, "umask_sweep.json")
	args := []string{umaskHelperArg, outFile, base}
	for _, u := range masks {
		args = append(args, fmt.Sprintf("%o", u))
	}
	cmd := exec.Command(exe, args...)
	cmd.Stderr = os.Stderr
	if err := cmd.Run(); err != nil {
		return fmt.Errorf("umask helper: %w", err)
	}
	js, err := os.ReadFile(outFile)
	if err != nil {
		return err
	}
	var res []sockCase
	if err := json.Unmarshal(js, &res); err != nil {
		return err
	}
	if len(res) != len(masks) {
		return fmt.Errorf("umask helper returned %d results for %d umasks", len(res), len(masks))
	}
	emit := func(cs sockCase) {
		sh.Add(cs.coq(), cs)
		c.Eval(fmt.Sprintf("socket/%v/%o", cs.DontListen, cs.Umask), true)
		bad := false
		for _, m := range cs.Modes {
			if m&0o077 != 0 {
				bad = true
			}
		}
		if cs.DontListen && (cs.Socket || cs.Connect || len(cs.Modes) > 0) {
			bad = true
		}
		if bad {
			c.ImplFail("socket", "a socket directory created by NRI has group/other permission bits, or a disabled listener left traces", cs)
		}
	}
	for _, cs := range res {
		if !cs.Started && os.Geteuid() == 0 {
			return fmt.Errorf("Start failed under umask %o although running as root: %s", cs.Umask, cs.StartErr)
		}
		c.Count("socket.umasks", 1)
		c.Count(fmt.Sprintf("socket.dirs_created_%d", len(cs.Modes)), 1)
		emit(cs)
	}
	c.Sample(map[string]interface{}{"stream": "socket", "umask_022": res[1]}, 8)
	// external connections disabled: nothing is created, nothing listens (this process keeps its umask)
	for i := 0; i < 3; i++ {
		dir, err := scratch("dl")
		if err != nil {
			return err
		}
		cs := sockProbe(dir, true, 0o022, func(u int) int { return u })
		os.RemoveAll(dir)
		c.Count("socket.disabled", 1)
		emit(cs)
		if i == 0 {
			c.Sample(map[string]interface{}{"stream": "socket", "disabled": cs}, 8)
		}
	}
	return nil
}

func driveRegister(c *hx.Ctx) error {
	syscall.Umask(0o022)
	driveIndex(c)
	if err := driveSocket(c); err != nil {
		return err
	}
	if err := driveHandshakes(c); err != nil {
		return err
	}
	// the streams must have produced their target shapes — unless cases were skipped because the runtime
	// stopped serving connections (then the failing cases are the result, not a shortfall of the generator)
	if atomic.LoadInt32(&stuckCases) == 0 {
		for _, cl := range []string{"good", "bad-name", "bad-index", "bad-mask", "cfg-error", "closed", "sync-failed", "reg-timeout", "req-timeout"} {
			if c.Stats.Distribution["register.class."+cl] == 0 {
				c.HarnessError("register: no connection of outcome class %s was generated", cl)
			}
		}
		for _, k := range []string{"register.mask.negative", "register.mask.zero", "register.mask.valid", "register.mask.extra_bits"} {
			if c.Stats.Distribution[k] == 0 {
				c.HarnessError("register: no mask of kind %s was generated", k)
			}
		}
	}
	c.Stats.Exhaustive = !c.Quick()
	c.Stats.Rule = "index: CheckPluginIndex on a boundary corpus, all 100 valid indices, all pairs over a 14-byte alphabet and random byte strings; register: per case 4-20 scripted raw plugins (mux+ttrpc spoken directly) connect in order to one fresh Adaptation, at least one bad one (empty name, bad index from the corpus, mask with extra/negative bits, configure error/close, early close, sync error) ahead of a good one, then a sentinel, then all 13 events are fired once; whatever the runtime fails to do within 20 s (a sentinel never synchronised, a sync block that cannot be taken, a peer whose registration step never ends: closed by the driver and recorded as not registered / never configured / never synchronised / no events) is an observation judged by the oracle, and after 3 such cases the rest of the stream is skipped; non-trivial = bad and several good connections in one case; stall: the same with 1-3 peers that never register / register late / never answer Configure or Synchronize under 400 ms time-outs (clock-dependent disagreements re-run alone up to 3 times); deadline: the two time-outs far apart (registration 1.3 s / request 8 s with a first connection that registers after 3 s or never, and 4 s / 500 ms with one that registers after 1.5 s): refused exactly when that is after the REGISTRATION time-out, whatever the request time-out; socket: real Start in a helper subprocess per umask (quick: 40 incl. boundaries, thorough: all 512) on three nested not yet existing directories, and with external connections disabled"
	return nil
}
