package main

import (
	"context"
	"errors"
	"net"
	"sync"
	"time"

	"github.com/containerd/ttrpc"

	"github.com/containerd/nri/pkg/api"
	"github.com/containerd/nri/pkg/net/multiplex"
)

// script is what one connecting peer does (Model/Register.v: conn).
type script struct {
	Reg  string `json:"reg"`  // never | late | close | now | at (AtMs after connecting, under the time-outs RegT / ReqT)
	Name string `json:"name"` // bytes, valid UTF-8
	Idx  string `json:"idx"`
	Cfg  string `json:"cfg"`  // silent | error | close | reply
	Mask int32  `json:"mask"` // the raw int32 answered to Configure
	Sync string `json:"sync"` // ok | error | silent
	AtMs int    `json:"at_ms,omitempty"`
	RegT int    `json:"reg_timeout_ms,omitempty"` // the registration time-out configured for the case
	ReqT int    `json:"req_timeout_ms,omitempty"` // the request time-out configured for the case
}

// rawObs is what the peer observed (Run/RunRegister.v: reg_obs).
type rawObs struct {
	RegOK      bool    `json:"reg_ok"`
	RegErr     string  `json:"reg_err,omitempty"`
	Configured bool    `json:"configured"`
	Syncs      int     `json:"syncs"`
	Events     []int64 `json:"events"`
}

// rawPlugin speaks multiplex + ttrpc directly, the way stub.Start/connect/register do, but follows a
// script instead of the protocol.
type rawPlugin struct {
	sc      script
	conn    net.Conn
	mux     multiplex.Mux
	srv     *ttrpc.Server
	client  *ttrpc.Client
	release chan struct{} // closed at the end of the case: lets silent handlers return
	closed  chan struct{} // closed when the runtime end of the connection went away
	once    sync.Once
	done    chan struct{} // registration step finished

	mu  sync.Mutex
	obs rawObs
}

func dialRaw(sock string, sc script, release chan struct{}) (*rawPlugin, error) {
	conn, err := net.Dial("unix", sock)
	if err != nil {
		return nil, err
	}
	return &rawPlugin{sc: sc, conn: conn, release: release, closed: make(chan struct{}), done: make(chan struct{})}, nil
}

// run performs the scripted handshake; it returns when the registration step is over.
// The connection-level fields are written under p.mu: a peer whose registration step never ends
// (the runtime does not serve it) is shut down from the outside by the driver.
func (p *rawPlugin) run() {
	defer close(p.done)
	if p.sc.Reg == "close" {
		p.conn.Close()
		return
	}
	mux := multiplex.Multiplex(p.conn)
	p.mu.Lock()
	p.mux = mux
	p.mu.Unlock()
	l, err := mux.Listen(multiplex.PluginServiceConn)
	if err != nil {
		p.setRegErr(err)
		return
	}
	srv, err := ttrpc.NewServer()
	if err != nil {
		p.setRegErr(err)
		return
	}
	api.RegisterPluginService(srv, p)
	cconn, err := mux.Open(multiplex.RuntimeServiceConn)
	if err != nil {
		p.setRegErr(err)
		return
	}
	client := ttrpc.NewClient(cconn, ttrpc.WithOnClose(func() { p.once.Do(func() { close(p.closed) }) }))
	p.mu.Lock()
	p.srv, p.client = srv, client
	p.mu.Unlock()
	go srv.Serve(context.Background(), l)

	switch p.sc.Reg {
	case "never":
		return
	case "late":
		// the registration time-out closes the connection; only then try to register
		select {
		case <-p.closed:
		case <-p.release:
		}
	case "at":
		// a fixed delay, whatever else happens in the case
		time.Sleep(time.Duration(p.sc.AtMs) * time.Millisecond)
	}
	ctx, cancel := context.WithTimeout(context.Background(), 120*time.Second)
	defer cancel()
	rt := api.NewRuntimeClient(client)
	_, err = rt.RegisterPlugin(ctx, &api.RegisterPluginRequest{PluginName: p.sc.Name, PluginIdx: p.sc.Idx})
	p.mu.Lock()
	p.obs.RegOK = err == nil
	if err != nil {
		p.obs.RegErr = err.Error()
	}
	p.mu.Unlock()
}

func (p *rawPlugin) setRegErr(err error) {
	p.mu.Lock()
	p.obs.RegErr = "setup: " + err.Error()
	p.mu.Unlock()
}

// shutdown closes the peer's end; safe to call more than once and while run() is still blocked
// (closing the client makes a pending RegisterPlugin call return).
func (p *rawPlugin) shutdown() {
	p.mu.Lock()
	client, srv, mux := p.client, p.srv, p.mux
	p.mu.Unlock()
	if client != nil {
		client.Close()
	}
	if srv != nil {
		srv.Close()
	}
	if mux != nil {
		mux.Close()
	}
	p.conn.Close()
}

func (p *rawPlugin) snapshot() rawObs {
	p.mu.Lock()
	defer p.mu.Unlock()
	o := p.obs
	o.Events = append([]int64{}, p.obs.Events...)
	return o
}

func (p *rawPlugin) event(e api.Event) {
	p.mu.Lock()
	p.obs.Events = append(p.obs.Events, int64(e))
	p.mu.Unlock()
}

func (p *rawPlugin) waitRelease(ctx context.Context) {
	select {
	case <-p.release:
	case <-time.After(120 * time.Second):
	}
}

// --- api.PluginService ---

func (p *rawPlugin) Configure(ctx context.Context, _ *api.ConfigureRequest) (*api.ConfigureResponse, error) {
	p.mu.Lock()
	p.obs.Configured = true
	p.mu.Unlock()
	switch p.sc.Cfg {
	case "silent":
		p.waitRelease(ctx)
		return nil, errors.New("silent")
	case "error":
		return nil, errors.New("scripted configuration failure")
	case "close":
		p.conn.Close()
		return nil, errors.New("closed")
	}
	return &api.ConfigureResponse{Events: p.sc.Mask}, nil
}

func (p *rawPlugin) Synchronize(ctx context.Context, req *api.SynchronizeRequest) (*api.SynchronizeResponse, error) {
	p.mu.Lock()
	p.obs.Syncs++
	p.mu.Unlock()
	switch p.sc.Sync {
	case "error":
		return nil, errors.New("scripted synchronization failure")
	case "silent":
		p.waitRelease(ctx)
		return nil, errors.New("silent")
	}
	return &api.SynchronizeResponse{More: req.More}, nil
}

func (p *rawPlugin) Shutdown(context.Context, *api.Empty) (*api.Empty, error) {
	return &api.Empty{}, nil
}

func (p *rawPlugin) CreateContainer(context.Context, *api.CreateContainerRequest) (*api.CreateContainerResponse, error) {
	p.event(api.Event_CREATE_CONTAINER)
	return &api.CreateContainerResponse{}, nil
}

func (p *rawPlugin) UpdateContainer(context.Context, *api.UpdateContainerRequest) (*api.UpdateContainerResponse, error) {
	p.event(api.Event_UPDATE_CONTAINER)
	return &api.UpdateContainerResponse{}, nil
}

func (p *rawPlugin) StopContainer(context.Context, *api.StopContainerRequest) (*api.StopContainerResponse, error) {
	p.event(api.Event_STOP_CONTAINER)
	return &api.StopContainerResponse{}, nil
}

func (p *rawPlugin) UpdatePodSandbox(context.Context, *api.UpdatePodSandboxRequest) (*api.UpdatePodSandboxResponse, error) {
	p.event(api.Event_UPDATE_POD_SANDBOX)
	return &api.UpdatePodSandboxResponse{}, nil
}

func (p *rawPlugin) StateChange(_ context.Context, evt *api.StateChangeEvent) (*api.Empty, error) {
	p.event(evt.Event)
	return &api.Empty{}, nil
}
