(* C12 — proofs, part 2: the typed level of Model/Proto.v.

   size_is_length   size = length of the encoding: every schema, every message name, every value
                    (by induction on the value; no well-formedness needed)
   decode_encode    decode (encode v) = Some v for every message of a well-formed schema and every
                    well-formed value.  Structure: wire level by list induction (ProtoWireProofs);
                    one message = its fields, each decoded from the occurrences of its own number
                    (fields_assemble: strictly increasing field numbers keep them apart); nesting by
                    induction on the value (value_ind'), the fuel being handled by the rank that
                    schema_wf assigns (fuel_ok / msg_rt).
   nri_*            the same statements on the schema regenerated from api.pb.go, with
                    schema_wf schema = true checked by computation. *)
From Coq Require Import String Ascii List Bool ZArith NArith Lia.
From NRI Require Import Model.Proto Proofs.ProtoWireProofs Model.Schema.
Import ListNotations.
Local Open Scope N_scope.

(* ------------------------------------------------------------------ induction on values *)
Section ValueInd.
  Variable P : value -> Prop.
  Hypothesis HScalar : forall z, P (VScalar z).
  Hypothesis HString : forall s, P (VString s).
  Hypothesis HNone : P VNone.
  Hypothesis HMsg : forall fs, Forall P fs -> P (VMsg fs).
  Hypothesis HRepStr : forall l, P (VRepStr l).
  Hypothesis HRep : forall l, Forall P l -> P (VRep l).
  Hypothesis HMap : forall l, P (VMap l).
  Fixpoint value_ind' (v : value) : P v :=
    match v with
    | VScalar z => HScalar z
    | VString s => HString s
    | VNone => HNone
    | VMsg fs => HMsg fs ((fix go (l : list value) : Forall P l :=
                             match l with
                             | [] => Forall_nil P
                             | x :: r => Forall_cons x (value_ind' x) (go r)
                             end) fs)
    | VRepStr l => HRepStr l
    | VRep l => HRep l ((fix go (l : list value) : Forall P l :=
                           match l with
                           | [] => Forall_nil P
                           | x :: r => Forall_cons x (value_ind' x) (go r)
                           end) l)
    | VMap l => HMap l
    end.
End ValueInd.

(* ------------------------------------------------------------------ small facts *)

Lemma bytes_of_string_length s : blen (bytes_of_string s) = slen s.
Proof.
  unfold blen, slen, bytes_of_string. f_equal.
  induction s as [|a s IH]; cbn [list_ascii_of_string String.length length]; [reflexivity| rewrite IH; reflexivity].
Qed.

Lemma string_bytes_roundtrip s : string_of_bytes (bytes_of_string s) = s.
Proof. apply string_of_list_ascii_of_string. Qed.

Lemma sum_N_app a b : sum_N (a ++ b) = sum_N a + sum_N b.
Proof. unfold sum_N. induction a as [|x a IH]; cbn [app fold_right]; [reflexivity| rewrite IH; lia]. Qed.

Section Typed.
Variable sch : schema_t.

(* ---- characterising equations of the nested fixpoints ---- *)
Lemma enc_field_msg num T fs :
  enc_field sch num (TMsg T) (VMsg fs) = [(num, WBytes (enc_wire (enc_fields sch (fields_of sch T) fs)))].
Proof. reflexivity. Qed.

Lemma size_field_msg num T fs :
  size_field sch num (TMsg T) (VMsg fs) = ld_size num (size_fields sch (fields_of sch T) fs).
Proof. reflexivity. Qed.

Lemma wf_field_msg T fs :
  wf_field sch (TMsg T) (VMsg fs) =
  match find_msg T sch with
  | Some (fds, _) => wf_fields sch fds fs && (size_fields sch fds fs <? two64)
  | None => false
  end.
Proof. reflexivity. Qed.

Lemma enc_fields_cons f fr x xr :
  enc_fields sch (f :: fr) (x :: xr) = enc_field sch (fd_num f) (fd_type f) x ++ enc_fields sch fr xr.
Proof. reflexivity. Qed.

Lemma size_fields_cons f fr x xr :
  size_fields sch (f :: fr) (x :: xr) = size_field sch (fd_num f) (fd_type f) x + size_fields sch fr xr.
Proof. reflexivity. Qed.

(* ------------------------------------------------------------------ size = length *)

Lemma map_entry_length e : blen (enc_wire (map_entry_wire e)) = map_entry_size e.
Proof.
  unfold map_entry_wire, map_entry_size. rewrite enc_wire_cons, enc_wire_single, blen_app, !enc_wfield_length.
  rewrite !bytes_of_string_length.
  change (sov (tag_of 1 2)) with 1. change (sov (tag_of 2 2)) with 1. lia.
Qed.

Definition size_ok (v : value) : Prop :=
  forall num t, blen (enc_wire (enc_field sch num t v)) = size_field sch num t v.

Lemma size_ok_fields fs : Forall size_ok fs ->
  forall fds, blen (enc_wire (enc_fields sch fds fs)) = size_fields sch fds fs.
Proof.
  induction 1 as [|x xr Hx _ IH]; intros fds.
  - destruct fds; reflexivity.
  - destruct fds as [|f fr]; [reflexivity|].
    rewrite enc_fields_cons, size_fields_cons, enc_wire_app, blen_app, Hx, IH. reflexivity.
Qed.

Lemma size_field_is_length v : size_ok v.
Proof.
  induction v as [z|s| |fs IH|l|l IH|l] using value_ind'; intros num t.
  - destruct t; try reflexivity. cbn [enc_field size_field]. destruct (z =? 0)%Z; [reflexivity|].
    rewrite enc_wire_single, enc_wfield_length. reflexivity.
  - destruct t; try reflexivity. cbn [enc_field size_field]. destruct s as [|a s]; [reflexivity|].
    rewrite enc_wire_single, enc_wfield_length, bytes_of_string_length. unfold ld_size. lia.
  - reflexivity.
  - destruct t; try reflexivity.
    rewrite enc_field_msg, size_field_msg, enc_wire_single, enc_wfield_length.
    rewrite (size_ok_fields fs IH). unfold ld_size. lia.
  - destruct t; try reflexivity. cbn [enc_field size_field].
    induction l as [|s l IHl]; [reflexivity|].
    cbn [map]. rewrite enc_wire_cons, blen_app, IHl, enc_wfield_length, bytes_of_string_length.
    unfold sum_N in *. cbn [fold_right]. unfold ld_size in *. lia.
  - destruct t; try reflexivity. cbn [enc_field size_field].
    induction IH as [|m l Hm _ IHl]; [reflexivity|].
    cbn [flat_map map]. rewrite enc_wire_app, blen_app, IHl, Hm. reflexivity.
  - destruct t; try reflexivity. cbn [enc_field size_field].
    induction l as [|e l IHl]; [reflexivity|].
    cbn [map]. rewrite enc_wire_cons, blen_app, IHl, enc_wfield_length, map_entry_length.
    unfold sum_N in *. cbn [fold_right]. unfold ld_size in *. lia.
Qed.

Lemma size_fields_is_length fds fs : blen (enc_wire (enc_fields sch fds fs)) = size_fields sch fds fs.
Proof. apply size_ok_fields. apply Forall_forall. intros x _. apply size_field_is_length. Qed.

(* SizeVT's arithmetic is the number of bytes MarshalVT writes: every schema, every name, every value *)
Theorem size_is_length name v : size sch name v = blen (encode sch name v).
Proof.
  unfold size, encode. destruct (find_msg name sch) as [[fds r]|]; [|reflexivity].
  destruct v; try reflexivity. symmetry. apply size_fields_is_length.
Qed.

End Typed.

(* ------------------------------------------------------------------ scalar conversions *)

Lemma of_u64_zero k : of_u64 k 0 = 0%Z.
Proof. destruct k; reflexivity. Qed.

Lemma to_u64_lt z : to_u64 z < two64.
Proof.
  unfold to_u64, two64. pose proof (Z.mod_pos_bound z 18446744073709551616 ltac:(lia)) as H.
  set (y := (z mod 18446744073709551616)%Z) in *. clearbody y. lia.
Qed.

Lemma to_u64_nonneg z : (0 <= z < 18446744073709551616)%Z -> to_u64 z = Z.to_N z.
Proof. intros H. unfold to_u64. rewrite Z.mod_small by exact H. reflexivity. Qed.

Lemma to_u64_neg z : (-18446744073709551616 <= z < 0)%Z -> to_u64 z = Z.to_N (z + 18446744073709551616).
Proof.
  intros H. unfold to_u64. f_equal. symmetry. apply (Z.mod_unique z 18446744073709551616 (-1)); lia.
Qed.

Lemma N_mod_unique' a b q r : r < b -> a = b * q + r -> a mod b = r.
Proof. intros H1 H2. symmetry. apply (N.mod_unique a b q r); assumption. Qed.

Lemma of_to_u64 k z : in_range k z = true -> of_u64 k (to_u64 z) = z.
Proof.
  intros H. destruct (Z_lt_le_dec z 0) as [Hneg|Hpos].
  - (* negative: only the signed kinds *)
    destruct k; cbn [in_range] in H; apply andb_prop in H; destruct H as [H1 H2];
      apply Z.leb_le in H1; apply Z.leb_le in H2; try lia.
    + (* int32 *)
      rewrite to_u64_neg by lia. cbn [of_u64].
      assert (E : Z.to_N (z + 18446744073709551616) mod two32 = Z.to_N (z + 4294967296)).
      { apply (N_mod_unique' _ _ 4294967295); unfold two32; lia. }
      rewrite E. assert (Hge : (Z.to_N (z + 4294967296) <? two31) = false) by (apply N.ltb_ge; unfold two31; lia).
      rewrite Hge. lia.
    + (* int64 *)
      rewrite to_u64_neg by lia. cbn [of_u64].
      rewrite N.mod_small by (unfold two64; lia).
      assert (Hge : (Z.to_N (z + 18446744073709551616) <? two63) = false) by (apply N.ltb_ge; unfold two63; lia).
      rewrite Hge. lia.
    + (* enum *)
      rewrite to_u64_neg by lia. cbn [of_u64].
      assert (E : Z.to_N (z + 18446744073709551616) mod two32 = Z.to_N (z + 4294967296)).
      { apply (N_mod_unique' _ _ 4294967295); unfold two32; lia. }
      rewrite E. assert (Hge : (Z.to_N (z + 4294967296) <? two31) = false) by (apply N.ltb_ge; unfold two31; lia).
      rewrite Hge. lia.
  - destruct k; cbn [in_range] in H; apply andb_prop in H; destruct H as [H1 H2];
      apply Z.leb_le in H1; apply Z.leb_le in H2; rewrite to_u64_nonneg by lia; cbn [of_u64].
    + rewrite N.mod_small by (unfold two32; lia).
      assert (Hlt : (Z.to_N z <? two31) = true) by (apply N.ltb_lt; unfold two31; lia). rewrite Hlt. lia.
    + rewrite N.mod_small by (unfold two64; lia).
      assert (Hlt : (Z.to_N z <? two63) = true) by (apply N.ltb_lt; unfold two63; lia). rewrite Hlt. lia.
    + rewrite N.mod_small by (unfold two32; lia). lia.
    + rewrite N.mod_small by (unfold two64; lia). lia.
    + assert (z = 0 \/ z = 1)%Z as [->| ->] by lia; reflexivity.
    + rewrite N.mod_small by (unfold two32; lia).
      assert (Hlt : (Z.to_N z <? two31) = true) by (apply N.ltb_lt; unfold two31; lia). rewrite Hlt. lia.
Qed.

(* ------------------------------------------------------------------ lists of occurrences *)

Lemma occs_app num a b : occs num (a ++ b) = occs num a ++ occs num b.
Proof. unfold occs. rewrite filter_app, map_app. reflexivity. Qed.

Lemma occs_all num ws : Forall (fun w : wfield => fst w = num) ws -> occs num ws = map snd ws.
Proof.
  unfold occs. induction 1 as [|w r Hw _ IH]; [reflexivity|].
  cbn [filter]. rewrite Hw, N.eqb_refl. cbn [map]. rewrite IH. reflexivity.
Qed.

Lemma occs_none num ws : Forall (fun w : wfield => fst w <> num) ws -> occs num ws = [].
Proof.
  unfold occs. induction 1 as [|w r Hw _ IH]; [reflexivity|].
  cbn [filter]. apply N.eqb_neq in Hw. rewrite Hw. exact IH.
Qed.

Lemma increasing_inv a l : increasing (a :: l) = true ->
  increasing l = true /\ Forall (fun b => a < b) l.
Proof.
  revert a. induction l as [|b l IH]; intros a H.
  - split; [reflexivity| constructor].
  - cbn [increasing] in H. apply andb_prop in H. destruct H as [Hab Hr]. apply N.ltb_lt in Hab.
    split; [exact Hr|]. constructor; [exact Hab|].
    destruct (IH b Hr) as [_ Hall]. eapply Forall_impl; [|exact Hall]. cbn beta. intros c Hc. lia.
Qed.

Lemma wf_wire_app a b : wf_wire (a ++ b) = wf_wire a && wf_wire b.
Proof. unfold wf_wire. apply forallb_app. Qed.

Lemma map_opt_map_id {A B} (f : A -> option B) (g : B -> A) l :
  (forall y, In y l -> f (g y) = Some y) -> map_opt f (map g l) = Some l.
Proof.
  induction l as [|y l IH]; intros H; [reflexivity|].
  cbn [map map_opt]. rewrite H by (left; reflexivity). rewrite IH; [reflexivity|].
  intros z Hz. apply H. right. exact Hz.
Qed.

(* ------------------------------------------------------------------ maps *)

Lemma nodup_keys_cons k v l : nodup_keys ((k, v) :: l) = true ->
  (forall e, In e l -> fst e <> k) /\ nodup_keys l = true.
Proof.
  cbn [nodup_keys]. intros H. apply andb_prop in H. destruct H as [H1 H2]. split; [|exact H2].
  intros e He Heq. apply negb_true_iff in H1.
  assert (Hx : existsb (fun e0 : string * string => String.eqb k (fst e0)) l = true).
  { apply existsb_exists. exists e. split; [exact He|]. rewrite Heq. apply String.eqb_refl. }
  congruence.
Qed.

Lemma map_insert_fresh k v acc : (forall e, In e acc -> fst e <> k) -> map_insert k v acc = acc ++ [(k, v)].
Proof.
  induction acc as [|[k' v'] acc IH]; intros H; [reflexivity|].
  cbn [map_insert app]. assert (Hne : String.eqb k k' = false).
  { apply String.eqb_neq. intros ->. apply (H (k', v')); [left; reflexivity| reflexivity]. }
  rewrite Hne. rewrite IH; [reflexivity|]. intros e He. apply H. right. exact He.
Qed.

Lemma fold_map_insert l : forall acc,
  nodup_keys l = true -> (forall e a, In e l -> In a acc -> fst a <> fst e) ->
  fold_left (fun acc e => map_insert (fst e) (snd e) acc) l acc = acc ++ l.
Proof.
  induction l as [|[k v] l IH]; intros acc Hnd Hdis.
  - cbn [fold_left]. symmetry. apply app_nil_r.
  - cbn [fold_left fst snd]. apply nodup_keys_cons in Hnd. destruct Hnd as [Hk Hnd].
    rewrite map_insert_fresh.
    + rewrite IH; [rewrite <- app_assoc; reflexivity | exact Hnd |].
      intros e a He Ha. apply in_app_or in Ha. destruct Ha as [Ha|[<-|[]]].
      * apply (Hdis e a); [right; exact He| exact Ha].
      * cbn [fst]. intros Heq. apply (Hk e He). symmetry. exact Heq.
    + intros a Ha. apply (Hdis (k, v) a); [left; reflexivity| exact Ha].
Qed.

Section RoundTrip.
Variable sch : schema_t.
Hypothesis Hsch : schema_wf sch = true.

Definition num_ok (num : N) : Prop := 0 < num /\ num <= max_field_number.

(* the fuel is larger than the rank of the message the field refers to *)
Definition fuel_ok (t : ftype) (fuel : nat) : Prop :=
  forall T, target_of t = Some T -> exists fds r, find_msg T sch = Some (fds, r) /\ (r < fuel)%nat.

(* ---- what schema_wf gives ---- *)
Lemma schema_ok_from_find rest : schema_ok_from sch rest = true ->
  forall name fds r, find_msg name rest = Some (fds, r) -> desc_ok sch fds r = true.
Proof.
  induction rest as [|[n fds0] rest IH]; cbn [schema_ok_from find_msg]; intros H name fds r Hf; [discriminate|].
  apply andb_prop in H. destruct H as [H1 H2]. destruct (String.eqb name n).
  - inversion Hf; subst. exact H1.
  - eapply IH; eauto.
Qed.

Lemma find_msg_desc_ok name fds r : find_msg name sch = Some (fds, r) -> desc_ok sch fds r = true.
Proof.
  unfold schema_wf in Hsch. apply andb_prop in Hsch. destruct Hsch as [H _].
  apply (schema_ok_from_find sch H).
Qed.

Lemma desc_ok_inv fds r : desc_ok sch fds r = true ->
  increasing (map fd_num fds) = true /\
  (forall f, In f fds -> num_ok (fd_num f)) /\
  (forall f, In f fds -> fuel_ok (fd_type f) r).
Proof.
  unfold desc_ok. intros H. apply andb_prop in H. destruct H as [H H3]. apply andb_prop in H. destruct H as [H1 H2].
  split; [exact H1|]. split.
  - intros f Hf. rewrite forallb_forall in H2. specialize (H2 f Hf). apply andb_prop in H2. destruct H2 as [Ha Hb].
    apply N.ltb_lt in Ha. apply N.leb_le in Hb. split; assumption.
  - intros f Hf T HT. rewrite forallb_forall in H3. specialize (H3 f Hf).
    destruct (fd_type f) as [k| |T'| |T'| |why]; cbn [target_of] in HT; try discriminate; inversion HT; subst T';
      destruct (find_msg T sch) as [[fds' r']|]; try discriminate; exists fds', r'; (split; [reflexivity|]);
      apply Nat.ltb_lt in H3; exact H3.
Qed.

Lemma fuel_ok_mono t a b : fuel_ok t a -> (a <= b)%nat -> fuel_ok t b.
Proof.
  intros H Hab T HT. destruct (H T HT) as [fds [r [Hf Hr]]]. exists fds, r. split; [exact Hf| lia].
Qed.

(* ---- every wire field of a typed field carries the field's number ---- *)
Lemma enc_field_nums num t v : Forall (fun w : wfield => fst w = num) (enc_field sch num t v).
Proof.
  destruct v as [z|s| |fs|l|l|l]; destruct t; cbn [enc_field]; try (constructor; fail).
  - destruct (z =? 0)%Z; repeat constructor.
  - destruct s; repeat constructor.
  - repeat constructor.
  - apply Forall_forall. intros w Hw. apply in_map_iff in Hw. destruct Hw as [s [<- _]]. reflexivity.
  - apply Forall_forall. intros w Hw. apply in_flat_map in Hw. destruct Hw as [m [_ Hw]].
    destruct m; cbn [enc_field] in Hw; try contradiction.
    destruct Hw as [<-|[]]. reflexivity.
  - apply Forall_forall. intros w Hw. apply in_map_iff in Hw. destruct Hw as [s [<- _]]. reflexivity.
Qed.

Lemma enc_fields_nums fs : forall fds,
  Forall (fun w : wfield => In (fst w) (map fd_num fds)) (enc_fields sch fds fs).
Proof.
  induction fs as [|x xr IH]; intros fds; [constructor|].
  destruct fds as [|f fr]; [constructor|].
  rewrite enc_fields_cons. apply Forall_app. split.
  - eapply Forall_impl; [|apply enc_field_nums]. cbn beta. intros w Hw. left. symmetry. exact Hw.
  - eapply Forall_impl; [|apply IH]. cbn beta. intros w Hw. right. exact Hw.
Qed.

(* ---- assembling a message from its fields ---- *)
Lemma fields_assemble rec fds fs :
  Forall2 (fun f x => dec_field sch rec (fd_type f) (map snd (enc_field sch (fd_num f) (fd_type f) x)) = Some x) fds fs ->
  forall pre,
  increasing (map fd_num fds) = true ->
  (forall w f, In w pre -> In f fds -> fst w <> fd_num f) ->
  map_opt (fun f => dec_field sch rec (fd_type f) (occs (fd_num f) (pre ++ enc_fields sch fds fs))) fds = Some fs.
Proof.
  induction 1 as [|f x fr xr Hfx _ IH]; intros pre Hinc Hpre; [reflexivity|].
  cbn [map] in Hinc. apply increasing_inv in Hinc. destruct Hinc as [Hinc Hlt].
  cbn [map_opt]. rewrite enc_fields_cons.
  rewrite !occs_app.
  rewrite (occs_none (fd_num f) pre).
  2:{ apply Forall_forall. intros w Hw. apply (Hpre w f Hw). left. reflexivity. }
  rewrite (occs_all (fd_num f) (enc_field sch (fd_num f) (fd_type f) x)) by apply enc_field_nums.
  rewrite (occs_none (fd_num f) (enc_fields sch fr xr)).
  2:{ eapply Forall_impl; [|apply enc_fields_nums]. cbn beta. intros w Hw Heq.
      rewrite Forall_forall in Hlt. specialize (Hlt _ Hw). lia. }
  cbn [app]. rewrite app_nil_r, Hfx.
  rewrite (app_assoc pre).
  rewrite IH; [reflexivity| exact Hinc|].
  intros w f' Hw Hf'. apply in_app_or in Hw. destruct Hw as [Hw|Hw].
  - apply (Hpre w f' Hw). right. exact Hf'.
  - pose proof (enc_field_nums (fd_num f) (fd_type f) x) as Hn. rewrite Forall_forall in Hn.
    rewrite (Hn w Hw). rewrite Forall_forall in Hlt.
    assert (fd_num f < fd_num f') by (apply Hlt; apply in_map; exact Hf'). lia.
Qed.

Lemma dec_msg_S fu fds bs :
  dec_msg sch (S fu) fds bs =
  match dec_wire bs with
  | None => None
  | Some ws => option_map VMsg
      (map_opt (fun f => dec_field sch (dec_msg sch fu) (fd_type f) (occs (fd_num f) ws)) fds)
  end.
Proof. reflexivity. Qed.

Lemma dec_field_msg_single rec T p fds r :
  find_msg T sch = Some (fds, r) -> dec_field sch rec (TMsg T) [WBytes p] = rec fds p.
Proof.
  intros H. cbn [dec_field all_bytes option_map]. rewrite H. cbn [concat]. rewrite app_nil_r. reflexivity.
Qed.

(* ---- the statement proved by induction on the value ---- *)
Definition field_ok (v : value) : Prop :=
  forall num t fuel, num_ok num -> wf_field sch t v = true -> fuel_ok t fuel ->
    dec_field sch (dec_msg sch fuel) t (map snd (enc_field sch num t v)) = Some v
    /\ wf_wire (enc_field sch num t v) = true.

Lemma wf_wfield_intro num w : num_ok num -> wf_wval w = true -> wf_wfield (num, w) = true.
Proof.
  intros [H1 H2] Hw. unfold wf_wfield. cbn [fst snd].
  apply N.ltb_lt in H1. apply N.leb_le in H2. rewrite H1, H2, Hw. reflexivity.
Qed.

Lemma wf_single num w : num_ok num -> wf_wval w = true -> wf_wire [(num, w)] = true.
Proof.
  intros [H1 H2] Hw. unfold wf_wire, wf_wfield. cbn [forallb fst snd].
  apply N.ltb_lt in H1. apply N.leb_le in H2. rewrite H1, H2, Hw. reflexivity.
Qed.

(* a whole message of a descriptor of rank r, given the statement for its field values *)
Lemma msg_rt fds r fu : desc_ok sch fds r = true -> (r <= fu)%nat ->
  forall fs, wf_fields sch fds fs = true -> Forall field_ok fs ->
  wf_wire (enc_fields sch fds fs) = true /\
  dec_msg sch (S fu) fds (enc_wire (enc_fields sch fds fs)) = Some (VMsg fs).
Proof.
  intros Hd Hfu fs Hwf Hall. apply desc_ok_inv in Hd. destruct Hd as [Hinc [Hnum Hfuel]].
  assert (Hper : Forall2 (fun f x =>
             dec_field sch (dec_msg sch fu) (fd_type f) (map snd (enc_field sch (fd_num f) (fd_type f) x)) = Some x
             /\ wf_wire (enc_field sch (fd_num f) (fd_type f) x) = true) fds fs).
  { clear Hinc. revert fds Hwf Hnum Hfuel. induction Hall as [|x xr Hx _ IH]; intros fds Hwf Hnum Hfuel.
    - destruct fds; [constructor| discriminate].
    - destruct fds as [|f fr]; [discriminate|]. cbn [wf_fields] in Hwf. apply andb_prop in Hwf. destruct Hwf as [Hwx Hwr].
      constructor.
      + apply Hx; [apply Hnum; left; reflexivity| exact Hwx|].
        eapply fuel_ok_mono; [apply Hfuel; left; reflexivity| exact Hfu].
      + apply IH; [exact Hwr| |]; intros f' Hf'; [apply Hnum| apply Hfuel]; right; exact Hf'. }
  assert (Hww : wf_wire (enc_fields sch fds fs) = true).
  { clear Hinc Hnum Hfuel Hwf Hall. induction Hper as [|f x fr xr [_ Hw] _ IH]; [reflexivity|].
    rewrite enc_fields_cons, wf_wire_app, Hw, IH. reflexivity. }
  split; [exact Hww|].
  rewrite dec_msg_S, wire_roundtrip by exact Hww.
  pose proof (fields_assemble (dec_msg sch fu) fds fs) as HA.
  assert (Hper' : Forall2 (fun f x =>
             dec_field sch (dec_msg sch fu) (fd_type f) (map snd (enc_field sch (fd_num f) (fd_type f) x)) = Some x) fds fs).
  { clear - Hper. induction Hper as [|f x fr xr [Hab _] _ IH]; constructor; assumption. }
  specialize (HA Hper' [] Hinc ltac:(intros w f [])).
  cbn [app] in HA. rewrite HA. reflexivity.
Qed.

Lemma all_bytes_map_bytes (l : list bytes) : all_bytes (map WBytes l) = Some l.
Proof. induction l as [|b l IH]; [reflexivity|]. cbn [map all_bytes]. rewrite IH. reflexivity. Qed.

Lemma field_ok_all v : field_ok v.
Proof.
  induction v as [z|s| |fs IH|l|l IH|l] using value_ind'; intros num t fuel Hnum Hwf Hfuel.
  - (* scalar *)
    destruct t as [k| | | | | |]; cbn [wf_field] in Hwf; try discriminate. cbn [enc_field].
    destruct (z =? 0)%Z eqn:Hz.
    + apply Z.eqb_eq in Hz. subst z. cbn [map dec_field all_varints option_map last]. rewrite of_u64_zero. split; reflexivity.
    + cbn [map snd dec_field all_varints option_map last]. rewrite (of_to_u64 k z Hwf). split; [reflexivity|].
      apply wf_single; [exact Hnum|]. cbn [wf_wval]. apply N.ltb_lt. apply to_u64_lt.
  - (* string *)
    destruct t; cbn [wf_field] in Hwf; try discriminate. cbn [enc_field]. destruct s as [|a s].
    + split; reflexivity.
    + cbn [map snd dec_field all_bytes option_map last]. rewrite string_bytes_roundtrip. split; [reflexivity|].
      apply wf_single; [exact Hnum|]. cbn [wf_wval]. rewrite bytes_of_string_length. exact Hwf.
  - (* absent sub-message *)
    destruct t; cbn [wf_field] in Hwf; try discriminate. split; reflexivity.
  - (* present sub-message *)
    destruct t as [| |T| | | |]; try (cbn [wf_field] in Hwf; discriminate).
    rewrite wf_field_msg in Hwf. destruct (find_msg T sch) as [[fds r]|] eqn:Hfind; [|discriminate].
    apply andb_prop in Hwf. destruct Hwf as [Hwfs Hsz]. apply N.ltb_lt in Hsz.
    destruct (Hfuel T eq_refl) as [fds' [r' [Hf' Hr']]]. rewrite Hfind in Hf'. inversion Hf'; subst fds' r'. clear Hf'.
    destruct fuel as [|fu]; [lia|].
    destruct (msg_rt fds r fu (find_msg_desc_ok T fds r Hfind) ltac:(lia) fs Hwfs IH) as [Hww Hdec].
    rewrite enc_field_msg. unfold fields_of. rewrite Hfind. cbn [map snd].
    rewrite (dec_field_msg_single _ T _ fds r Hfind). split; [exact Hdec|].
    apply wf_single; [exact Hnum|]. cbn [wf_wval]. apply N.ltb_lt. rewrite size_fields_is_length. exact Hsz.
  - (* repeated string *)
    destruct t; cbn [wf_field] in Hwf; try discriminate. cbn [enc_field dec_field]. rewrite map_map. cbn [snd].
    rewrite <- (map_map bytes_of_string WBytes), all_bytes_map_bytes. cbn [option_map]. rewrite map_map.
    split.
    + f_equal. f_equal. rewrite <- (map_id l) at 2. apply map_ext. intros s. apply string_bytes_roundtrip.
    + unfold wf_wire. rewrite forallb_forall. intros w Hw. apply in_map_iff in Hw. destruct Hw as [s [<- Hs]].
      rewrite forallb_forall in Hwf. specialize (Hwf s Hs).
      apply wf_wfield_intro; [exact Hnum|]. cbn [wf_wval]. rewrite bytes_of_string_length. exact Hwf.
  - (* repeated message *)
    destruct t as [| | | |T| |]; try (cbn [wf_field] in Hwf; discriminate). cbn [wf_field] in Hwf.
    destruct (Hfuel T eq_refl) as [fds [r [Hfind Hr]]].
    cbn [enc_field dec_field]. rewrite Hfind.
    assert (Hl : exists bs, map snd (flat_map (enc_field sch num (TMsg T)) l) = map WBytes bs
                 /\ map_opt (dec_msg sch fuel fds) bs = Some l
                 /\ wf_wire (flat_map (enc_field sch num (TMsg T)) l) = true).
    { clear Hfuel. induction IH as [|m l Hm _ IHl].
      - exists []. repeat split.
      - cbn [forallb] in Hwf. apply andb_prop in Hwf. destruct Hwf as [Hwm Hwl].
        destruct (IHl Hwl) as [bs [E1 [E2 E3]]].
        destruct m as [| | |fs| | |]; try discriminate.
        assert (Hfo : fuel_ok (TMsg T) fuel).
        { intros T' HT'. inversion HT'; subst T'. exists fds, r. split; assumption. }
        destruct (Hm num (TMsg T) fuel Hnum Hwm Hfo) as [Hd Hw].
        rewrite enc_field_msg in Hd, Hw. cbn [map snd] in Hd. rewrite (dec_field_msg_single _ T _ fds r Hfind) in Hd.
        exists (enc_wire (enc_fields sch (fields_of sch T) fs) :: bs).
        cbn [flat_map]. rewrite enc_field_msg. cbn [app map snd]. rewrite E1. split; [reflexivity|]. split.
        + cbn [map_opt]. rewrite Hd, E2. reflexivity.
        + change ((num, WBytes (enc_wire (enc_fields sch (fields_of sch T) fs))) :: flat_map (enc_field sch num (TMsg T)) l)
            with ([(num, WBytes (enc_wire (enc_fields sch (fields_of sch T) fs)))] ++ flat_map (enc_field sch num (TMsg T)) l).
          rewrite wf_wire_app, Hw, E3. reflexivity. }
    destruct Hl as [bs [E1 [E2 E3]]]. rewrite E1, all_bytes_map_bytes, E2. split; [reflexivity| exact E3].
  - (* map *)
    destruct t; cbn [wf_field] in Hwf; try discriminate. apply andb_prop in Hwf. destruct Hwf as [Hnd Hsz].
    cbn [enc_field dec_field]. rewrite map_map. cbn [snd].
    rewrite <- (map_map (fun e => enc_wire (map_entry_wire e)) WBytes), all_bytes_map_bytes.
    assert (Hent : forall e, In e l -> dec_map_entry (enc_wire (map_entry_wire e)) = Some e
                                     /\ blen (enc_wire (map_entry_wire e)) < two64).
    { intros [k v] He. rewrite forallb_forall in Hsz. specialize (Hsz _ He). cbn [fst snd] in Hsz.
      apply andb_prop in Hsz. destruct Hsz as [Hsz H3]. apply andb_prop in Hsz. destruct Hsz as [H1 H2].
      split; [|rewrite map_entry_length; apply N.ltb_lt; exact H3].
      unfold dec_map_entry. rewrite wire_roundtrip.
      - unfold map_entry_wire. cbn [fst snd occs filter map N.eqb Pos.eqb all_bytes option_map last].
        rewrite !string_bytes_roundtrip. reflexivity.
      - unfold map_entry_wire, wf_wire, wf_wfield. cbn [forallb fst snd wf_wval].
        rewrite !bytes_of_string_length. cbn [fst snd]. rewrite H1, H2. reflexivity. }
    rewrite (map_opt_map_id dec_map_entry (fun e => enc_wire (map_entry_wire e)) l) by (intros e He; apply Hent; exact He).
    cbn [option_map]. rewrite fold_map_insert; [|exact Hnd| intros e a _ []]. cbn [app]. split; [reflexivity|].
    unfold wf_wire. rewrite forallb_forall. intros w Hw. apply in_map_iff in Hw. destruct Hw as [e [<- He]].
    apply wf_wfield_intro; [exact Hnum|]. cbn [wf_wval]. apply N.ltb_lt. apply Hent. exact He.
Qed.

(* decode (encode v) = v for every message of a well-formed schema and every well-formed value *)
Theorem decode_encode name v : wf_value sch name v = true -> decode sch name (encode sch name v) = Some v.
Proof.
  unfold wf_value, decode, encode. destruct (find_msg name sch) as [[fds r]|] eqn:Hfind; [|discriminate].
  destruct v as [| | |fs| | |]; try discriminate. intros Hwf.
  apply (msg_rt fds r r (find_msg_desc_ok name fds r Hfind) (le_n r) fs Hwf).
  apply Forall_forall. intros x _. apply field_ok_all.
Qed.

End RoundTrip.

(* negative int32 / int64 / enum values travel as the 10-byte varint of their 64-bit two's complement *)
Lemma sov_top n : two63 <= n < two64 -> sov n = 10.
Proof.
  intros [H1 H2]. unfold sov. rewrite size_lor1 by (unfold two63 in H1; lia).
  rewrite (N.log2_unique n 63); [reflexivity| lia|]. unfold two63, two64 in *. split.
  - change (2 ^ 63) with 9223372036854775808. exact H1.
  - change (2 ^ N.succ 63) with 18446744073709551616. exact H2.
Qed.

Lemma negative_varint_ten_bytes k z : in_range k z = true -> (z < 0)%Z ->
  blen (enc_varint (to_u64 z)) = 10 /\ of_u64 k (to_u64 z) = z.
Proof.
  intros Hr Hz. split; [|apply of_to_u64; exact Hr].
  rewrite sov_is_length. apply sov_top.
  assert (Hlo : (-9223372036854775808 <= z)%Z).
  { destruct k; cbn [in_range] in Hr; apply andb_prop in Hr; destruct Hr as [H1 H2];
      apply Z.leb_le in H1; lia. }
  rewrite to_u64_neg by lia. unfold two63, two64. lia.
Qed.

Section Inj.
Variable sch : schema_t.
Hypothesis Hsch : schema_wf sch = true.
(* different well-formed messages have different encodings (in particular an unset optional
   sub-message and one set to zero / empty are distinguishable on the wire) *)
Lemma encode_injective name v1 v2 :
  wf_value sch name v1 = true -> wf_value sch name v2 = true ->
  encode sch name v1 = encode sch name v2 -> v1 = v2.
Proof.
  intros H1 H2 E. pose proof (decode_encode sch Hsch name v1 H1) as D1.
  pose proof (decode_encode sch Hsch name v2 H2) as D2. rewrite E in D1. congruence.
Qed.
End Inj.

(* ------------------------------------------------------------------ the regenerated NRI schema *)

Lemma nri_schema_wf : schema_wf schema = true.
Proof. vm_compute. reflexivity. Qed.

(* every top-level message of api.proto is in the schema, and nothing was left untranslated *)
Lemma nri_schema_complete :
  forallb (fun n => match find_msg n schema with Some _ => true | None => false end) schema_messages = true
  /\ N.of_nat (length schema) = schema_message_count
  /\ N.of_nat (length schema_messages) = schema_message_count
  /\ schema_untranslated_nested = 0.
Proof. vm_compute. repeat split; reflexivity. Qed.

Lemma nri_size_is_length name v : size schema name v = blen (encode schema name v).
Proof. apply size_is_length. Qed.

Lemma nri_decode_encode name v :
  wf_value schema name v = true -> decode schema name (encode schema name v) = Some v.
Proof. apply decode_encode. exact nri_schema_wf. Qed.

Lemma nri_encode_injective name v1 v2 :
  wf_value schema name v1 = true -> wf_value schema name v2 = true ->
  encode schema name v1 = encode schema name v2 -> v1 = v2.
Proof. apply encode_injective. exact nri_schema_wf. Qed.
