// h_dispatch drives the event dispatch of the real runtime adaptation
// (pkg/adaptation) for properties C06 (events), C07 (faults) and C19 (updates).
package main

import (
	"context"
	"errors"
	"fmt"
	"io"
	"net"
	"os"
	"path/filepath"
	"sort"
	"strings"
	"sync"
	"sync/atomic"
	"time"

	"github.com/containerd/nri/pkg/adaptation"
	"github.com/containerd/nri/pkg/api"
	nrilog "github.com/containerd/nri/pkg/log"
	"github.com/containerd/nri/pkg/net/multiplex"
	"github.com/containerd/nri/pkg/stub"
	"github.com/containerd/ttrpc"
	"github.com/sirupsen/logrus"
	"google.golang.org/grpc/codes"
	"google.golang.org/grpc/status"
)

// ---------------------------------------------------------------- logging

type nullLogger struct{}

func (nullLogger) Debugf(context.Context, string, ...interface{}) {}
func (nullLogger) Infof(context.Context, string, ...interface{})  {}
func (nullLogger) Warnf(context.Context, string, ...interface{})  {}
func (nullLogger) Errorf(context.Context, string, ...interface{}) {}

func quiet() {
	nrilog.Set(nullLogger{})
	logrus.SetOutput(io.Discard)
	logrus.SetLevel(logrus.PanicLevel)
}

// ---------------------------------------------------------------- events

// the thirteen lifecycle events in enum order
var allEvents = []api.Event{
	api.Event_RUN_POD_SANDBOX, api.Event_STOP_POD_SANDBOX, api.Event_REMOVE_POD_SANDBOX,
	api.Event_CREATE_CONTAINER, api.Event_POST_CREATE_CONTAINER, api.Event_START_CONTAINER,
	api.Event_POST_START_CONTAINER, api.Event_UPDATE_CONTAINER, api.Event_POST_UPDATE_CONTAINER,
	api.Event_STOP_CONTAINER, api.Event_REMOVE_CONTAINER, api.Event_UPDATE_POD_SANDBOX,
	api.Event_POST_UPDATE_POD_SANDBOX,
}

func isPodEvent(e api.Event) bool {
	switch e {
	case api.Event_RUN_POD_SANDBOX, api.Event_STOP_POD_SANDBOX, api.Event_REMOVE_POD_SANDBOX,
		api.Event_UPDATE_POD_SANDBOX, api.Event_POST_UPDATE_POD_SANDBOX:
		return true
	}
	return false
}

// ---------------------------------------------------------------- runtime side

// env is one real Adaptation listening on a unix socket in a scratch directory.
type env struct {
	dir  string
	sock string
	ad   *adaptation.Adaptation

	seq atomic.Int64 // global sequence counter shared by all in-process plugins

	umu      sync.Mutex
	updateFn adaptation.UpdateFn

	handlersActive atomic.Int32 // plugin handlers currently running (all plugins of this env)

	cmu   sync.Mutex
	calls []callErr // errors returned by the runtime's ttrpc client for calls to plugins
}

// callErr is what the adaptation's relay code was handed by ttrpc for one call.
type callErr struct {
	Method string `json:"method"`
	Class  string `json:"class"`
	Err    string `json:"err"`
}

// errClass names an error the way isFatalError's table and Dispatch.v do.
func errClass(err error) string {
	switch {
	case errors.Is(err, ttrpc.ErrClosed):
		return "ttrpc.ErrClosed"
	case errors.Is(err, ttrpc.ErrServerClosed):
		return "ttrpc.ErrServerClosed"
	case errors.Is(err, ttrpc.ErrProtocol):
		return "ttrpc.ErrProtocol"
	case errors.Is(err, context.DeadlineExceeded):
		return "context.DeadlineExceeded"
	case errors.Is(err, io.ErrUnexpectedEOF):
		return "io.ErrUnexpectedEOF"
	}
	if st, ok := status.FromError(err); ok {
		return "codes." + st.Code().String()
	}
	return "other"
}

// intercept is a ttrpc client interceptor installed through the public
// WithTTRPCOptions option: it sees every call the adaptation makes to a plugin
// and records the ones that fail, either with an error of the transport or
// with a status the plugin's ttrpc server sent instead of a response.
func (e *env) intercept(ctx context.Context, req *ttrpc.Request, rpl *ttrpc.Response, info *ttrpc.UnaryClientInfo, inv ttrpc.Invoker) error {
	err := inv(ctx, req, rpl)
	switch {
	case err != nil:
		e.cmu.Lock()
		e.calls = append(e.calls, callErr{Method: req.Method, Class: errClass(err), Err: err.Error()})
		e.cmu.Unlock()
	case rpl.Status != nil && rpl.Status.Code != 0:
		e.cmu.Lock()
		e.calls = append(e.calls, callErr{Method: req.Method, Class: "codes." + codes.Code(rpl.Status.Code).String(), Err: rpl.Status.Message})
		e.cmu.Unlock()
	}
	return err
}

// takeCallErrs returns and clears the recorded call errors.
func (e *env) takeCallErrs() []callErr {
	e.cmu.Lock()
	defer e.cmu.Unlock()
	c := e.calls
	e.calls = nil
	return c
}

func (e *env) next() int64 { return e.seq.Add(1) }

func newEnv(parent string) (*env, error) {
	dir, err := os.MkdirTemp(parent, "rt")
	if err != nil {
		return nil, err
	}
	e := &env{dir: dir, sock: filepath.Join(dir, "nri.sock")}
	empty := filepath.Join(dir, "plugins")
	if err := os.MkdirAll(empty, 0o755); err != nil {
		return nil, err
	}
	syncFn := func(ctx context.Context, cb adaptation.SyncCB) error {
		_, err := cb(ctx, nil, nil)
		return err
	}
	updateFn := func(ctx context.Context, us []*adaptation.ContainerUpdate) ([]*adaptation.ContainerUpdate, error) {
		e.umu.Lock()
		f := e.updateFn
		e.umu.Unlock()
		if f == nil {
			return nil, nil
		}
		return f(ctx, us)
	}
	ad, err := adaptation.New("verif-runtime", "0.0", syncFn, updateFn,
		adaptation.WithSocketPath(e.sock),
		adaptation.WithPluginPath(empty),
		adaptation.WithPluginConfigPath(filepath.Join(dir, "conf.d")),
		adaptation.WithTTRPCOptions([]ttrpc.ClientOpts{ttrpc.WithUnaryClientInterceptor(e.intercept)}, nil))
	if err != nil {
		return nil, err
	}
	if err := ad.Start(); err != nil {
		return nil, err
	}
	e.ad = ad
	return e, nil
}

func (e *env) setUpdateFn(f adaptation.UpdateFn) {
	e.umu.Lock()
	e.updateFn = f
	e.umu.Unlock()
}

func (e *env) close() {
	if e.ad != nil {
		e.ad.Stop()
	}
	os.RemoveAll(e.dir)
}

// barrier returns once every registration whose Synchronize call has been seen
// is complete: plugin synchronisation holds the adaptation's sync lock for
// writing from before Synchronize until after the plugin was added to the list.
func (e *env) barrier() {
	b := e.ad.BlockPluginSync()
	b.Unblock()
}

// wedgeWait is how long a driver waits for a request of the real Adaptation before it records the run
// as stalled: 20 s is a hundred request time-outs of the fault driver and >= 10 x the longest legitimate wait
const wedgeWait = 20 * time.Second

// fireWithin issues the request and waits at most d for it; false = still blocked (the goroutine is abandoned).
func (e *env) fireWithin(rq request, d time.Duration) (reqResult, bool) {
	done := make(chan reqResult, 1)
	go func() { done <- e.fire(rq) }()
	select {
	case r := <-done:
		return r, true
	case <-time.After(d):
		return reqResult{Err: fmt.Sprintf("the request had not returned after %v: the adaptation is blocked", d), Nil: true, Dur: d}, false
	}
}

// closeWithin stops the adaptation and removes its scratch directory, but never waits longer than d
// (Stop takes the adaptation lock; a wedged adaptation would hang the driver).
func (e *env) closeWithin(d time.Duration) {
	done := make(chan struct{})
	go func() {
		e.close()
		close(done)
	}()
	select {
	case <-done:
	case <-time.After(d):
	}
}

// waitProgress waits for done; it gives up (false) when the progress counter has not moved for quiet.
func waitProgress(done <-chan struct{}, progress *atomic.Int64, quiet time.Duration) bool {
	last, since := progress.Load(), time.Now()
	tick := time.NewTicker(200 * time.Millisecond)
	defer tick.Stop()
	for {
		select {
		case <-done:
			return true
		case <-tick.C:
			if v := progress.Load(); v != last {
				last, since = v, time.Now()
			} else if time.Since(since) > quiet {
				return false
			}
		}
	}
}

// groupWithin waits for the wait group, at most d.
func groupWithin(wg *sync.WaitGroup, d time.Duration) bool {
	done := make(chan struct{})
	go func() {
		wg.Wait()
		close(done)
	}()
	select {
	case <-done:
		return true
	case <-time.After(d):
		return false
	}
}

// barrierWithin is barrier with a bound: false when the sync lock could not be taken in time.
func (e *env) barrierWithin(d time.Duration) bool {
	done := make(chan struct{})
	go func() {
		e.barrier()
		close(done)
	}()
	select {
	case <-done:
		return true
	case <-time.After(d):
		return false
	}
}

// waitSynced waits until each plugin has seen its Synchronize call, then for the
// end of the registrations in flight.
func (e *env) waitSynced(timeout time.Duration, ps ...*plug) error {
	deadline := time.After(timeout)
	for _, p := range ps {
		select {
		case <-p.synced:
		case <-deadline:
			return fmt.Errorf("plugin %s was not synchronized within %v", p.name, timeout)
		}
	}
	if !e.barrierWithin(timeout) {
		return fmt.Errorf("the plugin synchronisation lock could not be taken within %v", timeout)
	}
	return nil
}

// request descriptors -------------------------------------------------------

type request struct {
	Ev  api.Event
	Pod string
	Ctr string // "" for pod events
	Big int    // KiB of annotation carried by the container (pod for pod events)
}

func (r request) id() string {
	if r.Ctr != "" {
		return r.Ctr
	}
	return r.Pod
}

// outcome of one runtime request as seen by its caller
type reqResult struct {
	Err     string   // "" = no error
	Tokens  []string // contribution tokens found in the response, sorted
	Nil     bool     // response was nil
	Foreign bool     // the response mentions an id that is not the caller's own
	Dur     time.Duration
}

func mkPod(id string) *api.PodSandbox {
	return &api.PodSandbox{Id: id, Name: "pod-" + id, Uid: "uid-" + id, Namespace: "ns"}
}

func mkCtr(pod, id string) *api.Container {
	return &api.Container{Id: id, PodSandboxId: pod, Name: "ctr-" + id, State: api.ContainerState_CONTAINER_CREATED}
}

// fire issues one of the thirteen runtime entry points on the real adaptation
// and projects the response to the contribution tokens the plugins put in it.
func (e *env) fire(rq request) reqResult {
	ctx := context.Background()
	pod := mkPod(rq.Pod)
	var ctr *api.Container
	if rq.Ctr != "" {
		ctr = mkCtr(rq.Pod, rq.Ctr)
	}
	if rq.Big > 0 {
		big := map[string]string{"big": strings.Repeat("x", rq.Big*1024)}
		if ctr != nil {
			ctr.Annotations = big
		} else {
			pod.Annotations = big
		}
	}
	var res reqResult
	t0 := time.Now()
	var err error
	evt := &api.StateChangeEvent{Pod: pod, Container: ctr}
	switch rq.Ev {
	case api.Event_RUN_POD_SANDBOX:
		err = e.ad.RunPodSandbox(ctx, evt)
	case api.Event_STOP_POD_SANDBOX:
		err = e.ad.StopPodSandbox(ctx, evt)
	case api.Event_REMOVE_POD_SANDBOX:
		err = e.ad.RemovePodSandbox(ctx, evt)
	case api.Event_POST_UPDATE_POD_SANDBOX:
		err = e.ad.PostUpdatePodSandbox(ctx, evt)
	case api.Event_POST_CREATE_CONTAINER:
		err = e.ad.PostCreateContainer(ctx, evt)
	case api.Event_START_CONTAINER:
		err = e.ad.StartContainer(ctx, evt)
	case api.Event_POST_START_CONTAINER:
		err = e.ad.PostStartContainer(ctx, evt)
	case api.Event_POST_UPDATE_CONTAINER:
		err = e.ad.PostUpdateContainer(ctx, evt)
	case api.Event_REMOVE_CONTAINER:
		err = e.ad.RemoveContainer(ctx, evt)
	case api.Event_UPDATE_POD_SANDBOX:
		var rpl *api.UpdatePodSandboxResponse
		rpl, err = e.ad.UpdatePodSandbox(ctx, &api.UpdatePodSandboxRequest{Pod: pod})
		res.Nil = rpl == nil
	case api.Event_CREATE_CONTAINER:
		var rpl *api.CreateContainerResponse
		rpl, err = e.ad.CreateContainer(ctx, &api.CreateContainerRequest{Pod: pod, Container: ctr})
		res.Nil = rpl == nil
		if rpl != nil {
			for k, v := range rpl.GetAdjust().GetAnnotations() {
				if strings.HasPrefix(k, "tok/") {
					res.Tokens = append(res.Tokens, strings.TrimPrefix(k, "tok/"))
					if v != rq.Ctr {
						res.Foreign = true
					}
				}
			}
			res.Tokens, res.Foreign = updTokens(rpl.Update, rq.Ctr, res.Tokens, res.Foreign)
		}
	case api.Event_UPDATE_CONTAINER:
		var rpl *api.UpdateContainerResponse
		rpl, err = e.ad.UpdateContainer(ctx, &api.UpdateContainerRequest{Pod: pod, Container: ctr,
			LinuxResources: &api.LinuxResources{Cpu: &api.LinuxCPU{Shares: api.UInt64(uint64(512))}}})
		res.Nil = rpl == nil
		if rpl != nil {
			res.Tokens, res.Foreign = updTokens(rpl.Update, rq.Ctr, res.Tokens, res.Foreign)
		}
	case api.Event_STOP_CONTAINER:
		var rpl *api.StopContainerResponse
		rpl, err = e.ad.StopContainer(ctx, &api.StopContainerRequest{Pod: pod, Container: ctr})
		res.Nil = rpl == nil
		if rpl != nil {
			res.Tokens, res.Foreign = updTokens(rpl.Update, rq.Ctr, res.Tokens, res.Foreign)
		}
	default:
		err = fmt.Errorf("harness: unknown event %v", rq.Ev)
	}
	res.Dur = time.Since(t0)
	if err != nil {
		res.Err = err.Error()
	}
	sort.Strings(res.Tokens)
	return res
}

// plugins contribute updates of third-party containers named "<own ctr>~<token>"
func updTokens(us []*api.ContainerUpdate, own string, toks []string, foreign bool) ([]string, bool) {
	for _, u := range us {
		if u == nil { // UpdateContainer appends the (possibly untouched) updated container last
			continue
		}
		if u.ContainerId == own {
			continue
		}
		i := strings.Index(u.ContainerId, "~")
		if i < 0 || u.ContainerId[:i] != own {
			foreign = true
			continue
		}
		toks = append(toks, u.ContainerId[i+1:])
	}
	return toks, foreign
}

// ---------------------------------------------------------------- plugin side

// what a plugin does when a request reaches its handler
type action struct {
	Err     error         // returned by the handler (veto)
	Sleep   time.Duration // before returning
	Before  func()        // run at handler entry (after recording)
	NoToken bool          // contribute nothing
	WaitCtx bool          // block until the handler's context is done, then return its error
}

// one recorded handler invocation
type invocation struct {
	Seq, End int64 // global sequence numbers at entry and exit
	Ev       api.Event
	Pod, Ctr string
}

// plug is the logic of an instrumented plugin; it is served either through the
// real stub (startStub) or through a hand-made mux+ttrpc session (startRaw).
type plug struct {
	e     *env
	idx   string
	base  string
	name  string        // idx-base
	mask  api.EventMask // returned from Configure
	token string        // contribution token (base)

	synced   chan struct{}
	syncOnce sync.Once

	onConfigure func() // stub-based plugins: run inside the Configure handler (the plugin is registered, Start has not returned)

	syncFail     string        // raw sessions: "" | error | hang | disconnect — how Synchronize fails
	syncSeen     chan struct{} // closed when Synchronize is first called
	syncSeenOnce sync.Once

	mu     sync.Mutex
	trace  []invocation
	decide func(rq request) action

	closed    chan struct{} // closed when the session's connection is reported closed
	closeOnce sync.Once

	st  stub.Stub
	raw *rawSession
}

func newPlug(e *env, idx, base string, mask api.EventMask) *plug {
	return &plug{e: e, idx: idx, base: base, name: idx + "-" + base, mask: mask, token: base,
		synced: make(chan struct{}), closed: make(chan struct{}), syncSeen: make(chan struct{})}
}

func (p *plug) setDecide(f func(rq request) action) {
	p.mu.Lock()
	p.decide = f
	p.mu.Unlock()
}

func (p *plug) invocations() []invocation {
	p.mu.Lock()
	defer p.mu.Unlock()
	return append([]invocation(nil), p.trace...)
}

func (p *plug) count() int {
	p.mu.Lock()
	defer p.mu.Unlock()
	return len(p.trace)
}

func (p *plug) onClose() { p.closeOnce.Do(func() { close(p.closed) }) }

// handle records the invocation and performs the scripted action.
func (p *plug) handle(ctx context.Context, ev api.Event, pod *api.PodSandbox, ctr *api.Container) (bool, error) {
	rq := request{Ev: ev, Pod: pod.GetId(), Ctr: ctr.GetId()}
	p.e.handlersActive.Add(1)
	seq := p.e.next()
	p.mu.Lock()
	i := len(p.trace)
	p.trace = append(p.trace, invocation{Seq: seq, Ev: ev, Pod: rq.Pod, Ctr: rq.Ctr})
	d := p.decide
	p.mu.Unlock()
	var a action
	if d != nil {
		a = d(rq)
	}
	if a.Before != nil {
		a.Before()
	}
	if a.Sleep > 0 {
		time.Sleep(a.Sleep)
	}
	if a.WaitCtx {
		select {
		case <-ctx.Done():
			a.Err = ctx.Err()
		case <-time.After(30 * time.Second):
			a.Err = fmt.Errorf("harness: handler context never expired")
		}
	}
	end := p.e.next()
	p.mu.Lock()
	p.trace[i].End = end
	p.mu.Unlock()
	p.e.handlersActive.Add(-1)
	return !a.NoToken, a.Err
}

func (p *plug) tokenUpdate(ctr *api.Container) []*api.ContainerUpdate {
	return []*api.ContainerUpdate{{ContainerId: ctr.GetId() + "~" + p.token,
		Linux: &api.LinuxContainerUpdate{Resources: &api.LinuxResources{Cpu: &api.LinuxCPU{Shares: api.UInt64(uint64(100))}}}}}
}

// --- api.PluginService (raw sessions use it directly; the stub adapter calls the same code)

func (p *plug) Configure(context.Context, *api.ConfigureRequest) (*api.ConfigureResponse, error) {
	return &api.ConfigureResponse{Events: int32(p.mask)}, nil
}

func (p *plug) Synchronize(_ context.Context, req *api.SynchronizeRequest) (*api.SynchronizeResponse, error) {
	p.syncSeenOnce.Do(func() { close(p.syncSeen) })
	switch p.syncFail {
	case "error":
		return nil, errors.New("synchronization refused by the plugin")
	case "hang":
		time.Sleep(faultT * 5 / 2)
		return &api.SynchronizeResponse{More: req.More}, nil
	case "disconnect":
		if p.raw != nil {
			p.raw.kill()
		}
		return nil, errors.New("gone")
	}
	if !req.More {
		p.syncOnce.Do(func() { close(p.synced) })
	}
	return &api.SynchronizeResponse{More: req.More}, nil
}

func (p *plug) Shutdown(context.Context, *api.Empty) (*api.Empty, error) { return &api.Empty{}, nil }

func (p *plug) CreateContainer(ctx context.Context, req *api.CreateContainerRequest) (*api.CreateContainerResponse, error) {
	tok, err := p.handle(ctx, api.Event_CREATE_CONTAINER, req.Pod, req.Container)
	if err != nil {
		return nil, err
	}
	rpl := &api.CreateContainerResponse{}
	if tok {
		rpl.Adjust = &api.ContainerAdjustment{Annotations: map[string]string{"tok/" + p.token: req.Container.GetId()}}
	}
	return rpl, nil
}

func (p *plug) UpdateContainer(ctx context.Context, req *api.UpdateContainerRequest) (*api.UpdateContainerResponse, error) {
	tok, err := p.handle(ctx, api.Event_UPDATE_CONTAINER, req.Pod, req.Container)
	if err != nil {
		return nil, err
	}
	rpl := &api.UpdateContainerResponse{}
	if tok {
		rpl.Update = p.tokenUpdate(req.Container)
	}
	return rpl, nil
}

func (p *plug) StopContainer(ctx context.Context, req *api.StopContainerRequest) (*api.StopContainerResponse, error) {
	tok, err := p.handle(ctx, api.Event_STOP_CONTAINER, req.Pod, req.Container)
	if err != nil {
		return nil, err
	}
	rpl := &api.StopContainerResponse{}
	if tok {
		rpl.Update = p.tokenUpdate(req.Container)
	}
	return rpl, nil
}

func (p *plug) UpdatePodSandbox(ctx context.Context, req *api.UpdatePodSandboxRequest) (*api.UpdatePodSandboxResponse, error) {
	_, err := p.handle(ctx, api.Event_UPDATE_POD_SANDBOX, req.Pod, nil)
	if err != nil {
		return nil, err
	}
	return &api.UpdatePodSandboxResponse{}, nil
}

func (p *plug) StateChange(ctx context.Context, evt *api.StateChangeEvent) (*api.Empty, error) {
	_, err := p.handle(ctx, evt.Event, evt.Pod, evt.Container)
	if err != nil {
		return nil, err
	}
	return &api.Empty{}, nil
}

// --- adapter implementing every handler interface of pkg/stub

type stubAdapter struct{ p *plug }

func (a stubAdapter) Configure(context.Context, string, string, string) (api.EventMask, error) {
	if a.p.onConfigure != nil {
		a.p.onConfigure()
	}
	return a.p.mask, nil
}
func (a stubAdapter) Synchronize(context.Context, []*api.PodSandbox, []*api.Container) ([]*api.ContainerUpdate, error) {
	a.p.syncOnce.Do(func() { close(a.p.synced) })
	return nil, nil
}
func (a stubAdapter) ev(ctx context.Context, e api.Event, pod *api.PodSandbox, ctr *api.Container) error {
	_, err := a.p.handle(ctx, e, pod, ctr)
	return err
}
func (a stubAdapter) RunPodSandbox(ctx context.Context, pod *api.PodSandbox) error {
	return a.ev(ctx, api.Event_RUN_POD_SANDBOX, pod, nil)
}
func (a stubAdapter) UpdatePodSandbox(ctx context.Context, pod *api.PodSandbox, _, _ *api.LinuxResources) error {
	return a.ev(ctx, api.Event_UPDATE_POD_SANDBOX, pod, nil)
}
func (a stubAdapter) PostUpdatePodSandbox(ctx context.Context, pod *api.PodSandbox) error {
	return a.ev(ctx, api.Event_POST_UPDATE_POD_SANDBOX, pod, nil)
}
func (a stubAdapter) StopPodSandbox(ctx context.Context, pod *api.PodSandbox) error {
	return a.ev(ctx, api.Event_STOP_POD_SANDBOX, pod, nil)
}
func (a stubAdapter) RemovePodSandbox(ctx context.Context, pod *api.PodSandbox) error {
	return a.ev(ctx, api.Event_REMOVE_POD_SANDBOX, pod, nil)
}
func (a stubAdapter) CreateContainer(ctx context.Context, pod *api.PodSandbox, ctr *api.Container) (*api.ContainerAdjustment, []*api.ContainerUpdate, error) {
	rpl, err := a.p.CreateContainer(ctx, &api.CreateContainerRequest{Pod: pod, Container: ctr})
	if err != nil {
		return nil, nil, err
	}
	return rpl.Adjust, rpl.Update, nil
}
func (a stubAdapter) PostCreateContainer(ctx context.Context, pod *api.PodSandbox, ctr *api.Container) error {
	return a.ev(ctx, api.Event_POST_CREATE_CONTAINER, pod, ctr)
}
func (a stubAdapter) StartContainer(ctx context.Context, pod *api.PodSandbox, ctr *api.Container) error {
	return a.ev(ctx, api.Event_START_CONTAINER, pod, ctr)
}
func (a stubAdapter) PostStartContainer(ctx context.Context, pod *api.PodSandbox, ctr *api.Container) error {
	return a.ev(ctx, api.Event_POST_START_CONTAINER, pod, ctr)
}
func (a stubAdapter) UpdateContainer(ctx context.Context, pod *api.PodSandbox, ctr *api.Container, r *api.LinuxResources) ([]*api.ContainerUpdate, error) {
	rpl, err := a.p.UpdateContainer(ctx, &api.UpdateContainerRequest{Pod: pod, Container: ctr, LinuxResources: r})
	if err != nil {
		return nil, err
	}
	return rpl.Update, nil
}
func (a stubAdapter) PostUpdateContainer(ctx context.Context, pod *api.PodSandbox, ctr *api.Container) error {
	return a.ev(ctx, api.Event_POST_UPDATE_CONTAINER, pod, ctr)
}
func (a stubAdapter) StopContainer(ctx context.Context, pod *api.PodSandbox, ctr *api.Container) ([]*api.ContainerUpdate, error) {
	rpl, err := a.p.StopContainer(ctx, &api.StopContainerRequest{Pod: pod, Container: ctr})
	if err != nil {
		return nil, err
	}
	return rpl.Update, nil
}
func (a stubAdapter) RemoveContainer(ctx context.Context, pod *api.PodSandbox, ctr *api.Container) error {
	return a.ev(ctx, api.Event_REMOVE_CONTAINER, pod, ctr)
}

// startStub registers the plugin through the real stub, connecting to sock
// (the adaptation's socket or a proxy in front of it).
func (p *plug) startStub(sock string) error {
	st, err := stub.New(stubAdapter{p},
		stub.WithSocketPath(sock),
		stub.WithPluginName(p.base),
		stub.WithPluginIdx(p.idx),
		stub.WithOnClose(p.onClose))
	if err != nil {
		return err
	}
	p.st = st
	return st.Start(context.Background())
}

// stop closes the plugin's session in an orderly way (stub) or abruptly (raw).
func (p *plug) stop() {
	if p.st != nil {
		p.st.Stop()
	}
	if p.raw != nil {
		p.raw.kill()
	}
}

// ---------------------------------------------------------------- raw sessions

// rawSession mirrors stub.Start's connect/register sequence with the real
// multiplexer and ttrpc, but leaves every protocol decision to the harness:
// the event mask goes out exactly as given (0, invalid bits), and the trunk can
// be closed at any moment.
type rawSession struct {
	trunk net.Conn
	mux   multiplex.Mux
	srv   *ttrpc.Server
	cli   *ttrpc.Client
	rt    api.RuntimeService
	once  sync.Once
}

func (p *plug) startRaw(sock string) error {
	conn, err := net.Dial("unix", sock)
	if err != nil {
		return err
	}
	return p.startRawConn(conn)
}

func (p *plug) startRawConn(conn net.Conn) error {
	s := &rawSession{trunk: conn}
	s.mux = multiplex.Multiplex(conn)
	l, err := s.mux.Listen(multiplex.PluginServiceConn)
	if err != nil {
		conn.Close()
		return err
	}
	s.srv, err = ttrpc.NewServer()
	if err != nil {
		conn.Close()
		return err
	}
	api.RegisterPluginService(s.srv, p)
	cc, err := s.mux.Open(multiplex.RuntimeServiceConn)
	if err != nil {
		conn.Close()
		return err
	}
	s.cli = ttrpc.NewClient(cc, ttrpc.WithOnClose(p.onClose))
	s.rt = api.NewRuntimeClient(s.cli)
	go s.srv.Serve(context.Background(), l)
	p.raw = s
	ctx, cancel := context.WithTimeout(context.Background(), 5*time.Second)
	defer cancel()
	if _, err := s.rt.RegisterPlugin(ctx, &api.RegisterPluginRequest{PluginName: p.base, PluginIdx: p.idx}); err != nil {
		s.kill()
		return fmt.Errorf("raw register: %w", err)
	}
	return nil
}

// kill closes the trunk without any ttrpc-level shutdown.
func (s *rawSession) kill() {
	s.once.Do(func() {
		s.trunk.Close()
		s.mux.Close()
		s.cli.Close()
		s.srv.Close()
	})
}

var errHarness = errors.New("harness")

// corpusFiles lists corpus/<pid>/*.json next to the build directory (committed boundary and
// historic cases, replayed before the generated ones).
func corpusFiles(pid string) []string {
	dir := filepath.Join(filepath.Dir(filepath.Dir(os.Args[0])), "corpus", pid)
	if _, err := os.Stat(dir); err != nil {
		dir = filepath.Join("/verif/corpus", pid)
	}
	fs, _ := filepath.Glob(filepath.Join(dir, "*.json"))
	sort.Strings(fs)
	return fs
}
