package main

import (
	"fmt"
	"sort"
	"strings"
	"sync"
	"time"

	"github.com/containerd/nri/pkg/api"

	"verif/harness/internal/coqfmt"
	"verif/harness/internal/hx"
)

// ---------------------------------------------------------------- C07: a plugin failing before any request
//
// Plugins 10-A and 30-C are registered; a third one, 20-B (a hand-made session),
// registers, is configured and then fails in its Synchronize call: it returns
// an error, does not answer within the request time-out, or closes its end
// there.  It must simply not become a plugin.  Afterwards — each step with a
// bounded wait, a step that is still blocked when the bound expires is the
// deadlock the property excludes:
//   1. a request issued inside BlockPluginSync()/Unblock() (what runtimes do),
//   2. the registration of a further healthy plugin 40-D,
//   3. a second request, which must reach A, C and D.

type regfailCase struct {
	Stream         string    `json:"stream"`
	N              int       `json:"n"`
	Ev             int       `json:"event"`
	Variant        string    `json:"variant"`
	Healthy        []fPlugin `json:"healthy"`
	Late           fPlugin   `json:"late"`
	Done1          bool      `json:"done1"`
	Obs1           fObs      `json:"obs1"`
	LateRegistered bool      `json:"late_registered"`
	Done2          bool      `json:"done2"`
	Obs2           fObs      `json:"obs2"`
	FailedHandled  bool      `json:"failed_handled"`
	BoundMs        int64     `json:"bound_ms"`
	Lat1Ms         int64     `json:"latency1_ms"`
}

func runRegFail(c *hx.Ctx, n int, ev api.Event, variant string) (*regfailCase, error) {
	e, err := newEnv(c.Out)
	if err != nil {
		return nil, err
	}
	// a wedged adaptation may not even stop: never wait for the clean-up
	defer e.closeWithin(2 * time.Second)
	cs := &regfailCase{Stream: "regfail", N: n, Ev: int(ev), Variant: variant,
		Healthy: []fPlugin{{ID: 1, Idx: "10", Name: "A"}, {ID: 3, Idx: "30", Name: "C"}}, Late: fPlugin{ID: 4, Idx: "40", Name: "D"},
		Obs1: fObs{Tokens: []string{}, Handled: []int{}}, Obs2: fObs{Tokens: []string{}, Handled: []int{}}}
	a := newPlug(e, "10", "A", api.ValidEvents)
	b := newPlug(e, "20", "B", api.ValidEvents)
	cc := newPlug(e, "30", "C", api.ValidEvents)
	d := newPlug(e, "40", "D", api.ValidEvents)
	plugs := []*plug{a, b, cc, d}
	defer func() {
		for _, p := range plugs {
			go p.stop()
		}
	}()
	for _, p := range []*plug{a, cc} {
		if err := p.startStub(e.sock); err != nil {
			return nil, err
		}
	}
	if err := e.waitSynced(10*time.Second, a, cc); err != nil {
		return nil, err
	}
	b.syncFail = variant
	if err := b.startRaw(e.sock); err != nil {
		return nil, fmt.Errorf("regfail: the failing plugin could not even register: %w", err)
	}
	select {
	case <-b.syncSeen:
	case <-time.After(10 * time.Second):
		return nil, fmt.Errorf("regfail: the failing plugin was never synchronised")
	}
	bound := 3*faultT + faultSlack
	cs.BoundMs = bound.Milliseconds()
	within := func(f func()) bool {
		done := make(chan struct{})
		go func() {
			f()
			close(done)
		}()
		select {
		case <-done:
			return true
		case <-time.After(bound + 300*time.Millisecond):
			return false
		}
	}
	// 1. a request inside a sync block
	var res1 reqResult
	t0 := time.Now()
	cs.Done1 = within(func() {
		blk := e.ad.BlockPluginSync()
		res1 = e.fire(mkRequest(2, ev))
		blk.Unblock()
	})
	cs.Lat1Ms = time.Since(t0).Milliseconds()
	if cs.Done1 {
		cs.Obs1 = mkObs(res1, handledIn(plugs, 2))
	}
	// 2. a late healthy registration
	cs.LateRegistered = within(func() {
		if err := d.startStub(e.sock); err != nil {
			return
		}
		<-d.synced
		e.barrier()
	})
	select {
	case <-d.synced:
	default:
		cs.LateRegistered = false
	}
	// 3. a second request
	var res2 reqResult
	cs.Done2 = within(func() {
		blk := e.ad.BlockPluginSync()
		res2 = e.fire(mkRequest(3, ev))
		blk.Unblock()
	})
	if cs.Done2 {
		cs.Obs2 = mkObs(res2, handledIn(plugs, 3))
	}
	cs.FailedHandled = b.count() > 0
	return cs, nil
}

func regfailOracle(cs *regfailCase) string {
	names := func(l ...string) string {
		if !hasResponse(cs.Ev) {
			return ""
		}
		sort.Strings(l)
		return strings.Join(l, ",")
	}
	bound := fmt.Sprintf("%d ms (3 x time-out + slack)", cs.BoundMs)
	switch {
	case !cs.Done1:
		return "after a plugin failed during its synchronisation a request inside BlockPluginSync()/Unblock() was still blocked after " + bound
	case cs.Obs1.Err != "":
		return "the request after a failed synchronisation failed: " + cs.Obs1.Err
	case strings.Join(cs.Obs1.Tokens, ",") != names("A", "C") || fmt.Sprint(cs.Obs1.Handled) != "[1 3]":
		return fmt.Sprintf("the request after a failed synchronisation invoked %v with contributions %v, expected the two healthy plugins", cs.Obs1.Handled, cs.Obs1.Tokens)
	case !cs.LateRegistered:
		return "after a plugin failed during its synchronisation a further plugin could not register within " + bound
	case !cs.Done2:
		return "the second request was still blocked after " + bound
	case cs.Obs2.Err != "":
		return "the second request failed: " + cs.Obs2.Err
	case strings.Join(cs.Obs2.Tokens, ",") != names("A", "C", "D") || fmt.Sprint(cs.Obs2.Handled) != "[1 3 4]":
		return fmt.Sprintf("the second request invoked %v with contributions %v, expected A, C and the late plugin D in index order", cs.Obs2.Handled, cs.Obs2.Tokens)
	case cs.FailedHandled:
		return "the plugin that failed its synchronisation received a request"
	}
	return ""
}

func trip(p fPlugin) string {
	return "(" + coqfmt.N(uint64(p.ID)) + ", " + coqfmt.Str(p.Idx) + ", " + coqfmt.Str(p.Name) + ")"
}

func regfailTerm(cs *regfailCase) string {
	var hs []string
	for _, p := range cs.Healthy {
		hs = append(hs, trip(p))
	}
	return fmt.Sprintf("{| rc_healthy := %s; rc_late := %s; rc_ev := %s; rc_obs := {| rf_done1 := %s; rf_obs1 := %s; rf_late_registered := %s; rf_done2 := %s; rf_obs2 := %s; rf_failed_handled := %s |} |}",
		coqfmt.List(hs), trip(cs.Late), coqfmt.Z(int64(cs.Ev)), coqfmt.Bool(cs.Done1), obsTerm(cs.Obs1),
		coqfmt.Bool(cs.LateRegistered), coqfmt.Bool(cs.Done2), obsTerm(cs.Obs2), coqfmt.Bool(cs.FailedHandled))
}

// driveRegFail is run as part of the faults driver.
func driveRegFail(c *hx.Ctx, imports string) error {
	sh := c.NewShard("regfail", imports, "regfail_case", "corr_regfail", "holds_regfail", 100)
	type spec struct {
		ev api.Event
		v  string
	}
	var specs []spec
	for i, ev := range allEvents {
		vs := []string{"error", "hang", "disconnect"}
		if c.Quick() {
			vs = vs[i%3 : i%3+1] // each entry point with one way of failing, each way four or five times
			if ev == api.Event_CREATE_CONTAINER || ev == api.Event_RUN_POD_SANDBOX {
				vs = []string{"error", "hang", "disconnect"}
			}
		}
		for _, v := range vs {
			specs = append(specs, spec{ev, v})
		}
	}
	res := make([]*regfailCase, len(specs))
	errs := make([]error, len(specs))
	var wg sync.WaitGroup
	ch := make(chan int, len(specs))
	for i := range specs {
		ch <- i
	}
	close(ch)
	for w := 0; w < 6; w++ {
		wg.Add(1)
		go func() {
			defer wg.Done()
			for i := range ch {
				res[i], errs[i] = runRegFail(c, i, specs[i].ev, specs[i].v)
			}
		}()
	}
	wg.Wait()
	for i := range specs {
		if errs[i] != nil {
			var err error
			if res[i], err = runRegFail(c, i, specs[i].ev, specs[i].v); err != nil {
				return err
			}
		}
		cs := res[i]
		why := regfailOracle(cs)
		for k := 0; k < 3 && why != "" && cs.Done1 && cs.LateRegistered && cs.Done2 && (cs.Obs1.Err != "" || cs.Obs2.Err != "" || len(cs.Obs1.Handled) < 2 || len(cs.Obs2.Handled) < 3); k++ {
			// nothing was blocked but a healthy plugin is missing or a request failed: under load a healthy
			// plugin may have run into the 200 ms time-out; the clock is never judged on one sample
			again, err := runRegFail(c, i, specs[i].ev, specs[i].v)
			if err != nil {
				return err
			}
			if w2 := regfailOracle(again); w2 == "" {
				cs, why = again, ""
			}
		}
		sh.Add(regfailTerm(cs), cs)
		if why != "" {
			c.ImplFail("regfail", why+" — the plugin's Synchronize: "+cs.Variant, cs)
		}
		c.Eval(fmt.Sprintf("regfail/%v/%s", specs[i].ev, specs[i].v), true)
		c.Count("faults.sync_failure."+cs.Variant, 1)
	}
	return nil
}
