(* Reference for C05: which updates are handed to the runtime.  One entry per
   distinct target in order of first mention; each entry is the overlay of the
   updates that were not dropped, on the runtime's requested resources for the
   container being updated and on nothing otherwise; that container's entry
   comes last (None when no plugin mentioned it).  Written per target, unlike
   the in-place accumulation of Model/Result.v. *)
From Coq Require Import String Ascii List Bool ZArith.
From NRI Require Import Base.Strs Base.Assoc Model.Types Spec.Apply Spec.AbsLedger.
Import ListNotations.
Open Scope string_scope.
Open Scope list_scope.

Fixpoint dedup (l : list string) (seen : list string) : list string :=
  match l with
  | [] => []
  | x :: r => if smem x seen then dedup r seen else x :: dedup r (x :: seen)
  end.

(* every update of the history with its dropped flag; adjustments are groups too, so the flags of
   abs_run are aligned with all_groups: walk both *)
Fixpoint flagged_updates (created : option string) (rps : list response) (flags : list bool) : list (update * bool) :=
  match rps with
  | [] => []
  | rp :: r =>
      let flags1 := match created, rp_adjust rp with Some _, Some _ => tl flags | _, _ => flags end in
      let n := length (rp_updates rp) in
      combine (rp_updates rp) (firstn n flags1) ++ flagged_updates created r (skipn n flags1)
  end.

Definition overlay (base : resources) (u : update * bool) : resources :=
  match u with
  | (_, true) => base                      (* dropped: contributes nothing *)
  | (upd, false) => match u_res upd with Some r => apply_res base r | None => base end
  end.

Definition entry_for (start : resources) (t : string) (us : list (update * bool)) : resources :=
  fold_left overlay (filter (fun u => String.eqb (u_id (fst u)) t) us) start.

(* some update that was not dropped carries resources for t *)
Definition changed (t : string) (us : list (update * bool)) : bool :=
  existsb (fun u => String.eqb (u_id (fst u)) t && negb (snd u) &&
                    match u_res (fst u) with Some _ => true | None => false end) us.

(* own = Some (id, requested resources) for an update request *)
Definition spec_updates (created : option string) (own : option (string * resources)) (rps : list response)
  : option (list (option (string * resources))) :=
  match abs_run (all_groups created rps) [] [] with
  | None => None
  | Some (_, flags) =>
      let us := flagged_updates created rps flags in
      let targets := dedup (map (fun u => u_id (fst u)) us) [] in
      match own with
      | None => Some (map (fun t => Some (t, entry_for res_empty t us)) targets)
      | Some (id, req) =>
          Some (map (fun t => Some (t, entry_for res_empty t us)) (filter (fun t => negb (String.eqb t id)) targets)
                ++ [if smem id targets
                    then Some (id, if changed id us then entry_for req id us else res_empty)   (* empty placeholder *)
                    else None])
      end
  end.
